package main

// gateCS: a chunks.ChunkStore + chunks.TableFileStore wrapper around the DESTINATION store of a transfer.
// It is the only instrument of the gated / fault-injecting mode; no dolt code is modified:
//   - it counts the destination-mutating calls WriteTableFile (W), AddTableFilesToManifest (A), Commit (C);
//   - a fault plan makes the k-th W, the A, or the m-th C return an injected error BEFORE the call reaches the real store
//     (= the transferring process died / lost its connection right before that call);
//   - when gating is on, A and C block at their entry until the driver releases them (gates of the two-pusher schedules).

import (
	"context"
	"errors"
	"io"
	"sync"

	"github.com/dolthub/dolt/go/store/chunks"
	"github.com/dolthub/dolt/go/store/hash"
)

var errInjected = errors.New("verif: injected interruption")

type gateMsg struct {
	kind    string
	release chan bool // true = fail the call (injected interruption)
}

type gateCS struct {
	chunks.ChunkStore
	tfs chunks.TableFileStore

	mu      sync.Mutex
	nW      int
	nA      int
	nC      int
	failW   int  // fail the failW-th WriteTableFile (1-based); 0 = never
	failA   bool // fail AddTableFilesToManifest
	failC   int  // fail the failC-th Commit (1-based); 0 = never
	fired   string
	gateA   bool
	gateC   bool
	arrive  chan *gateMsg
	casLog  []bool // results of the Commit calls that reached the store
	dead    bool   // after an injected failure every further mutating call fails too (the process is gone)
	wFiles  []string
	addSeen bool
}

func newGateCS(cs chunks.ChunkStore) (*gateCS, error) {
	tfs, ok := cs.(chunks.TableFileStore)
	if !ok {
		return nil, errors.New("destination chunk store is not a TableFileStore")
	}
	return &gateCS{ChunkStore: cs, tfs: tfs, arrive: make(chan *gateMsg, 4)}, nil
}

func (g *gateCS) wait(kind string) bool {
	m := &gateMsg{kind: kind, release: make(chan bool, 1)}
	g.arrive <- m
	return <-m.release
}

func (g *gateCS) die(what string) error {
	g.mu.Lock()
	g.dead = true
	if g.fired == "" {
		g.fired = what
	}
	g.mu.Unlock()
	return errInjected
}

func (g *gateCS) isDead() bool {
	g.mu.Lock()
	defer g.mu.Unlock()
	return g.dead
}

// ---- chunks.TableFileStore
func (g *gateCS) Sources(ctx context.Context) (chunks.TableFileSources, error) { return g.tfs.Sources(ctx) }
func (g *gateCS) Size(ctx context.Context) (uint64, error)                      { return g.tfs.Size(ctx) }
func (g *gateCS) PruneTableFiles(ctx context.Context) error                     { return g.tfs.PruneTableFiles(ctx) }
func (g *gateCS) SupportedOperations(ctx context.Context) (chunks.TableFileStoreOps, error) {
	return g.tfs.SupportedOperations(ctx)
}

func (g *gateCS) WriteTableFile(ctx context.Context, fileId string, splitOffSet uint64, numChunks int, contentHash []byte, getRd func() (io.ReadCloser, uint64, error)) (io.Closer, error) {
	g.mu.Lock()
	g.nW++
	n := g.nW
	fail := g.dead || (g.failW != 0 && n == g.failW)
	g.mu.Unlock()
	if fail {
		return nil, g.die("W")
	}
	c, err := g.tfs.WriteTableFile(ctx, fileId, splitOffSet, numChunks, contentHash, getRd)
	if err == nil {
		g.mu.Lock()
		g.wFiles = append(g.wFiles, fileId)
		g.mu.Unlock()
	}
	return c, err
}

func (g *gateCS) AddTableFilesToManifest(ctx context.Context, fileIdToNumChunks map[string]int, getAddrs chunks.InsertAddrsCurry) error {
	g.mu.Lock()
	g.nA++
	// a plan for a W that never came (the real transfer had fewer files than the plan's ordinal) fires here: the files are
	// written and not yet in the manifest, which is the same class of interruption point
	fail := g.dead || g.failA || (g.failW != 0 && g.fired == "")
	gate := g.gateA
	g.addSeen = true
	g.mu.Unlock()
	if fail {
		return g.die("A")
	}
	if gate {
		if g.wait("addfiles") {
			return g.die("A")
		}
	}
	return g.tfs.AddTableFilesToManifest(ctx, fileIdToNumChunks, getAddrs)
}

func (g *gateCS) Commit(ctx context.Context, current, last hash.Hash) (bool, error) {
	g.mu.Lock()
	g.nC++
	n := g.nC
	fail := g.dead || (g.failC != 0 && n == g.failC)
	gate := g.gateC
	g.mu.Unlock()
	if fail {
		return false, g.die("C")
	}
	if gate {
		if g.wait("cas") {
			return false, g.die("C")
		}
	}
	ok, err := g.ChunkStore.Commit(ctx, current, last)
	if err == nil {
		g.mu.Lock()
		g.casLog = append(g.casLog, ok)
		g.mu.Unlock()
	}
	return ok, err
}

// optional interfaces the code probes for
func (g *gateCS) PushConcurrencyControl() chunks.PushConcurrencyControl {
	return chunks.GetPushConcurrencyControl(g.ChunkStore)
}
