package main

// The world of one case: ONE in-process dolt SQL engine over a data directory that holds one database per client
// (created with CREATE DATABASE / dolt_clone, exactly as a sql-server's data dir), the remote "r" behind a file:// URL
// or behind an in-process remotesrv (gRPC + HTTP on a loopback port), and the binding of model commits to real hashes.
// Nothing here computes an expectation: the projection reads the real refs of every store, the closure walker reads
// real chunks; the model's projection comes from TLC in every step.

import (
	"context"
	"crypto/sha1"
	"encoding/hex"
	"fmt"
	"net"
	"net/http"
	"os"
	"path/filepath"
	"sort"
	"strings"
	"sync"

	"github.com/dolthub/go-mysql-server/sql"
	"github.com/sirupsen/logrus"

	remotesapi "github.com/dolthub/dolt/go/gen/proto/dolt/services/remotesapi/v1alpha1"
	"github.com/dolthub/dolt/go/libraries/doltcore/dbfactory"
	"github.com/dolthub/dolt/go/libraries/doltcore/doltdb"
	"github.com/dolthub/dolt/go/libraries/doltcore/env"
	"github.com/dolthub/dolt/go/libraries/doltcore/ref"
	"github.com/dolthub/dolt/go/libraries/doltcore/remotesrv"
	"github.com/dolthub/dolt/go/libraries/doltcore/sqle/dsess"
	"github.com/dolthub/dolt/go/libraries/utils/filesys"
	"github.com/dolthub/dolt/go/store/chunks"
	"github.com/dolthub/dolt/go/store/datas"
	"github.com/dolthub/dolt/go/store/hash"
	"github.com/dolthub/dolt/go/store/nbs"
	"github.com/dolthub/dolt/go/store/types"
	"github.com/dolthub/dolt/go/zz_verif/common"
	"github.com/dolthub/dolt/go/zz_verif/sqlh"
)

const fillerBase = 100000

var bg = context.Background()

type binding struct {
	Backend string // "file" | "http"
	Filler  int    // filler rows inserted with every commit (bigger trees, more chunks)
	PaySz   int    // payload bytes per row
	Tfsz    int    // Puller target file size in the gated mode; 0 = call actions.Push / FetchRefSpecs themselves
	Sweep   int    // max number of interrupted attempts one model TInterrupt(upload) is amplified to
	HTTPFlt string // "", "post1" (the first table-file upload fails once), "get1" (the first download fails once)
}

// ------------------------------------------------------------------------------------------------ http remote
type csCache struct {
	mu  sync.Mutex
	fs  filesys.Filesys
	dbs map[string]remotesrv.RemoteSrvStore
}

func (c *csCache) Get(ctx context.Context, repopath, nbfVerStr string) (remotesrv.RemoteSrvStore, error) {
	c.mu.Lock()
	defer c.mu.Unlock()
	id := filepath.FromSlash(repopath)
	if cs, ok := c.dbs[id]; ok {
		return cs, nil
	}
	if err := c.fs.MkDirs(id); err != nil {
		return nil, err
	}
	path, err := c.fs.Abs(id)
	if err != nil {
		return nil, err
	}
	cs, err := nbs.NewLocalStore(ctx, nbfVerStr, path, 1<<26, nbs.NewUnlimitedMemQuotaProvider(), false)
	if err != nil {
		return nil, err
	}
	c.dbs[id] = cs
	return cs, nil
}

type httpRemote struct {
	srv   *remotesrv.Server
	cache *csCache
	addr  string
	root  string
	mu    sync.Mutex
	nPost int
	nGet  int
	// transient fault plan of the HttpInterceptor: answer 500 to the failPost-th upload / failGet-th download, once
	failPost, failGet int
	injected          int
}

func (h *httpRemote) intercept(next http.Handler) http.Handler {
	return http.HandlerFunc(func(w http.ResponseWriter, r *http.Request) {
		h.mu.Lock()
		fail := false
		switch r.Method {
		case http.MethodPost, http.MethodPut:
			h.nPost++
			fail = h.failPost != 0 && h.nPost == h.failPost
		case http.MethodGet:
			h.nGet++
			fail = h.failGet != 0 && h.nGet == h.failGet
		}
		if fail {
			h.injected++
		}
		h.mu.Unlock()
		if fail {
			w.WriteHeader(http.StatusInternalServerError)
			return
		}
		next.ServeHTTP(w, r)
	})
}

func startHTTPRemote(root string) (*httpRemote, error) {
	fs, err := filesys.LocalFilesysWithWorkingDir(root)
	if err != nil {
		return nil, err
	}
	lg := logrus.New()
	lg.SetLevel(logrus.PanicLevel)
	var lastErr error
	for try := 0; try < 20; try++ {
		l, err := net.Listen("tcp", "127.0.0.1:0")
		if err != nil {
			return nil, err
		}
		addr := l.Addr().String()
		l.Close()
		h := &httpRemote{cache: &csCache{fs: fs, dbs: map[string]remotesrv.RemoteSrvStore{}}, addr: addr, root: root}
		srv, err := remotesrv.NewServer(remotesrv.ServerArgs{
			Logger: logrus.NewEntry(lg), HttpHost: addr, HttpListenAddr: addr, GrpcListenAddr: addr, FS: fs, DBCache: h.cache,
			ConcurrencyControl: remotesapi.PushConcurrencyControl_PUSH_CONCURRENCY_CONTROL_IGNORE_WORKING_SET,
			HttpInterceptor:    h.intercept,
		})
		if err != nil {
			return nil, err
		}
		ls, err := srv.Listeners()
		if err != nil {
			lastErr = err
			continue // the port was taken in between: try another
		}
		h.srv = srv
		go srv.Serve(ls)
		return h, nil
	}
	return nil, fmt.Errorf("no loopback port: %v", lastErr)
}

// ------------------------------------------------------------------------------------------------ world
type world struct {
	dir, data, remDir, remURL string
	bd                        binding
	srv                       *sqlh.Server
	util                      *sqlh.Session
	sess                      map[string]*sqlh.Session
	hr                        *httpRemote
	rddb                      *doltdb.DoltDB // http backend: a DoltDB over the server's own store object
	hash                      map[int]string
	id                        map[string]int
	truth                     map[string]string // ref target address (commit / tag object) -> closure digest at the source
	truthN                    map[string]int
	verified                  map[string]bool
	rowsOK                    map[string]bool
	tagAddr                   map[string]string // "name@commit hash" -> tag object address (source)
	evals                     int
	stats                     map[string]int
	nChunksMax                int
}

func setGlobalConfig() {
	home := os.Getenv("HOME")
	os.MkdirAll(filepath.Join(home, ".dolt"), 0o755)
	p := filepath.Join(home, ".dolt", "config_global.json")
	if _, err := os.Stat(p); err != nil {
		os.WriteFile(p, []byte(`{"user.name":"verif","user.email":"verif@example.com"}`), 0o644)
	}
}

func newWorld(bd binding, initClients []string) (w *world, err error) {
	setGlobalConfig()
	dir, err := os.MkdirTemp(os.Getenv("VERIF_WORK"), "c35-")
	if err != nil {
		return nil, err
	}
	w = &world{dir: dir, data: filepath.Join(dir, "data"), bd: bd, sess: map[string]*sqlh.Session{}, hash: map[int]string{}, id: map[string]int{},
		truth: map[string]string{}, truthN: map[string]int{}, verified: map[string]bool{}, rowsOK: map[string]bool{}, tagAddr: map[string]string{}, stats: map[string]int{}}
	defer func() {
		if err != nil {
			w.close()
		}
	}()
	os.MkdirAll(w.data, 0o755)
	switch bd.Backend {
	case "http":
		root := filepath.Join(dir, "httproot")
		os.MkdirAll(root, 0o755)
		if w.hr, err = startHTTPRemote(root); err != nil {
			return w, err
		}
		w.remDir = filepath.Join(root, "verif", "r")
		w.remURL = "http://" + w.hr.addr + "/verif/r"
	default:
		w.remDir = filepath.Join(dir, "rem")
		os.MkdirAll(w.remDir, 0o755)
		w.remURL = "file://" + w.remDir
	}
	fs, err := filesys.LocalFilesysWithWorkingDir(w.data)
	if err != nil {
		return w, err
	}
	dEnv := env.LoadWithoutDB(bg, env.GetCurrentUserHomeDir, fs, doltdb.LocalDirDoltDB, "verif")
	if w.srv, err = sqlh.ServerForEnv(bg, dEnv, w.data); err != nil {
		return w, err
	}
	if w.util, err = w.srv.NewSession("util"); err != nil {
		return w, err
	}
	first := initClients[0]
	if err = w.util.Exec("create database `" + first + "`"); err != nil {
		return w, err
	}
	if err = w.openSession(first); err != nil {
		return w, err
	}
	s := w.sess[first]
	for _, q := range []string{
		"create table t (pk bigint primary key, c bigint, pay varchar(4000))",
		"call dolt_commit('-Am','c1')",
		"call dolt_remote('add','origin','" + w.remURL + "')",
		"call dolt_push('origin','main')",
	} {
		if err = s.Exec(q); err != nil {
			return w, fmt.Errorf("setup %q: %w", q, err)
		}
	}
	v, err := w.view(first)
	if err != nil {
		return w, err
	}
	w.bind(1, v.Head["main"])
	if err = w.learnTruth(first, v.Head["main"]); err != nil {
		return w, err
	}
	for _, c := range initClients[1:] {
		if err = w.clone(c); err != nil {
			return w, err
		}
	}
	return w, nil
}

func (w *world) openSession(name string) error {
	ss, err := w.srv.NewSession(name)
	if err != nil {
		return err
	}
	if err := ss.Exec("use `" + name + "`"); err != nil {
		return err
	}
	w.sess[name] = ss
	return nil
}

func (w *world) clone(name string) error {
	if err := w.util.Exec("call dolt_clone('" + w.remURL + "','" + name + "')"); err != nil {
		return err
	}
	return w.openSession(name)
}

func (w *world) close() {
	if w.srv != nil && w.srv.Eng != nil {
		w.srv.Eng.Close()
		w.srv.Eng = nil
	}
	dbfactory.CloseAllLocalDatabases()
	if w.hr != nil && w.hr.srv != nil {
		w.hr.srv.GracefulStop()
		for _, cs := range w.hr.cache.dbs {
			cs.Close()
		}
		w.hr = nil
	}
	os.RemoveAll(w.dir)
}

// arm makes the remotesrv HttpInterceptor answer 500 to the next table-file upload ("post") / download ("get"), once:
// the client's retry must make the statement succeed with the model's result
func (w *world) arm(kind string) {
	if w.hr == nil {
		return
	}
	w.hr.mu.Lock()
	defer w.hr.mu.Unlock()
	if kind == "post" && w.bd.HTTPFlt == "post1" {
		w.hr.failPost = w.hr.nPost + 1
	}
	if kind == "get" && w.bd.HTTPFlt == "get1" {
		w.hr.failGet = w.hr.nGet + 1
	}
}

func (w *world) bind(id int, h string) {
	w.hash[id] = h
	w.id[h] = id
}

// withCtx runs fn with a *sql.Context of the client's session (what a stored procedure would get)
func (w *world) withCtx(p string, fn func(ctx *sql.Context) error) error {
	ss := w.sess[p]
	if ss == nil {
		return fmt.Errorf("no session for client %s", p)
	}
	ctx, err := w.srv.Eng.NewContext(w.srv.Ctx, ss.Sess)
	if err != nil {
		return err
	}
	sql.SessionCommandBegin(ss.Sess)
	defer sql.SessionCommandEnd(ss.Sess)
	return fn(ctx)
}

func (w *world) dbData(p string) (dd env.DbData[*sql.Context], err error) {
	err = w.withCtx(p, func(ctx *sql.Context) error {
		var ok bool
		dd, ok = dsess.DSessFromSess(ctx.Session).GetDbData(ctx, p)
		if !ok {
			return fmt.Errorf("no DbData for database %s", p)
		}
		return nil
	})
	return
}

// remoteDB returns a DoltDB reading the CURRENT state of r.
func (w *world) remoteDB() (*doltdb.DoltDB, error) {
	if w.bd.Backend == "http" {
		if w.rddb == nil {
			cs, err := w.hr.cache.Get(bg, "verif/r", types.Format_DOLT.VersionString())
			if err != nil {
				return nil, err
			}
			if w.rddb, err = doltdb.DoltDBFromCS(cs, "r"); err != nil {
				return nil, err
			}
		}
		return w.rddb, w.rddb.Rebase(bg)
	}
	ddb, err := doltdb.LoadDoltDB(bg, types.Format_DOLT, w.remURL, w.srv.DEnv.FS)
	if err != nil {
		return nil, err
	}
	return ddb, ddb.Rebase(bg)
}

// freshRemoteDB opens r anew from its directory (no cached store object): what a process started now would see.
func (w *world) freshRemoteDB() (*doltdb.DoltDB, func(), error) {
	ddb, err := doltdb.LoadDoltDBWithParams(bg, types.Format_DOLT, "file://"+w.remDir, w.srv.DEnv.FS, map[string]interface{}{dbfactory.DisableSingletonCacheParam: struct{}{}})
	if err != nil {
		return nil, nil, err
	}
	return ddb, func() { ddb.Close() }, nil
}

func (w *world) ddbOf(s string) (*doltdb.DoltDB, error) {
	if s == "r" {
		return w.remoteDB()
	}
	dd, err := w.dbData(s)
	if err != nil {
		return nil, err
	}
	return dd.Ddb, nil
}

func csOf(ddb *doltdb.DoltDB) chunks.ChunkStore {
	return datas.ChunkStoreFromDatabase(doltdb.ExposeDatabaseFromDoltDB(ddb))
}

// ------------------------------------------------------------------------------------------------ projection
type storeView struct {
	Head    map[string]string // branch -> commit hash
	RT      map[string]string // branch -> commit hash of refs/remotes/origin/<branch>
	Tag     map[string]string // tag -> commit hash
	TagAddr map[string]string // tag -> address of the tag object
	Cur     string
}

func viewOf(ddb *doltdb.DoltDB) (*storeView, error) {
	v := &storeView{Head: map[string]string{}, RT: map[string]string{}, Tag: map[string]string{}, TagAddr: map[string]string{}}
	var refs []doltdb.RefWithHash
	err := ddb.VisitRefsOfType(bg, map[ref.RefType]struct{}{ref.BranchRefType: {}, ref.RemoteRefType: {}, ref.TagRefType: {}}, func(r ref.DoltRef, addr hash.Hash) error {
		refs = append(refs, doltdb.RefWithHash{Ref: r, Hash: addr})
		return nil
	})
	if err != nil {
		return nil, err
	}
	for _, r := range refs {
		switch r.Ref.GetType() {
		case ref.BranchRefType:
			v.Head[r.Ref.GetPath()] = r.Hash.String()
		case ref.RemoteRefType:
			rr := r.Ref.(ref.RemoteRef)
			if rr.GetRemote() == "origin" {
				v.RT[rr.GetBranch()] = r.Hash.String()
			} else {
				v.RT[rr.GetPath()] = r.Hash.String()
			}
		case ref.TagRefType:
			tg, err := ddb.ResolveTag(bg, r.Ref.(ref.TagRef))
			if err != nil {
				return nil, fmt.Errorf("tag %s does not resolve: %w", r.Ref.GetPath(), err)
			}
			ch, err := tg.Commit.HashOf()
			if err != nil {
				return nil, err
			}
			v.Tag[r.Ref.GetPath()] = ch.String()
			v.TagAddr[r.Ref.GetPath()] = r.Hash.String()
		}
	}
	return v, nil
}

func (w *world) view(s string) (*storeView, error) {
	ddb, err := w.ddbOf(s)
	if err != nil {
		return nil, err
	}
	v, err := viewOf(ddb)
	if err != nil {
		return nil, err
	}
	if s != "r" {
		rows, err := w.sess[s].Query("select active_branch()")
		if err != nil {
			return nil, err
		}
		v.Cur = fmt.Sprint(rows[0][0])
	}
	return v, nil
}

// ------------------------------------------------------------------------------------------------ closure walker
// closure walks every address reachable from root through the reference relation the Puller itself uses
// (types.WalkAddrsForNBF), reading every chunk from cs; digest = hash of the sorted list of (address, sha1(bytes)).
func closure(cs chunks.ChunkStore, root hash.Hash) (digest string, n int, err error) {
	waf := types.WalkAddrsForNBF(types.Format_DOLT, nil)
	seen := hash.NewHashSet(root)
	frontier := []hash.Hash{root}
	type ent struct {
		a hash.Hash
		d [20]byte
	}
	var ents []ent
	for len(frontier) > 0 {
		h := frontier[len(frontier)-1]
		frontier = frontier[:len(frontier)-1]
		c, err := cs.Get(bg, h)
		if err != nil {
			return "", n, fmt.Errorf("chunk %s: %w", h, err)
		}
		if c.IsEmpty() {
			return "", n, fmt.Errorf("chunk %s is MISSING (reachable from %s)", h, root)
		}
		if hash.Of(c.Data()) != h {
			return "", n, fmt.Errorf("chunk %s has bytes that do not hash to its address", h)
		}
		ents = append(ents, ent{h, sha1.Sum(c.Data())})
		n++
		err = waf(c, func(a hash.Hash, _ bool) error {
			if !seen.Has(a) {
				seen.Insert(a)
				frontier = append(frontier, a)
			}
			return nil
		})
		if err != nil {
			return "", n, err
		}
	}
	sort.Slice(ents, func(i, j int) bool { return ents[i].a.Less(ents[j].a) })
	hh := sha1.New()
	for _, e := range ents {
		hh.Write(e.a[:])
		hh.Write(e.d[:])
	}
	return hex.EncodeToString(hh.Sum(nil)), n, nil
}

// learnTruth records the closure digest of a ref target at the store where it was created (the source of every later transfer)
func (w *world) learnTruth(s string, addr string) error {
	if _, ok := w.truth[addr]; ok {
		return nil
	}
	ddb, err := w.ddbOf(s)
	if err != nil {
		return err
	}
	d, n, err := closure(csOf(ddb), hash.Parse(addr))
	if err != nil {
		return fmt.Errorf("closure of new object %s at its source %s: %w", addr, s, err)
	}
	w.truth[addr] = d
	w.truthN[addr] = n
	if n > w.nChunksMax {
		w.nChunksMax = n
	}
	return nil
}

// checkClosure: the closure of addr in store s (read through ddb) must be complete and byte-identical to the source's
func (w *world) checkClosure(s string, ddb *doltdb.DoltDB, addr string, memo bool) error {
	key := s + "|" + addr
	if memo && w.verified[key] {
		return nil
	}
	want, ok := w.truth[addr]
	if !ok {
		return fmt.Errorf("object %s was never created at a source", addr)
	}
	d, n, err := closure(csOf(ddb), hash.Parse(addr))
	w.evals++
	if err != nil {
		return err
	}
	if d != want {
		return fmt.Errorf("closure of %s differs from the source's: %d chunks here, %d at the source, digests %s / %s", addr, n, w.truthN[addr], d, want)
	}
	if memo {
		w.verified[key] = true
	}
	return nil
}

// ------------------------------------------------------------------------------------------------ TLC JSON helpers
func obj(v any) map[string]any {
	if m, ok := v.(map[string]any); ok {
		return m
	}
	return map[string]any{}
}
func arr(v any) []any {
	if a, ok := v.([]any); ok {
		return a
	}
	return nil
}
func str(v any) string {
	s, _ := v.(string)
	return s
}
func strs(v any) []string {
	var out []string
	for _, x := range arr(v) {
		out = append(out, x.(string))
	}
	return out
}

type expStore struct {
	Head, RT, Tag map[string]int
	Cur           string
}
type expProj struct {
	CM  [][]int
	Anc [][]int
	St  map[string]expStore
}

func intMap(v any) map[string]int {
	m := map[string]int{}
	for k, x := range obj(v) {
		m[k] = common.Int(x)
	}
	return m
}

func decodeExp(v any) *expProj {
	m := obj(v)
	e := &expProj{St: map[string]expStore{}}
	for _, c := range arr(m["cm"]) {
		e.CM = append(e.CM, common.Ints(c))
	}
	for _, c := range arr(m["rows"]) {
		e.Anc = append(e.Anc, common.Ints(c))
	}
	for s, sv := range obj(m["st"]) {
		sm := obj(sv)
		e.St[s] = expStore{Head: intMap(sm["head"]), RT: intMap(sm["rt"]), Tag: intMap(sm["tag"]), Cur: str(sm["cur"])}
	}
	return e
}

// ------------------------------------------------------------------------------------------------ comparison
func (w *world) idMap(m map[string]string) map[string]any {
	out := map[string]any{}
	for k, h := range m {
		if id, ok := w.id[h]; ok {
			out[k] = id
		} else {
			out[k] = "?" + h
		}
	}
	return out
}

func sameIDs(exp map[string]int, got map[string]any) bool {
	if len(exp) != len(got) {
		return false
	}
	for k, v := range exp {
		if g, ok := got[k].(int); !ok || g != v {
			return false
		}
	}
	return true
}

// compare compares the refs of every existing store with the model and verifies the closure of every ref target.
func (w *world) compare(step int, a string, exp *expProj) common.Result {
	names := make([]string, 0, len(exp.St))
	for s := range exp.St {
		names = append(names, s)
	}
	sort.Strings(names)
	for _, s := range names {
		es := exp.St[s]
		if s != "r" && w.sess[s] == nil {
			return common.Fail(step, a, "store "+s+" exists in the model only", es, nil)
		}
		v, err := w.view(s)
		if err != nil {
			return common.Fail(step, a, "refs of "+s+" unreadable", es, err.Error())
		}
		if g := w.idMap(v.Head); !sameIDs(es.Head, g) {
			return common.Fail(step, a, "branch heads of "+s, es.Head, g)
		}
		if g := w.idMap(v.RT); !sameIDs(es.RT, g) {
			return common.Fail(step, a, "remote-tracking refs of "+s, es.RT, g)
		}
		if g := w.idMap(v.Tag); !sameIDs(es.Tag, g) {
			return common.Fail(step, a, "tags of "+s, es.Tag, g)
		}
		if s != "r" && es.Cur != v.Cur {
			return common.Fail(step, a, "checked-out branch of "+s, es.Cur, v.Cur)
		}
		w.evals += len(es.Head) + len(es.RT) + len(es.Tag) + 1
		ddb, err := w.ddbOf(s)
		if err != nil {
			return common.Fail(step, a, "store "+s+" unreadable", nil, err.Error())
		}
		targets := map[string]string{}
		for b, h := range v.Head {
			targets[h] = "branch " + b
		}
		for b, h := range v.RT {
			targets[h] = "remote-tracking ref " + b
		}
		for n, h := range v.TagAddr {
			targets[h] = "tag " + n
		}
		for h, what := range targets {
			if err := w.checkClosure(s, ddb, h, true); err != nil {
				return common.Fail(step, a, "closure of a ref of "+s, what+" -> complete closure identical to the source", err.Error())
			}
		}
		// the same tag name must be the same tag object as at its source
		for n, ch := range v.Tag {
			if want, ok := w.tagAddr[n+"@"+ch]; ok && !strings.Contains(want, v.TagAddr[n]) {
				return common.Fail(step, a, "tag object of "+s, want, v.TagAddr[n])
			}
		}
		// logical content through SQL (clients only): the rows of table t AS OF every ref = the model's ancestor set
		if s != "r" && len(exp.Anc) > 0 {
			for h := range targets {
				id, ok := w.id[h]
				if !ok || w.rowsOK[s+"|"+h] {
					continue
				}
				rows, err := w.sess[s].Query(fmt.Sprintf("select pk from t as of '%s' where pk < %d order by pk", h, fillerBase))
				if err != nil {
					return common.Fail(step, a, "table t as of a ref of "+s, exp.Anc[id-1], err.Error())
				}
				var got []int
				for _, r := range rows {
					got = append(got, int(r[0].(int64)))
				}
				want := append([]int{}, exp.Anc[id-1]...)
				sort.Ints(want)
				if fmt.Sprint(want) != fmt.Sprint(append([]int{}, got...)) {
					return common.Fail(step, a, "rows of t as of a ref of "+s, want, got)
				}
				w.rowsOK[s+"|"+h] = true
				w.evals++
			}
		}
	}
	return nil
}

func payload(id, i, sz int) string {
	if sz <= 0 {
		return ""
	}
	var sb strings.Builder
	x := uint32(id*7919 + i*104729 + 17)
	for sb.Len() < sz {
		x = x*1664525 + 1013904223
		sb.WriteString(fmt.Sprintf("%08x", x))
	}
	return sb.String()[:sz]
}
