// Engine E10 "remote": replays behaviours of /verif/spec/Remote.tla on real dolt repositories (property C35).
//
// A case is {"steps":[{a,p,args,res,exp}...], "binding":{backend,filler,paysz,tfsz,sweep,httpflt}, "init":[clients that exist initially]}.
//   * statement-level steps (Commit, MergeLocal, Branch, Checkout, Tag, Push, PushForce, PushTag, PushDelete, Fetch, Pull, Clone)
//     are SQL statements / dolt_* procedure calls of the client's own session on ONE in-process SQL engine; the remote is a
//     file:// directory or an in-process remotesrv (gRPC+HTTP on loopback);
//   * process-level steps (TPush, TPushForce, TFetch, TUpload, TAddFiles, TRefRead, TEdit, TCas, TTrack, TFRef, TFTags,
//     TInterrupt) drive actions.Push / actions.FetchRefSpecs (or the same call sequence with pull.NewPuller and a tiny
//     target file size) in a goroutine per client whose DESTINATION chunk store is wrapped by gateCS: the goroutine blocks
//     at AddTableFilesToManifest and at ChunkStore.Commit until the behaviour releases it, and dies (injected error) at the
//     call the behaviour's TInterrupt designates.
// After EVERY step the refs of every store (branches, remote-tracking refs, tags, checked-out branch) are compared with the
// projection TLC computed, and for every ref of every store the whole closure (walked with the Puller's own reference
// walker) must be present and byte-identical to the closure recorded at the store that created the object; the rows of the
// table AS OF every ref must be the model's ancestor set. At the end every store is reopened from disk and re-verified.
package main

import (
	"fmt"
	"os"
	"strings"

	"github.com/dolthub/dolt/go/libraries/doltcore/doltdb"
	"github.com/dolthub/dolt/go/store/hash"
	"github.com/dolthub/dolt/go/zz_verif/common"
	"github.com/dolthub/dolt/go/zz_verif/sqlh"
)

func main() {
	if len(os.Args) > 1 && os.Args[1] == "probe" {
		probe()
		return
	}
	common.Run(runCase)
}

func decodeBinding(v any) binding {
	m := obj(v)
	bd := binding{Backend: "file"}
	if s := str(m["backend"]); s != "" {
		bd.Backend = s
	}
	geti := func(k string) int {
		if x, ok := m[k]; ok && x != nil {
			return common.Int(x)
		}
		return 0
	}
	bd.Filler, bd.PaySz, bd.Tfsz, bd.Sweep = geti("filler"), geti("paysz"), geti("tfsz"), geti("sweep")
	bd.HTTPFlt = str(m["httpflt"])
	return bd
}

type engine struct {
	w      *world
	step   int
	prev   *expProj
	run    map[string]*procRun // process-level transfers in flight
	steps  []any
	crit   map[string]int
	reopen int
	stop   bool
}

func runCase(c map[string]any) common.Result {
	bd := decodeBinding(c["binding"])
	init := strs(c["init"])
	if len(init) == 0 {
		init = []string{"a", "b"}
	}
	w, err := newWorld(bd, init)
	if err != nil {
		return common.Result{"ok": false, "fp": "setup", "setup": true, "detail": "world setup failed: " + err.Error()}
	}
	defer w.close()
	e := &engine{w: w, run: map[string]*procRun{}, crit: map[string]int{}}
	e.steps = arr(c["steps"])
	defer e.abandon()
	for i, sv := range e.steps {
		e.step = i
		st := obj(sv)
		if f := e.doStep(st); f != nil {
			f["evals"] = w.evals
			f["stats"] = w.stats
			return f
		}
		w.stats[str(st["a"])+":"+str(st["res"])]++
		if e.stop {
			e.crit["truncated"]++
			break
		}
	}
	e.abandon()
	if f := e.finalReopen(); f != nil {
		f["evals"] = w.evals
		f["stats"] = w.stats
		return f
	}
	if w.hr != nil {
		e.crit["httpfault"] = w.hr.injected
	}
	return common.Result{"ok": true, "evals": w.evals, "stats": w.stats, "crit": e.crit, "commits": len(w.hash), "chunks": w.nChunksMax, "reopened": e.reopen}
}

// ------------------------------------------------------------------------------------------------ outcome classes
func classify(err error) string {
	if err == nil {
		return "ok"
	}
	s := err.Error()
	switch {
	case strings.Contains(s, errInjected.Error()):
		return "interrupted"
	case strings.Contains(s, "dataset head is not ancestor of commit"):
		return "mergeneeded"
	case strings.Contains(s, "non-fast-forward"), strings.Contains(s, "can't fast forward"), strings.Contains(s, "is ahead of b already"):
		return "rejected"
	case strings.Contains(s, "up to date"), strings.Contains(s, "up-to-date"):
		return "uptodate"
	case strings.Contains(s, "not found on remote"):
		return "err:nobranch"
	case strings.Contains(s, "target has uncommitted changes"):
		return "err:dirtyws"
	}
	return "err:" + s
}

func (e *engine) sqlp(p, q string) ([][]any, error) {
	ss := e.w.sess[p]
	if ss == nil {
		return nil, fmt.Errorf("client %s has no session", p)
	}
	return ss.Query(q)
}

func (e *engine) headOf(p, b string) string {
	v, err := e.w.view(p)
	if err != nil {
		return ""
	}
	return v.Head[b]
}

// bindNew binds the model commit created by this step (if any) to the real head of p's checked-out branch, checks its
// parents against the model and records its closure at its source.
func (e *engine) bindNew(a, p string, exp *expProj) common.Result {
	w := e.w
	for id := len(w.hash) + 1; id <= len(exp.CM); id++ {
		v, err := w.view(p)
		if err != nil {
			return common.Fail(e.step, a, "refs unreadable", nil, err.Error())
		}
		h := v.Head[v.Cur]
		if _, known := w.id[h]; known || h == "" {
			return common.Fail(e.step, a, "new commit", fmt.Sprintf("a new commit c%d on %s/%s", id, p, v.Cur), "head is "+h)
		}
		ddb, err := w.ddbOf(p)
		if err != nil {
			return common.Fail(e.step, a, "store unreadable", nil, err.Error())
		}
		oc, err := ddb.ReadCommit(bg, hash.Parse(h))
		if err != nil {
			return common.Fail(e.step, a, "new commit unreadable", id, err.Error())
		}
		cm, ok := oc.ToCommit()
		if !ok {
			return common.Fail(e.step, a, "new commit is a ghost", id, h)
		}
		ph, err := cm.ParentHashes(bg)
		if err != nil {
			return common.Fail(e.step, a, "parents unreadable", id, err.Error())
		}
		var got []any
		for _, x := range ph {
			if pid, ok := w.id[x.String()]; ok {
				got = append(got, pid)
			} else {
				got = append(got, "?"+x.String())
			}
		}
		want := exp.CM[id-1]
		if fmt.Sprint(want) != fmt.Sprint(got) {
			return common.Fail(e.step, a, "parents of the new commit", want, got)
		}
		w.bind(id, h)
		if err := w.learnTruth(p, h); err != nil {
			return common.Fail(e.step, a, "closure of the new commit at its source", "complete", err.Error())
		}
		w.evals++
	}
	return nil
}

func (e *engine) doStep(st map[string]any) common.Result {
	w := e.w
	a, p, res := str(st["a"]), str(st["p"]), str(st["res"])
	args := obj(st["args"])
	exp := decodeExp(st["exp"])
	b := str(args["b"])
	var got string
	switch a {
	case "Commit":
		id := common.Int(args["c"])
		vals := []string{fmt.Sprintf("(%d,%d,'%s')", id, id, payload(id, 0, w.bd.PaySz))}
		for i := 0; i < w.bd.Filler; i++ {
			vals = append(vals, fmt.Sprintf("(%d,%d,'%s')", id*fillerBase+i, i, payload(id, i+1, w.bd.PaySz)))
		}
		if _, err := e.sqlp(p, "insert into t values "+strings.Join(vals, ",")); err != nil {
			return common.Fail(e.step, a, "insert failed", "ok", err.Error())
		}
		_, err := e.sqlp(p, fmt.Sprintf("call dolt_commit('-Am','c%d')", id))
		got = classify(err)
	case "MergeLocal", "Pull":
		before := e.headOf(p, w.curOf(p))
		var err error
		if a == "Pull" {
			w.arm("get")
		}
		if a == "MergeLocal" {
			_, err = e.sqlp(p, "call dolt_merge('"+b+"')")
		} else {
			_, err = e.sqlp(p, "call dolt_pull('origin','"+b+"')")
		}
		got = classify(err)
		if err == nil {
			after := e.headOf(p, w.curOf(p))
			switch {
			case after == before:
				got = "uptodate"
			case w.id[after] != 0:
				got = "ff"
			default:
				got = "merge"
			}
		}
	case "Branch":
		_, err := e.sqlp(p, "call dolt_branch('"+b+"')")
		got = classify(err)
	case "Checkout", "CheckoutTrack":
		_, err := e.sqlp(p, "call dolt_checkout('"+b+"')")
		got = classify(err)
	case "Tag":
		n := str(args["n"])
		_, err := e.sqlp(p, "call dolt_tag('"+n+"')")
		got = classify(err)
		if err == nil {
			v, verr := w.view(p)
			if verr != nil {
				return common.Fail(e.step, a, "refs unreadable", nil, verr.Error())
			}
			w.tagAddr[n+"@"+v.Tag[n]] += " " + v.TagAddr[n]
			if lerr := w.learnTruth(p, v.TagAddr[n]); lerr != nil {
				return common.Fail(e.step, a, "closure of the new tag at its source", "complete", lerr.Error())
			}
		}
	case "Push", "PushForce":
		w.arm("post")
		q := "call dolt_push('origin','" + b + "')"
		if a == "PushForce" {
			q = "call dolt_push('--force','origin','" + b + "')"
		}
		rows, err := e.sqlp(p, q)
		got = classify(err)
		if err == nil && len(rows) > 0 && strings.Contains(fmt.Sprint(rows[0]), "up-to-date") {
			got = "uptodate"
		}
	case "PushTag":
		w.arm("post")
		_, err := e.sqlp(p, "call dolt_push('origin','"+str(args["n"])+"')")
		got = classify(err)
	case "PushDelete":
		_, err := e.sqlp(p, "call dolt_push('origin',':"+b+"')")
		got = classify(err)
	case "Fetch":
		w.arm("get")
		_, err := e.sqlp(p, "call dolt_fetch('origin')")
		got = classify(err)
	case "Clone":
		w.arm("get")
		got = classify(w.clone(p))
	default:
		if strings.HasPrefix(a, "T") {
			return e.procStep(st, a, p, res, args, exp)
		}
		return common.Result{"ok": false, "fp": "harness:unknown-action", "detail": "unknown action " + a}
	}
	if got != res {
		return common.Fail(e.step, a, "outcome", res, got)
	}
	w.evals++
	if f := e.bindNew(a, p, exp); f != nil {
		return f
	}
	if f := w.compare(e.step, a, exp); f != nil {
		return f
	}
	e.note(a, res, st)
	e.prev = exp
	return nil
}

func (w *world) curOf(p string) string {
	rows, err := w.sess[p].Query("select active_branch()")
	if err != nil || len(rows) == 0 {
		return ""
	}
	return fmt.Sprint(rows[0][0])
}

// note counts what makes a behaviour non-trivial (reported to the check, which applies the rule)
func (e *engine) note(a, res string, st map[string]any) {
	switch {
	case (a == "Push" || a == "TPush") && res == "rejected":
		e.crit["rejected"]++
	case a == "PushForce" && res == "ok", a == "TCas" && res == "ok" && e.prev != nil:
		e.crit["moved"]++
	case a == "Pull" && res == "merge":
		e.crit["pullmerge"]++
	case a == "Clone":
		e.crit["clone"]++
	case a == "TInterrupt":
		e.crit["interrupt"]++
	case a == "TCas" && res == "retry", (a == "TEdit" || a == "TRefRead") && res == "mergeneeded":
		e.crit["race"]++
	case a == "Fetch" || a == "TFTags":
		e.crit["fetch"]++
	}
}

// finalReopen: the engine is shut down, every store is reopened from its directory and every ref is verified again
// (nothing may live only in a cache / memtable of the process that made the transfer)
func (e *engine) finalReopen() common.Result {
	w := e.w
	if e.prev == nil {
		return nil
	}
	w.srv.Eng.Close()
	w.srv.Eng = nil
	closeAllLocal()
	for s := range e.prev.St {
		var ddb *doltdb.DoltDB
		var err error
		var done func()
		if s == "r" {
			ddb, done, err = w.freshRemoteDB()
		} else {
			var de = (*sqlhEnv)(nil)
			de, err = loadRepo(w.data + "/" + s)
			if err == nil {
				ddb = de.ddb
				done = de.close
			}
		}
		if err != nil {
			return common.Fail(len(e.steps), "Reopen", "store "+s+" does not reopen", "opens", err.Error())
		}
		v, err := viewOf(ddb)
		if err != nil {
			done()
			return common.Fail(len(e.steps), "Reopen", "refs of "+s+" after reopen", "readable", err.Error())
		}
		es := e.prev.St[s]
		if g := w.idMap(v.Head); !sameIDs(es.Head, g) {
			done()
			return common.Fail(len(e.steps), "Reopen", "branch heads of "+s+" after reopen", es.Head, g)
		}
		if g := w.idMap(v.RT); !sameIDs(es.RT, g) {
			done()
			return common.Fail(len(e.steps), "Reopen", "remote-tracking refs of "+s+" after reopen", es.RT, g)
		}
		if g := w.idMap(v.Tag); !sameIDs(es.Tag, g) {
			done()
			return common.Fail(len(e.steps), "Reopen", "tags of "+s+" after reopen", es.Tag, g)
		}
		for _, m := range []map[string]string{v.Head, v.RT, v.TagAddr} {
			for _, h := range m {
				if err := w.checkClosure(s, ddb, h, false); err != nil {
					done()
					return common.Fail(len(e.steps), "Reopen", "closure of a ref of "+s+" after reopen", "complete closure identical to the source", err.Error())
				}
			}
		}
		done()
		e.reopen++
	}
	return nil
}

var _ = sqlh.RowsString
