package main

import (
	"context"
	"fmt"
	"os"
	"path/filepath"

	"github.com/dolthub/dolt/go/libraries/doltcore/doltdb"
	"github.com/dolthub/dolt/go/libraries/doltcore/env"
	"github.com/dolthub/dolt/go/libraries/utils/filesys"
	"github.com/dolthub/dolt/go/zz_verif/sqlh"
)

// probe: exploratory driver used while building the engine (not part of any check)
func probe() {
	home := os.Getenv("HOME")
	os.MkdirAll(filepath.Join(home, ".dolt"), 0o755)
	os.WriteFile(filepath.Join(home, ".dolt", "config_global.json"), []byte(`{"user.name":"verif","user.email":"verif@example.com"}`), 0o644)
	dir, _ := os.MkdirTemp("", "c35probe-")
	defer os.RemoveAll(dir)
	ctx := context.Background()
	data := filepath.Join(dir, "data")
	os.MkdirAll(data, 0o755)
	rem := filepath.Join(dir, "rem")
	os.MkdirAll(rem, 0o755)
	fs, err := filesys.LocalFilesysWithWorkingDir(data)
	if err != nil {
		panic(err)
	}
	dEnv := env.LoadWithoutDB(ctx, env.GetCurrentUserHomeDir, fs, doltdb.LocalDirDoltDB, "verif")
	srv, err := sqlh.ServerForEnv(ctx, dEnv, data)
	if err != nil {
		panic(err)
	}
	defer srv.Close()
	fmt.Println("first db:", srv.DB)
	s, err := srv.NewSession("s")
	if err != nil {
		panic(err)
	}
	run := func(q string) {
		rows, err := s.Query(q)
		fmt.Printf("%s\n   -> %v err=%v\n", q, sqlh.RowsString(rows, false), err)
	}
	run("create database a")
	run("use a")
	run("create table t (pk int primary key, c int)")
	run("call dolt_commit('-Am','c1')")
	run("call dolt_remote('add','origin','file://" + rem + "')")
	run("call dolt_push('origin','main')")
	run("call dolt_clone('file://" + rem + "','b')")
	run("show databases")
	run("use b")
	run("select name,hash from dolt_branches")
	run("select name,hash from dolt_remote_branches")
	run("insert into t values (1,1)")
	run("call dolt_commit('-Am','c2')")
	run("call dolt_push('origin','main')")
	run("use a")
	run("insert into t values (2,2)")
	run("call dolt_commit('-Am','c3')")
	run("call dolt_push('origin','main')")
	run("call dolt_fetch('origin')")
	run("select name,hash from dolt_remote_branches")
	run("call dolt_pull('origin','main')")
	run("select * from dolt_log")
	run("call dolt_push('origin','main')")
	run("call dolt_tag('v1')")
	run("call dolt_push('origin','v1')")
	run("call dolt_branch('f')")
	run("call dolt_push('origin','f')")
	run("call dolt_push('origin',':f')")
	run("call dolt_push('--force','origin','main')")
	run("use b")
	run("call dolt_pull('origin')")
	run("select tag_name, tag_hash from dolt_tags")
	run("select name,hash from dolt_remote_branches")
}
