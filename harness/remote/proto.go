package main

// Process-level steps (Gran = "gate" behaviours of Remote.tla): one goroutine per transferring client, its destination
// chunk store wrapped by gateCS. The behaviour is the schedule: a model step TAddFiles / TCas of client p releases p's
// goroutine from the gate it is blocked at; the steps TUpload, TRefRead, TEdit, TTrack, TFRef are what the goroutine does
// by itself between two gates (the model forces the same atomicity with its variable `hold`); TInterrupt makes the call
// the goroutine is blocked at (or, for interruptions during the uploads, the k-th WriteTableFile) fail with an injected
// error. No sleeps, no timing: the driver waits on channels for "arrived at a gate" or "returned".

import (
	"context"
	"errors"
	"fmt"
	"time"

	"github.com/dolthub/go-mysql-server/sql"

	"github.com/dolthub/dolt/go/libraries/doltcore/dbfactory"
	"github.com/dolthub/dolt/go/libraries/doltcore/doltdb"
	"github.com/dolthub/dolt/go/libraries/doltcore/env"
	"github.com/dolthub/dolt/go/libraries/doltcore/env/actions"
	"github.com/dolthub/dolt/go/libraries/doltcore/ref"
	"github.com/dolthub/dolt/go/store/datas"
	"github.com/dolthub/dolt/go/store/datas/pull"
	"github.com/dolthub/dolt/go/store/hash"
	"github.com/dolthub/dolt/go/store/types"
	"github.com/dolthub/dolt/go/zz_verif/common"
	"github.com/dolthub/dolt/go/zz_verif/sqlh"
)

var gateTimeout = 600 * time.Second

type procRun struct {
	p, kind, b string
	force      bool
	g          *gateCS
	done       chan error
	finished   bool
	err        error
	pending    *gateMsg
	swept      bool // the interruption of this attempt was already realised (amplified) at its start
	idem       bool // its Commit found the very manifest it wanted already installed by the other client
	cleanup    func()
}

type sqlhEnv struct {
	ddb   *doltdb.DoltDB
	close func()
}

func closeAllLocal() { dbfactory.CloseAllLocalDatabases() }

func loadRepo(dir string) (*sqlhEnv, error) {
	de, err := sqlh.LoadRepo(bg, dir)
	if err != nil {
		return nil, err
	}
	return &sqlhEnv{ddb: de.DoltDB(bg), close: func() { closeAllLocal() }}, nil
}

func classifyErr(err error) string {
	switch {
	case err == nil:
		return "ok"
	case errors.Is(err, errInjected):
		return "interrupted"
	case errors.Is(err, doltdb.ErrUpToDate):
		return "uptodate"
	case errors.Is(err, actions.ErrCantFF), errors.Is(err, doltdb.ErrIsAhead):
		return "rejected"
	case errors.Is(err, datas.ErrMergeNeeded):
		return "mergeneeded"
	}
	return classify(err)
}

// handleOnRemote opens r the way a separate pushing / fetching process would: its own store object (file backend) or its
// own gRPC client (http backend).
func (w *world) handleOnRemote() (*doltdb.DoltDB, error) {
	// exactly what dolt_push / dolt_fetch do (DoltDatabaseProvider.GetRemoteDB): no singleton, no chunk-level read cache
	rem := env.NewRemote("origin", w.remURL, nil)
	ddb, err := rem.GetRemoteDBWithoutCaching(bg, types.Format_DOLT, env.NewGRPCDialProviderFromDoltEnv(w.srv.DEnv))
	if err != nil {
		return nil, err
	}
	if err := ddb.Rebase(bg); err != nil {
		return nil, err
	}
	return ddb, nil
}

func pullTiny(ctx context.Context, tmp string, tfsz int, srcDB, dstDB *doltdb.DoltDB, hashes []hash.Hash) error {
	waf := types.WalkAddrsForNBF(types.Format_DOLT, nil)
	pl, err := pull.NewPuller(ctx, tmp, uint64(tfsz), csOf(srcDB), csOf(dstDB), waf, hashes, nil)
	if err == pull.ErrDBUpToDate {
		return nil
	}
	if err != nil {
		return err
	}
	return pl.Pull(ctx)
}

// pushTiny is the call sequence of actions.Push (env/actions/remotes.go:54-106) with the Puller's target file size lowered
// from 1 GiB to tfsz, so that one transfer is MANY table files (doltdb.PullChunks hard-wires the size).
func pushTiny(ctx context.Context, tmp string, tfsz int, force bool, destRef ref.BranchRef, remoteRef ref.RemoteRef, srcDB, destDB *doltdb.DoltDB, cm *doltdb.Commit) error {
	if !force {
		canFF, err := destDB.CanFastForward(ctx, destRef, cm)
		if err != nil {
			return err
		} else if !canFF {
			return actions.ErrCantFF
		}
	}
	h, err := cm.HashOf()
	if err != nil {
		return err
	}
	if err := pullTiny(ctx, tmp, tfsz, srcDB, destDB, []hash.Hash{h}); err != nil {
		return err
	}
	if force {
		if err := destDB.SetHeadAndWorkingSetToCommit(ctx, destRef, cm); err != nil {
			return err
		}
		return srcDB.SetHeadToCommit(ctx, remoteRef, cm)
	}
	if err := destDB.FastForwardWithWorkspaceCheck(ctx, destRef, cm, false); err != nil {
		return err
	}
	return srcDB.SetHeadToCommit(ctx, remoteRef, cm)
}

// fetchTiny: fetchRefSpecsWithDepth (remotes.go:487) for the default refspec, forced, with a tiny target file size
func fetchTiny(ctx context.Context, tmp string, tfsz int, srcDB, destDB *doltdb.DoltDB) error {
	brs, err := srcDB.GetBranchesWithHashes(ctx)
	if err != nil {
		return err
	}
	var hs []hash.Hash
	for _, b := range brs {
		hs = append(hs, b.Hash)
	}
	if len(hs) == 0 {
		return nil
	}
	if err := pullTiny(ctx, tmp, tfsz, srcDB, destDB, hs); err != nil {
		return err
	}
	for _, b := range brs {
		oc, err := destDB.ReadCommit(ctx, b.Hash)
		if err != nil {
			return err
		}
		cm, ok := oc.ToCommit()
		if !ok {
			return doltdb.ErrGhostCommitRuntimeFailure
		}
		if err := destDB.SetHeadToCommit(ctx, ref.NewRemoteRef("origin", b.Ref.GetPath()), cm); err != nil {
			return err
		}
	}
	return actions.FetchFollowTags(ctx, tmp, srcDB, destDB, nil)
}

type faultPlan struct {
	failW int
	failA bool
	failC int
	gateA bool
	gateC bool
}

func (e *engine) start(p, kind, b string, force bool, fp faultPlan) (*procRun, error) {
	w := e.w
	dd, err := w.dbData(p)
	if err != nil {
		return nil, err
	}
	tmp, err := dd.Rsw.TempTableFilesDir()
	if err != nil {
		return nil, err
	}
	rdb, err := w.handleOnRemote()
	if err != nil {
		return nil, err
	}
	run := &procRun{p: p, kind: kind, b: b, force: force, done: make(chan error, 1)}
	run.cleanup = func() { rdb.Close() }
	var fn func() error
	if kind == "push" {
		g, err := newGateCS(csOf(rdb))
		if err != nil {
			return nil, err
		}
		destDB, err := doltdb.DoltDBFromCS(g, "r")
		if err != nil {
			return nil, err
		}
		cm, err := dd.Ddb.ResolveCommitRef(bg, ref.NewBranchRef(b))
		if err != nil {
			return nil, err
		}
		run.g = g
		mode := ref.FastForwardOnly
		if force {
			mode = ref.ForceUpdate
		}
		if w.bd.Tfsz > 0 {
			fn = func() error {
				return pushTiny(bg, tmp, w.bd.Tfsz, force, ref.NewBranchRef(b), ref.NewRemoteRef("origin", b), dd.Ddb, destDB, cm)
			}
		} else {
			fn = func() error {
				return actions.Push(bg, tmp, mode, ref.NewBranchRef(b), ref.NewRemoteRef("origin", b), dd.Ddb, destDB, cm, nil)
			}
		}
	} else {
		g, err := newGateCS(csOf(dd.Ddb))
		if err != nil {
			return nil, err
		}
		destDB, err := doltdb.DoltDBFromCS(g, p)
		if err != nil {
			return nil, err
		}
		run.g = g
		if w.bd.Tfsz > 0 {
			fn = func() error { return fetchTiny(bg, tmp, w.bd.Tfsz, rdb, destDB) }
		} else {
			remotes, err := dd.Rsr.GetRemotes()
			if err != nil {
				return nil, err
			}
			rem, ok := remotes.Get("origin")
			if !ok {
				return nil, fmt.Errorf("client %s has no remote origin", p)
			}
			specs, dflt, err := env.ParseRefSpecs[*sql.Context](nil, dd.Rsr, rem)
			if err != nil {
				return nil, err
			}
			dd2 := env.DbData[*sql.Context]{Ddb: destDB, Rsw: dd.Rsw, Rsr: dd.Rsr}
			fn = func() error {
				return actions.FetchRefSpecs(bg, dd2, rdb, specs, dflt, &rem, ref.UpdateMode{Force: true}, nil)
			}
		}
	}
	run.g.failW, run.g.failA, run.g.failC, run.g.gateA, run.g.gateC = fp.failW, fp.failA, fp.failC, fp.gateA, fp.gateC
	go func() {
		defer func() {
			if r := recover(); r != nil {
				run.done <- fmt.Errorf("PANIC in transfer: %v", r)
			}
		}()
		run.done <- fn()
	}()
	return run, nil
}

// advance waits until the goroutine of run is blocked at a gate or has returned
func (e *engine) advance(run *procRun) string {
	if run.finished {
		return "done"
	}
	if run.pending != nil {
		return run.pending.kind
	}
	select {
	case m := <-run.g.arrive:
		run.pending = m
		return m.kind
	case err := <-run.done:
		run.finished = true
		run.err = err
		run.cleanup()
		return "done"
	case <-time.After(gateTimeout):
		return "timeout"
	}
}

func (e *engine) release(run *procRun, fail bool) {
	m := run.pending
	run.pending = nil
	m.release <- fail
}

// abandon lets every goroutine still in flight die (end of case / failure): nothing may touch the directories afterwards
func (e *engine) abandon() {
	for p, run := range e.run {
		for i := 0; i < 50 && !run.finished; i++ {
			if run.pending != nil {
				e.release(run, true)
			}
			if e.advance(run) == "timeout" {
				break
			}
		}
		delete(e.run, p)
	}
}

type interruptPlan struct {
	found   bool
	pc      string
	sent, n int
	idx     int
}

// lookahead: how does the attempt of client p that starts at step i end?  (the behaviour is the schedule; it is known)
func (e *engine) lookahead(p string, i int) interruptPlan {
	for j := i + 1; j < len(e.steps); j++ {
		st := obj(e.steps[j])
		if str(st["p"]) != p {
			continue
		}
		a := str(st["a"])
		switch a {
		case "TInterrupt":
			ar := obj(st["args"])
			return interruptPlan{found: true, pc: str(ar["pc"]), sent: common.Int(ar["sent"]), n: common.Int(ar["n"]), idx: common.Int(ar["idx"])}
		case "TUpload", "TAddFiles", "TRefRead", "TEdit", "TCas", "TFRef":
			if r := str(st["res"]); r == "mergeneeded" || r == "err:refcheck" {
				return interruptPlan{}
			}
			continue
		default:
			return interruptPlan{}
		}
	}
	return interruptPlan{}
}

func harnessFail(step int, a, what string) common.Result {
	return common.Result{"ok": false, "fp": "harness:" + what, "harness": true, "step": step, "step_action": a, "detail": fmt.Sprintf("step %d (%s): %s", step, a, what)}
}

func (e *engine) gateMismatch(a string, want string, run *procRun, where string) common.Result {
	got := where
	if run != nil && run.finished {
		got = "returned: " + classifyErr(run.err)
		if run.err != nil {
			got += " (" + run.err.Error() + ")"
		}
	}
	return common.Fail(e.step, a, "position of the transferring goroutine", want, got)
}

// checkFresh: r reopened from its directory right now shows the model's refs of r with complete closures
func (e *engine) checkFresh(a string, exp *expProj) common.Result {
	w := e.w
	ddb, done, err := w.freshRemoteDB()
	if err != nil {
		return common.Fail(e.step, a, "r does not reopen", "opens", err.Error())
	}
	defer done()
	v, err := viewOf(ddb)
	if err != nil {
		return common.Fail(e.step, a, "refs of reopened r", "readable", err.Error())
	}
	es := exp.St["r"]
	if g := w.idMap(v.Head); !sameIDs(es.Head, g) {
		return common.Fail(e.step, a, "branch heads of reopened r", es.Head, g)
	}
	if g := w.idMap(v.Tag); !sameIDs(es.Tag, g) {
		return common.Fail(e.step, a, "tags of reopened r", es.Tag, g)
	}
	for _, m := range []map[string]string{v.Head, v.TagAddr} {
		for _, h := range m {
			if err := w.checkClosure("r", ddb, h, false); err != nil {
				return common.Fail(e.step, a, "closure of a ref of reopened r", "complete closure identical to the source", err.Error())
			}
		}
	}
	return nil
}

func (e *engine) procStep(st map[string]any, a, p, res string, args map[string]any, exp *expProj) common.Result {
	w := e.w
	run := e.run[p]
	after := func() common.Result {
		// between two gates the real goroutine runs by itself: when the behaviour's next step is such a self-step of the same
		// client (the model forces that atomicity with `hold`), the real state is already that of the end of the segment
		if e.step+1 < len(e.steps) {
			nx := obj(e.steps[e.step+1])
			switch str(nx["a"]) {
			case "TUpload", "TRefRead", "TEdit", "TTrack", "TFRef", "TFTags":
				if str(nx["p"]) == p {
					e.note(a, res, st)
					return nil
				}
			}
		}
		if f := w.compare(e.step, a, exp); f != nil {
			return f
		}
		e.note(a, res, st)
		e.prev = exp
		return nil
	}
	switch a {
	case "TPush", "TPushForce", "TFetch":
		if run != nil {
			return harnessFail(e.step, a, "client already has a transfer in flight")
		}
		kind, b, force := "push", str(args["b"]), a == "TPushForce"
		if a == "TFetch" {
			kind, b, force = "fetch", "", true
		}
		if res != "started" { // returns at once: up to date / rejected
			r, err := e.start(p, kind, b, force, faultPlan{})
			if err != nil {
				return harnessFail(e.step, a, "cannot start: "+err.Error())
			}
			if wh := e.advance(r); wh != "done" {
				e.run[p] = r
				return e.gateMismatch(a, "returned: "+res, r, wh)
			}
			if got := classifyErr(r.err); got != res {
				return common.Fail(e.step, a, "outcome", res, got+errText(r.err))
			}
			w.evals++
			return after()
		}
		plan := e.lookahead(p, e.step)
		if plan.found && plan.pc == "upload" {
			// the attempt dies during its uploads: realise it (amplified: at several file boundaries, one attempt each; every
			// one of them must leave the model's state, which is the state before the attempt)
			ks := []int{plan.sent + 1}
			for k := 1; len(ks) < w.bd.Sweep; k++ {
				if k != plan.sent+1 {
					ks = append(ks, k)
				}
			}
			for _, k := range ks {
				r, err := e.start(p, kind, b, force, faultPlan{failW: k})
				if err != nil {
					return harnessFail(e.step, a, "cannot start: "+err.Error())
				}
				if wh := e.advance(r); wh != "done" {
					e.run[p] = r
					return e.gateMismatch(a, "returned: interrupted", r, wh)
				}
				if got := classifyErr(r.err); got != "interrupted" {
					return common.Fail(e.step, a, "outcome of a transfer whose WriteTableFile #"+fmt.Sprint(k)+" fails", "interrupted", got+errText(r.err))
				}
				w.evals++
				e.crit["faultpoints"]++
				if f := w.compare(e.step, a, exp); f != nil {
					f["fp"] = fmt.Sprint(f["fp"]) + ":after-interrupt"
					return f
				}
				if kind == "push" {
					if f := e.checkFresh(a, exp); f != nil {
						return f
					}
				}
				fired := r.g.fired
				if fired == "A" { // the real transfer has fewer files than k: every later k is this same point
					break
				}
			}
			e.run[p] = &procRun{p: p, kind: kind, finished: true, swept: true, err: errInjected}
			return after()
		}
		fp := faultPlan{gateA: true, gateC: kind == "push"}
		if plan.found && plan.pc == "fref" {
			fp.failC = 1
		}
		r, err := e.start(p, kind, b, force, fp)
		if err != nil {
			return harnessFail(e.step, a, "cannot start: "+err.Error())
		}
		e.run[p] = r
		if wh := e.advance(r); wh == "timeout" {
			return harnessFail(e.step, a, "timeout")
		}
		return after()
	case "TUpload", "TFRef":
		if run == nil {
			return harnessFail(e.step, a, "no transfer in flight")
		}
		return after()
	case "TAddFiles":
		if run == nil || run.pending == nil || run.pending.kind != "addfiles" {
			return e.gateMismatch(a, "blocked at AddTableFilesToManifest", run, where(run))
		}
		e.release(run, false)
		if wh := e.advance(run); wh == "timeout" {
			return harnessFail(e.step, a, "timeout")
		}
		if res != "ok" && !(run.finished && run.err != nil) {
			return common.Fail(e.step, a, "outcome", res, "AddTableFilesToManifest accepted the files")
		}
		if res != "ok" {
			delete(e.run, p)
		}
		return after()
	case "TRefRead", "TEdit":
		if run == nil {
			return harnessFail(e.step, a, "no transfer in flight")
		}
		switch res {
		case "mergeneeded":
			if !run.finished {
				return e.gateMismatch(a, "returned: mergeneeded", run, where(run))
			}
			if got := classifyErr(run.err); got != "mergeneeded" {
				return common.Fail(e.step, a, "outcome", res, got+errText(run.err))
			}
			delete(e.run, p)
		case "ok":
			if a == "TEdit" && !run.idem && (run.pending == nil || run.pending.kind != "cas") {
				return e.gateMismatch(a, "blocked at ChunkStore.Commit", run, where(run))
			}
		}
		w.evals++
		return after()
	case "TCas":
		if run != nil && run.idem {
			if res != "ok" {
				return common.Fail(e.step, a, "compare-and-swap after an idempotent success", res, "the real call already returned success")
			}
			return after()
		}
		if run == nil || run.pending == nil || run.pending.kind != "cas" {
			return e.gateMismatch(a, "blocked at ChunkStore.Commit", run, where(run))
		}
		n0 := len(run.g.casLog)
		e.release(run, false)
		if wh := e.advance(run); wh == "timeout" {
			return harnessFail(e.step, a, "timeout")
		}
		run.g.mu.Lock()
		lg := append([]bool{}, run.g.casLog...)
		run.g.mu.Unlock()
		if len(lg) != n0+1 {
			return common.Fail(e.step, a, "ChunkStore.Commit", "one call reaching the store", fmt.Sprint(lg))
		}
		if lg[n0] && res == "retry" {
			// content addressing: when the other client has just installed EXACTLY the root (and table files) this client was
			// about to install, a NomsBlockStore finds the manifest it wanted already in place and reports success without a
			// retry round. The model retries and then installs the same root: same state either way (and a lost update of the
			// other client would show in the refs compared after the following steps).
			run.idem = true
			e.crit["idempotent_cas"]++
			if e.lookahead(p, e.step).found {
				// the model goes on to interrupt this attempt before its (second) compare-and-swap, the real call has already
				// returned: this schedule cannot be followed any further on this store; the behaviour ends here
				e.stop = true
				e.prev = nil
				return nil
			}
		} else if lg[n0] != (res == "ok") {
			return common.Fail(e.step, a, "result of the compare-and-swap on the store root", res, fmt.Sprint(lg[n0]))
		}
		w.evals++
		return after()
	case "TTrack", "TFTags":
		if run == nil {
			return harnessFail(e.step, a, "no transfer in flight")
		}
		// FetchFollowTags transfers every followed tag with its own PullChunks: its AddTableFilesToManifest calls belong to
		// this (atomic) model step, not to the gate of the main walk
		for a == "TFTags" && !run.finished && run.pending != nil && run.pending.kind == "addfiles" {
			e.release(run, false)
			if wh := e.advance(run); wh == "timeout" {
				return harnessFail(e.step, a, "timeout")
			}
		}
		if !run.finished {
			if wh := e.advance(run); wh != "done" {
				return e.gateMismatch(a, "returned: ok", run, wh)
			}
		}
		if got := classifyErr(run.err); got != "ok" {
			return common.Fail(e.step, a, "outcome", "ok", got+errText(run.err))
		}
		delete(e.run, p)
		w.evals++
		return after()
	case "TInterrupt":
		if run == nil {
			return harnessFail(e.step, a, "no transfer in flight")
		}
		pc := str(args["pc"])
		if !run.swept {
			switch pc {
			case "addfiles":
				if run.pending == nil || run.pending.kind != "addfiles" {
					return e.gateMismatch(a, "blocked at AddTableFilesToManifest", run, where(run))
				}
				e.release(run, true)
			case "cas":
				if run.pending == nil || run.pending.kind != "cas" {
					return e.gateMismatch(a, "blocked at ChunkStore.Commit", run, where(run))
				}
				e.release(run, true)
			case "fref":
				// the plan (first Commit on the destination fails) was installed at the start
			default:
				return harnessFail(e.step, a, "interruption at pc "+pc+" is not realisable")
			}
			if wh := e.advance(run); wh != "done" {
				return e.gateMismatch(a, "returned: interrupted", run, wh)
			}
			if got := classifyErr(run.err); got != "interrupted" {
				return common.Fail(e.step, a, "outcome", "interrupted", got+errText(run.err))
			}
			e.crit["faultpoints"]++
		}
		kind := run.kind
		delete(e.run, p)
		w.evals++
		if f := after(); f != nil {
			return f
		}
		if kind == "push" {
			return e.checkFresh(a, exp)
		}
		return nil
	}
	return common.Result{"ok": false, "fp": "harness:unknown-action", "harness": true, "detail": "unknown action " + a}
}

func where(run *procRun) string {
	switch {
	case run == nil:
		return "no transfer in flight"
	case run.pending != nil:
		return "blocked at gate " + run.pending.kind
	case run.finished:
		return "returned"
	}
	return "running"
}

func errText(err error) string {
	if err == nil {
		return ""
	}
	return " (" + err.Error() + ")"
}
