// Package libbp: code shared between the in-package engine "dirlock" (parent, /verif/inpkg/store/nbs/dirlock) and its
// child processes (/verif/harness/dirlockchild): the binding of model values to chunks and the command protocol.
// (Must not import nbs: the in-package engine is compiled into package nbs itself.)
package libbp

import (
	"context"
	"crypto/sha512"
	"fmt"

	"github.com/dolthub/dolt/go/store/chunks"
	"github.com/dolthub/dolt/go/store/hash"
)

const DlMaxChunks = 8

// DlBinding maps the model's writes to concrete chunks and chooses the concrete shape of the faults.
type DlBinding struct {
	Seed   int64  `json:"seed"`
	PaySz  int    `json:"paysz"`  // payload size of chunk c_i
	Filler int    `json:"filler"` // extra chunks written together with c_1 (amplification: > 16384 crosses journalIndexDefaultMaxNovel)
	Torn   string `json:"torn"`   // partial | zeros | badcrc | hugelen
	BadIdx string `json:"badidx"` // garbage | ahead | badcrc | wrongroot
}

// DlChunk is chunk c_i of the behaviour (its hash is root r_i).
func DlChunk(b DlBinding, i int) chunks.Chunk {
	n := b.PaySz
	if n <= 0 {
		n = 1
	}
	out := make([]byte, 0, n+64)
	ctr := 0
	for len(out) < n {
		s := sha512.Sum512([]byte(fmt.Sprintf("verif-c41-%d-%d-%d", b.Seed, i, ctr)))
		out = append(out, s[:]...)
		ctr++
	}
	out[0] = byte(i) // distinct chunks even for 1-byte payloads
	return chunks.NewChunk(out[:n])
}

func DlFiller(b DlBinding, k int) chunks.Chunk {
	s := sha512.Sum512([]byte(fmt.Sprintf("verif-c41-filler-%d-%d", b.Seed, k)))
	return chunks.NewChunk(s[:24])
}

func DlNoAddrs(c chunks.Chunk) chunks.InsertAddrsCb {
	return func(ctx context.Context, addrs hash.HashSet, exists chunks.PendingRefExists) error { return nil }
}

type DlCmd struct {
	Op  string     `json:"op"`
	Opt string     `json:"opt,omitempty"`
	I   int        `json:"i,omitempty"`
	Dir string     `json:"dir,omitempty"` // open: the database directory
	B   *DlBinding `json:"b,omitempty"`   // open: the binding of this behaviour
	Tag string     `json:"tag"`           // marker written to the syscall log when the command is finished
}

type DlResp struct {
	Pid   int    `json:"pid,omitempty"`
	Res   string `json:"res"`
	Mode  string `json:"mode"`
	Root  string `json:"root,omitempty"`
	Vis   []int  `json:"vis,omitempty"`
	Warn  bool   `json:"warn"`
	Warns string `json:"warns,omitempty"`
	Err   string `json:"err,omitempty"`
	Bad   string `json:"bad,omitempty"` // a read returned wrong bytes etc.
}
