// Engine E6 "commitgraph": drives the REAL dolt commit graph code (datas commits, parent closures, merge bases,
// ancestor specs, fast-forward checks, ref-name validators, commit-spec parsing) with cases computed by TLC from
// /verif/spec/CommitGraph.tla and /verif/spec/RefNames.tla. Every expected value is read from the case; this
// program only binds model commits/characters to concrete ones and compares.
//
// modes:  dag    one case = one DAG (GraphRec of CommitGraph.tla) + binding
//
//	hist   one case = one history (steps + final GraphRec) + binding
//	names  one case = a batch of RefNames.tla records + binding
package main

import (
	"context"
	"errors"
	"fmt"
	"io"
	"os"
	"reflect"
	"sort"
	"strings"
	"sync/atomic"
	"time"
	"unsafe"

	"github.com/dolthub/dolt/go/gen/fb/serial"
	"github.com/dolthub/dolt/go/libraries/doltcore/doltdb"
	"github.com/dolthub/dolt/go/libraries/doltcore/merge"
	"github.com/dolthub/dolt/go/libraries/doltcore/ref"
	"github.com/dolthub/dolt/go/store/chunks"
	"github.com/dolthub/dolt/go/store/datas"
	"github.com/dolthub/dolt/go/store/hash"
	"github.com/dolthub/dolt/go/store/prolly"
	"github.com/dolthub/dolt/go/store/prolly/message"
	"github.com/dolthub/dolt/go/store/prolly/tree"
	"github.com/dolthub/dolt/go/store/types"
	"github.com/dolthub/dolt/go/zz_verif/common"
	"github.com/dolthub/dolt/go/zz_verif/sqlh"
)

var ctx = context.Background()

func must(err error) {
	if err != nil {
		panic(err)
	}
}

// ------------------------------------------------------------------------------------------------ world

// world = one database in which DAGs are built. mem: fresh in-memory store per case. disk: one on-disk repository
// per engine process, shared by all its cases, with an in-process SQL engine on top.
type world struct {
	storage *chunks.MemoryStorage
	ddb     *doltdb.DoltDB
	db      datas.Database
	vrw     types.ValueReadWriter
	ns      tree.NodeStore
	val     types.Value
	valHash hash.Hash
	srv     *sqlh.Server
	sess    *sqlh.Session
	dir     string
	fault   *faultStore
}

func (w *world) initRoot() {
	rv, err := doltdb.EmptyRootValue(ctx, w.vrw, w.ns)
	must(err)
	rv, h, err := w.ddb.WriteRootValue(ctx, rv)
	must(err)
	w.val = rv.NomsValue()
	w.valHash = h
}

// faultStore fails reads of one chosen chunk while armed (a transient I/O error / dropped remote connection).
type faultStore struct {
	chunks.ChunkStore
	bad   hash.Hash
	armed atomic.Bool
	hits  atomic.Int32
}

var errInjected = errors.New("verif: injected read fault")

func (f *faultStore) Get(ctx context.Context, h hash.Hash) (chunks.Chunk, error) {
	if f.armed.Load() && h == f.bad {
		f.hits.Add(1)
		return chunks.EmptyChunk, errInjected
	}
	return f.ChunkStore.Get(ctx, h)
}

func (f *faultStore) GetMany(ctx context.Context, hashes hash.HashSet, found func(context.Context, *chunks.Chunk)) error {
	if f.armed.Load() && hashes.Has(f.bad) {
		f.hits.Add(1)
		return errInjected
	}
	return f.ChunkStore.GetMany(ctx, hashes, found)
}

func newMemWorld() *world {
	st := &chunks.MemoryStorage{}
	fs := &faultStore{ChunkStore: st.NewViewWithFormat(types.Format_DOLT.VersionString())}
	var cs chunks.ChunkStore = fs
	ddb, err := doltdb.DoltDBFromCS(cs, "verif")
	must(err)
	w := &world{storage: st, fault: fs, ddb: ddb, db: doltdb.ExposeDatabaseFromDoltDB(ddb), vrw: ddb.ValueReadWriter(), ns: ddb.NodeStore()}
	w.initRoot()
	return w
}

var diskWorld *world
var diskSeq int
var diskPending []pendingReread // commits written since the last GC (disk world)

type pendingReread struct {
	tag     string
	addr    hash.Hash
	height  uint64
	parents []hash.Hash
	closure []ckey
}

func getDiskWorld() *world {
	if diskWorld != nil {
		return diskWorld
	}
	parent, err := os.MkdirTemp(os.Getenv("VERIF_WORK"), "cg-repo-")
	must(err)
	srv, err := sqlh.NewRepoServer(parent, "cgdb")
	must(err)
	ddb := srv.DEnv.DoltDB(ctx)
	w := &world{ddb: ddb, db: doltdb.ExposeDatabaseFromDoltDB(ddb), vrw: ddb.ValueReadWriter(), ns: ddb.NodeStore(), srv: srv, dir: parent}
	w.initRoot()
	w.sess, err = srv.NewSession("s")
	must(err)
	diskWorld = w
	return w
}

// ------------------------------------------------------------------------------------------------ case decoding

type graph struct {
	n     int
	par   [][]int
	ht    []int
	clo   [][][2]int
	hca   [][][]int
	ff    [][]string
	specs []string
	walk  [][]int
}

func ints2(v any) [][]int {
	a := v.([]any)
	out := make([][]int, len(a))
	for i := range a {
		out[i] = common.Ints(a[i])
	}
	return out
}

func decodeGraph(g map[string]any) *graph {
	r := &graph{n: common.Int(g["n"])}
	r.par = ints2(g["par"])
	r.ht = common.Ints(g["ht"])
	for _, c := range g["clo"].([]any) {
		var ks [][2]int
		for _, k := range c.([]any) {
			p := common.Ints(k)
			ks = append(ks, [2]int{p[0], p[1]})
		}
		r.clo = append(r.clo, ks)
	}
	if g["hca"] == nil {
		return r
	}
	for _, row := range g["hca"].([]any) {
		r.hca = append(r.hca, ints2(row))
	}
	for _, row := range g["ff"].([]any) {
		var ss []string
		for _, x := range row.([]any) {
			ss = append(ss, x.(string))
		}
		r.ff = append(r.ff, ss)
	}
	if g["specs"] != nil {
		for _, x := range g["specs"].([]any) {
			r.specs = append(r.specs, x.(string))
		}
		r.walk = ints2(g["walk"])
	}
	return r
}

type binding struct {
	seed    int
	route   string // "ds" (datas Commit on a fresh dataset), "dangling" (DoltDB.CommitDanglingWithParentCommits), "mixed"
	store   string // "mem" | "disk"
	gc      bool   // disk: run dolt_gc() after this case and re-read everything written since the last GC
	names   []nameBinding
	tag     string
	onlyC18 bool
	onlyC19 bool
	amp     int  // amplification: every model edge is realised as a chain of amp filler commits
	fault   bool // amplified: fail the read of one closure chunk of the second parent while a merge commit is written
}

type nameBinding struct {
	name string
	kind string // "branch" | "tag" | "head"
}

func decodeBinding(c map[string]any) binding {
	b := binding{route: "mixed", store: "mem"}
	bm, _ := c["binding"].(map[string]any)
	if bm == nil {
		return b
	}
	if v, ok := bm["seed"]; ok {
		b.seed = common.Int(v)
	}
	if v, ok := bm["route"].(string); ok {
		b.route = v
	}
	if v, ok := bm["store"].(string); ok {
		b.store = v
	}
	if v, ok := bm["gc"].(bool); ok {
		b.gc = v
	}
	if v, ok := bm["amp"]; ok {
		b.amp = common.Int(v)
	}
	if v, ok := bm["fault"].(bool); ok {
		b.fault = v
	}
	if v, ok := bm["names"].([]any); ok {
		for k, x := range v {
			m := x.(map[string]any)
			nm, _ := m["name"].(string)
			if m["chars"] != nil {
				// a name given as model characters (a RefNames.tla string): bound here like in names mode
				nm = bindChars(m["chars"], substitution(b.seed+k*5))
			}
			b.names = append(b.names, nameBinding{nm, m["kind"].(string)})
		}
	}
	switch os.Getenv("VERIF_ONLY") {
	case "c18":
		b.onlyC18 = true
	case "c19":
		b.onlyC19 = true
	}
	return b
}

// ------------------------------------------------------------------------------------------------ building commits

type ckey struct {
	h    uint64
	addr hash.Hash
}

type built struct {
	w     *world
	g     *graph
	b     binding
	addr  []hash.Hash       // 1-based
	dc    []*datas.Commit   // 1-based
	cm    []*doltdb.Commit  // 1-based
	id    map[hash.Hash]int // address -> model commit
	evals int
	// amplified binding (DESIGN 3.1): chain[child,parent] = filler commits between the real parent and the real child
	chains map[[2]int][]ckey
	tips   map[int][]hash.Hash
	// fault injection bookkeeping
	faultTried, faultHit, faultCommitFailed int
	afterFault                              bool
}

func meta(tag string, i int, seed int) *datas.CommitMeta {
	t := time.Unix(1700000000+int64(seed%1000)*100+int64(i), 0)
	id := datas.CommitIdent{Name: "verif", Email: "verif@example.com", Date: datas.CommitDateAt(t)}
	m, err := datas.NewCommitMetaWithAuthorCommitter(id, id, fmt.Sprintf("verif %s commit %d seed %d", tag, i, seed))
	must(err)
	return m
}

func internalRef(tag string, i int) ref.DoltRef {
	return ref.NewInternalRef(fmt.Sprintf("verif/%s/c%d", tag, i))
}

// addCommit creates model commit i with the given model parents through one of the real creation routes.
func (bt *built) addCommit(i int, parents []int) error {
	w := bt.w
	var paddrs []hash.Hash
	for _, p := range parents {
		paddrs = append(paddrs, bt.addr[p])
	}
	m := meta(bt.b.tag, i, bt.b.seed)
	route := bt.b.route
	if route == "mixed" {
		if (i+bt.b.seed)%2 == 0 {
			route = "ds"
		} else {
			route = "dangling"
		}
	}
	var addr hash.Hash
	if len(parents) == 0 || route == "ds" {
		// datas.Database.Commit on a fresh dataset: explicit parent list, duplicates allowed
		ds, err := w.db.GetDataset(ctx, internalRef(bt.b.tag, i).String())
		if err != nil {
			return err
		}
		ds, err = w.db.Commit(ctx, ds, w.val, datas.CommitOptions{Parents: paddrs, Meta: m})
		if err != nil {
			return err
		}
		a, ok := ds.MaybeHeadAddr()
		if !ok {
			return errors.New("dataset has no head after Commit")
		}
		addr = a
	} else {
		var pcs []*doltdb.Commit
		for _, p := range parents {
			pcs = append(pcs, bt.cm[p])
		}
		cm, err := w.ddb.CommitDanglingWithParentCommits(ctx, w.valHash, pcs, m)
		if err != nil {
			return err
		}
		addr, _ = cm.HashOf()
		if w.srv != nil {
			// keep it reachable (GC) through an internal ref
			if err := w.ddb.SetHead(ctx, internalRef(bt.b.tag, i), addr); err != nil {
				return err
			}
		}
	}
	return bt.register(i, addr)
}

func (bt *built) register(i int, addr hash.Hash) error {
	w := bt.w
	dc, err := datas.LoadCommitAddr(ctx, w.vrw, addr)
	if err != nil {
		return err
	}
	oc, err := w.ddb.ReadCommit(ctx, addr)
	if err != nil {
		return err
	}
	cm, ok := oc.ToCommit()
	if !ok {
		return errors.New("ReadCommit returned a ghost")
	}
	for len(bt.addr) <= i {
		bt.addr = append(bt.addr, hash.Hash{})
		bt.dc = append(bt.dc, nil)
		bt.cm = append(bt.cm, nil)
	}
	bt.addr[i], bt.dc[i], bt.cm[i] = addr, dc, cm
	if j, dup := bt.id[addr]; dup && j != i {
		return fmt.Errorf("binding error: commits %d and %d have the same address", i, j)
	}
	bt.id[addr] = i
	return nil
}

func newBuilt(w *world, g *graph, b binding) *built {
	return &built{w: w, g: g, b: b, addr: []hash.Hash{{}}, dc: []*datas.Commit{nil}, cm: []*doltdb.Commit{nil}, id: map[hash.Hash]int{}}
}

func (bt *built) name(h hash.Hash) any {
	if i, ok := bt.id[h]; ok {
		return i
	}
	return "unknown:" + h.String()
}

// ------------------------------------------------------------------------------------------------ C18: metadata

func readClosure(cl prolly.CommitClosure) ([]ckey, error) {
	if cl.IsEmpty() {
		return nil, nil
	}
	it, err := cl.IterAllReverse(ctx)
	if err != nil {
		return nil, err
	}
	var out []ckey
	for {
		k, _, err := it.Next(ctx)
		if err != nil {
			if err == io.EOF {
				break
			}
			return nil, err
		}
		out = append(out, ckey{k.Height(), k.Addr()})
	}
	return out, nil
}

func lessKey(a, b ckey) bool {
	if a.h != b.h {
		return a.h < b.h
	}
	return a.addr.Less(b.addr)
}

// expectedClosure maps the TLC closure (pairs height, commit) to concrete keys, descending in the store's key order
// (height, then address bytes) - the order is part of what FindCommonAncestor relies on.
func (bt *built) expectedClosure(c int) []ckey {
	var out []ckey
	for _, k := range bt.g.clo[c-1] {
		out = append(out, ckey{uint64(k[0]), bt.addr[k[1]]})
	}
	sort.Slice(out, func(i, j int) bool { return lessKey(out[j], out[i]) })
	return out
}

func (bt *built) showKeys(ks []ckey) []any {
	var out []any
	for _, k := range ks {
		out = append(out, []any{k.h, bt.name(k.addr)})
	}
	return out
}

func keysEq(a, b []ckey) bool {
	if len(a) != len(b) {
		return false
	}
	for i := range a {
		if a[i] != b[i] {
			return false
		}
	}
	return true
}

func (bt *built) checkMeta(c int, via string, dc *datas.Commit, cm *doltdb.Commit, vrw types.ValueReadWriter, ns tree.NodeStore) common.Result {
	g := bt.g
	act := "Meta(" + via + ")"
	// address
	if dc.Addr() != bt.addr[c] {
		return common.Fail(c, act, "address changed", bt.addr[c].String(), dc.Addr().String())
	}
	rh, err := dc.NomsValue().Hash(vrw.Format())
	must(err)
	if rh != bt.addr[c] {
		return common.Fail(c, act, "address is not the hash of the stored value", bt.addr[c].String(), rh.String())
	}
	// height
	if int(dc.Height()) != g.ht[c-1] {
		return common.Fail(c, act, "datas.Commit.Height", g.ht[c-1], dc.Height())
	}
	bt.evals += 3
	if cm != nil {
		h, _ := cm.Height()
		if int(h) != g.ht[c-1] {
			return common.Fail(c, act, "doltdb.Commit.Height", g.ht[c-1], h)
		}
		if cm.NumParents() != len(g.par[c-1]) {
			return common.Fail(c, act, "doltdb.Commit.NumParents", len(g.par[c-1]), cm.NumParents())
		}
		phs, _ := cm.ParentHashes(ctx)
		for i, p := range g.par[c-1] {
			if phs[i] != bt.addr[p] {
				return common.Fail(c, act, "doltdb.Commit.ParentHashes", g.par[c-1], bt.names(phs))
			}
		}
		for i, p := range g.par[c-1] {
			oc, err := cm.GetParent(ctx, i)
			if err != nil || oc.Addr != bt.addr[p] {
				return common.Fail(c, act, fmt.Sprintf("doltdb.Commit.GetParent(%d)", i), p, fmt.Sprint(err, oc))
			}
			pc, _ := oc.ToCommit()
			ph, _ := pc.Height()
			if int(ph) != g.ht[p-1] {
				return common.Fail(c, act, fmt.Sprintf("height of GetParent(%d)", i), g.ht[p-1], ph)
			}
		}
		bt.evals += 3 + len(g.par[c-1])
	}
	// parent list (order and duplicates preserved), parent heights as seen through the child
	ps, err := datas.GetCommitParents(ctx, vrw, dc.NomsValue())
	if err != nil {
		return common.Fail(c, act, "GetCommitParents error", "ok", err.Error())
	}
	var got []hash.Hash
	for _, p := range ps {
		got = append(got, p.Addr())
	}
	if len(got) != len(g.par[c-1]) {
		return common.Fail(c, act, "parent list", g.par[c-1], bt.names(got))
	}
	for i, p := range g.par[c-1] {
		if got[i] != bt.addr[p] || int(ps[i].Height()) != g.ht[p-1] {
			return common.Fail(c, act, "parent list", g.par[c-1], bt.names(got))
		}
	}
	bt.evals++
	// closure: exact contents with heights, in iteration order; Count; ContainsKey for every commit of the DAG
	cl, err := datas.NewParentsClosure(ctx, dc, dc.NomsValue().(types.SerialMessage), vrw, ns)
	if err != nil {
		return common.Fail(c, act, "NewParentsClosure error", "ok", err.Error())
	}
	gotKeys, err := readClosure(cl)
	if err != nil {
		return common.Fail(c, act, "closure iteration error", "ok", err.Error())
	}
	want := bt.expectedClosure(c)
	if !keysEq(gotKeys, want) {
		return common.Fail(c, act, "closure contents", bt.showKeys(want), bt.showKeys(gotKeys))
	}
	bt.evals++
	if cl.IsEmpty() != (len(g.par[c-1]) == 0) {
		return common.Fail(c, act, "closure emptiness", len(g.par[c-1]) == 0, cl.IsEmpty())
	}
	if !cl.IsEmpty() {
		cnt, err := cl.Count()
		must(err)
		if cnt != len(want) {
			return common.Fail(c, act, "closure Count", len(want), cnt)
		}
		in := map[int]bool{}
		for _, k := range g.clo[c-1] {
			in[k[1]] = true
		}
		for x := 1; x <= g.n && x < len(bt.addr); x++ {
			ok, err := cl.ContainsKey(ctx, bt.addr[x], uint64(g.ht[x-1]))
			must(err)
			if ok != in[x] {
				return common.Fail(c, act, fmt.Sprintf("closure ContainsKey(c%d)", x), in[x], ok)
			}
			// same address under a wrong height is not a member
			ok2, err := cl.ContainsKey(ctx, bt.addr[x], uint64(g.ht[x-1]+1))
			must(err)
			if ok2 {
				return common.Fail(c, act, fmt.Sprintf("closure ContainsKey(c%d, wrong height)", x), false, ok2)
			}
		}
		hs, err := cl.AsHashSet(ctx)
		must(err)
		if len(hs) != len(want) {
			return common.Fail(c, act, "closure AsHashSet size", len(want), len(hs))
		}
		for h := 1; h <= g.ht[c-1]; h++ {
			it, err := cl.IterHeight(ctx, uint64(h))
			must(err)
			n := 0
			for {
				k, _, err := it.Next(ctx)
				if err != nil {
					break
				}
				if int(k.Height()) != h {
					return common.Fail(c, act, "IterHeight yields another height", h, k.Height())
				}
				n++
			}
			wn := 0
			for _, k := range g.clo[c-1] {
				if k[0] == h {
					wn++
				}
			}
			if n != wn {
				return common.Fail(c, act, fmt.Sprintf("IterHeight(%d) count", h), wn, n)
			}
		}
		bt.evals += 3 + g.n + g.ht[c-1]
	}
	if cm != nil {
		cl2, err := cm.GetCommitClosure(ctx)
		if err != nil {
			return common.Fail(c, act, "GetCommitClosure error", "ok", err.Error())
		}
		k2, err := readClosure(cl2)
		if err != nil || !keysEq(k2, want) {
			return common.Fail(c, act, "doltdb closure contents", bt.showKeys(want), bt.showKeys(k2))
		}
		bt.evals++
	}
	// the transitive closure computed by walking parents (ref_closure.go) = closure + the commit itself
	sc, err := datas.NewSetCommitClosure(ctx, vrw, dc)
	must(err)
	lc := datas.NewLazyCommitClosure(dc, vrw)
	inAnc := map[int]bool{c: true}
	for _, k := range g.clo[c-1] {
		inAnc[k[1]] = true
	}
	for x := g.n; x >= 1; x-- {
		if x >= len(bt.dc) || bt.dc[x] == nil {
			continue
		}
		ok, err := sc.Contains(ctx, bt.dc[x])
		must(err)
		ok2, err := lc.Contains(ctx, bt.dc[x])
		must(err)
		if ok != inAnc[x] || ok2 != inAnc[x] {
			return common.Fail(c, act, fmt.Sprintf("Set/LazyCommitClosure.Contains(c%d)", x), inAnc[x], []bool{ok, ok2})
		}
		bt.evals += 2
	}
	return nil
}

func (bt *built) names(hs []hash.Hash) []any {
	var out []any
	for _, h := range hs {
		out = append(out, bt.name(h))
	}
	return out
}

// ------------------------------------------------------------------------------------------------ C19: merge bases

type hcaStats struct {
	multi, unrelated, tiesClosureMax, tiesClosureOther, tiesListMin, tiesListOther, routeDisagree int
}

func inSet(s []int, x int) bool {
	for _, y := range s {
		if x == y {
			return true
		}
	}
	return false
}

func (bt *built) route(name string, a, b int) (hash.Hash, bool, error) {
	w := bt.w
	switch name {
	case "datas.FindCommonAncestor":
		return datas.FindCommonAncestor(ctx, bt.dc[a], bt.dc[b], w.vrw, w.vrw, w.ns, w.ns)
	case "doltdb.GetCommitAncestor":
		oc, err := doltdb.GetCommitAncestor(ctx, bt.cm[a], bt.cm[b])
		if err == doltdb.ErrNoCommonAncestor {
			return hash.Hash{}, false, nil
		}
		if err != nil {
			return hash.Hash{}, false, err
		}
		if cmt, ok := oc.ToCommit(); ok {
			h, _ := cmt.HashOf()
			if h != oc.Addr {
				return hash.Hash{}, false, fmt.Errorf("OptionalCommit.Addr %s differs from its commit %s", oc.Addr, h)
			}
		}
		return oc.Addr, true, nil
	case "merge.MergeBase":
		h, err := merge.MergeBase(ctx, bt.cm[a], bt.cm[b])
		if err == doltdb.ErrNoCommonAncestor {
			return hash.Hash{}, false, nil
		}
		return h, err == nil, err
	case "FindClosureCommonAncestor(set)":
		cl, err := datas.NewSetCommitClosure(ctx, w.vrw, bt.dc[a])
		if err != nil {
			return hash.Hash{}, false, err
		}
		return datas.FindClosureCommonAncestor(ctx, cl, bt.dc[b], w.vrw)
	case "FindClosureCommonAncestor(lazy)":
		return datas.FindClosureCommonAncestor(ctx, datas.NewLazyCommitClosure(bt.dc[a], w.vrw), bt.dc[b], w.vrw)
	case "sql.dolt_merge_base":
		rows, err := w.sess.Query(fmt.Sprintf("select dolt_merge_base('%s','%s')", bt.addr[a], bt.addr[b]))
		if err != nil {
			if strings.Contains(err.Error(), doltdb.ErrNoCommonAncestor.Error()) {
				return hash.Hash{}, false, nil
			}
			return hash.Hash{}, false, err
		}
		h, ok := hash.MaybeParse(fmt.Sprint(rows[0][0]))
		if !ok {
			return hash.Hash{}, false, fmt.Errorf("dolt_merge_base returned %v", rows[0][0])
		}
		return h, true, nil
	}
	panic("unknown route " + name)
}

var symmetricRoutes = []string{"datas.FindCommonAncestor", "doltdb.GetCommitAncestor", "merge.MergeBase"}
var closureRoutes = []string{"FindClosureCommonAncestor(set)", "FindClosureCommonAncestor(lazy)"}

func (bt *built) checkHCA(st *hcaStats) common.Result {
	g := bt.g
	routes := append([]string{}, symmetricRoutes...)
	if bt.w.srv != nil {
		routes = append(routes, "sql.dolt_merge_base")
	}
	for a := 1; a <= g.n; a++ {
		for b := 1; b <= g.n; b++ {
			want := g.hca[a-1][b-1]
			if a <= b {
				if len(want) > 1 {
					st.multi++
				}
				if len(want) == 0 {
					st.unrelated++
				}
			}
			var first hash.Hash
			for ri, r := range append(append([]string{}, routes...), closureRoutes...) {
				act := "MergeBase(" + r + ")"
				h, ok, err := bt.route(r, a, b)
				if err != nil {
					return common.Fail(a*100+b, act, "error", want, err.Error())
				}
				bt.evals++
				if !ok {
					if len(want) != 0 {
						return common.Fail(a*100+b, act, fmt.Sprintf("no merge base reported although one exists (c%d,c%d)", a, b), want, "none")
					}
					continue
				}
				x, known := bt.id[h]
				if len(want) == 0 {
					return common.Fail(a*100+b, act, fmt.Sprintf("merge base reported although none exists (c%d,c%d)", a, b), "none", bt.name(h))
				}
				if !known || !inSet(want, x) {
					return common.Fail(a*100+b, act, fmt.Sprintf("merge base of (c%d,c%d) is not a highest common ancestor", a, b), want, bt.name(h))
				}
				// deterministic: the same call again gives the same answer
				h2, ok2, err := bt.route(r, a, b)
				if err != nil || !ok2 || h2 != h {
					return common.Fail(a*100+b, act, fmt.Sprintf("merge base of (c%d,c%d) not stable across repetitions", a, b), bt.name(h), bt.name(h2))
				}
				// independent of argument order (for the closure-walk routes the two arguments play different
				// roles, the statement still applies to the result)
				h3, ok3, err := bt.route(r, b, a)
				if err != nil || !ok3 || h3 != h {
					return common.Fail(a*100+b, act, fmt.Sprintf("merge base depends on argument order: (c%d,c%d) vs (c%d,c%d)", a, b, b, a), bt.name(h), bt.name(h3))
				}
				bt.evals += 2
				if ri == 0 {
					first = h
					if len(want) > 1 && a < b {
						// observation only (the statement does not fix the rule): closure walk = largest address
						mx := bt.addr[want[0]]
						for _, c := range want {
							if mx.Less(bt.addr[c]) {
								mx = bt.addr[c]
							}
						}
						if h == mx {
							st.tiesClosureMax++
						} else {
							st.tiesClosureOther++
						}
					}
				} else if ri < len(routes) && h != first {
					// all routes built on FindCommonAncestor must agree with it
					return common.Fail(a*100+b, act, fmt.Sprintf("routes disagree on the merge base of (c%d,c%d)", a, b), bt.name(first), bt.name(h))
				} else if h != first {
					st.routeDisagree++
				}
			}
		}
	}
	return nil
}

// ------------------------------------------------------------------------------------------------ C19: fast-forward

func ffClassOf(ok bool, err error) string {
	switch {
	case err == doltdb.ErrUpToDate && ok:
		return "uptodate"
	case err == nil && ok:
		return "ff"
	case err == doltdb.ErrIsAhead && !ok:
		return "ahead"
	case err == nil && !ok:
		return "diverged"
	case err == doltdb.ErrNoCommonAncestor && !ok:
		return "unrelated"
	}
	return fmt.Sprintf("?(%v,%v)", ok, err)
}

func frClassOf(ok bool, err error) string { // CanFastReverseTo, expressed in the class of the forward direction
	switch {
	case err == doltdb.ErrUpToDate && ok:
		return "uptodate"
	case err == nil && ok:
		return "ahead"
	case err == doltdb.ErrIsBehind && !ok:
		return "ff"
	case err == nil && !ok:
		return "diverged"
	case err == doltdb.ErrNoCommonAncestor && !ok:
		return "unrelated"
	}
	return fmt.Sprintf("?(%v,%v)", ok, err)
}

func (bt *built) checkFF(notes *[]string) common.Result {
	g, w := bt.g, bt.w
	br := ref.NewBranchRef("verif-ff-" + bt.b.tag)
	for a := 1; a <= g.n; a++ {
		for b := 1; b <= g.n; b++ {
			cls := g.ff[a-1][b-1]
			can := cls == "uptodate" || cls == "ff"
			step := a*100 + b
			ok, err := bt.cm[a].CanFastForwardTo(ctx, bt.cm[b])
			if ok != can {
				return common.Fail(step, "CanFastForwardTo", fmt.Sprintf("fast-forward check c%d -> c%d", a, b), cls, ffClassOf(ok, err))
			}
			if got := ffClassOf(ok, err); got != cls {
				*notes = append(*notes, fmt.Sprintf("CanFastForwardTo(c%d,c%d) classified %s, spec says %s", a, b, got, cls))
			}
			ok, err = bt.cm[a].CanFastReverseTo(ctx, bt.cm[b])
			rcan := cls == "uptodate" || cls == "ahead"
			if ok != rcan {
				return common.Fail(step, "CanFastReverseTo", fmt.Sprintf("fast-reverse check c%d -> c%d", a, b), cls, frClassOf(ok, err))
			}
			bt.evals += 2
			// through a branch: DoltDB.CanFastForward, DoltDB.FastForward (effect on the ref), datas FastForward
			must(w.ddb.SetHead(ctx, br, bt.addr[a]))
			ok, err = w.ddb.CanFastForward(ctx, br, bt.cm[b])
			if ok != can {
				return common.Fail(step, "DoltDB.CanFastForward", fmt.Sprintf("branch at c%d, target c%d", a, b), cls, ffClassOf(ok, err))
			}
			err = w.ddb.FastForward(ctx, br, bt.cm[b])
			if (err == nil) != can {
				return common.Fail(step, "DoltDB.FastForward", fmt.Sprintf("branch at c%d, target c%d", a, b), cls, fmt.Sprint(err))
			}
			if err != nil && !errors.Is(err, datas.ErrMergeNeeded) {
				return common.Fail(step, "DoltDB.FastForward", "unexpected error kind", "ErrMergeNeeded", err.Error())
			}
			hd, herr := w.ddb.ResolveCommitRef(ctx, br)
			must(herr)
			hh, _ := hd.HashOf()
			wantHead := a
			if can {
				wantHead = b
			}
			if hh != bt.addr[wantHead] {
				return common.Fail(step, "DoltDB.FastForward", fmt.Sprintf("branch head after fast-forward c%d -> c%d", a, b), wantHead, bt.name(hh))
			}
			bt.evals += 3
		}
	}
	_ = w.ddb.DeleteBranch(ctx, br, nil)
	return nil
}

// ------------------------------------------------------------------------------------------------ C19 / C44: ancestor specs

func (bt *built) resolveVia(route string, c int, base string, spec string, cwb ref.DoltRef) (hash.Hash, string) {
	w := bt.w
	switch route {
	case "GetAncestor":
		as, err := doltdb.NewAncestorSpec(spec)
		if err != nil {
			return hash.Hash{}, "parse"
		}
		oc, err := bt.cm[c].GetAncestor(ctx, as)
		if err != nil {
			return hash.Hash{}, "walk"
		}
		return oc.Addr, ""
	case "Resolve":
		cs, err := doltdb.NewCommitSpec(base + spec)
		if err != nil {
			return hash.Hash{}, "parse"
		}
		oc, err := w.ddb.Resolve(ctx, cs, cwb)
		if err != nil {
			return hash.Hash{}, "walk"
		}
		return oc.Addr, ""
	case "sql.dolt_hashof":
		rows, err := w.sess.Query(fmt.Sprintf("select dolt_hashof('%s')", base+spec))
		if err != nil {
			return hash.Hash{}, "err"
		}
		h, _ := hash.MaybeParse(fmt.Sprint(rows[0][0]))
		return h, ""
	}
	panic(route)
}

func (bt *built) checkWalks(routes []string, c int, base string, cwb ref.DoltRef, label string) common.Result {
	g := bt.g
	for si, spec := range g.specs {
		want := g.walk[c-1][si]
		for _, r := range routes {
			if r == "sql.dolt_hashof" && (bt.w.srv == nil) {
				continue
			}
			h, e := bt.resolveVia(r, c, base, spec, cwb)
			act := "AncestorSpec(" + r + ")"
			what := fmt.Sprintf("%s%s from c%d", label, spec, c)
			bt.evals++
			switch {
			case want > 0:
				if e != "" || h != bt.addr[want] {
					got := any("error:" + e)
					if e == "" {
						got = bt.name(h)
					}
					return common.Fail(c*1000+si, act, what, want, got)
				}
			case want == 0:
				if e == "" {
					return common.Fail(c*1000+si, act, what+" (no such ancestor)", "error", bt.name(h))
				}
			default:
				if e == "" {
					return common.Fail(c*1000+si, act, what+" (spec must be rejected)", "rejected", bt.name(h))
				}
				if e == "walk" && r == "GetAncestor" {
					return common.Fail(c*1000+si, act, what+" (spec must be rejected by the parser)", "parse error", "walk error")
				}
			}
		}
	}
	return nil
}

// ------------------------------------------------------------------------------------------------ amplified binding
// Every model edge (child -> parent) is realised as a chain of K filler commits, so that a model commit of height h is a real
// commit of height 1+(h-1)(K+1): heights cross byte boundaries of the closure key and closures grow to multi-level prolly
// trees. Expectations map mechanically: closure(real c) = images of the model closure of c plus the fillers of every edge that
// leaves c or one of its model ancestors; the merge base of two model commits is the image of the model merge base (real
// heights are a monotone function of model heights and every filler lies below the model commit whose edge it is on).

func (bt *built) ampHeight(c int) uint64 {
	return uint64(1 + (bt.g.ht[c-1]-1)*(bt.b.amp+1))
}

func (bt *built) buildAllAmp() common.Result {
	w, g, K := bt.w, bt.g, bt.b.amp
	bt.chains = map[[2]int][]ckey{}
	bt.tips = map[int][]hash.Hash{}
	for i := 1; i <= g.n; i++ {
		var tips []hash.Hash
		for _, p := range g.par[i-1] {
			key := [2]int{i, p}
			ch, done := bt.chains[key]
			if !done {
				prev := bt.cm[p]
				for j := 1; j <= K; j++ {
					id := datas.CommitIdent{Name: "verif", Email: "verif@example.com", Date: datas.CommitDateAt(time.Unix(1700000000+int64(j), 0))}
					m, err := datas.NewCommitMetaWithAuthorCommitter(id, id, fmt.Sprintf("filler %s edge %d-%d #%d seed %d", bt.b.tag, i, p, j, bt.b.seed))
					must(err)
					cm, err := w.ddb.CommitDanglingWithParentCommits(ctx, w.valHash, []*doltdb.Commit{prev}, m)
					if err != nil {
						return common.Fail(i, "AddCommit", "filler commit creation failed", "ok", err.Error())
					}
					h, _ := cm.HashOf()
					fh, _ := cm.Height()
					want := bt.ampHeight(p) + uint64(j)
					if fh != want {
						return common.Fail(i, "Meta(amplified)", fmt.Sprintf("height of filler %d on edge c%d->c%d", j, i, p), want, fh)
					}
					ch = append(ch, ckey{want, h})
					prev = cm
				}
				bt.chains[key] = ch
			}
			if len(ch) > 0 {
				tips = append(tips, ch[len(ch)-1].addr)
			} else {
				tips = append(tips, bt.addr[p])
			}
		}
		bt.tips[i] = tips
		ds, err := w.db.GetDataset(ctx, internalRef(bt.b.tag, i).String())
		must(err)
		bt.afterFault = false
		armed := false
		if bt.b.fault && !bt.b.onlyC19 && w.fault != nil && len(tips) >= 2 && tips[0] != tips[1] {
			armed = bt.armFault(tips[1])
		}
		ds, err = w.db.Commit(ctx, ds, w.val, datas.CommitOptions{Parents: tips, Meta: meta(bt.b.tag, i, bt.b.seed)})
		if armed {
			// fault action: the commit must fail cleanly (no head recorded; the retry is exact) or be exact - never succeed
			// with a truncated closure
			w.fault.armed.Store(false)
			bt.faultTried++
			if w.fault.hits.Load() > 0 {
				bt.faultHit++
				bt.afterFault = true
			}
			if err != nil {
				bt.faultCommitFailed++
				ds2, e2 := w.db.GetDataset(ctx, internalRef(bt.b.tag, i).String())
				must(e2)
				if _, has := ds2.MaybeHeadAddr(); has {
					return common.Fail(i, "AddCommit(read-fault)", "failed commit left a dataset head behind", "no head", "head")
				}
				w.ddb.PurgeCaches()
				ds, err = w.db.Commit(ctx, ds2, w.val, datas.CommitOptions{Parents: tips, Meta: meta(bt.b.tag, i, bt.b.seed)})
			}
			w.ddb.PurgeCaches()
		}
		if err != nil {
			return common.Fail(i, "AddCommit", "commit creation failed", g.par[i-1], err.Error())
		}
		a, _ := ds.MaybeHeadAddr()
		if err := bt.register(i, a); err != nil {
			return common.Fail(i, "AddCommit", "register", "ok", err.Error())
		}
		if !bt.b.onlyC19 {
			if r := bt.checkMetaAmp(i, "fresh"); r != nil {
				return r
			}
		}
	}
	return nil
}

// armFault: flush, pick a chunk in the middle of the closure tree of |tip| (only if that tree has >= 2 levels), drop all caches
// and arm the fault store for it.
func (bt *built) armFault(tip hash.Hash) bool {
	w := bt.w
	must(w.ddb.SetHead(ctx, ref.NewInternalRef("verif/"+bt.b.tag+"/flush"), tip))
	dc, err := datas.LoadCommitAddr(ctx, w.vrw, tip)
	must(err)
	cl, err := datas.NewParentsClosure(ctx, dc, dc.NomsValue().(types.SerialMessage), w.vrw, w.ns)
	must(err)
	if cl.IsEmpty() || cl.Height() < 2 {
		return false
	}
	var children []hash.Hash
	rootMsg := serial.Message(tree.ValueFromNode(cl.Node()).(types.SerialMessage))
	must(message.WalkAddresses(ctx, rootMsg, func(_ context.Context, a hash.Hash) error {
		children = append(children, a)
		return nil
	}))
	if len(children) < 2 {
		return false
	}
	w.fault.bad = children[len(children)/2]
	w.fault.hits.Store(0)
	w.ddb.PurgeCaches()
	w.fault.armed.Store(true)
	return true
}

// expectedClosureAmp: images of the model closure of c + the fillers of every edge leaving c or a model ancestor of c
func (bt *built) expectedClosureAmp(c int) []ckey {
	var out []ckey
	nodes := []int{c}
	for _, k := range bt.g.clo[c-1] {
		out = append(out, ckey{bt.ampHeight(k[1]), bt.addr[k[1]]})
		nodes = append(nodes, k[1])
	}
	for _, y := range nodes {
		seen := map[int]bool{}
		for _, p := range bt.g.par[y-1] {
			if !seen[p] {
				seen[p] = true
				out = append(out, bt.chains[[2]int{y, p}]...)
			}
		}
	}
	sort.Slice(out, func(i, j int) bool { return lessKey(out[j], out[i]) })
	return out
}

var ampTreeHeights = map[int]int{}

func (bt *built) checkMetaAmp(c int, via string) common.Result {
	w := bt.w
	act := "Meta(amplified," + via + ")"
	if bt.afterFault && via == "fresh" {
		act = "Meta(amplified,after-read-fault)"
	}
	dc, err := datas.LoadCommitAddr(ctx, w.vrw, bt.addr[c])
	if err != nil {
		return common.Fail(c, act, "commit unreadable", "ok", err.Error())
	}
	rh, _ := dc.NomsValue().Hash(w.vrw.Format())
	if rh != bt.addr[c] || dc.Addr() != bt.addr[c] {
		return common.Fail(c, act, "address changed", bt.addr[c].String(), rh.String())
	}
	if dc.Height() != bt.ampHeight(c) {
		return common.Fail(c, act, "datas.Commit.Height", bt.ampHeight(c), dc.Height())
	}
	ps, err := datas.GetCommitParents(ctx, w.vrw, dc.NomsValue())
	must(err)
	if len(ps) != len(bt.tips[c]) {
		return common.Fail(c, act, "parent list", len(bt.tips[c]), len(ps))
	}
	for i := range ps {
		if ps[i].Addr() != bt.tips[c][i] {
			return common.Fail(c, act, "parent list", bt.tips[c][i].String(), ps[i].Addr().String())
		}
	}
	cl, err := datas.NewParentsClosure(ctx, dc, dc.NomsValue().(types.SerialMessage), w.vrw, w.ns)
	if err != nil {
		return common.Fail(c, act, "NewParentsClosure error", "ok", err.Error())
	}
	got, err := readClosure(cl)
	if err != nil {
		return common.Fail(c, act, "closure iteration error", "ok", err.Error())
	}
	want := bt.expectedClosureAmp(c)
	if !keysEq(got, want) {
		// describe the first difference compactly
		miss, extra := 0, 0
		ws, gs := map[ckey]bool{}, map[ckey]bool{}
		for _, k := range want {
			ws[k] = true
		}
		for _, k := range got {
			gs[k] = true
			if !ws[k] {
				extra++
			}
		}
		for _, k := range want {
			if !gs[k] {
				miss++
			}
		}
		return common.Fail(c, act, "closure contents", fmt.Sprintf("%d entries", len(want)),
			fmt.Sprintf("%d entries, %d missing, %d unexpected, order ok=%v", len(got), miss, extra, miss == 0 && extra == 0))
	}
	if !cl.IsEmpty() {
		cnt, _ := cl.Count()
		if cnt != len(want) {
			return common.Fail(c, act, "closure Count", len(want), cnt)
		}
		ampTreeHeights[cl.Height()]++
	}
	bt.evals += 4 + len(want)
	return nil
}

// checkHCAFillers: merge base of a model commit c and a filler f on the edge y->p (the chain tip and a filler in the middle).
// If y is c or an ancestor of c (model table: HCA(y,c) = {y}) then f is an ancestor of c and the merge base is f itself;
// otherwise the common ancestors of c and f are those of c and p, so the merge base is the image of the model HCA(c,p).
func (bt *built) checkHCAFillers() common.Result {
	g, w := bt.g, bt.w
	for key, ch := range bt.chains {
		if len(ch) == 0 {
			continue
		}
		y, p := key[0], key[1]
		for _, fi := range []int{len(ch) - 1, len(ch) / 2} {
			f := ch[fi]
			fdc, err := datas.LoadCommitAddr(ctx, w.vrw, f.addr)
			must(err)
			for c := 1; c <= g.n; c++ {
				isAnc := len(g.hca[y-1][c-1]) == 1 && g.hca[y-1][c-1][0] == y
				for dir := 0; dir < 2; dir++ {
					var h hash.Hash
					var ok bool
					if dir == 0 {
						h, ok, err = datas.FindCommonAncestor(ctx, bt.dc[c], fdc, w.vrw, w.vrw, w.ns, w.ns)
					} else {
						h, ok, err = datas.FindCommonAncestor(ctx, fdc, bt.dc[c], w.vrw, w.vrw, w.ns, w.ns)
					}
					act := "MergeBase(datas.FindCommonAncestor,amplified)"
					what := fmt.Sprintf("merge base of c%d and filler %d/%d of edge c%d->c%d (argument order %d)", c, fi+1, len(ch), y, p, dir)
					if err != nil {
						return common.Fail(c, act, what, "ok", err.Error())
					}
					bt.evals++
					if isAnc {
						if !ok || h != f.addr {
							return common.Fail(c, act, what, "the filler itself (it is an ancestor)", fmt.Sprint(ok, " ", bt.name(h)))
						}
						continue
					}
					want := g.hca[c-1][p-1]
					if len(want) == 0 {
						if ok {
							return common.Fail(c, act, what, "none", bt.name(h))
						}
						continue
					}
					if x, known := bt.id[h]; !ok || !known || !inSet(want, x) {
						return common.Fail(c, act, what, want, fmt.Sprint(ok, " ", bt.name(h)))
					}
				}
			}
		}
	}
	return nil
}

// checkWalksAmp: ^ / ^2 / ~ from a model commit land on the tip of the edge chain; followed by ~K they land on the model parent
func (bt *built) checkWalksAmp() common.Result {
	g := bt.g
	for c := 1; c <= g.n; c++ {
		for si, spec := range g.specs {
			if spec != "^" && spec != "^1" && spec != "^2" && spec != "~" && spec != "~1" && spec != "^3" && spec != "^0" {
				continue
			}
			want := g.walk[c-1][si]
			full := spec
			if want > 0 && bt.b.amp > 0 {
				full = fmt.Sprintf("%s~%d", spec, bt.b.amp)
			}
			for _, r := range []string{"GetAncestor", "Resolve"} {
				h, e := bt.resolveVia(r, c, bt.addr[c].String(), full, nil)
				bt.evals++
				if want > 0 {
					if e != "" || h != bt.addr[want] {
						return common.Fail(c*1000+si, "AncestorSpec("+r+",amplified)", fmt.Sprintf("<hash>%s from c%d", full, c), want, fmt.Sprint(e, bt.name(h)))
					}
				} else if e == "" {
					return common.Fail(c*1000+si, "AncestorSpec("+r+",amplified)", fmt.Sprintf("<hash>%s from c%d must fail", full, c), "error", bt.name(h))
				}
			}
		}
	}
	return nil
}

// ------------------------------------------------------------------------------------------------ dag mode

func (bt *built) buildAll() common.Result {
	for i := 1; i <= bt.g.n; i++ {
		if err := bt.addCommit(i, bt.g.par[i-1]); err != nil {
			return common.Fail(i, "AddCommit", "commit creation failed", bt.g.par[i-1], err.Error())
		}
		// metadata right after the write
		if !bt.b.onlyC19 {
			if r := bt.checkMeta(i, "fresh", bt.dc[i], bt.cm[i], bt.w.vrw, bt.w.ns); r != nil {
				return r
			}
		}
	}
	return nil
}

func graphStats(g *graph) (merges, dups, roots int) {
	for _, ps := range g.par {
		if len(ps) == 0 {
			roots++
		}
		if len(ps) > 1 {
			merges++
		}
		seen := map[int]bool{}
		for _, p := range ps {
			if seen[p] {
				dups++
				break
			}
			seen[p] = true
		}
	}
	return
}

func runDag(c map[string]any) common.Result {
	g := decodeGraph(c["graph"].(map[string]any))
	b := decodeBinding(c)
	var w *world
	if b.store == "disk" {
		w = getDiskWorld()
		diskSeq++
		b.tag = fmt.Sprintf("d%d-%d-%d", os.Getpid(), diskSeq, b.seed)
	} else {
		w = newMemWorld()
		b.tag = fmt.Sprintf("m%d", b.seed)
	}
	bt := newBuilt(w, g, b)
	if b.amp > 0 {
		return runDagAmp(bt)
	}
	if r := bt.buildAll(); r != nil {
		return r
	}
	var notes []string
	st := &hcaStats{}
	if !b.onlyC19 {
		// re-read later: after all commits exist and were flushed; through fresh objects; through a second
		// database object on the same storage (mem) - the address, height, parents and closure must be unchanged
		must(w.ddb.SetHead(ctx, ref.NewInternalRef("verif/"+b.tag+"/keep"), bt.addr[g.n])) // flushes buffered chunks
		w.ddb.PurgeCaches()
		for i := 1; i <= g.n; i++ {
			dc, err := datas.LoadCommitAddr(ctx, w.vrw, bt.addr[i])
			if err != nil {
				return common.Fail(i, "Meta(reread)", "commit unreadable later", "ok", err.Error())
			}
			oc, err := w.ddb.ReadCommit(ctx, bt.addr[i])
			must(err)
			cm, _ := oc.ToCommit()
			if r := bt.checkMeta(i, "reread", dc, cm, w.vrw, w.ns); r != nil {
				return r
			}
		}
		if w.storage != nil {
			cs2 := w.storage.NewViewWithFormat(types.Format_DOLT.VersionString())
			ddb2, err := doltdb.DoltDBFromCS(cs2, "verif2")
			must(err)
			for i := 1; i <= g.n; i++ {
				dc, err := datas.LoadCommitAddr(ctx, ddb2.ValueReadWriter(), bt.addr[i])
				if err != nil {
					return common.Fail(i, "Meta(reopen)", "commit unreadable from a second database object", "ok", err.Error())
				}
				if r := bt.checkMeta(i, "reopen", dc, nil, ddb2.ValueReadWriter(), ddb2.NodeStore()); r != nil {
					return r
				}
			}
		}
		if w.srv != nil {
			for i := 1; i <= g.n; i++ {
				var ps []hash.Hash
				for _, p := range g.par[i-1] {
					ps = append(ps, bt.addr[p])
				}
				diskPending = append(diskPending, pendingReread{b.tag, bt.addr[i], uint64(g.ht[i-1]), ps, bt.expectedClosure(i)})
			}
		}
	}
	if !b.onlyC18 && g.hca != nil {
		if r := bt.checkHCA(st); r != nil {
			return r
		}
		if r := bt.checkFF(&notes); r != nil {
			return r
		}
		if g.specs != nil {
			for i := 1; i <= g.n; i++ {
				if r := bt.checkWalks([]string{"GetAncestor", "Resolve", "sql.dolt_hashof"}, i, bt.addr[i].String(), nil, "<hash>"); r != nil {
					return r
				}
			}
			// C44: the same walks through every kind of base name
			for k, nb := range b.names {
				cmt := 1 + (k+b.seed)%g.n
				var cwb ref.DoltRef
				base := nb.name
				switch nb.kind {
				case "branch":
					must(w.ddb.SetHead(ctx, ref.NewBranchRef(nb.name), bt.addr[cmt]))
				case "tag":
					tr := ref.NewTagRef(nb.name)
					_ = w.ddb.DeleteTag(ctx, tr)
					must(w.ddb.NewTagAtCommit(ctx, tr, bt.cm[cmt], datas.NewTagMetaWithUserTS("verif", "verif@example.com", "t", time.Unix(1700000000, 0))))
				case "head":
					hb := ref.NewBranchRef("verif-head-" + b.tag)
					must(w.ddb.SetHead(ctx, hb, bt.addr[cmt]))
					cwb = hb
				}
				// the base alone must resolve to its commit
				cs, err := doltdb.NewCommitSpec(base)
				if err != nil {
					return common.Fail(k, "CommitSpec(Resolve)", "base name rejected: "+base, "accepted", err.Error())
				}
				oc, err := w.ddb.Resolve(ctx, cs, cwb)
				if err != nil || oc.Addr != bt.addr[cmt] {
					return common.Fail(k, "CommitSpec(Resolve)", "base name "+base+" does not resolve to its commit", cmt, fmt.Sprint(err, oc))
				}
				if r := bt.checkWalks([]string{"Resolve"}, cmt, base, cwb, "<"+nb.kind+":"+base+">"); r != nil {
					return r
				}
				switch nb.kind {
				case "branch":
					if err := w.ddb.DeleteBranch(ctx, ref.NewBranchRef(nb.name), nil); err != nil && err != doltdb.ErrCannotDeleteLastBranch {
						panic(err)
					}
				case "tag":
					must(w.ddb.DeleteTag(ctx, ref.NewTagRef(nb.name)))
				}
			}
		}
	}
	if w.srv != nil && b.gc {
		if r := gcAndReread(w); r != nil {
			return r
		}
	}
	merges, dups, roots := graphStats(g)
	maxht := 0
	for _, h := range g.ht {
		if h > maxht {
			maxht = h
		}
	}
	return common.Result{"ok": true, "evals": bt.evals, "merges": merges, "dups": dups, "roots": roots, "maxht": maxht,
		"multi": st.multi, "unrelated": st.unrelated, "tiesClosureMax": st.tiesClosureMax, "tiesClosureOther": st.tiesClosureOther,
		"routeDisagree": st.routeDisagree, "notes": notes, "store": b.store, "gc": b.gc}
}

func runDagAmp(bt *built) common.Result {
	g, b, w := bt.g, bt.b, bt.w
	ampTreeHeights = map[int]int{}
	if r := bt.buildAllAmp(); r != nil {
		return r
	}
	var notes []string
	st := &hcaStats{}
	if !b.onlyC19 {
		must(w.ddb.SetHead(ctx, ref.NewInternalRef("verif/"+b.tag+"/keep"), bt.addr[g.n]))
		w.ddb.PurgeCaches()
		for i := 1; i <= g.n; i++ {
			if r := bt.checkMetaAmp(i, "reread"); r != nil {
				return r
			}
		}
	}
	if b.onlyC19 {
		for i := 1; i <= g.n; i++ {
			if cl, err := datas.NewParentsClosure(ctx, bt.dc[i], bt.dc[i].NomsValue().(types.SerialMessage), w.vrw, w.ns); err == nil && !cl.IsEmpty() {
				ampTreeHeights[cl.Height()]++
			}
		}
	}
	if !b.onlyC18 && g.hca != nil {
		if r := bt.checkHCA(st); r != nil {
			return r
		}
		if r := bt.checkHCAFillers(); r != nil {
			return r
		}
		if r := bt.checkFF(&notes); r != nil {
			return r
		}
		if g.specs != nil {
			if r := bt.checkWalksAmp(); r != nil {
				return r
			}
		}
	}
	merges, dups, roots := graphStats(g)
	maxht := 0
	for _, h := range g.ht {
		if h > maxht {
			maxht = h
		}
	}
	th := map[string]int{}
	for k, v := range ampTreeHeights {
		th[fmt.Sprint(k)] = v
	}
	return common.Result{"ok": true, "evals": bt.evals, "merges": merges, "dups": dups, "roots": roots, "maxht": maxht, "amp": b.amp,
		"realMaxHeight": 1 + (maxht-1)*(b.amp+1), "closureTreeHeights": th,
		"faultTried": bt.faultTried, "faultHit": bt.faultHit, "faultCommitFailed": bt.faultCommitFailed,
		"multi": st.multi, "unrelated": st.unrelated, "tiesClosureMax": st.tiesClosureMax, "tiesClosureOther": st.tiesClosureOther,
		"routeDisagree": st.routeDisagree, "notes": notes, "store": b.store}
}

// gcAndReread: run dolt_gc() through SQL, reopen a session, and check that every commit written since the last GC is
// still there under the same address with the same height, parents and closure.
func gcAndReread(w *world) common.Result {
	if _, err := w.sess.Query("call dolt_gc()"); err != nil {
		return common.Result{"ok": false, "fp": "GC:error", "detail": "call dolt_gc() failed: " + err.Error(), "inconclusive": true}
	}
	s2, err := w.srv.NewSession("after-gc")
	must(err)
	w.sess = s2
	w.ddb.PurgeCaches()
	for k, p := range diskPending {
		dc, err := datas.LoadCommitAddr(ctx, w.vrw, p.addr)
		if err != nil {
			return common.Fail(k, "Meta(after-gc)", "commit unreadable after GC ("+p.tag+")", "ok", err.Error())
		}
		rh, _ := dc.NomsValue().Hash(w.vrw.Format())
		if dc.Addr() != p.addr || rh != p.addr {
			return common.Fail(k, "Meta(after-gc)", "address changed after GC", p.addr.String(), rh.String())
		}
		if dc.Height() != p.height {
			return common.Fail(k, "Meta(after-gc)", "height changed after GC", p.height, dc.Height())
		}
		ps, err := datas.GetCommitParents(ctx, w.vrw, dc.NomsValue())
		must(err)
		if len(ps) != len(p.parents) {
			return common.Fail(k, "Meta(after-gc)", "parents changed after GC", len(p.parents), len(ps))
		}
		for i := range ps {
			if ps[i].Addr() != p.parents[i] {
				return common.Fail(k, "Meta(after-gc)", "parents changed after GC", p.parents[i].String(), ps[i].Addr().String())
			}
		}
		cl, err := datas.NewParentsClosure(ctx, dc, dc.NomsValue().(types.SerialMessage), w.vrw, w.ns)
		if err != nil {
			return common.Fail(k, "Meta(after-gc)", "closure unreadable after GC", "ok", err.Error())
		}
		ks, err := readClosure(cl)
		if err != nil || !keysEq(ks, p.closure) {
			return common.Fail(k, "Meta(after-gc)", "closure changed after GC", len(p.closure), fmt.Sprint(len(ks), err))
		}
	}
	diskPending = nil
	return nil
}

// ------------------------------------------------------------------------------------------------ hist mode

func runHist(c map[string]any) common.Result {
	steps := c["steps"].([]any)
	final := decodeGraph(c["final"].(map[string]any))
	b := decodeBinding(c)
	b.tag = fmt.Sprintf("h%d", b.seed)
	w := newMemWorld()
	bt := newBuilt(w, final, b)
	bref := func(v any) ref.DoltRef { return ref.NewBranchRef("verif-" + fmt.Sprint(v)) }
	acts := map[string]int{}
	for si, s0 := range steps {
		s := s0.(map[string]any)
		a := s["a"].(string)
		acts[a]++
		args, _ := s["args"].(map[string]any)
		res := s["res"].(string)
		n := common.Int(s["n"])
		switch a {
		case "AddCommit":
			if err := bt.addCommit(n, common.Ints(args["ps"])); err != nil {
				return common.Fail(si, a, "commit creation failed", "ok", err.Error())
			}
		case "BranchCommit":
			// DoltDB.CommitWithParentCommits: head first, then the extra parents that are not the head
			var pcs []*doltdb.Commit
			for _, p := range common.Ints(args["extra"]) {
				pcs = append(pcs, bt.cm[p])
			}
			cm, err := w.ddb.CommitWithParentCommits(ctx, w.valHash, bref(args["b"]), pcs, meta(b.tag, n, b.seed))
			if err != nil {
				return common.Fail(si, a, "CommitWithParentCommits failed", "ok", err.Error())
			}
			h, _ := cm.HashOf()
			if err := bt.register(n, h); err != nil {
				return common.Fail(si, a, "register", "ok", err.Error())
			}
		case "FastForward":
			err := w.ddb.FastForward(ctx, bref(args["b"]), bt.cm[common.Int(args["c"])])
			got := "ok"
			if err != nil {
				got = "error:" + err.Error()
				if errors.Is(err, datas.ErrMergeNeeded) {
					got = "mergeneeded"
				}
			}
			if got != res {
				return common.Fail(si, a, fmt.Sprintf("FastForward(%v, c%v)", args["b"], args["c"]), res, got)
			}
		case "SetHead":
			must(w.ddb.SetHead(ctx, bref(args["b"]), bt.addr[common.Int(args["c"])]))
		case "DeleteBranch":
			err := w.ddb.DeleteBranch(ctx, bref(args["b"]), nil)
			got := "ok"
			switch {
			case err == doltdb.ErrBranchNotFound:
				got = "notfound"
			case err == doltdb.ErrCannotDeleteLastBranch:
				got = "lastbranch"
			case err != nil:
				got = "error:" + err.Error()
			}
			if got != res {
				return common.Fail(si, a, fmt.Sprintf("DeleteBranch(%v)", args["b"]), res, got)
			}
		default:
			panic("unknown action " + a)
		}
		bt.evals++
		// projection after the step: branch heads; the new commit's parent list and height
		for bn, hv := range s["head"].(map[string]any) {
			want := common.Int(hv)
			cm, err := w.ddb.ResolveCommitRef(ctx, bref(bn))
			if want == 0 {
				if err != doltdb.ErrBranchNotFound {
					return common.Fail(si, a, "branch "+bn+" should not exist", "ErrBranchNotFound", fmt.Sprint(err))
				}
			} else {
				if err != nil {
					return common.Fail(si, a, "branch "+bn+" unreadable", want, err.Error())
				}
				h, _ := cm.HashOf()
				if h != bt.addr[want] {
					return common.Fail(si, a, "head of branch "+bn, want, bt.name(h))
				}
			}
			bt.evals++
		}
		if np := common.Ints(s["newpar"]); !(len(np) == 1 && np[0] == -1) {
			phs, _ := bt.cm[n].ParentHashes(ctx)
			if len(phs) != len(np) {
				return common.Fail(si, a, "parent list of the new commit", np, bt.names(phs))
			}
			for i, p := range np {
				if phs[i] != bt.addr[p] {
					return common.Fail(si, a, "parent list of the new commit", np, bt.names(phs))
				}
			}
			if int(bt.dc[n].Height()) != common.Int(s["newht"]) {
				return common.Fail(si, a, "height of the new commit", s["newht"], bt.dc[n].Height())
			}
			bt.evals += 2
		}
	}
	// full comparison of the final graph
	st := &hcaStats{}
	var notes []string
	for i := 1; i <= final.n; i++ {
		if !b.onlyC19 {
			if r := bt.checkMeta(i, "final", bt.dc[i], bt.cm[i], w.vrw, w.ns); r != nil {
				return r
			}
		}
	}
	if !b.onlyC18 && final.n > 0 {
		if r := bt.checkHCA(st); r != nil {
			return r
		}
		if r := bt.checkFF(&notes); r != nil {
			return r
		}
		for i := 1; i <= final.n; i++ {
			if r := bt.checkWalks([]string{"GetAncestor", "Resolve"}, i, bt.addr[i].String(), nil, "<hash>"); r != nil {
				return r
			}
		}
	}
	merges, dups, roots := graphStats(final)
	return common.Result{"ok": true, "evals": bt.evals, "acts": acts, "merges": merges, "dups": dups, "roots": roots, "multi": st.multi,
		"unrelated": st.unrelated, "tiesClosureMax": st.tiesClosureMax, "tiesClosureOther": st.tiesClosureOther, "routeDisagree": st.routeDisagree, "ncommits": final.n, "notes": notes}
}

// ------------------------------------------------------------------------------------------------ names mode (C44)

var classMembers = map[string][]string{
	"LET":      strings.Split("w x y z B F G I J M N P Q R S T U V W X Y Z", " "),
	"HEX":      strings.Split("b f g i j m n p q r s t u v", " "),
	"OKP":      strings.Split("! \" # $ % & ( ) + , ; < = > ] _ ` | }", " "),
	"BAD":      {":", "?", "[", "\\", "*"},
	"SP":       {" "},
	"TAB":      {"\t"},
	"WSCTRL":   {"\n", "\v", "\f", "\r"},
	"CTRL":     {"\x00", "\x01", "\x02", "\x07", "\x08", "\x0e", "\x1b", "\x1c", "\x1f"},
	"DEL":      {"\x7f"},
	"NONASCII": {"é", "☃", "\xff", "ÿ", "日", "\xc3", "ß"},
	"UWS":      {"\u0085", "\u00a0", "\u2003", "\u3000", "\u1680"},
}

// substitution for one string: every class gets one member (chosen from the seed and the string's index), so that
// binding is a homomorphism on character sequences and the expected base name can be bound the same way.
func substitution(seed int) func(ch string) string {
	return func(ch string) string {
		if m, ok := classMembers[ch]; ok {
			return m[(seed+len(ch)*7)%len(m)]
		}
		if len(ch) != 1 {
			panic("unknown character class " + ch)
		}
		return ch
	}
}

func bindChars(v any, sub func(string) string) string {
	var sb strings.Builder
	if v == nil {
		return ""
	}
	for _, x := range v.([]any) {
		sb.WriteString(sub(x.(string)))
	}
	return sb.String()
}

// unexported fields of doltdb.CommitSpec (read-only, through reflection)
func specFields(cs *doltdb.CommitSpec) (base, kind string, ins []int) {
	v := reflect.ValueOf(cs).Elem()
	base = v.FieldByName("baseSpec").String()
	kind = v.FieldByName("csType").String()
	p := v.FieldByName("aSpec")
	if !p.IsNil() {
		as := (*doltdb.AncestorSpec)(unsafe.Pointer(p.Pointer()))
		ins = as.Instructions
	}
	return
}

func intsEq(a []int, b []int) bool {
	if len(a) != len(b) {
		return false
	}
	for i := range a {
		if a[i] != b[i] {
			return false
		}
	}
	return true
}

type e2eWorld struct {
	bt  *built
	tip int
}

var e2e *e2eWorld

func getE2E() *e2eWorld {
	if e2e != nil {
		return e2e
	}
	// a small fixed history: c1 root, c2(c1), c3(c2,c1), c4(c3,c2), c5(c4,c3)
	g := &graph{n: 5, par: [][]int{{}, {1}, {2, 1}, {3, 2}, {4, 3}}}
	bt := newBuilt(newMemWorld(), g, binding{route: "ds", tag: "e2e", seed: int(common.Seed())})
	for i := 1; i <= g.n; i++ {
		must(bt.addCommit(i, g.par[i-1]))
	}
	must(bt.w.ddb.SetHead(ctx, ref.NewBranchRef("verif-cwb"), bt.addr[5]))
	e2e = &e2eWorld{bt, 5}
	return e2e
}

func runNames(c map[string]any) common.Result {
	recs := c["recs"].([]any)
	bm, _ := c["binding"].(map[string]any)
	seed0, batch := 0, 0
	if bm != nil {
		seed0 = common.Int(bm["seed"])
		if bm["batch"] != nil {
			batch = common.Int(bm["batch"])
		}
	}
	doE2E := bm != nil && bm["e2e"] == true
	evals := 0
	counts := map[string]int{}
	for ri, r0 := range recs {
		r0m := r0.(map[string]any)
		r := r0m["v"].(map[string]any)
		r["syms"], r["chars"] = r0m["syms"], r0m["chars"]
		sub := substitution(seed0 + ri*13 + batch*7)
		str := bindChars(r["chars"], sub)
		show := fmt.Sprintf("%q (symbols %v)", str, r["syms"])
		chk := func(fn string, want bool, got bool) common.Result {
			evals++
			if want != got {
				verdict := map[bool]string{true: "accepts-invalid", false: "rejects-valid"}[got]
				res := common.Fail(ri, fn, verdict, want, got)
				res["detail"] = fmt.Sprintf("%s(%s): spec says %v, code says %v", fn, show, want, got)
				res["input"] = str
				res["syms"] = r["syms"]
				return res
			}
			return nil
		}
		if x := chk("datas.ValidateDatasetId", r["dsid"].(bool), datas.ValidateDatasetId(str) == nil); x != nil {
			return x
		}
		if x := chk("ref.IsValidBranchName", r["branch"].(bool), ref.IsValidBranchName(str)); x != nil {
			return x
		}
		if x := chk("ref.IsValidTagName", r["tag"].(bool), ref.IsValidTagName(str)); x != nil {
			return x
		}
		if x := chk("doltdb.IsValidUserBranchName", r["userBranch"].(bool), doltdb.IsValidUserBranchName(str)); x != nil {
			return x
		}
		if x := chk("doltdb.IsValidCommitHash", r["isHash"].(bool), doltdb.IsValidCommitHash(str)); x != nil {
			return x
		}
		if !strings.HasPrefix(str, "refs/") {
			if x := chk("doltdb.IsValidBranchRef", r["userBranch"].(bool), doltdb.IsValidBranchRef(ref.NewBranchRef(str))); x != nil {
				return x
			}
			if x := chk("doltdb.IsValidTagRef", r["tagRef"].(bool), doltdb.IsValidTagRef(ref.NewTagRef(str))); x != nil {
				return x
			}
		}
		if r["branch"].(bool) {
			counts["validBranch"]++
		}
		if r["tag"].(bool) && !r["branch"].(bool) {
			counts["tagOnly"]++
		}
		// NewCommitSpec
		want := r["cspec"].(map[string]any)
		wkind := want["kind"].(string)
		cs, err := doltdb.NewCommitSpec(str)
		evals++
		counts["cspec:"+wkind]++
		if (err != nil) != (wkind == "err") {
			verdict := "accepts-invalid"
			if err != nil {
				verdict = "rejects-valid"
			}
			res := common.Fail(ri, "doltdb.NewCommitSpec", verdict, wkind, fmt.Sprint(err))
			res["detail"] = fmt.Sprintf("NewCommitSpec(%s): spec says %s, code says err=%v", show, wkind, err)
			return res
		}
		if err == nil {
			base, kind, ins := specFields(cs)
			wbase := bindChars(want["base"], sub)
			wins := common.Ints(want["ins"])
			if kind != wkind || base != wbase || !intsEq(ins, wins) {
				res := common.Fail(ri, "doltdb.NewCommitSpec", "parsed-differently", []any{wkind, wbase, wins}, []any{kind, base, ins})
				res["detail"] = fmt.Sprintf("NewCommitSpec(%s): spec says (%s,%q,%v), code says (%s,%q,%v)", show, wkind, wbase, wins, kind, base, ins)
				return res
			}
			evals += 3
		}
		// SplitAncestorSpec on the raw (untrimmed) string
		ws := r["split"].(map[string]any)
		name, as, err := doltdb.SplitAncestorSpec(str)
		evals++
		if (err == nil) != ws["ok"].(bool) {
			res := common.Fail(ri, "doltdb.SplitAncestorSpec", "verdict", ws["ok"], fmt.Sprint(err))
			res["detail"] = fmt.Sprintf("SplitAncestorSpec(%s): spec says ok=%v, code says err=%v", show, ws["ok"], err)
			return res
		}
		if err == nil {
			wn := bindChars(ws["name"], sub)
			if name != wn || !intsEq(as.Instructions, common.Ints(ws["ins"])) {
				res := common.Fail(ri, "doltdb.SplitAncestorSpec", "split-differently", []any{wn, ws["ins"]}, []any{name, as.Instructions})
				res["detail"] = fmt.Sprintf("SplitAncestorSpec(%s): spec says (%q,%v), code says (%q,%v)", show, wn, ws["ins"], name, as.Instructions)
				return res
			}
			evals += 2
		}
		// end to end: a name that passes the tag validators can be created as a tag and resolves, exactly when the
		// spec says its dataset id is valid as well (only "must succeed" is demanded; the converse is noted)
		if doE2E && r["tagRef"].(bool) && !strings.HasPrefix(str, "refs/") {
			w := getE2E()
			ddb := w.bt.w.ddb
			tr := ref.NewTagRef(str)
			err := ddb.NewTagAtCommit(ctx, tr, w.bt.cm[w.tip], datas.NewTagMetaWithUserTS("verif", "verif@example.com", "t", time.Unix(1700000000, 0)))
			evals++
			counts["e2e:tagCreate"]++
			if r["tagCreate"].(bool) {
				if err != nil {
					res := common.Fail(ri, "TagCreate(e2e)", "valid-tag-name-cannot-be-created", "created", err.Error())
					res["detail"] = fmt.Sprintf("NewTagAtCommit(%s) failed although the name satisfies the tag and dataset rules: %v", show, err)
					return res
				}
				tg, err := ddb.ResolveTag(ctx, tr)
				if err != nil || tg.Commit == nil {
					return common.Fail(ri, "TagCreate(e2e)", "created-tag-does-not-resolve", "tag", fmt.Sprint(err))
				}
				th, _ := tg.Commit.HashOf()
				if th != w.bt.addr[w.tip] {
					return common.Fail(ri, "TagCreate(e2e)", "created-tag-resolves-elsewhere", w.tip, w.bt.name(th))
				}
				must(ddb.DeleteTag(ctx, tr))
			} else if err == nil {
				counts["note:tagCreatedAgainstSpec"]++
				_ = ddb.DeleteTag(ctx, tr)
			} else {
				counts["e2e:tagRejectedByDatasetRules"]++
			}
		}
		// end to end: an accepted spec resolves to the same commit as its separately parsed base followed by its
		// separately parsed ancestor walk
		if doE2E && wkind != "err" && len(common.Ints(want["ins"])) <= 8 {
			w := getE2E()
			ddb := w.bt.w.ddb
			wbase := bindChars(want["base"], sub)
			wasp := bindChars(want["asp"], sub)
			cwb := ref.NewBranchRef("verif-cwb")
			var br ref.DoltRef
			if wkind == "ref" {
				br = ref.NewBranchRef(wbase)
				must(ddb.SetHead(ctx, br, w.bt.addr[w.tip]))
			}
			full, err1 := ddb.Resolve(ctx, cs, cwb)
			var sep *doltdb.OptionalCommit
			var err2 error
			bs, err := doltdb.NewCommitSpec(wbase)
			if err != nil {
				err2 = err
			} else {
				var boc *doltdb.OptionalCommit
				boc, err2 = ddb.Resolve(ctx, bs, cwb)
				if err2 == nil {
					bcm, _ := boc.ToCommit()
					if wkind != "hash" && boc.Addr != w.bt.addr[w.tip] {
						return common.Fail(ri, "CommitSpec(e2e)", "base name does not resolve to the commit its ref points to", w.tip, w.bt.name(boc.Addr))
					}
					var asp *doltdb.AncestorSpec
					asp, err2 = doltdb.NewAncestorSpec(wasp)
					if err2 == nil {
						sep, err2 = bcm.GetAncestor(ctx, asp)
					}
				}
			}
			evals++
			counts["e2e:"+wkind]++
			if (err1 == nil) != (err2 == nil) || (err1 == nil && full.Addr != sep.Addr) {
				res := common.Fail(ri, "CommitSpec(e2e)", "full-spec-vs-base-then-walk", fmt.Sprint(err2, sep), fmt.Sprint(err1, full))
				res["detail"] = fmt.Sprintf("Resolve(%s) = (%v,%v) but base %q then walk %q = (%v,%v)", show, full, err1, wbase, wasp, sep, err2)
				return res
			}
			if err1 == nil {
				counts["e2e:resolved"]++
			}
			if br != nil {
				must(ddb.DeleteBranch(ctx, br, nil))
			}
		}
	}
	return common.Result{"ok": true, "evals": evals, "counts": counts, "strings": len(recs)}
}

func main() {
	mode := "dag"
	if len(os.Args) > 1 {
		mode = os.Args[1]
	}
	switch mode {
	case "dag":
		common.Run(runDag)
	case "hist":
		common.Run(runHist)
	case "names":
		common.Run(runNames)
	default:
		fmt.Println("unknown mode", mode)
		os.Exit(3)
	}
	if diskWorld != nil {
		diskWorld.srv.Close()
		os.RemoveAll(diskWorld.dir)
	}
}
