package main

// Reachable-state fingerprint (DESIGN 3.6) and the C09 comparisons. Everything here uses dolt's REAL reference walker
// (types.WalkAddrsFromNomsValue = what ValueStore.GC, the puller and fsck are handed) on chunks read from the real store.

import (
	"bytes"
	"context"
	"fmt"
	"sort"
	"strings"

	"github.com/dolthub/dolt/go/gen/fb/serial"
	"github.com/dolthub/dolt/go/store/chunks"
	"github.com/dolthub/dolt/go/store/hash"
	"github.com/dolthub/dolt/go/store/types"
)

type FP struct {
	Root  hash.Hash
	Addrs map[hash.Hash]int // address -> length of its bytes
	Kinds map[string]int    // file id -> chunks
	data  map[hash.Hash][]byte
}

// selftestOmit ("KIND.field") makes this engine's VIEW of the walker lose one field: the binding self-test of C09 (the
// comparison must then object). Empty in every real run.
var selftestOmit string

func omitted(data []byte, a hash.Hash) bool {
	if selftestOmit == "" {
		return false
	}
	k := kindOf(data)
	return k+"."+fieldOf(k, data, a) == selftestOmit
}

type reader interface {
	Root(ctx context.Context) (hash.Hash, error)
	Get(ctx context.Context, h hash.Hash) (chunks.Chunk, error)
}

func kindOf(data []byte) string {
	if len(data) == 0 {
		return "empty"
	}
	if types.NomsKind(data[0]) != types.SerialMessageKind {
		return fmt.Sprintf("noms-kind-%d", data[0])
	}
	return serial.GetFileID(data)
}

// walkClosure reads the closure of |start| under the real walker. Every chunk must be present and its bytes must hash to
// its address ("readable and unchanged"). keep = retain the bytes.
func walkClosure(ctx context.Context, cs reader, start []hash.Hash, keep bool) (*FP, error) {
	fp := &FP{Addrs: map[hash.Hash]int{}, Kinds: map[string]int{}, data: map[hash.Hash][]byte{}}
	nbf := types.Format_DOLT
	queue := append([]hash.Hash{}, start...)
	parent := map[hash.Hash]hash.Hash{}
	for len(queue) > 0 {
		h := queue[len(queue)-1]
		queue = queue[:len(queue)-1]
		if _, ok := fp.Addrs[h]; ok || h.IsEmpty() {
			continue
		}
		c, err := cs.Get(ctx, h)
		if err != nil {
			return nil, fmt.Errorf("reading %s (referenced by %s %s): %w", h, kindPath(fp, parent, h), parent[h], err)
		}
		if c.IsGhost() {
			fp.Addrs[h] = -1
			continue
		}
		if c.IsEmpty() {
			return nil, fmt.Errorf("MISSING chunk %s, referenced by %s", h, kindPath(fp, parent, h))
		}
		if hash.Of(c.Data()) != h {
			return nil, fmt.Errorf("chunk %s comes back with bytes that hash to %s (referenced by %s)", h, hash.Of(c.Data()), kindPath(fp, parent, h))
		}
		fp.Addrs[h] = len(c.Data())
		fp.Kinds[kindOf(c.Data())]++
		if keep {
			fp.data[h] = append([]byte{}, c.Data()...)
		}
		err = types.WalkAddrsFromNomsValue(c, nbf, func(a hash.Hash) error {
			if omitted(c.Data(), a) {
				return nil
			}
			if _, ok := fp.Addrs[a]; !ok {
				if _, ok := parent[a]; !ok {
					parent[a] = h
				}
				queue = append(queue, a)
			}
			return nil
		})
		if err != nil {
			return nil, fmt.Errorf("walker failed on %s (%s): %w", h, kindOf(c.Data()), err)
		}
	}
	return fp, nil
}

func kindPath(fp *FP, parent map[hash.Hash]hash.Hash, h hash.Hash) string {
	var parts []string
	for i := 0; i < 6; i++ {
		p, ok := parent[h]
		if !ok {
			break
		}
		k := "?"
		if d, ok := fp.data[p]; ok {
			k = kindOf(d)
		}
		parts = append(parts, k+":"+p.String()[:8])
		h = p
	}
	return strings.Join(parts, " <- ")
}

// Fingerprint = the closure of the store root.
func Fingerprint(ctx context.Context, cs reader) (*FP, error) {
	root, err := cs.Root(ctx)
	if err != nil {
		return nil, err
	}
	fp, err := walkClosure(ctx, cs, []hash.Hash{root}, false)
	if err != nil {
		return nil, err
	}
	fp.Root = root
	return fp, nil
}

func (a *FP) Diff(b *FP) string {
	if a.Root != b.Root {
		return fmt.Sprintf("store root %s became %s", a.Root, b.Root)
	}
	var miss, extra []string
	for h := range a.Addrs {
		if _, ok := b.Addrs[h]; !ok {
			miss = append(miss, h.String())
		}
	}
	for h := range b.Addrs {
		if _, ok := a.Addrs[h]; !ok {
			extra = append(extra, h.String())
		}
	}
	if len(miss)+len(extra) == 0 {
		return ""
	}
	sort.Strings(miss)
	sort.Strings(extra)
	return fmt.Sprintf("%d addresses no longer in the closure %v, %d new %v", len(miss), head(miss, 5), len(extra), head(extra, 5))
}

func head(s []string, n int) []string {
	if len(s) > n {
		return s[:n]
	}
	return s
}

// ---------------------------------------------------------------------------------------------- C09: literal scan

// embedded returns the addresses of existing chunks (keys of |known|) that occur literally in |data|, either as 20 raw
// bytes or as the 32-character base32 rendering.
func embedded(data []byte, known map[hash.Hash]int, self hash.Hash) (raw, text map[hash.Hash]bool) {
	raw, text = map[hash.Hash]bool{}, map[hash.Hash]bool{}
	var k hash.Hash
	for i := 0; i+hash.ByteLen <= len(data); i++ {
		copy(k[:], data[i:i+hash.ByteLen])
		if _, ok := known[k]; ok && k != self {
			raw[k] = true
		}
	}
	for i := 0; i+hash.StringLen <= len(data); i++ {
		s := data[i : i+hash.StringLen]
		if !isB32(s) {
			continue
		}
		if h, ok := hash.MaybeParse(string(s)); ok {
			if _, ok := known[h]; ok && h != self {
				text[h] = true
			}
		}
	}
	return
}

func isB32(s []byte) bool {
	for _, c := range s {
		if !((c >= '0' && c <= '9') || (c >= 'a' && c <= 'v')) {
			return false
		}
	}
	return true
}

// walked returns what the real walker reports for one chunk.
func walked(data []byte) (map[hash.Hash]bool, error) {
	out := map[hash.Hash]bool{}
	if len(data) == 0 {
		return out, nil
	}
	err := types.WalkAddrsFromNomsValue(chunks.NewChunk(data), types.Format_DOLT, func(a hash.Hash) error {
		if !omitted(data, a) {
			out[a] = true
		}
		return nil
	})
	return out, err
}

// fieldOf names the flatbuffer field of |data| (a chunk of kind |kind|) that holds address |a| -- for messages and
// coverage only. "?" if it is not one of the enumerated optional fields.
func fieldOf(kind string, data []byte, a hash.Hash) string {
	eq := func(b []byte) bool { return len(b) == hash.ByteLen && bytes.Equal(b, a[:]) }
	switch kind {
	case serial.WorkingSetFileID:
		var msg serial.WorkingSet
		if serial.InitWorkingSetRoot(&msg, data, serial.MessagePrefixSz) != nil {
			return "?"
		}
		if eq(msg.WorkingRootAddrBytes()) {
			return "working_root_addr"
		}
		if eq(msg.StagedRootAddrBytes()) {
			return "staged_root_addr"
		}
		if ms, _ := msg.TryMergeState(nil); ms != nil {
			if eq(ms.PreWorkingRootAddrBytes()) {
				return "merge_state.pre_working_root_addr"
			}
			if eq(ms.FromCommitAddrBytes()) {
				return "merge_state.from_commit_addr"
			}
			if eq(ms.PreMergeHeadCommitAddrBytes()) {
				return "merge_state.pre_merge_head_commit_addr"
			}
		}
		if rs, _ := msg.TryRebaseState(nil); rs != nil {
			if eq(rs.PreWorkingRootAddrBytes()) {
				return "rebase_state.pre_working_root_addr"
			}
			if eq(rs.OntoCommitAddrBytes()) {
				return "rebase_state.onto_commit_addr"
			}
		}
	case serial.CommitFileID:
		var msg serial.Commit
		if serial.InitCommitRoot(&msg, data, serial.MessagePrefixSz) != nil {
			return "?"
		}
		if eq(msg.RootBytes()) {
			return "root"
		}
		if eq(msg.ParentClosureBytes()) {
			return "parent_closure"
		}
		p := msg.ParentAddrsBytes()
		for i := 0; i+hash.ByteLen <= len(p); i += hash.ByteLen {
			if eq(p[i : i+hash.ByteLen]) {
				return fmt.Sprintf("parent_addrs[%d]", i/hash.ByteLen)
			}
		}
	case serial.TableFileID:
		var msg serial.Table
		if serial.InitTableRoot(&msg, data, serial.MessagePrefixSz) != nil {
			return "?"
		}
		if eq(msg.SchemaBytes()) {
			return "schema"
		}
		if eq(msg.ViolationsBytes()) {
			return "violations"
		}
		if eq(msg.ArtifactsBytes()) {
			return "artifacts"
		}
		if c, _ := msg.TryConflicts(nil); c != nil {
			switch {
			case eq(c.DataBytes()):
				return "conflicts.data"
			case eq(c.OurSchemaBytes()):
				return "conflicts.our_schema"
			case eq(c.TheirSchemaBytes()):
				return "conflicts.their_schema"
			case eq(c.AncestorSchemaBytes()):
				return "conflicts.ancestor_schema"
			}
		}
		if bytes.Contains(msg.SecondaryIndexesBytes(), a[:]) {
			return "secondary_indexes"
		}
		if bytes.Contains(msg.PrimaryIndexBytes(), a[:]) {
			return "primary_index"
		}
	case serial.RootValueFileID:
		var msg serial.RootValue
		if serial.InitRootValueRoot(&msg, data, serial.MessagePrefixSz) != nil {
			return "?"
		}
		if eq(msg.ForeignKeyAddrBytes()) {
			return "foreign_key_addr"
		}
		if bytes.Contains(msg.TablesBytes(), a[:]) {
			return "tables"
		}
	case serial.StashFileID:
		var msg serial.Stash
		if serial.InitStashRoot(&msg, data, serial.MessagePrefixSz) != nil {
			return "?"
		}
		if eq(msg.StashRootAddrBytes()) {
			return "stash_root_addr"
		}
		if eq(msg.HeadCommitAddrBytes()) {
			return "head_commit_addr"
		}
	case serial.TagFileID:
		return "commit_addr"
	case serial.StatisticFileID:
		return "root"
	case serial.StoreRootFileID, serial.StashListFileID:
		return "address_map"
	}
	return "?"
}

// coverage: which (kind, optional field) pairs are non-empty in this chunk.
func coverage(kind string, data []byte, cov map[string]int) {
	add := func(k string) { cov[kind+"."+k]++ }
	nz := func(b []byte) bool { return len(b) > 0 && !hash.New(b).IsEmpty() }
	cov[kind]++
	switch kind {
	case serial.WorkingSetFileID:
		var msg serial.WorkingSet
		if serial.InitWorkingSetRoot(&msg, data, serial.MessagePrefixSz) != nil {
			return
		}
		if msg.StagedRootAddrLength() != 0 {
			add("staged_root_addr")
		}
		if ms, _ := msg.TryMergeState(nil); ms != nil {
			add("merge_state")
			switch {
			case ms.IsCherryPick():
				add("merge_state(cherry-pick)")
			case ms.IsRevert():
				add("merge_state(revert)")
			default:
				add("merge_state(merge)")
			}
			if nz(ms.PreMergeHeadCommitAddrBytes()) {
				add("merge_state.pre_merge_head_commit_addr")
			}
			if ms.PendingCommitHashesLength() > 0 {
				add("merge_state.pending_commit_hashes")
			}
			if ms.UnmergableTablesLength() > 0 {
				add("merge_state.unmergable_tables")
			}
		}
		if rs, _ := msg.TryRebaseState(nil); rs != nil {
			add("rebase_state")
			if rs.RebasingStarted() {
				add("rebase_state(started)")
			}
		}
	case serial.CommitFileID:
		var msg serial.Commit
		if serial.InitCommitRoot(&msg, data, serial.MessagePrefixSz) != nil {
			return
		}
		add(fmt.Sprintf("parents=%d", len(msg.ParentAddrsBytes())/hash.ByteLen))
		if nz(msg.ParentClosureBytes()) {
			add("parent_closure")
		}
	case serial.TableFileID:
		var msg serial.Table
		if serial.InitTableRoot(&msg, data, serial.MessagePrefixSz) != nil {
			return
		}
		if nz(msg.ArtifactsBytes()) {
			add("artifacts")
		}
		if nz(msg.ViolationsBytes()) {
			add("violations")
		}
		if c, _ := msg.TryConflicts(nil); c != nil && nz(c.DataBytes()) {
			add("conflicts.data")
		}
		if c, _ := msg.TryConflicts(nil); c != nil && nz(c.OurSchemaBytes()) {
			add("conflicts.schemas")
		}
		if msg.AutoIncrementValue() != 0 {
			add("auto_increment_value")
		}
		if w, _ := walked(prefixed(msg.SecondaryIndexesBytes())); len(w) > 0 {
			add("secondary_indexes")
		}
		if w, _ := walked(prefixed(msg.PrimaryIndexBytes())); len(w) > 0 {
			add("primary_index(with addresses)")
		}
	case serial.RootValueFileID:
		var msg serial.RootValue
		if serial.InitRootValueRoot(&msg, data, serial.MessagePrefixSz) != nil {
			return
		}
		if nz(msg.ForeignKeyAddrBytes()) {
			add("foreign_key_addr")
		}
		if w, _ := walked(prefixed(msg.TablesBytes())); len(w) > 0 {
			add("tables")
		}
	case serial.ProllyTreeNodeFileID, serial.AddressMapFileID, serial.MergeArtifactsFileID, serial.BlobFileID, serial.CommitClosureFileID:
		w, _ := walked(data)
		if len(w) > 0 {
			add("addresses")
		} else {
			add("no-addresses")
		}
	}
}

// prefixed: embedded messages (tables, primary_index, secondary_indexes) are complete serial messages already.
func prefixed(b []byte) []byte { return b }
