package main

// Mode "vs": binding G of C08. A case is a behaviour of /verif/spec/GC.tla (generator config, Gated = TRUE): an
// interleaving of collector actions and session actions. It is driven on
//
//	the REAL types.ValueStore (WriteValue / ReadValue / Commit / Root / GC: gcState, gcOut, gcNewAddrs, the keeper),
//	the REAL nbs generational store on disk (journal or plain new generation, old generation, swapTables, ...),
//	the REAL gcctx.GCSafepointController (session registry, Waiter, CommandEnd callbacks)
//
// with one goroutine per session and one for the collector. They stop at the gates of libbk.Store (entry / exit of
// ChunkStore.Put and Commit, every collector-side call) and of the safepoint controller below; the driver opens one gate
// per model action, in the order TLC chose. The safepoint controller is a transcription of
// dprocedures.sessionAwareSafepointController (dolt_gc.go:169-206; it is unexported) over the real gcctx controller.
//
// After every step the driver compares with the projection TLC shipped: ValueStore.gcState / gcOut / gcNewAddrs and the
// keeper installation (read through reflection -- nothing in dolt is changed), the store root, who is blocked and who is
// parked where, and -- whenever no collection is running -- exactly which chunks the store holds. Model chunks are
// bound to real chunks: a leaf is a Blob message, an inner chunk an AddressMap message whose addresses are the
// children (what the real walker reports); identity comes from VERIF_SEED.
//
// At the end every gate is opened, everything runs to completion, and the property itself is checked on the real
// store: the closure (real walker) of the root and of everything the sessions hold is readable; the store is closed
// and opened again from the files: the closure of the root is readable.

import (
	"context"
	"fmt"
	"os"
	"reflect"
	"sort"
	"strings"
	"sync"
	"time"

	"github.com/dolthub/dolt/go/libraries/doltcore/doltdb/gcctx"
	"github.com/dolthub/dolt/go/store/chunks"
	"github.com/dolthub/dolt/go/store/hash"
	"github.com/dolthub/dolt/go/store/nbs"
	"github.com/dolthub/dolt/go/store/pool"
	"github.com/dolthub/dolt/go/store/prolly/message"
	"github.com/dolthub/dolt/go/store/types"
	"github.com/dolthub/dolt/go/zz_verif/common"
	"github.com/dolthub/dolt/go/zz_verif/libbk"
)

var stepTimeout = 90 * time.Second
var settle = 120 * time.Millisecond

type opResult struct {
	err  error
	ok   bool       // Commit's success
	val  bool       // ReadValue returned a value
	root hash.Hash  // Root()
	done chan struct{}
}

type vsSession struct {
	name    string
	e       *vsEngine
	work    chan func()
	cur     *opResult // operation in flight
	pending string    // kind of the operation in flight
	pendC   int
	cres    string // result class of the last CommitDo, checked when the call returns
	inCmd   bool
	visitMu sync.Mutex
	roots   []hash.Hash
	visited chan struct{}
}

// VisitGCRoots implements gcctx.GCRootsProvider: the session reports what it holds (the model's know[s], given by the
// behaviour). It parks first: the model's VisitDo is the moment the keeper sees the roots.
func (s *vsSession) VisitGCRoots(ctx context.Context, db string, keep func(hash.Hash) bool) error {
	s.e.g.ParkActor("v:"+s.name, "visit")
	s.visitMu.Lock()
	roots := s.roots
	s.visitMu.Unlock()
	for _, h := range roots {
		if keep(h) {
			panic("gc safepoint establishment found inconsistent state (keeper said block during a visit)")
		}
	}
	select {
	case s.visited <- struct{}{}:
	default:
	}
	return nil
}

type vsEngine struct {
	ctx    context.Context
	dir    string
	st     *libbk.Store
	vs     *types.ValueStore
	g      *libbk.Gates
	ctrl   *gcctx.GCSafepointController
	sess   map[string]*vsSession
	names  []string
	addr   map[int]hash.Hash
	rev    map[hash.Hash]int
	data   map[int][]byte
	n      int
	evals  int
	stats  map[string]int
	stepNo int
	action string
	// collector
	gcDone   chan error
	gcErr    error
	gcLive   bool
	caller   string
	callerRt []hash.Hash
	waiter   *gcctx.GCSafepointWaiter
	keeper   func(hash.Hash) bool
	gcCancel context.CancelFunc
	gcCfg    chunks.GCConfig
	oldRefs  hash.HashSet
	newRefs  hash.HashSet
	binding  map[string]any
	extra    int // chunks the real store kept beyond the model's (precision, not part of the property)
}

// ---- the safepoint controller (transcription of sessionAwareSafepointController)

type gateCtrl struct{ e *vsEngine }

func (c gateCtrl) visit(ctx context.Context, sess gcctx.GCRootsProvider) error {
	return sess.VisitGCRoots(ctx, "db", c.e.keeper)
}

func (c gateCtrl) BeginGC(ctx context.Context, keeper func(hash.Hash) bool) error {
	if c.e.g.ParkActor("gc", "sp.begin") {
		return libbk.ErrGateCancelled
	}
	c.e.vs.PurgeCaches()
	c.e.keeper = keeper
	for _, h := range c.e.callerRt {
		if keeper(h) {
			panic("keeper said block while visiting the calling session")
		}
	}
	c.e.waiter = c.e.ctrl.Waiter(ctx, c.e.sess[c.e.caller], c.visit)
	return nil
}

func (c gateCtrl) EstablishPreFinalizeSafepoint(ctx context.Context) error {
	if c.e.g.ParkActor("gc", "sp.pre") {
		return libbk.ErrGateCancelled
	}
	return c.e.waiter.Wait(ctx)
}

func (c gateCtrl) EstablishPostFinalizeSafepoint(ctx context.Context) error {
	if c.e.g.ParkActor("gc", "sp.post") {
		return libbk.ErrGateCancelled
	}
	return nil
}

func (c gateCtrl) CancelSafepoint() {
	if c.e.waiter == nil {
		return
	}
	cctx, cancel := context.WithCancel(context.Background())
	cancel()
	c.e.waiter.Wait(cctx)
}

// ---- reflection on unexported state (read only)

func field(x any, name string) reflect.Value { return reflect.ValueOf(x).Elem().FieldByName(name) }

var gcStateNames = map[int64]string{0: "NoGC", 1: "NewGen", 2: "OldGen", 3: "Finalizing"}

func (e *vsEngine) vsState() (string, int, []int, error) {
	gs := gcStateNames[field(e.vs, "gcState").Int()]
	out := int(field(e.vs, "gcOut").Int())
	m := field(e.vs, "gcNewAddrs")
	var ids []int
	for _, k := range m.MapKeys() {
		var h hash.Hash
		for i := 0; i < hash.ByteLen; i++ {
			h[i] = byte(k.Index(i).Uint())
		}
		id, ok := e.rev[h]
		if !ok {
			return gs, out, nil, fmt.Errorf("gcNewAddrs holds an address that is no model chunk: %s", h)
		}
		ids = append(ids, id)
	}
	sort.Ints(ids)
	return gs, out, ids, nil
}

// callbacksRegistered: does any session of the real safepoint controller still have a CommandEndCallback?
func (e *vsEngine) callbacksRegistered() bool {
	m := field(e.ctrl, "sessions")
	it := m.MapRange()
	for it.Next() {
		if !it.Value().Elem().FieldByName("CommandEndCallback").IsNil() {
			return true
		}
	}
	return false
}

func nbsGC(s chunks.ChunkStoreGarbageCollector) (bool, int) {
	n := s.(*nbs.NomsBlockStore)
	return field(n, "gcInProgress").Bool(), int(field(n, "gcOutstandingReads").Int())
}

// ---- chunk binding

func (e *vsEngine) buildChunks(refs map[int][]int) {
	seed := os.Getenv("VERIF_SEED")
	bp := pool.NewBuffPool()
	ids := make([]int, 0, len(refs))
	for id := range refs {
		ids = append(ids, id)
	}
	sort.Ints(ids)
	for _, id := range ids {
		var msg []byte
		if len(refs[id]) == 0 {
			payload := []byte(fmt.Sprintf("model-chunk-%d-seed-%s-%s", id, seed, strings.Repeat("x", id*7)))
			msg = message.NewBlobSerializer(bp).Serialize(nil, [][]byte{payload}, []uint64{uint64(len(payload))}, 0)
		} else {
			var keys, addrs [][]byte
			for i, r := range refs[id] {
				keys = append(keys, []byte(fmt.Sprintf("c%d-s%s-k%02d", id, seed, i)))
				h := e.addr[r]
				addrs = append(addrs, append([]byte{}, h[:]...))
			}
			msg = message.NewAddressMapSerializer(bp).Serialize(keys, addrs, nil, 0)
		}
		c, err := types.EncodeValue(types.SerialMessage(msg), types.Format_DOLT)
		if err != nil {
			panic(err)
		}
		e.data[id] = append([]byte{}, msg...)
		e.addr[id] = c.Hash()
		e.rev[c.Hash()] = id
	}
}

func getAddrsOf(c chunks.Chunk) chunks.InsertAddrsCb {
	return func(ctx context.Context, addrs hash.HashSet, _ chunks.PendingRefExists) error {
		return types.InsertAddrsFromNomsValue(c, types.Format_DOLT, addrs)
	}
}

func ints(v any) []int {
	if v == nil {
		return nil
	}
	a, ok := v.([]any)
	if !ok {
		return nil
	}
	out := make([]int, len(a))
	for i := range a {
		out[i] = common.Int(a[i])
	}
	sort.Ints(out)
	return out
}

func (e *vsEngine) hashes(ids []int) []hash.Hash {
	out := make([]hash.Hash, len(ids))
	for i, id := range ids {
		out[i] = e.addr[id]
	}
	return out
}

// refsOf decodes TLC's refs: a function over 1..N is rendered as an array.
func refsOf(v any) map[int][]int {
	out := map[int][]int{}
	switch x := v.(type) {
	case []any:
		for i, r := range x {
			out[i+1] = ints(r)
		}
	case map[string]any:
		for k, r := range x {
			var id int
			fmt.Sscan(k, &id)
			out[id] = ints(r)
		}
	}
	return out
}

// ---- failures

func (e *vsEngine) fail(what string, exp, got any) common.Result {
	r := common.Fail(e.stepNo, e.action, what, exp, got)
	return r
}

// ---- the run

func runVS(c map[string]any) (res common.Result) {
	steps := c["steps"].([]any)
	bd := amap(c["binding"])
	dir, err := os.MkdirTemp(os.Getenv("VERIF_WORK"), "gc-vs-")
	if err != nil {
		return common.Result{"ok": false, "fp": "setup", "detail": err.Error()}
	}
	defer os.RemoveAll(dir)
	e := &vsEngine{ctx: context.Background(), dir: dir, sess: map[string]*vsSession{}, addr: map[int]hash.Hash{}, rev: map[hash.Hash]int{},
		data: map[int][]byte{}, stats: map[string]int{}, binding: bd}
	journal := !abool(bd["nojournal"])
	gen, err := libbk.OpenGenerational(e.ctx, dir, libbk.OpenOpts{Journal: journal})
	if err != nil {
		return common.Result{"ok": false, "fp": "setup", "detail": err.Error()}
	}
	e.st = libbk.Wrap(gen)
	closed := false
	defer func() {
		if !closed {
			e.g.FreeAll()
			gen.Close()
		}
	}()
	e.vs = types.NewValueStore(e.st)
	e.vs.Format()
	e.ctrl = gcctx.NewGCSafepointController()

	init := amap(steps[0].(map[string]any)["exp"])
	refs := refsOf(init["refs"])
	e.n = len(refs)
	e.buildChunks(refs)
	for _, s := range strs(c["sessions"]) {
		e.names = append(e.names, s)
	}
	actors := []string{"gc"}
	for _, s := range e.names {
		actors = append(actors, s, "v:"+s)
	}
	e.g = libbk.NewGates(actors...)
	// pass-through points: not the entry of any model action
	e.st.G = e.g
	e.st.GCActor = "gc"
	for _, s := range e.names {
		ss := &vsSession{name: s, e: e, work: make(chan func(), 4), visited: make(chan struct{}, 4)}
		e.sess[s] = ss
		go func() {
			for f := range ss.work {
				f()
			}
		}()
	}
	defer func() {
		for _, s := range e.sess {
			close(s.work)
		}
	}()

	// every session is known to the safepoint controller (it has run a command before)
	for _, s := range e.names {
		e.ctrl.SessionCommandBegin(e.sess[s])
		e.ctrl.SessionCommandEnd(e.sess[s])
	}
	// the initial store of the behaviour
	if f := e.setup(init); f != nil {
		return e.finish(f)
	}
	for i := 1; i < len(steps); i++ {
		st := steps[i].(map[string]any)
		e.stepNo, e.action = i, st["a"].(string)
		if f := e.step(st); f != nil {
			return e.finish(f)
		}
		if f := e.check(amap(st["exp"])); f != nil {
			return e.finish(f)
		}
		e.stats[e.action+":"+st["res"].(string)]++
	}
	// free run to the end
	last := amap(steps[len(steps)-1].(map[string]any)["exp"])
	if f := e.freeRun(last); f != nil {
		return e.finish(f)
	}
	closed = true
	if err := gen.Close(); err != nil {
		return e.finish(e.fail("closing the store", "ok", err.Error()))
	}
	re, err := libbk.OpenGenerational(e.ctx, dir, libbk.OpenOpts{Journal: journal})
	if err != nil {
		return e.finish(e.fail("reopening the store", "ok", err.Error()))
	}
	defer re.Close()
	fp, err := Fingerprint(e.ctx, re)
	if err != nil {
		return e.finish(e.fail("after reopening the store a chunk reachable from the root is missing", "closure of the root readable", err.Error()))
	}
	e.evals += len(fp.Addrs) + 1
	return e.finish(common.Result{"ok": true})
}

func (e *vsEngine) finish(r common.Result) common.Result {
	r["evals"] = e.evals
	r["stats"] = e.stats
	r["extra_kept"] = e.extra
	if e.g != nil {
		lg := e.g.Log
		if len(lg) > 60 {
			lg = lg[len(lg)-60:]
		}
		if ok, _ := r["ok"].(bool); !ok {
			r["gates"] = lg
		}
	}
	return r
}

func (e *vsEngine) setup(init map[string]any) common.Result {
	e.action = "Init"
	old := ints(init["old"])
	pres := ints(init["pres"])
	root := common.Int(init["root"])
	inOld := map[int]bool{}
	for _, c := range old {
		inOld[c] = true
	}
	og := e.st.Real().OldGen().(*nbs.NomsBlockStore)
	// both generations load lazily
	if _, err := e.st.Real().Root(e.ctx); err != nil {
		return e.fail("setup: loading the new generation", "ok", err.Error())
	}
	if _, err := og.Root(e.ctx); err != nil {
		return e.fail("setup: loading the old generation", "ok", err.Error())
	}
	for _, c := range old {
		ch := chunks.NewChunk(e.data[c])
		if err := og.Put(e.ctx, ch, getAddrsOf); err != nil {
			return e.fail("setup: put into the old generation", "ok", err.Error())
		}
	}
	if len(old) > 0 {
		if ok, err := og.Commit(e.ctx, hash.Hash{}, hash.Hash{}); err != nil || !ok {
			return e.fail("setup: flushing the old generation", "ok", fmt.Sprint(ok, err))
		}
	}
	for _, c := range pres {
		if inOld[c] {
			continue
		}
		if err := e.st.Real().Put(e.ctx, chunks.NewChunk(e.data[c]), getAddrsOf); err != nil {
			return e.fail("setup: put", "ok", err.Error())
		}
	}
	var rh hash.Hash
	if root != 0 {
		rh = e.addr[root]
	}
	if ok, err := e.st.Real().Commit(e.ctx, rh, hash.Hash{}); err != nil || !ok {
		return e.fail("setup: commit of the initial root", "ok", fmt.Sprint(ok, err))
	}
	return e.check(init)
}

// run starts an operation of a session; the caller then waits for a park or for completion.
func (e *vsEngine) run(s *vsSession, kind string, c int, f func(r *opResult)) *opResult {
	r := &opResult{done: make(chan struct{})}
	s.cur, s.pending, s.pendC = r, kind, c
	s.work <- func() {
		defer close(r.done)
		defer func() {
			if p := recover(); p != nil {
				r.err = fmt.Errorf("PANIC: %v", p)
			}
		}()
		f(r)
	}
	return r
}

func waitDone(r *opResult, d time.Duration) bool {
	select {
	case <-r.done:
		return true
	case <-time.After(d):
		return false
	}
}

func (e *vsEngine) sctx(s string) context.Context { return libbk.WithActor(e.ctx, s) }

var gateOfPC = map[string]string{"begin": "gc.begin", "sp": "sp.begin", "root": "gc.root", "markOld": "gc.mas.old", "toNew": "gc.save.old.2",
	"addOld": "gc.save.old.3", "markNew": "gc.mas.new", "preFin": "sp.pre", "markNext": "gc.save.new.2", "finalMark": "gc.save.new.3",
	"postFin": "sp.post", "swap": "gc.finalize.new", "endgc": "gc.end", "noGC": "gc.prune"}

// passThrough: collector-side points that are not the entry of a model action
var passThrough = map[string]bool{"gc.save.old.1": true, "gc.finalize.old": true, "gc.add.old": true, "gc.save.new.1": true,
	"gc.swap.new": true, "gc.swap.old": true, "gc.add.new": true}

// advanceGC releases the collector's current gate and lets it run to the gate of the model's next collector action.
func (e *vsEngine) advanceGC(wantPC string, release bool) common.Result {
	if release {
		if !e.g.Release("gc") {
			return e.fail("the collector is not parked where the model's action starts", "parked", "running at "+e.g.At("gc"))
		}
	}
	want, gated := gateOfPC[wantPC]
	deadline := time.Now().Add(stepTimeout)
	for {
		at := e.g.WaitAt("gc", 200*time.Millisecond)
		if at != "" && passThrough[at] {
			e.g.Release("gc")
			continue
		}
		if gated && at == want {
			return nil
		}
		if !gated {
			return nil
		}
		if at != "" && at != want {
			return e.fail("the collector stopped at a different call than the model's next action", want, at)
		}
		select {
		case err := <-e.gcDone:
			e.gcLive = false
			e.gcErr = err
			return e.fail("ValueStore.GC returned where the model has the collector at "+wantPC, want, fmt.Sprint("returned: ", err))
		default:
		}
		if time.Now().After(deadline) {
			return e.fail("timeout: the collector did not reach the call of the model's next action", want, "at "+e.g.At("gc"))
		}
	}
}

func (e *vsEngine) step(st map[string]any) common.Result {
	a := e.action
	args := amap(st["args"])
	res := st["res"].(string)
	exp := amap(st["exp"])
	sname, _ := st["s"].(string)
	s := e.sess[sname]
	switch a {
	// ------------------------------------------------ sessions
	case "CmdBegin":
		if err := e.ctrl.SessionCommandBegin(s); err != nil {
			return e.fail("SessionCommandBegin", "ok", err.Error())
		}
		s.inCmd = true
	case "CmdEnd":
		e.ctrl.SessionCommandEnd(s)
		s.inCmd = false
		if contains(strs(exp["vis"]), sname) {
			if at := e.g.WaitAt("v:"+sname, stepTimeout); at != "visit" {
				return e.fail("timeout: CommandEnd callback did not start the visit of the session", "visit started", at)
			}
		}
	case "VisitDo":
		s.visitMu.Lock()
		s.roots = e.hashes(ints(args["roots"]))
		s.visitMu.Unlock()
		if !e.g.Release("v:" + sname) {
			return e.fail("no visit of the session is outstanding", "visit parked", e.g.At("v:"+sname))
		}
		select {
		case <-s.visited:
		case <-time.After(stepTimeout):
			return e.fail("timeout: VisitGCRoots did not finish", "done", "running")
		}
	case "Forget":
	case "RootRead":
		h, err := e.vs.Root(e.sctx(sname))
		if err != nil {
			return e.fail("Root()", "ok", err.Error())
		}
		want := common.Int(amap(exp["seen"])[sname])
		if (want == 0 && !h.IsEmpty()) || (want != 0 && h != e.addr[want]) {
			return e.fail("Root()", want, e.rev[h])
		}
	case "ReadCached":
		c := common.Int(args["c"])
		v, err := e.vs.ReadValue(e.sctx(sname), e.addr[c])
		if err != nil || v == nil {
			return e.fail("cached read", "value", fmt.Sprint(v, err))
		}
	case "ReadBegin":
		// the two halves of NomsBlockStore.Get cannot be separated from outside: the call is made at ReadEnd
	case "ReadEnd":
		c := common.Int(args["c"])
		h := e.addr[c]
		r := e.run(s, "read", c, func(r *opResult) {
			v, err := e.vs.ReadValue(e.sctx(sname), h)
			r.err, r.val = err, v != nil
		})
		return e.expectRead(r, res)
	case "PutTry":
		c := common.Int(args["c"])
		msg := e.data[c]
		e.run(s, "putvs", c, func(r *opResult) {
			_, err := e.vs.WriteValue(e.sctx(sname), types.SerialMessage(msg))
			r.err = err
		})
		if res == "in" {
			if at := e.g.WaitAt(sname, stepTimeout); at != "put.entry" {
				return e.fail("timeout: WriteValue did not reach ChunkStore.Put", "put.entry", at)
			}
		} else {
			time.Sleep(settle)
			if at := e.g.At(sname); at != "" {
				return e.fail("WriteValue entered its bracket while the collector is finalizing", "blocked in waitForNotFinalizingGC", "at "+at)
			}
		}
	case "WriteEnter":
		want := "put.entry"
		if args["k"] == "commit" {
			want = "commit.entry"
		}
		if at := e.g.WaitAt(sname, stepTimeout); at != want {
			return e.fail("timeout: the call blocked in waitForNotFinalizingGC did not proceed", want, at)
		}
	case "PutDo":
		if !e.g.Release(sname) {
			return e.fail("session not parked at put.entry", "put.entry", e.g.At(sname))
		}
		if at := e.g.WaitAt(sname, stepTimeout); at != "put.exit" {
			return e.fail("timeout: ChunkStore.Put did not return inside the bracket", "put.exit", at)
		}
	case "WriteEnd":
		if !e.g.Release(sname) {
			return e.fail("session not parked at the exit of its bracket", "parked", e.g.At(sname))
		}
		if !waitDone(s.cur, stepTimeout) {
			return e.fail("timeout: the bracketed call did not return", "returned", "running")
		}
		if s.pending == "commit" {
			switch s.cres {
			case "ok":
				if s.cur.err != nil || !s.cur.ok {
					return e.fail("Commit result", "true", fmt.Sprint(s.cur.ok, s.cur.err))
				}
			case "moved":
				if s.cur.err != nil || s.cur.ok {
					return e.fail("Commit result", "false (root moved)", fmt.Sprint(s.cur.ok, s.cur.err))
				}
			case "dangling":
				if s.cur.err == nil {
					return e.fail("Commit result", "dangling reference error", fmt.Sprint(s.cur.ok))
				}
			}
		} else if s.cur.err != nil {
			return e.fail("WriteValue", "ok", s.cur.err.Error())
		}
	case "PutRaw":
		c := common.Int(args["c"])
		ch := chunks.NewChunk(e.data[c])
		r := e.run(s, "putns", c, func(r *opResult) {
			r.err = e.st.Put(e.ctx, ch, getAddrsOf) // no actor: NodeStore.Write-style, not gated
		})
		if res == "ok" {
			if !waitDone(r, stepTimeout) {
				return e.fail("timeout: ChunkStore.Put (unbracketed) did not return", "returned", "running")
			}
			if r.err != nil {
				return e.fail("ChunkStore.Put", "ok", r.err.Error())
			}
		} else {
			if waitDone(r, settle) {
				return e.fail("ChunkStore.Put returned while the keeper must make it wait for the end of the collection", "blocked", fmt.Sprint("returned: ", r.err))
			}
		}
	case "Resume":
		if !waitDone(s.cur, stepTimeout) {
			return e.fail("timeout: the call blocked in waitForGC did not return after EndGC", "returned", "running")
		}
		if s.pending == "read" {
			if f := e.readOutcome(s.cur, res); f != nil {
				return f
			}
		} else if s.cur.err != nil {
			return e.fail("ChunkStore.Put after the collection", "ok", s.cur.err.Error())
		}
	case "CommitTry":
		r := common.Int(args["r"])
		lastID := common.Int(args["last"])
		var last hash.Hash
		if lastID != 0 {
			last = e.addr[lastID]
		}
		cur := e.addr[r]
		e.run(s, "commit", r, func(o *opResult) {
			o.ok, o.err = e.vs.Commit(e.sctx(sname), cur, last)
		})
		if res == "in" {
			if at := e.g.WaitAt(sname, stepTimeout); at != "commit.entry" {
				return e.fail("timeout: ValueStore.Commit did not reach ChunkStore.Commit", "commit.entry", at)
			}
		} else {
			time.Sleep(settle)
			if at := e.g.At(sname); at != "" {
				return e.fail("ValueStore.Commit entered its bracket while the collector is finalizing", "blocked", "at "+at)
			}
		}
	case "CommitDo":
		s.cres = res
		if !e.g.Release(sname) {
			return e.fail("session not parked at commit.entry", "commit.entry", e.g.At(sname))
		}
		if at := e.g.WaitAt(sname, stepTimeout); at != "commit.exit" {
			return e.fail("timeout: ChunkStore.Commit did not return inside the bracket", "commit.exit", at)
		}
	// ------------------------------------------------ collector
	case "StartGC":
		e.caller = sname
		e.gcCfg = chunks.GCConfig{Mode: chunks.GCMode_Default, ArchiveLevel: chunks.GCArchiveLevel(common.Int(orZero(e.binding["archive"])))}
		if args["mode"] == "full" {
			e.gcCfg.Mode = chunks.GCMode_Full
		}
		if v, ok := e.binding["incremental"]; ok {
			e.gcCfg.IncrementalFileSize = uint64(common.Int(v))
		}
		e.oldRefs, e.newRefs = hash.HashSet{}, hash.HashSet{}
		for _, h := range e.hashes(ints(args["old"])) {
			e.oldRefs.Insert(h)
		}
		for _, h := range e.hashes(ints(args["new"])) {
			e.newRefs.Insert(h)
		}
	case "ToOldGen":
		e.gcDone = make(chan error, 1)
		e.gcLive = true
		e.waiter = nil
		gctx := libbk.WithActor(e.ctx, "gc")
		cfg, o, n := e.gcCfg, e.oldRefs, e.newRefs
		go func() {
			defer func() {
				if p := recover(); p != nil {
					e.gcDone <- fmt.Errorf("PANIC in ValueStore.GC: %v", p)
				}
			}()
			e.gcDone <- e.vs.GC(gctx, cfg, o, n, gateCtrl{e})
		}()
		return e.advanceGC("begin", false)
	case "SafepointBegin":
		e.callerRt = e.hashes(ints(args["roots"]))
		if f := e.advanceGC(exp["gpc"].(string), true); f != nil {
			return f
		}
		// the visits of quiesced sessions have started
		for _, v := range strs(exp["vis"]) {
			if at := e.g.WaitAt("v:"+v, stepTimeout); at != "visit" {
				return e.fail("timeout: Waiter did not start the visit of quiesced session "+v, "visit", at)
			}
		}
	case "BeginGC", "ToNewGen", "AddOldGenFiles", "PreFinalize", "FinalMark", "PostFinalize", "Swap", "EndGC":
		return e.advanceGC(exp["gpc"].(string), true)
	case "ReadRoot", "MarkOld", "MarkNew", "MarkNext":
		pc := exp["gpc"].(string)
		if pc == "cancel" {
			// the collection ends here by itself (empty root / nothing to collect / dangling): let it unwind
			if !e.g.Release("gc") {
				return e.fail("the collector is not parked", "parked", e.g.At("gc"))
			}
			return nil
		}
		if pc == "toFin" {
			if !e.g.Release("gc") {
				return e.fail("the collector is not parked", "parked", e.g.At("gc"))
			}
			return nil
		}
		return e.advanceGC(pc, true)
	case "SetFinalizing":
		deadline := time.Now().Add(stepTimeout)
		for gcStateNames[field(e.vs, "gcState").Int()] != "Finalizing" {
			if time.Now().After(deadline) {
				return e.fail("timeout: transitionToFinalizingGC did not set the state", "Finalizing", gcStateNames[field(e.vs, "gcState").Int()])
			}
			time.Sleep(2 * time.Millisecond)
		}
	case "TakeFinal":
		return e.advanceGC("finalMark", false)
	case "ToNoGC":
		if !e.g.Release("gc") {
			return e.fail("the collector is not parked at PruneTableFiles", "gc.prune", e.g.At("gc"))
		}
		return e.gcEnd(false)
	case "CancelGC":
		if !e.g.Cancel("gc") {
			return e.fail("the collector is not parked", "parked", e.g.At("gc"))
		}
	case "CancelSafepoint":
		// the deferred CancelSafepoint runs by itself (dropping the registered CommandEnd callbacks at once); the collector
		// then waits for started visits and stops at EndGC. Wait until the callbacks are gone before the next model step.
		deadline := time.Now().Add(stepTimeout)
		for {
			if e.g.At("gc") == "gc.end" || !e.callbacksRegistered() {
				break
			}
			if time.Now().After(deadline) {
				return e.fail("timeout: CancelSafepoint did not drop the CommandEnd callbacks", "dropped", "still registered")
			}
			time.Sleep(2 * time.Millisecond)
		}
	case "FinishCancel":
		return e.gcEnd(true)
	default:
		return e.fail("unknown action", a, nil)
	}
	return nil
}

func orZero(v any) any {
	if v == nil {
		return float64(0)
	}
	return v
}

func contains(a []string, x string) bool {
	for _, y := range a {
		if y == x {
			return true
		}
	}
	return false
}

// gcEnd waits for ValueStore.GC to return (opening the remaining collector gates: EndGC, PruneTableFiles).
func (e *vsEngine) gcEnd(cancelled bool) common.Result {
	deadline := time.Now().Add(stepTimeout)
	for {
		if at := e.g.At("gc"); at != "" {
			e.g.Release("gc")
		}
		select {
		case err := <-e.gcDone:
			e.gcLive = false
			e.gcErr = err
			if err != nil && !cancelled {
				return e.fail("ValueStore.GC failed", "nil", err.Error())
			}
			if err != nil && cancelled && strings.Contains(err.Error(), "PANIC") {
				return e.fail("ValueStore.GC panicked", "error or nil", err.Error())
			}
			return nil
		case <-time.After(5 * time.Millisecond):
		}
		if time.Now().After(deadline) {
			return e.fail("timeout: ValueStore.GC did not return", "returned", "at "+e.g.At("gc"))
		}
	}
}

func (e *vsEngine) readOutcome(r *opResult, res string) common.Result {
	switch res {
	case "ok":
		if r.err != nil || !r.val {
			return e.fail("ReadValue", "a value", fmt.Sprint("found=", r.val, " err=", r.err))
		}
	case "missing", "notfound":
		if r.err != nil || r.val {
			return e.fail("ReadValue", "no value", fmt.Sprint("found=", r.val, " err=", r.err))
		}
	}
	return nil
}

func (e *vsEngine) expectRead(r *opResult, res string) common.Result {
	if res == "blocked" {
		if waitDone(r, settle) {
			return e.fail("the read returned while the keeper must make it wait for the end of the collection", "blocked", fmt.Sprint("found=", r.val, " err=", r.err))
		}
		return nil
	}
	if !waitDone(r, stepTimeout) {
		return e.fail("timeout: ReadValue did not return", "returned", "running")
	}
	return e.readOutcome(r, res)
}

// check compares the real state with TLC's projection after the step.
func (e *vsEngine) check(exp map[string]any) common.Result {
	gs, out, newAddrs, err := e.vsState()
	if err != nil {
		return e.fail("gcNewAddrs", exp["new"], err.Error())
	}
	e.evals += 4
	if gs != exp["gs"].(string) {
		return e.fail("ValueStore.gcState", exp["gs"], gs)
	}
	// a call held in waitForNotFinalizingGC enters its bracket by itself the moment the state leaves Finalizing, a call held
	// in waitForGC retries the moment EndGC broadcasts: the model takes those steps next (Gated), the code has taken them
	autoEnter, autoResume := false, false
	for _, v := range amap(exp["ss"]) {
		if strings.HasSuffix(v.(string), ":waitfin") && exp["gs"].(string) != "Finalizing" {
			autoEnter = true
		}
		if strings.HasSuffix(v.(string), ":blocked") && !abool(exp["kp"]) {
			autoResume = true
		}
	}
	if out != common.Int(exp["out"]) && !autoEnter {
		return e.fail("ValueStore.gcOut", exp["out"], out)
	}
	// transitionToFinalizingGC takes the addresses the moment gcOut = 0; the model's TakeFinal is its next step (Gated)
	autoTake := exp["gpc"] == "waitOut" && common.Int(exp["out"]) == 0
	if fmt.Sprint(newAddrs) != fmt.Sprint(ints(exp["new"])) && !autoTake {
		return e.fail("ValueStore.gcNewAddrs (what the keeper recorded)", ints(exp["new"]), newAddrs)
	}
	kp, _ := nbsGC(e.st.Real().NewGen())
	kpo, _ := nbsGC(e.st.Real().OldGen())
	if kp != abool(exp["kp"]) || kpo != abool(exp["kpo"]) {
		return e.fail("keeper installed (new generation, old generation)", []any{exp["kp"], exp["kpo"]}, []any{kp, kpo})
	}
	rh, err := e.st.Real().Root(e.ctx)
	if err != nil {
		return e.fail("Root()", exp["root"], err.Error())
	}
	wantRoot := common.Int(exp["root"])
	if (wantRoot == 0 && !rh.IsEmpty()) || (wantRoot != 0 && rh != e.addr[wantRoot]) {
		return e.fail("store root", wantRoot, e.rev[rh])
	}
	// sessions
	for s, v := range amap(exp["ss"]) {
		want := v.(string)
		ss := e.sess[s]
		at := e.g.At(s)
		e.evals++
		switch {
		case strings.HasSuffix(want, ":in"):
			if at != "put.entry" && at != "commit.entry" {
				return e.fail("session "+s, want, "at "+at)
			}
		case strings.HasSuffix(want, ":done"):
			if at != "put.exit" && at != "commit.exit" {
				return e.fail("session "+s, want, "at "+at)
			}
		case strings.HasSuffix(want, ":waitfin") && autoEnter, strings.HasSuffix(want, ":blocked") && autoResume:
		case strings.HasSuffix(want, ":waitfin"), strings.HasSuffix(want, ":blocked"):
			if at != "" || ss.cur == nil || waitDone(ss.cur, 0) {
				return e.fail("session "+s, want+" (inside dolt, not returned)", fmt.Sprint("at ", at, " returned=", ss.cur != nil && waitDone(ss.cur, 0)))
			}
		}
	}
	// outstanding visits
	for _, s := range e.names {
		want := contains(strs(exp["vis"]), s)
		got := e.g.At("v:"+s) == "visit"
		if want != got {
			return e.fail("visit of session "+s+" outstanding", want, got)
		}
	}
	// what the store holds: only while no keeper is installed (a Has would take a GC dependency and change the run)
	if !kp && !kpo {
		pres := map[int]bool{}
		for _, c := range ints(exp["pres"]) {
			pres[c] = true
		}
		old := map[int]bool{}
		for _, c := range ints(exp["old"]) {
			old[c] = true
		}
		og := e.st.Real().OldGen().(*nbs.NomsBlockStore)
		for c := 1; c <= e.n; c++ {
			has, err := e.st.Real().Has(e.ctx, e.addr[c])
			if err != nil {
				return e.fail("Has", pres[c], err.Error())
			}
			e.evals++
			if pres[c] && !has {
				return e.fail(fmt.Sprintf("chunk %d is in the model's store but not in the real one", c), "present", "absent")
			}
			if !pres[c] && has {
				e.extra++
			}
			hasOld, err := og.Has(e.ctx, e.addr[c])
			if err != nil {
				return e.fail("old generation Has", old[c], err.Error())
			}
			if old[c] && !hasOld {
				return e.fail(fmt.Sprintf("chunk %d is in the model's old generation but not in the real one", c), "present", "absent")
			}
		}
	}
	return nil
}

// freeRun opens every gate, lets everything finish and checks the property on the real store.
func (e *vsEngine) freeRun(last map[string]any) common.Result {
	e.action = "FreeRun"
	// from here on the sessions report what they hold at the end of the behaviour
	for s, v := range amap(last["know"]) {
		ss := e.sess[s]
		ss.visitMu.Lock()
		ss.roots = e.hashes(ints(v))
		ss.visitMu.Unlock()
		if s == e.caller && last["gpc"] == "sp" {
			e.callerRt = e.hashes(ints(v))
		}
	}
	e.g.FreeAll()
	// every call returns, every command ends (a command that stays open holds the collector at the pre-finalize safepoint
	// for ever -- by design), the collection ends; calls held by the collector return after it
	deadline := time.Now().Add(stepTimeout)
	for {
		busy := false
		for _, s := range e.sess {
			if s.cur != nil && !waitDone(s.cur, 0) {
				busy = true
				continue
			}
			if s.inCmd && s.name != e.caller {
				e.ctrl.SessionCommandEnd(s)
				s.inCmd = false
			}
		}
		if e.gcLive {
			select {
			case err := <-e.gcDone:
				e.gcLive = false
				if err != nil && strings.Contains(err.Error(), "PANIC") {
					return e.fail("ValueStore.GC panicked", "error or nil", err.Error())
				}
			default:
				busy = true
			}
		}
		if !busy {
			break
		}
		if time.Now().After(deadline) {
			var who []string
			for _, s := range e.sess {
				if s.cur != nil && !waitDone(s.cur, 0) {
					who = append(who, s.name+":"+s.pending)
				}
			}
			return e.fail("timeout: not everything returned after all gates were opened", "returned", fmt.Sprint("collector running=", e.gcLive, " calls in flight=", who))
		}
		time.Sleep(5 * time.Millisecond)
	}
	// NoLoss on the real store: root, what the sessions hold, and what their calls in flight have written meanwhile
	var start []hash.Hash
	rh, _ := e.st.Real().Root(e.ctx)
	start = append(start, rh)
	for s, v := range amap(last["know"]) {
		start = append(start, e.hashes(ints(v))...)
		if ss := e.sess[s]; ss.cur != nil && ss.cur.err == nil && (ss.pending == "putvs" || ss.pending == "putns") {
			start = append(start, e.addr[ss.pendC])
		}
	}
	fp, err := walkClosure(e.ctx, e.st.Real(), start, false)
	if err != nil {
		return e.fail("after the schedule something reachable from the root or held by a session is not in the store", "closure readable", err.Error())
	}
	e.evals += len(fp.Addrs)
	return nil
}
