package main

// C09: drive dolt's own loaders over every object of the repository ("touch everything") with the recorder of
// libbk.Store on, then compare with the reference walker:
//
//	A   every address the loaders requested and found is inside the walker closure of the store root;
//	B   every chunk of that closure is scanned for the literal (20 raw bytes) addresses of chunks that exist in the store:
//	    each must be reported by the walker for THAT chunk (this is how "each address field populated by a distinct
//	    value" is realised when SQL cannot make the values distinct: e.g. a rebase's onto-commit is always reachable
//	    through the rebase branch as well, so A alone could never see that the working set's walker omits it).
//
// Nothing here knows which fields a kind has: A and B are differential comparisons of two computations of the real code.
// fieldOf()/coverage() (walk.go) only NAME fields for messages and for the coverage table.

import (
	"context"
	"fmt"
	"io"
	"sort"
	"strings"

	"github.com/dolthub/dolt/go/gen/fb/serial"
	"github.com/dolthub/dolt/go/libraries/doltcore/doltdb"
	"github.com/dolthub/dolt/go/libraries/doltcore/doltdb/durable"
	"github.com/dolthub/dolt/go/libraries/doltcore/ref"
	"github.com/dolthub/dolt/go/store/chunks"
	"github.com/dolthub/dolt/go/store/hash"
	"github.com/dolthub/dolt/go/store/prolly"
	"github.com/dolthub/dolt/go/zz_verif/common"
	"github.com/dolthub/dolt/go/zz_verif/libbk"
	"github.com/dolthub/dolt/go/zz_verif/librepo"
	"github.com/dolthub/dolt/go/zz_verif/sqlh"
)

type toucher struct {
	ctx    context.Context
	ddb    *doltdb.DoltDB
	errs   []string
	roots  map[hash.Hash]bool
	cmts   map[hash.Hash]bool
	counts map[string]int
}

func (t *toucher) err(what string, err error) {
	if err != nil && len(t.errs) < 20 {
		t.errs = append(t.errs, what+": "+err.Error())
	}
}

func drain(ctx context.Context, it prolly.MapIter) (int, error) {
	n := 0
	for {
		_, _, err := it.Next(ctx)
		if err == io.EOF {
			return n, nil
		}
		if err != nil {
			return n, err
		}
		n++
	}
}

func (t *toucher) index(what string, idx durable.Index) {
	if idx == nil {
		return
	}
	m, err := durable.ProllyMapFromIndex(idx)
	if err != nil {
		t.err(what, err)
		return
	}
	it, err := m.IterAll(t.ctx)
	if err != nil {
		t.err(what, err)
		return
	}
	n, err := drain(t.ctx, it)
	t.err(what, err)
	t.counts["index-rows"] += n
}

// c09Live runs the comparison on the live (just reopened, or inside-a-rebase) database.
func (e *engine) c09Live(when string) common.Result {
	ctx := context.Background()
	st := libbk.StoreFor(e.r.Dir + "/db")
	if st == nil {
		return e.fail("C09", "no wrapped store", e.r.Dir, nil)
	}
	ddb := e.r.Srv.DEnv.DoltDB(ctx)
	res, detail := c09Compare(ctx, st, ddb, e.r.Srv, e.cov)
	e.chunksW += res.chunks
	e.reqs += res.requested
	e.r.Evals += res.evals
	e.stats["c09-checkpoints"]++
	for _, s := range res.soft {
		e.soft = append(e.soft, common.Fail(e.stepNo, "C09", s.fp, s.exp, s.got))
	}
	if detail != "" {
		return e.fail("C09", res.fp, "R subset of W at checkpoint "+when, detail)
	}
	return nil
}

type softF struct {
	fp       string
	exp, got any
}
type c09Res struct {
	chunks, requested, evals int
	fp                       string
	soft                     []softF
}

func c09Compare(ctx context.Context, st *libbk.Store, ddb *doltdb.DoltDB, srv *sqlh.Server, cov map[string]int) (c09Res, string) {
	var out c09Res
	ddb.PurgeCaches()
	st.StartRecording()
	t := &toucher{ctx: ctx, ddb: ddb, roots: map[hash.Hash]bool{}, cmts: map[hash.Hash]bool{}, counts: map[string]int{}}
	t.everything()
	sqlErrs := touchSQL(srv)
	_, found := st.StopRecording()
	out.requested = len(found)
	for k, v := range t.counts {
		cov["touched:"+k] += v
	}
	if len(t.errs) > 0 {
		out.fp = "loader-error"
		return out, "dolt's loaders failed on the repository: " + strings.Join(t.errs, "; ")
	}
	if len(sqlErrs) > 0 {
		out.fp = "sql-error"
		return out, "SQL over the system tables failed: " + strings.Join(sqlErrs, "; ")
	}
	W, err := Fingerprint2(ctx, st.Real())
	if err != nil {
		out.fp = "closure"
		return out, "the closure of the store root is not readable: " + err.Error()
	}
	out.chunks = len(W.Addrs)
	// every chunk that exists (garbage included): candidates for the literal scan
	known := map[hash.Hash]int{}
	for h, n := range W.Addrs {
		known[h] = n
	}
	_ = st.Real().IterateAllChunks(ctx, func(c chunks.Chunk) { known[c.Hash()] = len(c.Data()) })
	// A
	var missing []string
	for h := range found {
		out.evals++
		if _, ok := W.Addrs[h]; !ok {
			// who embeds it?
			var holders []string
			for x, d := range W.data {
				if raw, _ := embedded(d, map[hash.Hash]int{h: 1}, x); raw[h] {
					holders = append(holders, kindOf(d)+"."+fieldOf(kindOf(d), d, h))
				}
			}
			sort.Strings(holders)
			missing = append(missing, fmt.Sprintf("%s (embedded in: %v)", h, holders))
		}
	}
	if len(missing) > 0 {
		sort.Strings(missing)
		out.fp = "R-not-in-W"
		return out, fmt.Sprintf("%d addresses that dolt's loaders read are not in the walker closure of the store root: %v", len(missing), head(missing, 6))
	}
	// B
	textKinds := map[string]int{}
	omitted := map[string][]string{}
	for x, d := range W.data {
		kind := kindOf(d)
		coverage(kind, d, cov)
		raw, text := embedded(d, known, x)
		if len(raw)+len(text) == 0 {
			continue
		}
		w, werr := walked(d)
		if werr != nil {
			out.fp = "walker-error"
			return out, fmt.Sprintf("walker failed on a %s chunk: %v", kind, werr)
		}
		for a := range raw {
			out.evals++
			if !w[a] {
				f := kind + "." + fieldOf(kind, d, a)
				omitted[f] = append(omitted[f], fmt.Sprintf("%s in chunk %s", a, x))
			}
		}
		for a := range text {
			if !w[a] {
				textKinds[kind]++
			}
		}
	}
	for k, n := range textKinds {
		cov["text-address-not-walked:"+k] += n
	}
	for f, where := range omitted {
		sort.Strings(where)
		out.soft = append(out.soft, softF{fp: "omitted:" + f,
			exp: "the walker reports every address of an existing chunk that the object embeds",
			got: fmt.Sprintf("%s: %d occurrence(s), e.g. %v", f, len(where), head(where, 2))})
	}
	return out, ""
}

// Fingerprint2 = Fingerprint keeping the bytes.
func Fingerprint2(ctx context.Context, cs reader) (*FP, error) {
	root, err := cs.Root(ctx)
	if err != nil {
		return nil, err
	}
	fp, err := walkClosure(ctx, cs, []hash.Hash{root}, true)
	if err != nil {
		return nil, err
	}
	fp.Root = root
	return fp, nil
}

// ---------------------------------------------------------------------------------------------- loaders (doltdb API)

func (t *toucher) everything() {
	ctx, ddb := t.ctx, t.ddb
	root, err := ddb.NomsRoot(ctx)
	if err != nil {
		t.err("NomsRoot", err)
		return
	}
	dss, err := ddb.DatasetsByRootHash(ctx, root)
	if err != nil {
		t.err("datasets", err)
		return
	}
	var ids []string
	err = dss.IterAll(ctx, func(id string, addr hash.Hash) error {
		ids = append(ids, id)
		return nil
	})
	t.err("datasets.IterAll", err)
	sort.Strings(ids)
	for _, id := range ids {
		t.counts["datasets"]++
		switch {
		case ref.IsWorkingSet(id):
			ws, err := ddb.ResolveWorkingSet(ctx, ref.NewWorkingSetRef(id))
			if err != nil {
				t.err("working set "+id, err)
				continue
			}
			t.counts["workingsets"]++
			t.rootValue("working root of "+id, ws.WorkingRoot())
			t.rootValue("staged root of "+id, ws.StagedRoot())
			if ws.MergeActive() {
				ms := ws.MergeState()
				t.counts["mergestates"]++
				t.commit("merge-state commit of "+id, ms.Commit(), true)
				t.rootValue("pre-merge working root of "+id, ms.PreMergeWorkingRoot())
				if hc := ms.PreMergeHeadCommit(); hc != nil {
					t.commit("pre-merge head commit of "+id, hc, true)
				}
				_ = ms.IterSchemaConflicts(ctx, ddb, func(table doltdb.TableName, conflict doltdb.SchemaConflict) error { return nil })
			}
			if ws.RebaseActive() {
				rs := ws.RebaseState()
				t.counts["rebasestates"]++
				t.commit("onto commit of "+id, rs.OntoCommit(), true)
				t.rootValue("pre-rebase working root of "+id, rs.PreRebaseWorkingRoot())
			}
			_, err = ddb.WorkingSetHashes(ctx, ws)
			t.err("WorkingSetHashes "+id, err)
		case ref.IsRef(id):
			dref, err := ref.Parse(id)
			if err != nil {
				continue
			}
			switch dref.GetType() {
			case ref.BranchRefType, ref.RemoteRefType, ref.InternalRefType, ref.WorkspaceRefType:
				cm, err := ddb.ResolveCommitRef(ctx, dref)
				if err != nil {
					t.err("head of "+id, err)
					continue
				}
				t.history(id, cm)
			case ref.TagRefType:
				tag, err := ddb.ResolveTag(ctx, dref.(ref.TagRef))
				if err != nil {
					t.err("tag "+id, err)
					continue
				}
				t.counts["tags"]++
				t.history(id, tag.Commit)
			case ref.StashRefType:
				name := strings.TrimPrefix(id, "refs/stashes/")
				for i := 0; i < 16; i++ {
					rv, cm, _, err := ddb.GetStashRootAndHeadCommitAtIdx(ctx, i, name)
					if err != nil {
						break
					}
					t.counts["stashes"]++
					t.rootValue(fmt.Sprintf("stash %s@{%d}", name, i), rv)
					t.commit(fmt.Sprintf("head commit of stash %s@{%d}", name, i), cm, true)
				}
			case ref.StatsRefType:
				m, err := ddb.GetStatistics(ctx)
				if err == nil {
					if it, err := m.IterAll(ctx); err == nil {
						n, err := drain(ctx, it)
						t.err("statistics", err)
						t.counts["statistics-rows"] += n
					}
				}
			case ref.TupleRefType:
				_, _, err := ddb.GetTuple(ctx, strings.TrimPrefix(id, "refs/tuples/"))
				t.err("tuple "+id, err)
				t.counts["tuples"]++
			}
		}
	}
	_, err = ddb.GetStashes(ctx)
	t.err("GetStashes", err)
}

// history: the commit, every ancestor, each one's root value, parents and closure.
func (t *toucher) history(what string, cm *doltdb.Commit) {
	stack := []*doltdb.Commit{cm}
	for len(stack) > 0 {
		c := stack[len(stack)-1]
		stack = stack[:len(stack)-1]
		if !t.commit(what, c, true) {
			continue
		}
		for i := 0; i < c.NumParents(); i++ {
			oc, err := c.GetParent(t.ctx, i)
			if err != nil {
				t.err(fmt.Sprintf("parent %d of a commit of %s", i, what), err)
				continue
			}
			if p, ok := oc.ToCommit(); ok {
				stack = append(stack, p)
			}
		}
	}
}

// commit returns false if it was seen before.
func (t *toucher) commit(what string, c *doltdb.Commit, closure bool) bool {
	if c == nil {
		return false
	}
	h, err := c.HashOf()
	if err != nil {
		t.err(what, err)
		return false
	}
	if t.cmts[h] {
		return false
	}
	t.cmts[h] = true
	t.counts["commits"]++
	rv, err := c.GetRootValue(t.ctx)
	if err != nil {
		t.err("root value of commit "+h.String()+" ("+what+")", err)
	} else {
		t.rootValue("root of commit "+h.String(), rv)
	}
	_, err = c.GetCommitMeta(t.ctx)
	t.err("meta of "+what, err)
	if closure {
		cl, err := c.GetCommitClosure(t.ctx)
		if err != nil {
			t.err("closure of commit "+h.String(), err)
		} else if it, err := cl.IterAllReverse(t.ctx); err == nil {
			n := 0
			for {
				_, _, err := it.Next(t.ctx)
				if err != nil {
					break
				}
				n++
			}
			t.counts["closure-entries"] += n
		}
	}
	return true
}

func (t *toucher) rootValue(what string, rv doltdb.RootValue) {
	if rv == nil {
		return
	}
	h, err := rv.HashOf()
	if err != nil {
		t.err(what, err)
		return
	}
	if t.roots[h] {
		return
	}
	t.roots[h] = true
	t.counts["rootvalues"]++
	fkc, err := rv.GetForeignKeyCollection(t.ctx)
	t.err(what+": foreign keys", err)
	if fkc != nil {
		t.counts["foreign-keys"] += fkc.Count()
	}
	names, err := rv.GetAllTableNames(t.ctx, true)
	t.err(what+": table names", err)
	for _, n := range names {
		tbl, ok, err := rv.GetTable(t.ctx, n)
		if err != nil || !ok {
			t.err(what+": table "+n.Name, err)
			continue
		}
		t.counts["tables"]++
		sch, err := tbl.GetSchema(t.ctx)
		if err != nil {
			t.err(what+": schema of "+n.Name, err)
			continue
		}
		rows, err := tbl.GetRowData(t.ctx)
		t.err(what+": rows of "+n.Name, err)
		t.index(what+": rows of "+n.Name, rows)
		for _, ix := range sch.Indexes().AllIndexes() {
			idx, err := tbl.GetIndexRowData(t.ctx, ix.Name())
			if err != nil {
				t.err(what+": index "+ix.Name()+" of "+n.Name, err)
				continue
			}
			t.counts["secondary-indexes"]++
			t.index(what+": index "+ix.Name()+" of "+n.Name, idx)
		}
		arts, err := tbl.GetArtifacts(t.ctx)
		if err != nil {
			t.err(what+": artifacts of "+n.Name, err)
		} else if arts != nil {
			am := durable.ProllyMapFromArtifactIndex(arts)
			if it, err := am.IterAll(t.ctx); err == nil {
				k, err := drain(t.ctx, it)
				t.err(what+": artifacts of "+n.Name, err)
				t.counts["artifacts"] += k
			}
		}
		if has, _ := tbl.HasConflicts(t.ctx); has {
			_, _, _, err := tbl.GetConflictSchemas(t.ctx, n)
			t.err(what+": conflict schemas of "+n.Name, err)
			t.counts["tables-with-conflicts"]++
		}
		_, err = tbl.GetAutoIncrementValue(t.ctx)
		t.err(what+": auto increment of "+n.Name, err)
	}
}

// ---------------------------------------------------------------------------------------------- loaders (SQL)

var sysTables = []string{"dolt_log", "dolt_commits", "dolt_commit_ancestors", "dolt_branches", "dolt_remote_branches", "dolt_remotes", "dolt_tags",
	"dolt_status", "dolt_conflicts", "dolt_constraint_violations", "dolt_schema_conflicts", "dolt_merge_status", "dolt_stashes", "dolt_schemas",
	"dolt_procedures", "dolt_docs", "dolt_ignore", "dolt_statistics", "dolt_diff", "dolt_column_diff", "dolt_rebase", "dolt_backups",
	"dolt_branch_activity", "dolt_tests", "dolt_query_catalog", "dolt_nonlocal_tables"}

var perTable = []string{"dolt_diff_%s", "dolt_history_%s", "dolt_commit_diff_%s", "dolt_conflicts_%s", "dolt_constraint_violations_%s",
	"dolt_blame_%s", "dolt_workspace_%s"}

// touchSQL reads every user table and every system table on every branch with a fresh session. Statements that fail
// because the table does not exist (or is not applicable) are expected; errors that speak of missing chunks are not.
func touchSQL(srv *sqlh.Server) []string {
	var errs []string
	ss, err := srv.NewSession("_touch")
	if err != nil {
		return []string{err.Error()}
	}
	bad := func(q string, err error) {
		if err == nil {
			return
		}
		m := err.Error()
		if strings.Contains(m, "missing chunk") || strings.Contains(m, "dangling") || strings.Contains(m, "empty chunk") || strings.Contains(m, "PANIC") {
			errs = append(errs, q+": "+m)
		}
	}
	q := func(s string) [][]any {
		_, rows, err := librepo.Q(ss, s)
		bad(s, err)
		return rows
	}
	q("use `db`")
	var branches []string
	for _, r := range q("select name from dolt_branches") {
		branches = append(branches, fmt.Sprint(r[0]))
	}
	var hashes []string
	for _, r := range q("select commit_hash from dolt_commits") {
		hashes = append(hashes, fmt.Sprint(r[0]))
	}
	for _, b := range branches {
		q("use `db/" + b + "`")
		var tabs []string
		for _, r := range q("show tables") {
			tabs = append(tabs, fmt.Sprint(r[0]))
		}
		for _, s := range sysTables {
			q("select * from `" + s + "`")
		}
		for _, t := range tabs {
			q("select * from `" + t + "`")
			q("show create table `" + t + "`")
			q("select count(*) from `" + t + "` where c1 is not null")
			q("select * from `" + t + "` as of 'STAGED'")
			q("select * from `" + t + "` as of 'HEAD'")
			for _, p := range perTable {
				name := fmt.Sprintf(p, t)
				if strings.HasPrefix(p, "dolt_commit_diff_") && len(hashes) > 1 {
					q(fmt.Sprintf("select * from `%s` where from_commit = '%s' and to_commit = '%s'", name, hashes[len(hashes)-1], hashes[0]))
					continue
				}
				q("select * from `" + name + "`")
			}
		}
		q("select * from dolt_diff_stat('HEAD', 'WORKING')")
		q("select * from dolt_diff_summary('HEAD', 'WORKING')")
		q("select * from dolt_patch('HEAD', 'WORKING')")
		q("select * from dolt_schema_diff('HEAD', 'WORKING')")
		q("select * from dolt_log()")
		q("select * from dolt_reflog()")
		q("select dolt_merge_base('" + b + "', 'main')")
	}
	q("use `db`")
	for _, r := range q("select tag_name from dolt_tags") {
		q("use `db/" + fmt.Sprint(r[0]) + "`")
		for _, t := range q("show tables") {
			q("select * from `" + fmt.Sprint(t[0]) + "`")
		}
	}
	q("use `db`")
	for i, h := range hashes {
		if i > 12 {
			break
		}
		for _, t := range q("show tables as of '" + h + "'") {
			q("select * from `" + fmt.Sprint(t[0]) + "` as of '" + h + "'")
		}
	}
	return errs
}

var _ = serial.TableFileID
