// Engine "gc" (builder bK): properties C08 (garbage collection keeps everything reachable) and C09 (the reference
// walker reports every address an object can dereference).
//
// Modes (first argument):
//
//	repo   R-binding: behaviours of /verif/spec/RepoGC.tla (Repo.tla + GC / Reopen stuttering steps + collections inside a
//	       rebase in progress) replayed on an in-process SQL engine whose chunk store is libbk.Store (the real generational
//	       store, embedded). After EVERY step the whole repository is compared with TLC's projection (harness/librepo); around
//	       every call dolt_gc(...): the closure of the store root under the REAL walker is identical before and after,
//	       every chunk's bytes still hash to its address, and the same holds on a store freshly opened from disk.
//	       With option c09, at every checkpoint (after a GC, inside a rebase, at the end) the database is reopened, dolt's
//	       own loaders are driven over every object (touch.go) with the recorder on, and R (addresses requested and found)
//	       must be inside W (walker closure of the store root); every chunk is also scanned for embedded addresses of
//	       existing chunks that the walker does not report for it.
//	rich   C09 on scripted repositories that populate the object kinds / optional fields the model's histories cannot
//	       (foreign keys, secondary / unique indexes, out-of-band TEXT/BLOB/JSON, auto-increment, keyless tables,
//	       constraint violations, schema conflicts, stashes, remote-tracking refs, tuples, statistics).
//	vs     G-binding: schedules of /verif/spec/GC.tla (collector phases x session steps) driven on the real
//	       types.ValueStore.GC over the real generational store through the gates of libbk.Store (vs.go).
//	sql    G-binding at SQL level: the real call dolt_gc() (session-aware safepoint controller) gated at its phases,
//	       SQL sessions as writers (sqlg.go).
package main

import (
	"context"
	"fmt"
	"os"
	"regexp"
	"sort"
	"strings"

	"github.com/dolthub/dolt/go/zz_verif/common"
	"github.com/dolthub/dolt/go/zz_verif/libbk"
	"github.com/dolthub/dolt/go/zz_verif/librepo"
	"github.com/dolthub/dolt/go/zz_verif/sqlh"
)

func main() {
	mode := "repo"
	if len(os.Args) > 1 {
		mode = os.Args[1]
	}
	switch mode {
	case "repo":
		libbk.Install()
		common.Run(runRepo)
	case "rich":
		libbk.Install()
		common.Run(runRich)
	case "vs":
		common.Run(runVS)
	case "sql":
		libbk.Install()
		common.Run(runSQL)
	default:
		fmt.Println("unknown mode", mode)
		os.Exit(3)
	}
}

func strs(v any) []string {
	var out []string
	if a, ok := v.([]any); ok {
		for _, x := range a {
			out = append(out, x.(string))
		}
	}
	return out
}

func amap(v any) map[string]any {
	if m, ok := v.(map[string]any); ok {
		return m
	}
	return map[string]any{}
}

func abool(v any) bool {
	b, _ := v.(bool)
	return b
}

// ---------------------------------------------------------------------------------------------- repo mode

type engine struct {
	r       *librepo.Repo
	stepNo  int
	stats   map[string]int
	soft    []any
	tables  []string
	sess    []string
	c09     bool
	cov     map[string]int // C09 coverage table: (kind.field) -> times seen non-empty
	rich    bool           // tables carry an extra out-of-band TEXT column and a secondary index
	gcs     int
	chunksW int
	reqs    int
}

func runRepo(c map[string]any) common.Result {
	tables := strs(c["tables"])
	bd := librepo.NewBinding(amap(c["binding"]), common.Ints(c["keys"]))
	r, err := librepo.Open(strs(c["sessions"]), tables, bd)
	if err != nil {
		return common.Result{"ok": false, "fp": "setup", "detail": err.Error()}
	}
	defer func() {
		r.Srv.Close()
		libbk.CloseAll()
		os.RemoveAll(r.Dir)
	}()
	opts := amap(c["opts"])
	selftestOmit, _ = opts["selftest_omit"].(string)
	defer func() { selftestOmit = "" }()
	e := &engine{r: r, stats: map[string]int{}, tables: tables, sess: strs(c["sessions"]), c09: abool(opts["c09"]), cov: map[string]int{},
		rich: abool(amap(c["binding"])["rich"])}
	steps := c["steps"].([]any)
	mids := strs(c["mid"])
	truncated := -1
	for i, sv := range steps {
		e.stepNo = i
		st := sv.(map[string]any)
		mid := ""
		if i < len(mids) {
			mid = mids[i]
		}
		stop, fail := e.step(st, mid)
		if fail != nil {
			return e.finish(fail)
		}
		e.stats[st["a"].(string)+":"+st["res"].(string)]++
		if stop {
			truncated = i
			break
		}
	}
	if truncated < 0 {
		// final checkpoint: one more collection-free fingerprint + reopen check, and the C09 comparison
		if f := e.checkpoint("final", librepo.DecodeProj(steps[len(steps)-1].(map[string]any)["exp"]), true); f != nil {
			return e.finish(f)
		}
	}
	res := common.Result{"ok": true, "truncated": truncated, "commits": len(r.Hash)}
	return e.finish(res)
}

func (e *engine) finish(res common.Result) common.Result {
	res["stats"] = e.stats
	res["evals"] = e.r.Evals
	res["cov"] = e.cov
	res["gcs"] = e.gcs
	res["chunks_walked"] = e.chunksW
	res["addresses_requested"] = e.reqs
	if len(e.soft) > 0 {
		res["soft"] = e.soft
	}
	return res
}

var errClasses = []struct {
	tag string
	re  *regexp.Regexp
}{
	{"err:nothing", regexp.MustCompile(`(?i)nothing to commit|no changes added to commit`)},
	{"err:dirty", regexp.MustCompile(`(?i)cannot cherry-pick with uncommitted changes|local changes would be overwritten by revert|cannot start a rebase with uncommitted changes`)},
	{"err:mergecommit", regexp.MustCompile(`cherry-picking a merge commit is not supported`)},
	{"err:noparent", regexp.MustCompile(`without parents is not supported|cannot revert commit with no parents`)},
	{"err:empty", regexp.MustCompile(`cherry-pick commit is empty`)},
	{"err:nochange", regexp.MustCompile(`no changes were made, nothing to commit`)},
	{"err:moddel", regexp.MustCompile(`(?i)table was modified in one branch and deleted in the other|schema conflict`)},
	{"err:twice", regexp.MustCompile(`(?i)table with same name .* added in 2 commits|added in 2 commits can't be merged|same name`)},
	{"err:exists", regexp.MustCompile(`already exists`)},
	{"err:nochanges", regexp.MustCompile(`No local changes to save`)},
	{"err:untracked-clash", regexp.MustCompile(`(?i)untracked table.*would be overwritten`)},
	{"err:conflict", regexp.MustCompile(`(?i)local changes to the following tables would be overwritten by applying stash`)},
	{"err:bothws", regexp.MustCompile(`(?i)checkout would overwrite uncommitted changes on target branch`)},
	{"err:overwrite", regexp.MustCompile(`(?i)local changes to the following tables would be overwritten by checkout`)},
	{"err:nocommits", regexp.MustCompile(`didn't identify any commits`)},
	{"err:plan", regexp.MustCompile(`invalid rebase plan`)},
	{"err:unstaged", regexp.MustCompile(`with unstaged changes`)},
}

func classify(err error) string {
	if err == nil {
		return "ok"
	}
	msg := err.Error()
	if strings.Contains(msg, "no changes were made") {
		return "err:nochange"
	}
	for _, c := range errClasses {
		if c.re.MatchString(msg) {
			return c.tag
		}
	}
	return "err:?" + msg
}

func (e *engine) fail(action, what string, exp, got any) common.Result {
	return common.Fail(e.stepNo, action, what, exp, got)
}

func (e *engine) hash(v any) string {
	h, err := e.r.HashOf(common.Int(v))
	if err != nil {
		panic(err)
	}
	return h
}

func firstRow(rows [][]any) []any {
	if len(rows) == 0 {
		return nil
	}
	return rows[0]
}

// filler text of the "rich" binding: a function of the key only, long enough to be stored out of band
func richText(k int64) string {
	return strings.Repeat(fmt.Sprintf("row-%d-", k), 40+int(k%7))
}

var gcArgs = map[string]string{
	"default":    "",
	"full":       "'--full'",
	"shallow":    "'--shallow'",
	"arch0":      "'--archive-level','0'",
	"full-arch0": "'--full','--archive-level','0'",
	"inc":        "'--incremental-file-size','4096'",
	"full-inc":   "'--full','--incremental-file-size','4096'",
}

// step performs one behaviour step (the action switch is the one of harness/repo; GC, Reopen and the collection inside
// a rebase are this engine's).
func (e *engine) step(st map[string]any, mid string) (stop bool, fail common.Result) {
	a := st["a"].(string)
	args := amap(st["args"])
	expRes := st["res"].(string)
	var ss *sqlh.Session
	if s, _ := st["s"].(string); s != "" {
		ss = e.r.Sess[s]
	}
	bd := e.r.Bd
	var err error
	var rows [][]any
	res := ""
	call := func(q string) {
		rows, err = ss.Query(q)
	}
	t, _ := args["t"].(string)
	exp := librepo.DecodeProj(st["exp"])
	switch a {
	case "Insert":
		k := bd.Keys[common.Int(args["k"])]
		if e.rich {
			call(fmt.Sprintf("insert into `%s` (pk, c1, x) values (%d, %s, '%s')", t, k, bd.Lit("c1", common.Int(args["v"])), richText(k)))
		} else {
			call(fmt.Sprintf("insert into `%s` (pk, c1) values (%d, %s)", t, k, bd.Lit("c1", common.Int(args["v"]))))
		}
	case "Update":
		col := args["c"].(string)
		call(fmt.Sprintf("update `%s` set %s = %s where pk = %d", t, col, bd.Lit(col, common.Int(args["v"])), bd.Keys[common.Int(args["k"])]))
		if err == nil && fmt.Sprint(firstRow(rows)) != "[OK(1)]" {
			return false, e.fail(a, "rows affected", "OK(1)", fmt.Sprint(rows))
		}
	case "Delete":
		call(fmt.Sprintf("delete from `%s` where pk = %d", t, bd.Keys[common.Int(args["k"])]))
		if err == nil && fmt.Sprint(firstRow(rows)) != "[OK(1)]" {
			return false, e.fail(a, "rows affected", "OK(1)", fmt.Sprint(rows))
		}
	case "CreateTable":
		if e.rich {
			call(fmt.Sprintf("create table `%s` (pk int primary key, c1 %s, x longtext, key ic1 (c1))", t, bd.SQLType("c1")))
		} else {
			call(fmt.Sprintf("create table `%s` (pk int primary key, c1 %s)", t, bd.SQLType("c1")))
		}
		if err == nil && bd.Filler > 0 {
			var sb strings.Builder
			if e.rich {
				fmt.Fprintf(&sb, "insert into `%s` (pk, c1, x) values ", t)
			} else {
				fmt.Fprintf(&sb, "insert into `%s` (pk, c1) values ", t)
			}
			for i := 0; i < bd.Filler; i++ {
				if i > 0 {
					sb.WriteString(",")
				}
				if e.rich {
					fmt.Fprintf(&sb, "(%d,%s,'%s')", librepo.FillerBase+i*3, bd.Lit("c1", 1+i%len(bd.Pal["c1"])), richText(int64(librepo.FillerBase+i*3)))
				} else {
					fmt.Fprintf(&sb, "(%d,%s)", librepo.FillerBase+i*3, bd.Lit("c1", 1+i%len(bd.Pal["c1"])))
				}
			}
			call(sb.String())
		}
	case "DropTable":
		call(fmt.Sprintf("drop table `%s`", t))
	case "AddColumn":
		call(fmt.Sprintf("alter table `%s` add column c2 %s", t, bd.SQLType("c2")))
	case "Add":
		call(fmt.Sprintf("call dolt_add('%s')", t))
	case "AddAll":
		call("call dolt_add('-A')")
	case "Commit":
		call(fmt.Sprintf("call dolt_commit('-m', 'm%d')", e.stepNo))
	case "CommitAll":
		call(fmt.Sprintf("call dolt_commit('-A', '-m', 'm%d')", e.stepNo))
	case "Branch":
		call(fmt.Sprintf("call dolt_branch('%s', '%s')", args["b"], e.hash(args["c"])))
	case "Tag":
		call(fmt.Sprintf("call dolt_tag('%s', '%s')", args["n"], e.hash(args["c"])))
	case "DeleteTag":
		call(fmt.Sprintf("call dolt_tag('-d', '%s')", args["n"]))
	case "CheckoutSession":
		call(fmt.Sprintf("call dolt_checkout('%s')", args["b"]))
	case "CheckoutMove":
		call(fmt.Sprintf("call dolt_checkout('--move', '%s')", args["b"]))
	case "CheckoutTable":
		call(fmt.Sprintf("call dolt_checkout('%s')", t))
	case "ResetHard":
		call(fmt.Sprintf("call dolt_reset('--hard', '%s')", e.hash(args["c"])))
	case "ResetSoft":
		call(fmt.Sprintf("call dolt_reset('--soft', '%s')", e.hash(args["c"])))
	case "ResetMixed":
		call(fmt.Sprintf("call dolt_reset('%s')", e.hash(args["c"])))
	case "ResetStaged":
		ts := strs(args["ts"])
		if len(ts) == len(e.tables) {
			call("call dolt_reset()")
		} else {
			call(fmt.Sprintf("call dolt_reset('%s')", ts[0]))
		}
	case "StashPush":
		call("call dolt_stash('push', 'st')")
	case "StashPop":
		call(fmt.Sprintf("call dolt_stash('pop', 'st', 'stash@{%d}')", common.Int(args["i"])))
	case "StashDrop":
		call(fmt.Sprintf("call dolt_stash('drop', 'st', 'stash@{%d}')", common.Int(args["i"])))
	case "Merge":
		call(fmt.Sprintf("call dolt_merge('%s')", args["b"]))
		if err == nil {
			row := firstRow(rows)
			switch {
			case fmt.Sprint(row[2]) != "0":
				res = "conflict"
			case fmt.Sprint(row[1]) == "1":
				res = "ff"
			case row[0] == nil || fmt.Sprint(row[0]) == "":
				res = "uptodate"
			default:
				res = "ok"
			}
		}
	case "Abort":
		proc := map[string]string{"merge": "dolt_merge", "cherry": "dolt_cherry_pick", "revert": "dolt_revert"}[args["kind"].(string)]
		call(fmt.Sprintf("call %s('--abort')", proc))
	case "Continue":
		proc := map[string]string{"cherry": "dolt_cherry_pick", "revert": "dolt_revert"}[args["kind"].(string)]
		call(fmt.Sprintf("call %s('--continue')", proc))
		if err == nil && fmt.Sprint(firstRow(rows)[1]) != "0" {
			res = "conflict"
		}
	case "Resolve":
		call(fmt.Sprintf("call dolt_conflicts_resolve('--%s', '%s')", args["side"], t))
	case "CherryPick":
		call(fmt.Sprintf("call dolt_cherry_pick('%s')", e.hash(args["c"])))
		if err == nil && fmt.Sprint(firstRow(rows)[1]) != "0" {
			res = "conflict"
		}
	case "Revert":
		call(fmt.Sprintf("call dolt_revert('%s')", e.hash(args["c"])))
		if err == nil && fmt.Sprint(firstRow(rows)[1]) != "0" {
			res = "conflict"
		}
	case "Rebase":
		var f common.Result
		res, err, f = e.rebase(ss, args, mid)
		if f != nil {
			return false, f
		}
	case "GC":
		if f := e.gc(ss, args["mode"].(string), "GC"); f != nil {
			return false, f
		}
	case "Reopen":
		if f := e.reopen(e.curOf(st)); f != nil {
			return false, f
		}
	default:
		return false, e.fail(a, "unknown action", a, nil)
	}
	if res == "" {
		res = classify(err)
	}
	dev, _ := args["dev"].(string)
	if res != expRes {
		if dev != "" {
			// a named deviation of Repo.tla at which the code gave the intended outcome: bI's engine (C31-C34) judges
			// those; this engine stops following the behaviour here
			e.stats["stopped-at-deviation"]++
			return true, nil
		}
		return false, e.fail(a, "outcome", expRes, res)
	}
	e.r.Evals++
	real, perr := e.r.Project()
	if perr != nil {
		return false, e.fail(a, "projection failed", nil, perr.Error())
	}
	if d := e.r.Compare(exp, real); d != nil {
		if dev != "" {
			e.stats["stopped-at-deviation"]++
			return true, nil
		}
		return false, e.fail(a, d.What, d.Exp, d.Got)
	}
	if a == "GC" {
		// the C09 checkpoint after a collection works on a reopened database
		if f := e.checkpoint("after-gc", exp, false); f != nil {
			return false, f
		}
	}
	return false, nil
}

// curOf: the current branch of every session after the step (the model's cur) -- needed to put sessions back after a reopen.
func (e *engine) curOf(st map[string]any) map[string]string {
	out := map[string]string{}
	for s, b := range amap(amap(st["exp"])["cur"]) {
		out[s] = b.(string)
	}
	return out
}

// gc = call dolt_gc(mode) by session ss, bracketed by the C08 observations (ii) and (iii).
func (e *engine) gc(ss *sqlh.Session, mode, action string) common.Result {
	argl, ok := gcArgs[mode]
	if !ok {
		return e.fail(action, "unknown gc mode", mode, nil)
	}
	st := libbk.StoreFor(e.r.Dir + "/db")
	if st == nil {
		return e.fail(action, "no wrapped store for the repository", e.r.Dir, nil)
	}
	ctx := context.Background()
	pre, err := Fingerprint(ctx, st.Real())
	if err != nil {
		return e.fail(action, "the store is not closed under the walker BEFORE the collection ("+mode+")", "closure of the root readable", err.Error())
	}
	if _, err := ss.Query("call dolt_gc(" + argl + ")"); err != nil {
		return e.fail(action, "dolt_gc("+mode+") failed", "ok", err.Error())
	}
	e.gcs++
	e.stats["gc:"+mode]++
	post, err := Fingerprint(ctx, st.Real())
	if err != nil {
		return e.fail(action, "after dolt_gc("+mode+") a chunk reachable from the store root is missing or damaged", "closure of the root readable", err.Error())
	}
	e.r.Evals += 2
	if d := pre.Diff(post); d != "" {
		return e.fail(action, "reachable state changed across dolt_gc("+mode+")", "same root, same datasets, same (address, bytes) set", d)
	}
	// (iii) a store freshly opened from the files
	re, err := libbk.OpenGenerational(ctx, e.r.Dir+"/db/.dolt/noms", libbk.OpenOpts{Journal: true, ReadOnly: true})
	if err != nil {
		return e.fail(action, "cannot open the directory a second time after dolt_gc("+mode+")", "ok", err.Error())
	}
	defer re.Close()
	disk, err := Fingerprint(ctx, re)
	if err != nil {
		return e.fail(action, "after dolt_gc("+mode+") a freshly opened store misses a reachable chunk", "closure of the root readable from disk", err.Error())
	}
	e.r.Evals++
	if d := post.Diff(disk); d != "" {
		return e.fail(action, "freshly opened store differs from the live one after dolt_gc("+mode+")", "same", d)
	}
	e.chunksW += len(post.Addrs)
	return nil
}

// reopen: the process "ends": engine closed, every database object dropped, directory loaded again, new sessions put
// back on their branches.
func (e *engine) reopen(cur map[string]string) common.Result {
	r := e.r
	r.Srv.Close()
	libbk.CloseAll()
	ctx := context.Background()
	dEnv, err := sqlh.LoadRepo(ctx, r.Dir+"/db")
	if err != nil {
		return e.fail("Reopen", "cannot load the repository again", "ok", err.Error())
	}
	srv, err := sqlh.ServerForEnv(ctx, dEnv, r.Dir+"/db")
	if err != nil {
		return e.fail("Reopen", "cannot start the engine again", "ok", err.Error())
	}
	r.Srv = srv
	names := append([]string{"_insp"}, e.sess...)
	for _, s := range names {
		ss, err := srv.NewSession(s)
		if err != nil {
			return e.fail("Reopen", "new session", "ok", err.Error())
		}
		if err := ss.Exec("set @@dolt_allow_commit_conflicts = 1"); err != nil {
			return e.fail("Reopen", "session setup", "ok", err.Error())
		}
		if s == "_insp" {
			r.Insp = ss
			continue
		}
		r.Sess[s] = ss
		if b := cur[s]; b != "" && b != "main" {
			if err := ss.Exec("call dolt_checkout('" + b + "')"); err != nil {
				return e.fail("Reopen", "putting session "+s+" back on "+b, "ok", err.Error())
			}
		}
	}
	e.stats["reopens"]++
	return nil
}

var planEnum = map[string]string{"pick": "pick", "squash": "squash", "fixup": "fixup", "drop": "drop", "reword": "reword"}

// rebase = dolt_rebase('-i', up); edit the plan; [collection while the rebase is in progress]; dolt_rebase('--continue');
// if it stops: [collection again]; --abort.
func (e *engine) rebase(ss *sqlh.Session, args map[string]any, mid string) (string, error, common.Result) {
	_, err := ss.Query(fmt.Sprintf("call dolt_rebase('-i', '%s')", e.hash(args["up"])))
	if err != nil {
		return "", err, nil
	}
	abort := func() {
		if rows, err := ss.Query("select active_branch()"); err == nil && strings.HasPrefix(fmt.Sprint(rows[0][0]), "dolt_rebase_") {
			if _, err := ss.Query("call dolt_rebase('--abort')"); err != nil {
				panic("dolt_rebase --abort failed: " + err.Error())
			}
		}
	}
	rows, err := ss.Query("select rebase_order, commit_hash from dolt_rebase order by rebase_order")
	if err != nil {
		abort()
		return "", err, nil
	}
	chain := common.Ints(args["chain"])
	plan := strs(args["plan"])
	var got, want []string
	for _, r := range rows {
		got = append(got, fmt.Sprint(r[1]))
	}
	for _, c := range chain {
		want = append(want, e.hash(c))
	}
	if fmt.Sprint(got) != fmt.Sprint(want) {
		abort()
		return "plan-mismatch: default plan " + fmt.Sprint(got) + " model chain " + fmt.Sprint(want), nil, nil
	}
	for i, a := range plan {
		q := fmt.Sprintf("update dolt_rebase set action = '%s' where rebase_order = %d", planEnum[a], i+1)
		if a == "reword" {
			q = fmt.Sprintf("update dolt_rebase set action = 'reword', commit_message = 'reworded %d' where rebase_order = %d", e.stepNo, i+1)
		}
		if _, err := ss.Query(q); err != nil {
			abort()
			return "", fmt.Errorf("updating the plan: %w", err), nil
		}
	}
	midGC := func(when string) common.Result {
		if mid == "" {
			return nil
		}
		if f := e.gc(ss, mid, "Rebase/"+when); f != nil {
			return f
		}
		e.stats["gc-inside-rebase:"+when]++
		if e.c09 {
			if f := e.c09Live("inside-rebase-" + when); f != nil {
				return f
			}
		}
		return nil
	}
	if f := midGC("started"); f != nil {
		return "", nil, f
	}
	_, err = ss.Query("call dolt_rebase('--continue')")
	if err != nil {
		if strings.Contains(err.Error(), "data conflict detected while rebasing") {
			if f := midGC("stopped-on-conflict"); f != nil {
				return "", nil, f
			}
			abort()
			return "conflict-aborted", nil, nil
		}
		abort()
		return "", err, nil
	}
	return "ok", nil, nil
}

// checkpoint: fingerprint + disk check without a collection (final) and, with option c09, the loader/walker comparison
// on a reopened database.
func (e *engine) checkpoint(when string, exp *librepo.Proj, finalFP bool) common.Result {
	ctx := context.Background()
	if finalFP {
		st := libbk.StoreFor(e.r.Dir + "/db")
		fp, err := Fingerprint(ctx, st.Real())
		if err != nil {
			return e.fail("Final", "the closure of the store root is not readable at the end of the behaviour", "readable", err.Error())
		}
		e.chunksW += len(fp.Addrs)
		e.r.Evals++
	}
	if !e.c09 {
		return nil
	}
	if f := e.reopen(exp.Cur); f != nil {
		return f
	}
	return e.c09Live(when)
}

func sortedKeys(m map[string]int) []string {
	var ks []string
	for k := range m {
		ks = append(ks, k)
	}
	sort.Strings(ks)
	return ks
}
