package main

// Scripted repositories (modes "rich" and, for exploration and hand-written repros, any case with "stmts").
//
// A case is {"stmts": ["<session>: <sql>" | "@c09" | "@gc <mode>" | "@fp" | "@reopen" | "@expecterr <session>: <sql>" ...], "name": ...}.
// The C09 comparison (touch.go) and the C08 observations (fingerprint before/after a collection, freshly opened store)
// are the same as in repo mode; there is no model projection here: scripted cases exist to populate object kinds and
// optional fields that the histories of Repo.tla cannot (see coverage()).

import (
	"context"
	"fmt"
	"os"
	"strings"

	"github.com/dolthub/dolt/go/zz_verif/common"
	"github.com/dolthub/dolt/go/zz_verif/libbk"
	"github.com/dolthub/dolt/go/zz_verif/sqlh"
)

type scripted struct {
	dir   string
	srv   *sqlh.Server
	sess  map[string]*sqlh.Session
	cov   map[string]int
	soft  []any
	out   []any
	evals int
	gcs   int
	reqs  int
	chunk int
	step  int
}

func (s *scripted) session(name string) (*sqlh.Session, error) {
	if ss, ok := s.sess[name]; ok {
		return ss, nil
	}
	ss, err := s.srv.NewSession(name)
	if err != nil {
		return nil, err
	}
	if err := ss.Exec("set @@dolt_allow_commit_conflicts = 1"); err != nil {
		return nil, err
	}
	ss.Exec("set @@dolt_force_transaction_commit = 1")
	s.sess[name] = ss
	return ss, nil
}

func (s *scripted) fail(action, what string, exp, got any) common.Result {
	r := common.Fail(s.step, action, what, exp, got)
	return s.finish(r)
}

func (s *scripted) finish(r common.Result) common.Result {
	r["cov"] = s.cov
	r["evals"] = s.evals
	r["gcs"] = s.gcs
	r["addresses_requested"] = s.reqs
	r["chunks_walked"] = s.chunk
	r["out"] = s.out
	if len(s.soft) > 0 {
		r["soft"] = s.soft
	}
	return r
}

func runScript(c map[string]any, stmts []string) common.Result {
	dir, _ := os.MkdirTemp(os.Getenv("VERIF_WORK"), "gc-script-")
	srv, err := sqlh.NewRepoServer(dir, "db")
	if err != nil {
		return common.Result{"ok": false, "fp": "setup", "detail": err.Error()}
	}
	s := &scripted{dir: dir, srv: srv, sess: map[string]*sqlh.Session{}, cov: map[string]int{}}
	defer func() {
		s.srv.Close()
		libbk.CloseAll()
		os.RemoveAll(dir)
	}()
	ctx := context.Background()
	verbose := abool(c["verbose"])
	for i, line := range stmts {
		s.step = i
		line = strings.TrimSpace(line)
		switch {
		case line == "@c09":
			st := libbk.StoreFor(dir + "/db")
			res, detail := c09Compare(ctx, st, s.srv.DEnv.DoltDB(ctx), s.srv, s.cov)
			s.evals += res.evals
			s.reqs += res.requested
			s.chunk += res.chunks
			for _, sf := range res.soft {
				s.soft = append(s.soft, common.Fail(i, "C09", sf.fp, sf.exp, sf.got))
			}
			if detail != "" {
				return s.fail("C09", res.fp, "R subset of W", detail)
			}
		case line == "@fp":
			st := libbk.StoreFor(dir + "/db")
			fp, err := Fingerprint(ctx, st.Real())
			if err != nil {
				return s.fail("Fingerprint", "closure of the store root not readable", "readable", err.Error())
			}
			s.chunk += len(fp.Addrs)
			s.evals++
		case line == "@reopen":
			s.srv.Close()
			libbk.CloseAll()
			dEnv, err := sqlh.LoadRepo(ctx, dir+"/db")
			if err != nil {
				return s.fail("Reopen", "cannot load the repository again", "ok", err.Error())
			}
			srv, err := sqlh.ServerForEnv(ctx, dEnv, dir+"/db")
			if err != nil {
				return s.fail("Reopen", "cannot start the engine again", "ok", err.Error())
			}
			s.srv = srv
			s.sess = map[string]*sqlh.Session{}
		case strings.HasPrefix(line, "@gc "):
			parts := strings.Fields(line)
			mode, who := parts[1], "g"
			if len(parts) > 2 {
				who = parts[2]
			}
			ss, err := s.session(who)
			if err != nil {
				return s.fail("GC", "session", nil, err.Error())
			}
			if f := scriptGC(ctx, s, ss, mode); f != nil {
				return s.finish(f)
			}
		case strings.HasPrefix(line, "@rows "):
			// @rows <session>: <query> => <rows rendered by sqlh.RowsString(sorted)>
			body := strings.TrimPrefix(line, "@rows ")
			k := strings.LastIndex(body, "=>")
			lhs, want := strings.TrimSpace(body[:k]), strings.TrimSpace(body[k+2:])
			j := strings.Index(lhs, ":")
			ss, err := s.session(strings.TrimSpace(lhs[:j]))
			if err != nil {
				return s.fail("Script", "session", nil, err.Error())
			}
			rows, err := ss.Query(strings.TrimSpace(lhs[j+1:]))
			s.evals++
			if err != nil {
				return s.fail("Rows", "query failed: "+lhs, want, err.Error())
			}
			if got := sqlh.RowsString(rows, true); got != want {
				return s.fail("Rows", "result of: "+lhs, want, got)
			}
		default:
			expectErr := false
			if strings.HasPrefix(line, "@expecterr ") {
				expectErr = true
				line = strings.TrimPrefix(line, "@expecterr ")
			}
			j := strings.Index(line, ":")
			sn, q := strings.TrimSpace(line[:j]), strings.TrimSpace(line[j+1:])
			ss, err := s.session(sn)
			if err != nil {
				return s.fail("Script", "session", nil, err.Error())
			}
			rows, err := ss.Query(q)
			if verbose {
				es := ""
				if err != nil {
					es = err.Error()
				}
				s.out = append(s.out, map[string]any{"q": line, "rows": sqlh.RowsString(rows, false), "err": es})
			}
			if err != nil && !expectErr {
				return s.fail("Script", "statement failed: "+line, "ok", err.Error())
			}
			if err == nil && expectErr {
				return s.fail("Script", "statement was expected to fail: "+line, "error", sqlh.RowsString(rows, false))
			}
		}
	}
	return s.finish(common.Result{"ok": true})
}

func scriptGC(ctx context.Context, s *scripted, ss *sqlh.Session, mode string) common.Result {
	argl, ok := gcArgs[mode]
	if !ok {
		return common.Fail(s.step, "GC", "unknown mode", mode, nil)
	}
	st := libbk.StoreFor(s.dir + "/db")
	pre, err := Fingerprint(ctx, st.Real())
	if err != nil {
		return common.Fail(s.step, "GC", "the closure of the store root is not readable BEFORE the collection", "readable", err.Error())
	}
	if _, err := ss.Query("call dolt_gc(" + argl + ")"); err != nil {
		return common.Fail(s.step, "GC", "dolt_gc("+mode+") failed", "ok", err.Error())
	}
	s.gcs++
	post, err := Fingerprint(ctx, st.Real())
	if err != nil {
		return common.Fail(s.step, "GC", "after dolt_gc("+mode+") a chunk reachable from the store root is missing or damaged", "readable", err.Error())
	}
	if d := pre.Diff(post); d != "" {
		return common.Fail(s.step, "GC", "reachable state changed across dolt_gc("+mode+")", "same", d)
	}
	re, err := libbk.OpenGenerational(ctx, s.dir+"/db/.dolt/noms", libbk.OpenOpts{Journal: true, ReadOnly: true})
	if err != nil {
		return common.Fail(s.step, "GC", "cannot open the directory a second time", "ok", err.Error())
	}
	defer re.Close()
	disk, err := Fingerprint(ctx, re)
	if err != nil {
		return common.Fail(s.step, "GC", "after dolt_gc("+mode+") a freshly opened store misses a reachable chunk", "readable", err.Error())
	}
	if d := post.Diff(disk); d != "" {
		return common.Fail(s.step, "GC", "freshly opened store differs from the live one after dolt_gc("+mode+")", "same", d)
	}
	s.evals += 3
	s.chunk += len(post.Addrs)
	return nil
}

func bigText(tag string, n int) string {
	var sb strings.Builder
	for sb.Len() < n {
		fmt.Fprintf(&sb, "%s-%d;", tag, sb.Len())
	}
	return sb.String()
}

// richScript builds a repository with the object kinds / optional fields that Repo.tla's histories do not reach.
// variant selects the collection modes used and small differences in order.
func richScript(variant int) []string {
	modes := []string{"default", "full", "arch0", "full-arch0", "inc", "full-inc"}
	m := func(i int) string { return modes[(variant+i)%len(modes)] }
	big := bigText("blob", 70000)
	mid := bigText("text", 9000)
	js := `{"a": [` + strings.Repeat(`{"k": "`+bigText("j", 200)+`"},`, 60) + `{"z": 1}]}`
	s := []string{
		"a: create table parent (id int primary key auto_increment, name varchar(40), unique key uname (name))",
		"a: create table child (id int primary key, p int, note longtext, doc json, bin longblob, v int, key ip (p), key iv (v, p), foreign key (p) references parent(id))",
		"a: create table keyless (a int, b varchar(20))",
		"a: create table chk (id int primary key, n int, check (n > 0))",
		"a: create view vw as select id, name from parent",
		"a: create trigger trg before insert on keyless for each row set new.b = concat(new.b, '!')",
		"a: create procedure pr() select 1",
		"a: insert into parent (name) values ('one'), ('two'), ('three')",
		fmt.Sprintf("a: insert into child values (1, 1, '%s', '%s', '%s', 10), (2, 2, '%s', '{\"s\": 1}', 'x', 20), (3, 1, 'short', null, null, 30)", mid, js, big, bigText("t2", 30000)),
		"a: insert into keyless values (1, 'x'), (1, 'x'), (2, 'y')",
		bulkChild(100, 260),
		"a: insert into chk values (1, 5)",
		"a: insert into dolt_ignore values ('ign*', true)",
		"a: create table ign1 (x int primary key)",
		"a: call dolt_add('-A')",
		"a: call dolt_commit('-m', 'base')",
		"a: call dolt_tag('v1')",
		"a: call dolt_tag('v2', 'HEAD', '-m', 'annotated')",
		"@gc " + m(0) + " a",
		"@c09",
		// divergent branches: data conflict, constraint violation (fk + unique), schema change
		"a: call dolt_checkout('-b', 'left')",
		"a: update child set v = 11, note = 'left note' where id = 1",
		"a: insert into parent (name) values ('left-only')",
		"a: delete from child where id = 3",
		"a: call dolt_commit('-A', '-m', 'left')",
		"a: call dolt_checkout('main')",
		"a: call dolt_checkout('-b', 'right')",
		"a: update child set v = 12, note = 'right note' where id = 1",
		"a: insert into parent (name) values ('left-only')",
		"a: update child set p = 3 where id = 3",
		"a: alter table keyless add column c int",
		"a: call dolt_commit('-A', '-m', 'right')",
		"a: call dolt_checkout('left')",
		"a: call dolt_merge('right')",
		"@c09",
		"@gc " + m(1) + " a",
		"@c09",
		"a: select * from dolt_conflicts",
		"a: select * from dolt_constraint_violations",
		// a second session: stash, cherry-pick in progress on another branch, rebase in progress on a third
		"b: call dolt_checkout('main')",
		"b: call dolt_checkout('-b', 'work')",
		"b: update child set v = 99 where id = 2",
		"b: insert into keyless values (7, 'stashed')",
		"@expecterr b: select 1 from nosuchtable",
		"b: update chk set n = 6 where id = 1",
		"b: call dolt_stash('push', 'mystash')",
		"b: update chk set n = 7 where id = 1",
		"b: call dolt_stash('push', 'mystash')",
		"b: update child set v = 55 where id = 1",
		"b: call dolt_commit('-A', '-m', 'work1')",
		"b: update child set v = 56 where id = 2",
		"b: call dolt_commit('-A', '-m', 'work2')",
		"b: call dolt_checkout('-b', 'cp', 'left~1')",
		"b: update child set v = 77 where id = 1",
		"b: call dolt_commit('-A', '-m', 'cp1')",
		"b: call dolt_cherry_pick('work~1')",
		"@c09",
		"@gc " + m(2) + " b",
		// a revert that stops on a conflict, on its own branch
		"e: call dolt_checkout('-b', 'rv', 'main')",
		"e: update chk set n = 11 where id = 1",
		"e: call dolt_commit('-A', '-m', 'rv1')",
		"e: update chk set n = 12 where id = 1",
		"e: call dolt_commit('-A', '-m', 'rv2')",
		"e: call dolt_revert('HEAD~1')",
		"@c09",
		"c: call dolt_checkout('work')",
		"c: call dolt_rebase('-i', 'main')",
		"@c09",
		"@gc " + m(3) + " c",
		"@c09",
		"@reopen",
		"@c09",
		"d: call dolt_checkout('dolt_rebase_work')",
		"d: call dolt_rebase('--continue')",
		// remote-tracking refs through a file remote, a backup, tuples are not reachable from SQL
		"d: call dolt_checkout('main')",
		"d: analyze table child",
		"d: analyze table parent",
		"@gc " + m(4) + " d",
		"@c09",
		"d: call dolt_branch('-D', 'right')",
		"d: call dolt_tag('-d', 'v1')",
		"d: call dolt_stash('drop', 'mystash')",
		"@gc " + m(5) + " d",
		"@c09",
		"@reopen",
		"@fp",
		"@c09",
	}
	return s
}

// bulkChild: enough rows with out-of-band values for a multi-level row map whose leaves carry addresses
func bulkChild(from, n int) string {
	var sb strings.Builder
	sb.WriteString("a: insert into child values ")
	for i := 0; i < n; i++ {
		if i > 0 {
			sb.WriteString(",")
		}
		fmt.Fprintf(&sb, "(%d, %d, '%s', '{\"i\": %d}', '%s', %d)", from+i, 1+i%3, bigText(fmt.Sprintf("n%d", i), 2500+(i%4)*2500), i, bigText("b", 100+i), i%17)
	}
	return sb.String()
}

func runRich(c map[string]any) common.Result {
	if st := strs(c["stmts"]); len(st) > 0 {
		return runScript(c, st)
	}
	v := 0
	if x, ok := c["variant"]; ok {
		v = common.Int(x)
	}
	return runScript(c, richScript(v))
}
