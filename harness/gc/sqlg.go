package main

// Mode "sql": binding G of C08 at SQL level. A case is a behaviour of /verif/spec/GC.tla generated with Gated = TRUE and
// Coarse = TRUE. The collector is the REAL procedure: a SQL session runs call dolt_gc(...) (doltdb.DoltDB.GC, the
// real sessionAwareSafepointController, DoltSession.VisitGCRoots); it stops at the collector-side gates of
// libbk.Store, which the driver opens in the order of the model's collector actions. The writers are SQL sessions with
// explicit transactions:
//
//	model                              SQL
//	CmdBegin / CmdEnd                  sql.SessionCommandBegin / End around the statements in between (one long command,
//	                                   as a stored procedure is): a command open when the collection begins holds it at
//	                                   the pre-finalize safepoint until the command ends and the session's roots are visited
//	PutTry / PutRaw (one unit)         INSERT of a fresh row with an out-of-band TEXT value into the session's open transaction
//	CommitTry..WriteEnd (one unit)     COMMIT (every third one: call dolt_commit('-Am', ...))
//	RootRead, Read*, Forget            nothing (reads of the SQL layer are served from session state at its discretion)
//
// Compared after every step: ValueStore.gcState / gcOut and the keeper installation (reflection), the call the
// collector is stopped at, and for every statement whether it has returned or is held inside dolt exactly when the
// model says the call blocks (waitForNotFinalizingGC / waitForGC). At the end all gates are opened; then: every
// statement returned without error, every row of every committed transaction is there (fresh session), the closure of
// the store root is readable (real walker), and the same after closing and reopening the database.

import (
	"context"
	"crypto/md5"
	"fmt"
	"io"
	"os"
	"sort"
	"strings"
	"time"

	"github.com/dolthub/go-mysql-server/sql"

	"github.com/dolthub/dolt/go/store/types"
	"github.com/dolthub/dolt/go/zz_verif/common"
	"github.com/dolthub/dolt/go/zz_verif/libbk"
	"github.com/dolthub/dolt/go/zz_verif/sqlh"
)

type sqlSess struct {
	name    string
	ss      *sqlh.Session
	work    chan func()
	cur     *opResult
	inCmd   bool
	inTx    bool
	pending []int64 // keys inserted in the open transaction
	nCommit int
	noHold  bool // the statement in flight is not expected to be held by the collector
}

type sqlEngine struct {
	dir       string
	srv       *sqlh.Server
	st        *libbk.Store
	vs        *types.ValueStore
	g         *libbk.Gates
	sess      map[string]*sqlSess
	names     []string
	stepNo    int
	action    string
	evals     int
	stats     map[string]int
	gcDone    chan error
	gcLive    bool
	committed map[int64]bool
	nextKey   int64
	mode      string
	gcSess      string
	truncated   bool
	ticker      *sqlh.Session
	tick        int
	nextMarkOld string
}

func (e *sqlEngine) fail(what string, exp, got any) common.Result {
	return common.Fail(e.stepNo, e.action, what, exp, got)
}

// rawQuery runs a statement WITHOUT the command bracket (the caller holds the command open).
func rawQuery(ctx context.Context, ss *sqlh.Session, q string) (rows [][]any, err error) {
	sctx, err := ss.S.Eng.NewContext(ctx, ss.Sess)
	if err != nil {
		return nil, err
	}
	defer func() {
		if p := recover(); p != nil {
			err = fmt.Errorf("PANIC in query %q: %v", q, p)
		}
	}()
	sch, it, _, err := ss.S.Eng.Query(sctx, q)
	if err != nil {
		return nil, err
	}
	for {
		r, err := it.Next(sctx)
		if err == io.EOF {
			break
		}
		if err != nil {
			it.Close(sctx)
			return nil, err
		}
		row := make([]any, len(r))
		for i, v := range r {
			row[i] = sqlh.Norm(sctx, v, sch, i)
		}
		rows = append(rows, row)
	}
	return rows, it.Close(sctx)
}

func (e *sqlEngine) run(s *sqlSess, f func(r *opResult)) *opResult {
	r := &opResult{done: make(chan struct{})}
	s.cur = r
	s.work <- func() {
		defer close(r.done)
		f(r)
	}
	return r
}

// stmt runs one statement of a writer: inside the session's open command if there is one, otherwise as its own command.
func (e *sqlEngine) stmt(s *sqlSess, q string) *opResult {
	inCmd := s.inCmd
	return e.run(s, func(r *opResult) {
		if inCmd {
			_, r.err = rawQuery(context.Background(), s.ss, q)
		} else {
			_, r.err = s.ss.Query(q)
		}
	})
}

func runSQL(c map[string]any) common.Result {
	steps := c["steps"].([]any)
	bd := amap(c["binding"])
	dir, err := os.MkdirTemp(os.Getenv("VERIF_WORK"), "gc-sql-")
	if err != nil {
		return common.Result{"ok": false, "fp": "setup", "detail": err.Error()}
	}
	srv, err := sqlh.NewRepoServer(dir, "db")
	if err != nil {
		return common.Result{"ok": false, "fp": "setup", "detail": err.Error()}
	}
	e := &sqlEngine{dir: dir, srv: srv, sess: map[string]*sqlSess{}, stats: map[string]int{}, committed: map[int64]bool{}, nextKey: 1}
	closedAll := false
	defer func() {
		if e.g != nil {
			e.g.FreeAll()
		}
		if !closedAll {
			e.srv.Close()
			libbk.CloseAll()
		}
		os.RemoveAll(dir)
	}()
	e.st = libbk.StoreFor(dir + "/db")
	if e.st == nil {
		return common.Result{"ok": false, "fp": "setup", "detail": "no wrapped store"}
	}
	vs, ok := libbk.ValueStoreFor(dir + "/db")
	if !ok {
		return common.Result{"ok": false, "fp": "setup", "detail": "no value store"}
	}
	e.vs = vs
	e.names = strs(c["sessions"])
	setup, err := srv.NewSession("_setup")
	if err != nil {
		return common.Result{"ok": false, "fp": "setup", "detail": err.Error()}
	}
	filler := 0
	if f, ok := bd["filler"]; ok {
		filler = common.Int(f)
	}
	setup.MustExec("create table t (pk bigint primary key, s varchar(20), v longtext, key isx (s))")
	setup.MustExec("insert into t values (0, 'base', 'base')")
	for i := 0; i < filler; i += 50 {
		var sb strings.Builder
		sb.WriteString("insert into t values ")
		for j := 0; j < 50 && i+j < filler; j++ {
			if j > 0 {
				sb.WriteString(",")
			}
			fmt.Fprintf(&sb, "(%d, 'filler', '%s')", 1000000+i+j, bigText("f", 300))
		}
		setup.MustExec(sb.String())
	}
	setup.MustExec("call dolt_commit('-Am', 'base')")
	e.committed[0] = true
	e.ticker = setup
	if abool(bd["pregc"]) {
		setup.MustExec("call dolt_gc()")
	}
	for _, n := range e.names {
		ss, err := srv.NewSession(n)
		if err != nil {
			return common.Result{"ok": false, "fp": "setup", "detail": err.Error()}
		}
		ss.MustExec("set autocommit = 0")
		s := &sqlSess{name: n, ss: ss, work: make(chan func(), 4)}
		e.sess[n] = s
		go func() {
			for f := range s.work {
				f()
			}
		}()
	}
	defer func() {
		for _, s := range e.sess {
			close(s.work)
		}
	}()
	e.g = libbk.NewGates("gc")
	e.st.G = e.g
	e.st.GCActor = "gc"

	for i := 1; i < len(steps); i++ {
		st := steps[i].(map[string]any)
		e.stepNo, e.action = i, st["a"].(string)
		if e.action == "StartGC" {
			e.nextMarkOld = ""
			for j := i + 1; j < len(steps); j++ {
				if sj := steps[j].(map[string]any); sj["a"] == "MarkOld" {
					e.nextMarkOld = sj["res"].(string)
					break
				}
			}
		}
		if f := e.step(st); f != nil {
			return e.finish(f)
		}
		if e.truncated {
			e.stats["truncated-at-nothing-to-collect"]++
			break
		}
		if f := e.check(amap(st["exp"])); f != nil {
			return e.finish(f)
		}
		e.stats[e.action+":"+st["res"].(string)]++
	}
	// free run: every statement returns, every command ends (a command that stays open holds the collector at the
	// pre-finalize safepoint -- by design), the collection ends, statements it held return after it
	e.action = "FreeRun"
	e.g.FreeAll()
	deadline := time.Now().Add(stepTimeout)
	for {
		busy := false
		for _, s := range e.sess {
			if s.cur != nil && !waitDone(s.cur, 0) {
				busy = true
				continue
			}
			if s.cur != nil && s.cur.err != nil {
				return e.finish(e.fail("a statement of session "+s.name+" failed", "ok", s.cur.err.Error()))
			}
			if s.inCmd && !(e.gcLive && s.name == e.gcSess) {
				sql.SessionCommandEnd(s.ss.Sess)
				s.inCmd = false
			}
		}
		if e.gcLive {
			select {
			case err := <-e.gcDone:
				e.gcLive = false
				if err != nil {
					return e.finish(e.fail("call dolt_gc() failed", "ok", err.Error()))
				}
			default:
				busy = true
			}
		}
		if !busy {
			break
		}
		if time.Now().After(deadline) {
			return e.finish(e.fail("timeout: not everything returned after all gates were opened", "returned", fmt.Sprint("collector running=", e.gcLive, " at ", e.g.At("gc"))))
		}
		time.Sleep(5 * time.Millisecond)
	}
	// every open command ends, every open transaction commits: data written during the collection and committed afterwards
	for _, n := range e.names {
		s := e.sess[n]
		if s.inCmd {
			sql.SessionCommandEnd(s.ss.Sess)
			s.inCmd = false
		}
		if s.inTx {
			if _, err := s.ss.Query("commit"); err != nil {
				return e.finish(e.fail("COMMIT after the collection failed for session "+n, "ok", err.Error()))
			}
			for _, k := range s.pending {
				e.committed[k] = true
			}
			s.pending, s.inTx = nil, false
		}
	}
	if f := e.verifyData("live"); f != nil {
		return e.finish(f)
	}
	ctx := context.Background()
	if _, err := Fingerprint(ctx, e.st.Real()); err != nil {
		return e.finish(e.fail("after the schedule a chunk reachable from the store root is missing", "closure readable", err.Error()))
	}
	// reopen
	e.srv.Close()
	libbk.CloseAll()
	dEnv, err := sqlh.LoadRepo(ctx, dir+"/db")
	if err != nil {
		closedAll = true
		return e.finish(e.fail("cannot load the repository again", "ok", err.Error()))
	}
	srv2, err := sqlh.ServerForEnv(ctx, dEnv, dir+"/db")
	if err != nil {
		closedAll = true
		return e.finish(e.fail("cannot start the engine again", "ok", err.Error()))
	}
	e.srv = srv2
	e.st = libbk.StoreFor(dir + "/db")
	if f := e.verifyData("reopened"); f != nil {
		return e.finish(f)
	}
	if _, err := Fingerprint(ctx, e.st.Real()); err != nil {
		return e.finish(e.fail("after reopening a chunk reachable from the store root is missing", "closure readable", err.Error()))
	}
	e.evals += 2
	return e.finish(common.Result{"ok": true})
}

func (e *sqlEngine) finish(r common.Result) common.Result {
	r["evals"] = e.evals
	r["stats"] = e.stats
	r["committed_rows"] = len(e.committed)
	if ok, _ := r["ok"].(bool); !ok && e.g != nil {
		lg := e.g.Log
		if len(lg) > 40 {
			lg = lg[len(lg)-40:]
		}
		r["gates"] = lg
	}
	return r
}

// verifyData: the table holds exactly the rows of committed transactions, each with its text intact.
func (e *sqlEngine) verifyData(when string) common.Result {
	ss, err := e.srv.NewSession("_verify")
	if err != nil {
		return e.fail("verify session", "ok", err.Error())
	}
	rows, err := ss.Query("select pk, md5(v), length(v) from t where pk < 1000000 order by pk")
	if err != nil {
		return e.fail("reading the table ("+when+")", "ok", err.Error())
	}
	var got, want []int64
	for _, r := range rows {
		k := r[0].(int64)
		got = append(got, k)
		if want := rowText(k); k > 0 && (fmt.Sprint(r[1]) != fmt.Sprintf("%x", md5.Sum([]byte(want))) || fmt.Sprint(r[2]) != fmt.Sprint(len(want))) {
			return e.fail(fmt.Sprintf("text of row %d (%s)", k, when), fmt.Sprintf("%d bytes, md5 %x", len(want), md5.Sum([]byte(want))), fmt.Sprint(r[2], " bytes, md5 ", r[1]))
		}
	}
	for k := range e.committed {
		want = append(want, k)
	}
	sort.Slice(want, func(i, j int) bool { return want[i] < want[j] })
	e.evals += len(want)
	if fmt.Sprint(got) != fmt.Sprint(want) {
		return e.fail("rows of committed transactions ("+when+")", want, got)
	}
	rows, err = ss.Query("select count(*) from t where s = 'w'")
	if err != nil || fmt.Sprint(rows[0][0]) != fmt.Sprint(len(want)-1) {
		return e.fail("secondary index count ("+when+")", len(want)-1, fmt.Sprint(rows, err))
	}
	return nil
}

func rowText(k int64) string { return bigText(fmt.Sprintf("row%d", k), 6000+int(k%5)*1500) }

var coarseGate = map[string]string{"begin": "gc.begin", "root": "gc.root", "markOld": "gc.mas.old", "toNew": "gc.save.old.2",
	"addOld": "gc.save.old.3", "markNew": "gc.mas.new", "markNext": "gc.save.new.2", "finalMark": "gc.save.new.3",
	"swap": "gc.finalize.new", "endgc": "gc.end", "noGC": "gc.prune"}

func (e *sqlEngine) advanceGC(wantPC string, release bool) common.Result {
	if release {
		if !e.g.Release("gc") {
			return e.fail("the collector is not parked where the model's action starts", "parked", "running at "+e.g.At("gc"))
		}
	}
	want, gated := coarseGate[wantPC]
	if !gated {
		return nil
	}
	deadline := time.Now().Add(stepTimeout)
	for {
		at := e.g.WaitAt("gc", 200*time.Millisecond)
		if at != "" && passThrough[at] {
			e.g.Release("gc")
			continue
		}
		if at == want {
			return nil
		}
		if at != "" {
			return e.fail("call dolt_gc() stopped at a different call than the model's next collector action", want, at)
		}
		select {
		case err := <-e.gcDone:
			e.gcLive = false
			return e.fail("call dolt_gc() returned where the model has the collector at "+wantPC, want, fmt.Sprint("returned: ", err))
		default:
		}
		if time.Now().After(deadline) {
			return e.fail("timeout: call dolt_gc() did not reach the call of the model's next collector action", want, "at "+e.g.At("gc"))
		}
	}
}

func (e *sqlEngine) step(st map[string]any) common.Result {
	a := e.action
	args := amap(st["args"])
	res := st["res"].(string)
	exp := amap(st["exp"])
	sname, _ := st["s"].(string)
	s := e.sess[sname]
	expectBlock := func(r *opResult, what string) common.Result {
		if waitDone(r, settle) {
			return e.fail(what+" returned while the model has the call wait for the end of the collection", "held inside dolt", fmt.Sprint("returned: ", r.err))
		}
		return nil
	}
	expectDone := func(r *opResult, what string) common.Result {
		if !waitDone(r, stepTimeout) {
			return e.fail("timeout: "+what+" did not return", "returned", "running")
		}
		if r.err != nil {
			return e.fail(what+" failed", "ok", r.err.Error())
		}
		return nil
	}
	switch a {
	case "CmdBegin":
		sql.SessionCommandBegin(s.ss.Sess)
		s.inCmd = true
	case "CmdEnd":
		sql.SessionCommandEnd(s.ss.Sess)
		s.inCmd = false
	case "SetFinalizing":
		deadline := time.Now().Add(stepTimeout)
		for gcStateNames[field(e.vs, "gcState").Int()] != "Finalizing" {
			if time.Now().After(deadline) {
				return e.fail("timeout: transitionToFinalizingGC did not set the state", "Finalizing", gcStateNames[field(e.vs, "gcState").Int()])
			}
			time.Sleep(2 * time.Millisecond)
		}
	case "VisitDo", "Forget", "RootRead", "ReadCached", "ReadBegin", "ReadEnd", "WriteEnter", "PutDo", "CommitDo", "WriteEnd",
		"ToOldGen", "SafepointBegin", "PreFinalize", "PostFinalize", "CancelSafepoint":
		// internal to one SQL statement / to the real procedure (Coarse = TRUE makes them follow at once)
		if a == "ReadEnd" && res == "blocked" {
			s.cur = nil
		}
		// WriteEnter: the statement that was held goes on; it returns once the collection is over (checked at ToNoGC)
	case "PutTry", "PutRaw":
		k := e.nextKey
		e.nextKey++
		s.inTx = true
		s.noHold = false
		s.pending = append(s.pending, k)
		r := e.stmt(s, fmt.Sprintf("insert into t values (%d, 'w', '%s')", k, rowText(k)))
		// an INSERT writes tree nodes (NodeStore.Write: unbracketed) AND table / root values (ValueStore.WriteValue:
		// bracketed): it is held whenever the value store is finalizing, also in the window between EndGC and the
		// transition to NoGC in which the model's unbracketed put goes through
		if res == "waitfin" || res == "blocked" || exp["gs"] == "Finalizing" {
			return expectBlock(r, "INSERT")
		}
		return expectDone(r, "INSERT")
	case "Resume":
		// the call held in waitForGC retries; the statement as a whole returns once the collection is over (checked at ToNoGC)
	case "CommitTry":
		s.nCommit++
		q := "commit"
		if s.nCommit%3 == 0 && s.inTx {
			q = fmt.Sprintf("call dolt_commit('-A', '-m', 'c%d', '--allow-empty')", e.stepNo)
		}
		keys := s.pending
		hadTx := s.inTx
		s.pending, s.inTx = nil, false
		r := e.stmt(s, q)
		s.noHold = !hadTx // a COMMIT with nothing to commit does not touch the store: it returns at once
		for _, k := range keys {
			e.committed[k] = true // the statement must succeed (checked when it returns, at the latest in the free run)
		}
		if res == "waitfin" && hadTx {
			return expectBlock(r, "COMMIT")
		}
		if res == "waitfin" {
			return nil
		}
		return expectDone(r, "COMMIT")
	case "StartGC":
		if e.nextMarkOld != "nothing" {
			// the model's store has novelty (dirty): make sure the real one has
			e.tick++
			if _, err := e.ticker.Query(fmt.Sprintf("update t set s = 'base%d' where pk = 0", e.tick)); err != nil {
				return e.fail("setup write", "ok", err.Error())
			}
			if _, err := e.ticker.Query("commit"); err != nil {
				return e.fail("setup commit", "ok", err.Error())
			}
		}
		e.mode = "default"
		if args["mode"] == "full" {
			e.mode = "full"
		}
		argl := gcArgs[e.mode]
		e.gcDone = make(chan error, 1)
		e.gcLive = true
		e.gcSess = sname
		inCmd := s.inCmd
		go func() {
			ctx := libbk.WithActor(context.Background(), "gc")
			if !inCmd {
				sql.SessionCommandBegin(s.ss.Sess)
				defer sql.SessionCommandEnd(s.ss.Sess)
			}
			_, err := rawQuery(ctx, s.ss, "call dolt_gc("+argl+")")
			e.gcDone <- err
		}()
		return e.advanceGC("begin", false)
	case "BeginGC":
		// release BeginGC; the real safepoint controller begins and visits quiesced sessions; next stop: lvs.Root()
		return e.advanceGC("root", true)
	case "ReadRoot", "MarkOld", "MarkNew", "MarkNext":
		pc := exp["gpc"].(string)
		if pc == "cancel" || pc == "toFin" {
			if !e.g.Release("gc") {
				return e.fail("the collector is not parked", "parked", e.g.At("gc"))
			}
			if pc == "cancel" && a == "MarkOld" {
				// the model's store has nothing new since the last collection; whether the real one has (journal writer,
				// session writes of the SQL layer) is not described by the model: if the real collection goes on, stop
				// following the schedule here and let everything run to the end
				for i := 0; i < 200; i++ {
					if at := e.g.At("gc"); at != "" && !passThrough[at] {
						e.truncated = true
						return nil
					}
					select {
					case err := <-e.gcDone:
						e.gcDone <- err
						return nil
					default:
					}
					if at := e.g.At("gc"); at != "" && passThrough[at] {
						e.g.Release("gc")
					}
					time.Sleep(5 * time.Millisecond)
				}
			}
			return nil
		}
		if pc == "preFin" {
			// MarkNew done; the pre-finalize safepoint waits for open commands: the collector stays inside waiter.Wait
			if !e.g.Release("gc") {
				return e.fail("the collector is not parked", "parked", e.g.At("gc"))
			}
			return nil
		}
		return e.advanceGC(pc, true)
	case "ToNewGen", "AddOldGenFiles", "FinalMark", "Swap", "EndGC":
		pc := exp["gpc"].(string)
		if pc == "postFin" {
			pc = "swap"
		}
		return e.advanceGC(pc, true)
	case "TakeFinal":
		return e.advanceGC("finalMark", false)
	case "ToNoGC", "FinishCancel":
		deadline := time.Now().Add(stepTimeout)
		for {
			if time.Now().After(deadline) {
				return e.fail("timeout: call dolt_gc() did not return", "returned", "at "+e.g.At("gc"))
			}
			if at := e.g.At("gc"); at != "" {
				e.g.Release("gc")
			}
			select {
			case err := <-e.gcDone:
				e.gcLive = false
				if err != nil && a == "ToNoGC" {
					return e.fail("call dolt_gc() failed", "ok", err.Error())
				}
				// every statement that the collection held returns now
				for _, n := range e.names {
					if ss := e.sess[n]; ss.cur != nil {
						if f := expectDone(ss.cur, "the statement of session "+n+" that the collection held"); f != nil {
							return f
						}
					}
				}
				return nil
			case <-time.After(20 * time.Millisecond):
			}
		}
	case "CancelGC":
		if !e.g.Cancel("gc") {
			return e.fail("the collector is not parked", "parked", e.g.At("gc"))
		}
	default:
		return e.fail("unknown action", a, nil)
	}
	return nil
}

func (e *sqlEngine) check(exp map[string]any) common.Result {
	pc := exp["gpc"].(string)
	// when the model is past the pre-finalize wait, the real collector must have arrived at the next gate
	if pc == "markNext" {
		if f := e.advanceGC("markNext", false); f != nil {
			return f
		}
	}
	if pc == "swap" {
		if f := e.advanceGC("swap", false); f != nil {
			return f
		}
	}
	if want, ok := coarseGate[pc]; ok && e.gcLive {
		if at := e.g.At("gc"); at != want {
			return e.fail("where call dolt_gc() is stopped", want, at)
		}
	}
	gs := gcStateNames[field(e.vs, "gcState").Int()]
	out := int(field(e.vs, "gcOut").Int())
	e.evals += 3
	stable := pc != "toOld" && pc != "sp" && pc != "toFin" && pc != "cancel" && pc != "cancelWait" && pc != "preFin" && pc != "postFin"
	if stable {
		if gs != exp["gs"].(string) {
			return e.fail("ValueStore.gcState", exp["gs"], gs)
		}
		inWrite := false // Coarse: the bracket of a statement opens and closes within the statement
		for _, v := range amap(exp["ss"]) {
			if w := v.(string); strings.HasSuffix(w, ":in") || strings.HasSuffix(w, ":done") || (strings.HasSuffix(w, ":waitfin") && gs != "Finalizing") {
				inWrite = true
			}
		}
		if out != common.Int(exp["out"]) && !inWrite {
			return e.fail("ValueStore.gcOut", exp["out"], out)
		}
		kp, _ := nbsGC(e.st.Real().NewGen())
		if kp != abool(exp["kp"]) {
			return e.fail("keeper installed on the new generation", exp["kp"], kp)
		}
	}
	for n, v := range amap(exp["ss"]) {
		want := v.(string)
		s := e.sess[n]
		if s == nil || s.cur == nil {
			continue
		}
		e.evals++
		held := strings.HasSuffix(want, ":waitfin") || (strings.HasSuffix(want, ":blocked") && !strings.HasPrefix(want, "read"))
		if held && !s.noHold && exp["gs"] == "Finalizing" && abool(exp["kp"]) && waitDone(s.cur, 0) {
			return e.fail("statement of session "+n, "held inside dolt ("+want+")", fmt.Sprint("returned: ", s.cur.err))
		}
	}
	return nil
}
