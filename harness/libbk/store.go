// Package libbk (builder bK, properties C08 / C09): a chunk store that EMBEDS dolt's real generational store
// (*nbs.GenerationalNBS), so every optional interface dolt asserts on a chunk store survives, and adds
//
//   - a recorder: every address dolt's own loaders request (Get / GetMany / Has / HasMany) while recording is on (C09: R);
//   - gates: park points at the entry / exit of Put and Commit, at BeginGC / EndGC / PruneTableFiles, around every
//     MarkAndSweeper.SaveHashes / Finalize and GCFinalizer.AddChunksToStore / SwapChunksInStore call -- exactly the
//     boundaries of the collector actions of /verif/spec/GC.tla (C08, binding G). A gate only ever delays a call; it
//     never changes arguments or results (except that a cancelled gate makes the GC-side call return an error, which
//     is how GC.tla's CancelGC is driven).
//
// FileFactory replaces dbfactory's "file" factory with one that builds the same stack as
// dbfactory.FileFactory.CreateDbNoCache (file.go:200) with the wrapper slipped in between the generational store and
// the ValueStore / NodeStore: the whole SQL engine then runs on the wrapper and no dolt file is touched.
package libbk

import (
	"context"
	"errors"
	"fmt"
	"net/url"
	"os"
	"path/filepath"
	"sync"
	"time"

	"github.com/dolthub/dolt/go/libraries/doltcore/dbfactory"
	"github.com/dolthub/dolt/go/libraries/doltcore/memlimit"
	"github.com/dolthub/dolt/go/store/chunks"
	"github.com/dolthub/dolt/go/store/datas"
	"github.com/dolthub/dolt/go/store/hash"
	"github.com/dolthub/dolt/go/store/nbs"
	"github.com/dolthub/dolt/go/store/prolly/tree"
	"github.com/dolthub/dolt/go/store/types"
)

// ---------------------------------------------------------------------------------------------- gates

type actorKeyT int

var actorKey actorKeyT

// WithActor tags a context: calls made with it are attributed to |actor| at the gates.
func WithActor(ctx context.Context, actor string) context.Context {
	return context.WithValue(ctx, actorKey, actor)
}

func actorOf(ctx context.Context) string {
	if ctx == nil {
		return ""
	}
	if v, ok := ctx.Value(actorKey).(string); ok {
		return v
	}
	return ""
}

type actorState struct {
	at      string        // park point the actor waits at ("" = running)
	release chan struct{} // closed to let it go
	cancel  bool          // the release was a cancellation
	seq     int           // number of parks so far
}

// Gates is a set of named actors (goroutines) that stop at park points until the driver releases them.
type Gates struct {
	mu     sync.Mutex
	cond   *sync.Cond
	actors map[string]*actorState
	free   map[string]bool // actors that are not (or no longer) gated
	Log    []string        // actor@point in arrival order
}

func NewGates(actors ...string) *Gates {
	g := &Gates{actors: map[string]*actorState{}, free: map[string]bool{}}
	g.cond = sync.NewCond(&g.mu)
	for _, a := range actors {
		g.actors[a] = &actorState{}
	}
	return g
}

// ErrGateCancelled is returned by a GC-side call whose gate was released with Cancel.
var ErrGateCancelled = errors.New("verif: gate cancelled (GC.tla CancelGC)")

// Park blocks the calling goroutine (identified by the actor of ctx) at |point|. Returns true if the release was a cancel.
func (g *Gates) Park(ctx context.Context, point string) bool {
	return g.ParkActor(actorOf(ctx), point)
}

func (g *Gates) ParkActor(actor, point string) bool {
	if g == nil || actor == "" {
		return false
	}
	g.mu.Lock()
	st, ok := g.actors[actor]
	if !ok || g.free[actor] {
		g.mu.Unlock()
		return false
	}
	ch := make(chan struct{})
	st.at, st.release, st.cancel = point, ch, false
	st.seq++
	g.Log = append(g.Log, actor+"@"+point)
	g.cond.Broadcast()
	g.mu.Unlock()
	<-ch
	g.mu.Lock()
	c := st.cancel
	g.mu.Unlock()
	return c
}

// At returns the park point of an actor ("" = running or unknown).
func (g *Gates) At(actor string) string {
	g.mu.Lock()
	defer g.mu.Unlock()
	if st, ok := g.actors[actor]; ok {
		return st.at
	}
	return ""
}

// WaitAt waits until |actor| is parked (at any point) and returns the point; "" on timeout.
func (g *Gates) WaitAt(actor string, timeout time.Duration) string {
	deadline := time.Now().Add(timeout)
	stop := make(chan struct{})
	defer close(stop)
	go func() {
		t := time.NewTicker(5 * time.Millisecond)
		defer t.Stop()
		for {
			select {
			case <-stop:
				return
			case <-t.C:
				g.cond.Broadcast()
			}
		}
	}()
	g.mu.Lock()
	defer g.mu.Unlock()
	for {
		if st, ok := g.actors[actor]; ok && st.at != "" {
			return st.at
		}
		if time.Now().After(deadline) {
			return ""
		}
		g.cond.Wait()
	}
}

// Release lets a parked actor continue. Returns false if it was not parked.
func (g *Gates) Release(actor string) bool { return g.release(actor, false) }

// Cancel lets a parked actor continue and tells the gated call to fail.
func (g *Gates) Cancel(actor string) bool { return g.release(actor, true) }

func (g *Gates) release(actor string, cancel bool) bool {
	g.mu.Lock()
	defer g.mu.Unlock()
	st, ok := g.actors[actor]
	if !ok || st.at == "" {
		return false
	}
	st.at = ""
	st.cancel = cancel
	close(st.release)
	return true
}

// Free makes an actor run through every gate from now on (and releases it if parked).
func (g *Gates) Free(actor string) {
	g.mu.Lock()
	g.free[actor] = true
	st, ok := g.actors[actor]
	if ok && st.at != "" {
		st.at = ""
		close(st.release)
	}
	g.mu.Unlock()
}

// Unfree puts an actor back under the gates.
func (g *Gates) Unfree(actor string) {
	g.mu.Lock()
	delete(g.free, actor)
	g.mu.Unlock()
}

func (g *Gates) FreeAll() {
	g.mu.Lock()
	var as []string
	for a := range g.actors {
		as = append(as, a)
	}
	g.mu.Unlock()
	for _, a := range as {
		g.Free(a)
	}
}

// ---------------------------------------------------------------------------------------------- the store wrapper

type Store struct {
	*nbs.GenerationalNBS

	mu    sync.Mutex
	rec   bool
	reqs  hash.HashSet // addresses requested while recording
	found hash.HashSet // requested addresses for which a chunk came back

	G       *Gates // nil: no gating
	GCActor string // actor name of the collector thread for calls that carry no context (EndGC)

	// counters of collector-side calls, for the engines' own bookkeeping
	SaveCalls int

	rootArmed bool // the next Root() of the collector thread is ValueStore.GC's read of the root (set by BeginGC)
}

func Wrap(st *nbs.GenerationalNBS) *Store {
	return &Store{GenerationalNBS: st, reqs: hash.HashSet{}, found: hash.HashSet{}}
}

var _ chunks.ChunkStore = (*Store)(nil)
var _ chunks.GenerationalCS = (*Store)(nil)
var _ chunks.ChunkStoreGarbageCollector = (*Store)(nil)
var _ chunks.TableFileStore = (*Store)(nil)

// Real returns the wrapped store (reads through it are neither recorded nor gated).
func (s *Store) Real() *nbs.GenerationalNBS { return s.GenerationalNBS }

func (s *Store) StartRecording() {
	s.mu.Lock()
	s.rec = true
	s.reqs = hash.HashSet{}
	s.found = hash.HashSet{}
	s.mu.Unlock()
}

// StopRecording returns the requested addresses and those that were found.
func (s *Store) StopRecording() (hash.HashSet, hash.HashSet) {
	s.mu.Lock()
	defer s.mu.Unlock()
	s.rec = false
	return s.reqs, s.found
}

func (s *Store) note(h hash.Hash, found bool) {
	s.mu.Lock()
	if s.rec {
		s.reqs.Insert(h)
		if found {
			s.found.Insert(h)
		}
	}
	s.mu.Unlock()
}

func (s *Store) Get(ctx context.Context, h hash.Hash) (chunks.Chunk, error) {
	c, err := s.GenerationalNBS.Get(ctx, h)
	s.note(h, err == nil && !c.IsEmpty())
	return c, err
}

func (s *Store) GetMany(ctx context.Context, hashes hash.HashSet, found func(context.Context, *chunks.Chunk)) error {
	for h := range hashes {
		s.note(h, false)
	}
	return s.GenerationalNBS.GetMany(ctx, hashes, func(ctx context.Context, c *chunks.Chunk) {
		s.note(c.Hash(), true)
		found(ctx, c)
	})
}

func (s *Store) Has(ctx context.Context, h hash.Hash) (bool, error) {
	ok, err := s.GenerationalNBS.Has(ctx, h)
	s.note(h, ok)
	return ok, err
}

func (s *Store) HasMany(ctx context.Context, hashes hash.HashSet) (hash.HashSet, error) {
	absent, err := s.GenerationalNBS.HasMany(ctx, hashes)
	if err == nil {
		for h := range hashes {
			s.note(h, !absent.Has(h))
		}
	}
	return absent, err
}

func (s *Store) Put(ctx context.Context, c chunks.Chunk, getAddrs chunks.InsertAddrsCurry) error {
	if a := actorOf(ctx); a == "" || a == s.GCActor {
		return s.GenerationalNBS.Put(ctx, c, getAddrs)
	}
	s.G.Park(ctx, "put.entry")
	err := s.GenerationalNBS.Put(ctx, c, getAddrs)
	s.G.Park(ctx, "put.exit")
	return err
}

func (s *Store) Commit(ctx context.Context, current, last hash.Hash) (bool, error) {
	if a := actorOf(ctx); a == "" || a == s.GCActor {
		return s.GenerationalNBS.Commit(ctx, current, last)
	}
	s.G.Park(ctx, "commit.entry")
	ok, err := s.GenerationalNBS.Commit(ctx, current, last)
	s.G.Park(ctx, "commit.exit")
	return ok, err
}

func (s *Store) Root(ctx context.Context) (hash.Hash, error) {
	if s.GCActor != "" && actorOf(ctx) == s.GCActor {
		s.mu.Lock()
		armed := s.rootArmed
		s.rootArmed = false
		s.mu.Unlock()
		if armed && s.G.Park(ctx, "gc.root") {
			return hash.Hash{}, ErrGateCancelled
		}
	}
	return s.GenerationalNBS.Root(ctx)
}

// --- collector side

func (s *Store) BeginGC(ctx context.Context, keeper func(hash.Hash) bool, mode chunks.GCMode) error {
	if s.G.Park(ctx, "gc.begin") {
		return ErrGateCancelled
	}
	err := s.GenerationalNBS.BeginGC(ctx, keeper, mode)
	if err == nil && s.G != nil && s.GCActor != "" && actorOf(ctx) == s.GCActor {
		s.mu.Lock()
		s.rootArmed = true
		s.mu.Unlock()
	}
	return err
}

func (s *Store) EndGC(mode chunks.GCMode) {
	s.G.ParkActor(s.GCActor, "gc.end")
	s.GenerationalNBS.EndGC(mode)
}

func (s *Store) PruneTableFiles(ctx context.Context) error {
	s.G.Park(ctx, "gc.prune")
	return s.GenerationalNBS.PruneTableFiles(ctx)
}

func (s *Store) MarkAndSweepChunks(ctx context.Context, getAddrs chunks.GetAddrs, filter chunks.HasManyFunc, dest chunks.ChunkStore, config chunks.GCConfig, incr bool) (chunks.MarkAndSweeper, error) {
	// dest is what OldGen() / NewGen() returned: the real *nbs.NomsBlockStore (or nil): passed through untouched
	which := "new"
	if dest != nil && dest == chunks.ChunkStore(s.GenerationalNBS.OldGen()) {
		which = "old"
	}
	if s.G.Park(ctx, "gc.mas."+which) {
		return nil, ErrGateCancelled
	}
	ms, err := s.GenerationalNBS.MarkAndSweepChunks(ctx, getAddrs, filter, dest, config, incr)
	if err != nil {
		return nil, err
	}
	return &sweeper{MarkAndSweeper: ms, s: s, which: which}, nil
}

type sweeper struct {
	chunks.MarkAndSweeper
	s     *Store
	which string
	n     int
}

func (w *sweeper) SaveHashes(ctx context.Context, hs hash.HashSet) error {
	w.n++
	w.s.SaveCalls++
	if w.s.G.Park(ctx, fmt.Sprintf("gc.save.%s.%d", w.which, w.n)) {
		return ErrGateCancelled
	}
	return w.MarkAndSweeper.SaveHashes(ctx, hs)
}

func (w *sweeper) Finalize(ctx context.Context) (chunks.GCFinalizer, error) {
	if w.s.G.Park(ctx, "gc.finalize."+w.which) {
		return nil, ErrGateCancelled
	}
	f, err := w.MarkAndSweeper.Finalize(ctx)
	if err != nil {
		return nil, err
	}
	return &finalizer{GCFinalizer: f, s: w.s, which: w.which}, nil
}

type finalizer struct {
	chunks.GCFinalizer
	s     *Store
	which string
}

func (f *finalizer) AddChunksToStore(ctx context.Context) (chunks.HasManyFunc, error) {
	if f.s.G.Park(ctx, "gc.add."+f.which) {
		return nil, ErrGateCancelled
	}
	return f.GCFinalizer.AddChunksToStore(ctx)
}

func (f *finalizer) SwapChunksInStore(ctx context.Context) error {
	if f.s.G.Park(ctx, "gc.swap."+f.which) {
		return ErrGateCancelled
	}
	return f.GCFinalizer.SwapChunksInStore(ctx)
}

// ---------------------------------------------------------------------------------------------- opening stores

// OpenOpts selects how the new generation is opened.
type OpenOpts struct {
	Journal  bool
	ReadOnly bool // skip the lock wait: a second opener of a locked directory comes up read-only at once
}

// OpenGenerational builds what dbfactory.FileFactory.CreateDbNoCache builds for |dir| (= <repo>/.dolt/noms).
func OpenGenerational(ctx context.Context, dir string, o OpenOpts) (*nbs.GenerationalNBS, error) {
	nbf := types.Format_DOLT
	q := nbs.NewUnlimitedMemQuotaProvider()
	var newGen *nbs.NomsBlockStore
	var err error
	if o.Journal {
		newGen, err = nbs.NewLocalJournalingStoreWithOptions(ctx, nbf.VersionString(), dir, q, false, func(error) {}, nbs.JournalingStoreOptions{SkipLockFileTimeout: o.ReadOnly})
	} else {
		newGen, err = nbs.NewLocalStore(ctx, nbf.VersionString(), dir, memlimit.MemtableSize(), q, false)
	}
	if err != nil {
		return nil, err
	}
	oldgenPath := filepath.Join(dir, "oldgen")
	if err := os.MkdirAll(oldgenPath, os.ModePerm); err != nil {
		return nil, err
	}
	oldGen, err := nbs.NewLocalStore(ctx, newGen.Version(), oldgenPath, memlimit.MemtableSize(), q, false)
	if err != nil {
		return nil, err
	}
	ghost, err := nbs.NewGhostBlockStore(dir)
	if err != nil {
		return nil, err
	}
	return nbs.NewGenerationalCS(oldGen, newGen, ghost), nil
}

// ---------------------------------------------------------------------------------------------- dbfactory replacement

// FileFactory is installed for the "file" scheme by Install(). Stores lists the wrappers it created, by directory.
type FileFactory struct{}

var (
	factMu  sync.Mutex
	Stores  = map[string]*Store{}
	dbs     = map[string]fdb{}
	orig    dbfactory.DBFactory
	Journal = true
)

type fdb struct {
	ddb datas.Database
	vrw types.ValueReadWriter
	ns  tree.NodeStore
}

// Install replaces dbfactory's file factory. Idempotent.
func Install() {
	factMu.Lock()
	defer factMu.Unlock()
	if orig == nil {
		orig = dbfactory.DBFactories[dbfactory.FileScheme]
		dbfactory.DBFactories[dbfactory.FileScheme] = FileFactory{}
	}
}

func (FileFactory) PrepareDB(ctx context.Context, nbf *types.NomsBinFormat, u *url.URL, params map[string]interface{}) error {
	return orig.PrepareDB(ctx, nbf, u, params)
}

func pathOf(u *url.URL) (string, error) {
	p, err := url.PathUnescape(u.Path)
	if err != nil {
		return "", err
	}
	return u.Host + filepath.FromSlash(p), nil
}

// CreateDB: like FileFactory.CreateDB, with its singleton cache (same path: same database object, rebased).
func (FileFactory) CreateDB(ctx context.Context, nbf *types.NomsBinFormat, u *url.URL, params map[string]interface{}) (datas.Database, types.ValueReadWriter, tree.NodeStore, error) {
	path, err := pathOf(u)
	if err != nil {
		return nil, nil, nil, err
	}
	factMu.Lock()
	defer factMu.Unlock()
	if d, ok := dbs[path]; ok {
		if err := datas.ChunkStoreFromDatabase(d.ddb).Rebase(ctx); err != nil {
			return nil, nil, nil, err
		}
		return d.ddb, d.vrw, d.ns, nil
	}
	if fi, err := os.Stat(path); err != nil {
		return nil, nil, nil, err
	} else if !fi.IsDir() {
		return nil, nil, nil, fmt.Errorf("%s is not a directory", path)
	}
	useJournal := false
	if params != nil {
		_, useJournal = params[dbfactory.ChunkJournalParam]
	}
	st, err := OpenGenerational(ctx, path, OpenOpts{Journal: useJournal && Journal})
	if err != nil {
		return nil, nil, nil, err
	}
	w := Wrap(st)
	vrw := types.NewValueStore(w)
	ns := tree.NewNodeStore(w)
	ddb := datas.NewTypesDatabase(vrw, ns)
	Stores[path] = w
	dbs[path] = fdb{ddb, vrw, ns}
	return ddb, vrw, ns, nil
}

// CloseAll closes every database the factory created (the counterpart of dbfactory.CloseAllLocalDatabases).
func CloseAll() {
	factMu.Lock()
	defer factMu.Unlock()
	for p, d := range dbs {
		d.ddb.Close()
		delete(dbs, p)
		delete(Stores, p)
	}
}

// ValueStoreFor returns the ValueStore of the database of |repoDir|.
func ValueStoreFor(repoDir string) (*types.ValueStore, bool) {
	factMu.Lock()
	defer factMu.Unlock()
	want := filepath.Join(repoDir, ".dolt", "noms")
	for p, d := range dbs {
		if filepath.Clean(p) == filepath.Clean(want) {
			vs, ok := d.vrw.(*types.ValueStore)
			return vs, ok
		}
	}
	return nil, false
}

// StoreFor returns the wrapper serving the repository directory |repoDir| (the directory that holds .dolt).
func StoreFor(repoDir string) *Store {
	factMu.Lock()
	defer factMu.Unlock()
	want := filepath.Join(repoDir, ".dolt", "noms")
	for p, s := range Stores {
		if filepath.Clean(p) == filepath.Clean(want) {
			return s
		}
	}
	return nil
}
