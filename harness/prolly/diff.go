// Mode "diff" (C13): replays behaviours / generated cases of spec/MapDiff.tla on prolly.DiffMaps, RangeDiffMaps,
// DiffMapsKeyRange and the tree-level differs. Every expected diff sequence is computed by TLC; this file expands
// model entries to concrete rows (block keys -> n rows) and compares callback by callback (key, type, from, to bytes).
package main

import (
	"bytes"
	"context"
	"errors"
	"fmt"
	"io"

	"github.com/dolthub/dolt/go/store/prolly"
	"github.com/dolthub/dolt/go/store/prolly/tree"
	"github.com/dolthub/dolt/go/store/val"
	"github.com/dolthub/dolt/go/zz_verif/common"
)

// a value descriptor that is not Equal to vd: disables the canonical-tuple filter of makeDiffCallBack (schema change)
var vd2 = val.NewTupleDescriptor(val.Type{Enc: val.Int64Enc}, val.Type{Enc: val.ByteStringEnc, Nullable: true}, val.Type{Enc: val.Int64Enc, Nullable: true})

type xdiff struct {
	f1, f2   int64
	k        val.Tuple
	typ      tree.DiffType
	from, to val.Tuple
}

func diffType(s string) tree.DiffType {
	switch s {
	case "added":
		return tree.AddedDiff
	case "removed":
		return tree.RemovedDiff
	case "modified":
		return tree.ModifiedDiff
	}
	panic("bad diff type " + s)
}

// expandDiff: TLC's [[f1, f2, type, from, to] ...] -> concrete diffs (a block key becomes its n rows).
func (b *xb) expandDiff(seq any) []xdiff {
	var out []xdiff
	for _, e := range seq.([]any) {
		t := e.([]any)
		a, f2 := common.Int(t[0]), common.Int(t[1])
		typ := diffType(t[2].(string))
		from, to := common.Int(t[3]), common.Int(t[4])
		blk := b.isBlock(a, f2)
		rows := b.rowsFor(a, f2, 0)
		for _, r := range rows {
			out = append(out, xdiff{f1: r.f1, f2: r.f2, k: r.k, typ: typ, from: b.valueAt(r.f2, blk, from), to: b.valueAt(r.f2, blk, to)})
		}
	}
	return out
}

// withFillerModified: every filler row as a "modified" with equal sides, merged into the (ascending) model diffs.
func (b *xb) withFillerModified(ds []xdiff) []xdiff {
	out := make([]xdiff, 0, len(ds)+len(b.filler))
	i, j := 0, 0
	for i < len(ds) || j < len(b.filler) {
		if j >= len(b.filler) || (i < len(ds) && (ds[i].f1 < b.filler[j].f1 || (ds[i].f1 == b.filler[j].f1 && ds[i].f2 < b.filler[j].f2))) {
			out = append(out, ds[i])
			i++
		} else {
			f := b.filler[j]
			out = append(out, xdiff{f1: f.f1, f2: f.f2, k: f.k, typ: tree.ModifiedDiff, from: f.v, to: f.v})
			j++
		}
	}
	return out
}

func collect(run func(cb tree.DiffFn) error) ([]tree.Diff, error) {
	var got []tree.Diff
	err := run(func(_ context.Context, d tree.Diff) error {
		got = append(got, d)
		return nil
	})
	if errors.Is(err, io.EOF) {
		err = nil
	}
	return got, err
}

func (b *xb) showDiff(k val.Tuple, typ tree.DiffType, from, to val.Tuple) string {
	f1, _ := kd.GetInt64(0, k)
	f2, _ := kd.GetInt64(1, k)
	where := "filler"
	if a, bb, i, ok := b.modelOf(f1, f2); ok {
		where = fmt.Sprintf("model(%d,%d)#%d", a, bb, i)
	}
	return fmt.Sprintf("%s %s %s->%s", where, typ.DiffTypeString(), showVal(from), showVal(to))
}

func (b *xb) cmpDiffs(exp []xdiff, got []tree.Diff) (bool, string, string) {
	n := len(exp)
	if len(got) < n {
		n = len(got)
	}
	for i := 0; i < n; i++ {
		e, g := exp[i], got[i]
		if !bytes.Equal(e.k, g.Key) || e.typ != g.Type || !bytes.Equal(e.from, g.From) || !bytes.Equal(e.to, g.To) {
			return false, fmt.Sprintf("#%d of %d: %s", i, len(exp), b.showDiff(e.k, e.typ, e.from, e.to)),
				fmt.Sprintf("#%d of %d: %s", i, len(got), b.showDiff(val.Tuple(g.Key), g.Type, val.Tuple(g.From), val.Tuple(g.To)))
		}
	}
	if len(exp) != len(got) {
		es, gs := "end", "end"
		if len(exp) > n {
			es = b.showDiff(exp[n].k, exp[n].typ, exp[n].from, exp[n].to)
		}
		if len(got) > n {
			gs = b.showDiff(val.Tuple(got[n].Key), got[n].Type, val.Tuple(got[n].From), val.Tuple(got[n].To))
		}
		return false, fmt.Sprintf("%d diffs, #%d: %s", len(exp), n, es), fmt.Sprintf("%d diffs, #%d: %s", len(got), n, gs)
	}
	return true, "", ""
}

// f2 interval of model value f2v: width n if some key with this f2 is a block, else 1
func (b *xb) f2width(f2v int) int64 {
	for _, a := range b.f1s {
		if b.isBlock(a, f2v) {
			return b.n
		}
	}
	return 1
}

// xRange maps a model Range (sequence of per-field <<lo, hi>>, bound = <<kind, value>>) to a prolly.Range.
func (b *xb) xRange(r []any) prolly.Range {
	rng := prolly.Range{Desc: kd}
	for i, fr := range r {
		lohi := fr.([]any)
		f := prolly.RangeField{}
		var vals [2]int64
		var kinds [2]string
		for j := 0; j < 2; j++ {
			bd := lohi[j].([]any)
			kinds[j] = bd[0].(string)
			mv := common.Int(bd[1])
			bb := prolly.Bound{}
			if kinds[j] != "none" {
				bb.Binding = true
				bb.Inclusive = kinds[j] == "incl"
				var cv int64
				if i == 0 {
					cv = b.X[mv]
				} else {
					lo, hi := int64(mv)*xS2, int64(mv)*xS2+b.f2width(mv)-1
					// lower bound: incl -> first row of the interval, excl -> last row; upper bound: incl -> last row, excl -> first row
					if (j == 0) == (kinds[j] == "incl") {
						cv = lo
					} else {
						cv = hi
					}
				}
				vals[j] = cv
				var t val.Tuple
				if i == 0 {
					t = key(b.ns, cv, 0)
				} else {
					t = key(b.ns, 0, cv)
				}
				bb.Value = kd.GetField(i, t)
			}
			if j == 0 {
				f.Lo = bb
			} else {
				f.Hi = bb
			}
		}
		if kinds[0] == "incl" && kinds[1] == "incl" && vals[0] == vals[1] {
			f.BoundsAreEqual = true
		}
		rng.Fields = append(rng.Fields, f)
	}
	return rng
}

func runDiff(c map[string]any) common.Result {
	b := getXB(c)
	steps := c["steps"].([]any)
	var from, to prolly.Map
	from, to = b.fillerM, b.fillerM
	evals, queries, rangeQ, nonContig := 0, 0, 0, 0
	maxDiff, blockDiffs, twinFiltered := 0, 0, 0
	fail := func(si int, a, what string, e, g string) common.Result {
		return common.Fail(si, a, what, e, g)
	}
	for si, s0 := range steps {
		s := s0.(map[string]any)
		a := s["a"].(string)
		exp := s["exp"].(map[string]any)
		switch a {
		case "Build":
			ar := s["args"].(map[string]any)
			from = b.edit(from, common.Int(ar["f1"]), common.Int(ar["f2"]), common.Int(ar["v"]))
			to = b.edit(to, common.Int(ar["f1"]), common.Int(ar["f2"]), common.Int(ar["v"]))
		case "Put", "BlockPut":
			ar := s["args"].(map[string]any)
			to = b.edit(to, common.Int(ar["f1"]), common.Int(ar["f2"]), common.Int(ar["v"]))
		case "Delete", "BlockDelete":
			ar := s["args"].(map[string]any)
			to = b.edit(to, common.Int(ar["f1"]), common.Int(ar["f2"]), 0)
		case "Snapshot":
			from = to
		case "Swap":
			from, to = to, from
		case "Rebuild":
			to = b.bulk(s["args"].(map[string]any)["m"])
		case "Case":
			// `from` built from scratch, `to` derived from it by editing only the differing keys (shares every untouched chunk)
			from = b.bulk(exp["from"])
			if common.Int(c["n"])%3 == 2 {
				to = b.bulk(exp["to"])
			} else {
				to = b.mutateTo(from, exp["from"], exp["to"])
			}
		case "Query":
		default:
			panic("unknown action " + a)
		}
		// ---- whole-map diffs after every step
		expDiff := b.expandDiff(exp["diff"])
		expRaw := b.expandDiff(exp["raw"])
		if len(expDiff) > maxDiff {
			maxDiff = len(expDiff)
		}
		if len(expDiff) >= int(b.n/3) && len(b.blocks) > 0 {
			blockDiffs++
		}
		if len(expRaw) != len(expDiff) {
			twinFiltered++
		}
		type chk struct {
			name string
			exp  []xdiff
			run  func(cb tree.DiffFn) error
		}
		to2 := prolly.NewMap(to.Node(), b.ns, kd, vd2)
		checks := []chk{
			{"DiffMaps", expDiff, func(cb tree.DiffFn) error { return prolly.DiffMaps(ctx, from, to, false, cb) }},
			{"DiffMaps(otherValDesc)", expRaw, func(cb tree.DiffFn) error { return prolly.DiffMaps(ctx, from, to2, false, cb) }},
			{"tree.DiffOrderedTrees", expRaw, func(cb tree.DiffFn) error {
				return tree.DiffOrderedTrees(ctx, from.Tuples(), to.Tuples(), false, cb)
			}},
			{"DiffMapsKeyRange(nil,nil)", expDiff, func(cb tree.DiffFn) error { return prolly.DiffMapsKeyRange(ctx, from, to, nil, nil, cb) }},
		}
		if a != "Query" {
			// considerAllRowsModified: with equal value descriptors the filter undoes it; with different ones every common row is modified
			checks = append(checks,
				chk{"DiffMaps(considerAllRowsModified)", expDiff, func(cb tree.DiffFn) error { return prolly.DiffMaps(ctx, from, to, true, cb) }},
				chk{"DiffMaps(considerAllRowsModified,otherValDesc)", b.withFillerModified(b.expandDiff(exp["allmod"])), func(cb tree.DiffFn) error {
					return prolly.DiffMaps(ctx, from, to2, true, cb)
				}})
		}
		for _, ck := range checks {
			got, err := collect(ck.run)
			if err != nil {
				return fail(si, a, ck.name+":error", "no error", err.Error())
			}
			evals++
			if ok, e, g := b.cmpDiffs(ck.exp, got); !ok {
				return fail(si, a, ck.name, e, g)
			}
		}
		// ---- range queries
		var qs []any
		if a == "Query" {
			qs = []any{s["q"]}
		} else if a == "Case" {
			qs = s["qs"].([]any)
		}
		for _, q0 := range qs {
			q := q0.(map[string]any)
			queries++
			switch q["kind"].(string) {
			case "range":
				rng := b.xRange(q["r"].([]any))
				e := b.expandDiff(q["res"])
				got, err := collect(func(cb tree.DiffFn) error { return prolly.RangeDiffMaps(ctx, from, to, rng, cb) })
				if err != nil {
					return fail(si, a, "RangeDiffMaps:error", "no error", err.Error())
				}
				evals++
				rangeQ++
				if !q["contig"].(bool) {
					nonContig++
				}
				if ok, ee, g := b.cmpDiffs(e, got); !ok {
					return fail(si, a, "RangeDiffMaps "+common.JS(q["r"]), ee, g)
				}
			case "keyrange":
				st, sp := common.Ints(q["start"]), common.Ints(q["stop"])
				var start, stop val.Tuple
				if len(st) == 2 {
					start = key(b.ns, b.X[st[0]], int64(st[1])*xS2)
				}
				if len(sp) == 2 {
					stop = key(b.ns, b.X[sp[0]], int64(sp[1])*xS2)
				}
				e := b.expandDiff(q["res"])
				for _, fn := range []struct {
					name string
					run  func(cb tree.DiffFn) error
				}{
					{"DiffMapsKeyRange", func(cb tree.DiffFn) error { return prolly.DiffMapsKeyRange(ctx, from, to, start, stop, cb) }},
					{"tree.DiffKeyRangeOrderedTrees", func(cb tree.DiffFn) error {
						return tree.DiffKeyRangeOrderedTrees(ctx, from.Tuples(), to.Tuples(), start, stop, cb)
					}},
				} {
					got, err := collect(fn.run)
					if err != nil {
						return fail(si, a, fn.name+":error", "no error", err.Error())
					}
					evals++
					exp2 := e
					if fn.name != "DiffMapsKeyRange" && len(b.twinOf) > 0 {
						continue // the tree-level differ has no canonical filter; its expectation is not shipped per key range
					}
					if ok, ee, g := b.cmpDiffs(exp2, got); !ok {
						return fail(si, a, fmt.Sprintf("%s(%v,%v)", fn.name, st, sp), ee, g)
					}
				}
			}
		}
	}
	hf, lf, bf := b.treeStats(from)
	ht, lt, bt := b.treeStats(to)
	return common.Result{"ok": true, "evals": evals, "queries": queries, "rangeQ": rangeQ, "nonContig": nonContig,
		"hFrom": hf, "hTo": ht, "leavesFrom": lf, "leavesTo": lt, "atBoundary": bf + bt, "pivots": b.pivots, "robustPivots": b.robust, "alignedBlocks": b.aligned,
		"maxDiff": maxDiff, "blockDiffs": blockDiffs, "twinFiltered": twinFiltered, "filler": len(b.filler)}
}
