// Mode "merge" (C14): replays behaviours / generated cases of spec/MapMerge.tla on tree.ThreeWayMerge (and its explicit
// patch pipeline PatchGeneratorFromRoots -> SendPatches -> ApplyPatches), prolly.MergeMaps and tree.ThreeWayDiffer.
// Expected merged content, collision callbacks, differ ops come from TLC; collision outcomes are looked up in the
// policy table `outs` shipped with every step (model values (base, left, right) -> resolved value or conflict).
package main

import (
	"bytes"
	"context"
	"errors"
	"fmt"
	"io"
	"sort"

	"github.com/dolthub/go-mysql-server/sql"
	"golang.org/x/sync/errgroup"

	"github.com/dolthub/dolt/go/store/prolly"
	"github.com/dolthub/dolt/go/store/prolly/message"
	"github.com/dolthub/dolt/go/store/prolly/tree"
	"github.com/dolthub/dolt/go/store/val"
	"github.com/dolthub/dolt/go/zz_verif/common"
)

type call struct {
	left, right tree.Diff
}

// model value of a value tuple (first field); nil -> 0
func modelVal(t val.Tuple) int {
	if t == nil {
		return 0
	}
	v, _ := vd.GetInt64(0, t)
	return int(v)
}

// blockIndex: a block row's payload starts with 0xB1 + uint32 row index
func blockIndex(t val.Tuple) (int64, bool) {
	if t == nil {
		return 0, false
	}
	p, ok := vd.GetBytes(1, t)
	if !ok || len(p) < 5 || p[0] != 0xB1 {
		return 0, false
	}
	return int64(uint32(p[1]) | uint32(p[2])<<8 | uint32(p[3])<<16 | uint32(p[4])<<24), true
}

type policy map[[3]int]int

func parsePolicy(outs any) policy {
	p := policy{}
	for _, e := range outs.([]any) {
		t := common.Ints(e)
		p[[3]int{t[0], t[1], t[2]}] = t[3]
	}
	return p
}

// resolve: outcome tuple for a collision of (base, left, right) value tuples; ok=false on conflict.
func (b *xb) resolve(p policy, bs, l, r val.Tuple) (val.Tuple, bool) {
	o, found := p[[3]int{modelVal(bs), modelVal(l), modelVal(r)}]
	if !found {
		panic(fmt.Sprintf("collision handler invoked for a non-collision: base=%s left=%s right=%s", showVal(bs), showVal(l), showVal(r)))
	}
	if o < 0 {
		return nil, false
	}
	if o == 0 {
		return nil, true
	}
	for _, t := range []val.Tuple{l, r, bs} {
		if i, ok := blockIndex(t); ok {
			return b.bvals[o][i], true
		}
	}
	return b.pvals[o], true
}

type slicePatches struct {
	ps []tree.Patch
	i  int
}

func (s *slicePatches) NextPatch(context.Context) (tree.Patch, error) {
	if s.i >= len(s.ps) {
		return tree.Patch{}, nil
	}
	s.i++
	return s.ps[s.i-1], nil
}
func (s *slicePatches) Close() error { return nil }

// explicitPatches runs PatchGeneratorFromRoots + SendPatches and returns the patch list.
func explicitPatches(ns tree.NodeStore, left, right, base *tree.Node, collide tree.CollisionFn) (ps []tree.Patch, err error) {
	ld, err := tree.PatchGeneratorFromRoots[val.Tuple](ctx, ns, ns, base, left, kd)
	if err != nil {
		return nil, err
	}
	rd, err := tree.PatchGeneratorFromRoots[val.Tuple](ctx, ns, ns, base, right, kd)
	if err != nil {
		return nil, err
	}
	eg, ectx := errgroup.WithContext(ctx)
	buf := tree.NewPatchBuffer(tree.PatchBufferSize)
	eg.Go(func() (err error) {
		defer func() {
			if r := recover(); r != nil {
				err = fmt.Errorf("panic in SendPatches: %v", r)
			}
			buf.Close()
		}()
		return tree.SendPatches(ectx, ld, rd, buf, collide)
	})
	eg.Go(func() error {
		for {
			p, err := buf.NextPatch(ectx)
			if err != nil {
				return err
			}
			if p.EndKey == nil {
				return nil
			}
			ps = append(ps, p)
		}
	})
	err = eg.Wait()
	return ps, err
}

func (b *xb) showKey(k val.Tuple) string {
	f1, _ := kd.GetInt64(0, k)
	f2, _ := kd.GetInt64(1, k)
	if a, bb, i, ok := b.modelOf(f1, f2); ok {
		return fmt.Sprintf("model(%d,%d)#%d", a, bb, i)
	}
	return fmt.Sprintf("filler(%d,%d)", f1, f2)
}

type xcall struct {
	k                 val.Tuple
	base, left, right val.Tuple
	ltype, rtype      tree.DiffType
}

func (b *xb) expandCalls(seq any) []xcall {
	var out []xcall
	for _, e := range seq.([]any) {
		t := e.([]any)
		a, f2 := common.Int(t[0]), common.Int(t[1])
		bs, l, r := common.Int(t[2]), common.Int(t[3]), common.Int(t[4])
		lt, rt := diffType(t[5].(string)), diffType(t[6].(string))
		blk := b.isBlock(a, f2)
		for _, row := range b.rowsFor(a, f2, 0) {
			out = append(out, xcall{k: row.k, base: b.valueAt(row.f2, blk, bs), left: b.valueAt(row.f2, blk, l), right: b.valueAt(row.f2, blk, r), ltype: lt, rtype: rt})
		}
	}
	return out
}

type xop struct {
	k                         val.Tuple
	op                        string
	base, left, right, merged val.Tuple
}

func (b *xb) expandOps(seq any) []xop {
	var out []xop
	for _, e := range seq.([]any) {
		t := e.([]any)
		a, f2 := common.Int(t[0]), common.Int(t[1])
		blk := b.isBlock(a, f2)
		for _, row := range b.rowsFor(a, f2, 0) {
			out = append(out, xop{k: row.k, op: t[2].(string), base: b.valueAt(row.f2, blk, common.Int(t[3])), left: b.valueAt(row.f2, blk, common.Int(t[4])),
				right: b.valueAt(row.f2, blk, common.Int(t[5])), merged: b.valueAt(row.f2, blk, common.Int(t[6]))})
		}
	}
	return out
}

var sqlCtx = sql.NewEmptyContext()

func runMerge(c map[string]any) common.Result {
	b := getXB(c)
	steps := c["steps"].([]any)
	ser := message.NewProllyMapSerializer(vd, b.ns.Pool())
	// Init of MapMerge.tla: left = right = base, base is any map; no action of the first step changes base
	base := b.fillerM
	if len(steps) > 0 && steps[0].(map[string]any)["a"].(string) != "Case" {
		base = b.fromFiller(steps[0].(map[string]any)["exp"].(map[string]any)["base"])
	}
	left, right := base, base
	evals, collisionsSeen, rangePatches, pointPatches, maxLevel, merges, blockCollisions, divergentOps := 0, 0, 0, 0, 0, 0, 0, 0
	opKinds := map[string]bool{}
	for si, s0 := range steps {
		s := s0.(map[string]any)
		a := s["a"].(string)
		exp := s["exp"].(map[string]any)
		pol := parsePolicy(exp["outs"])
		var calls []call
		collide := func(l, r tree.Diff) (tree.Diff, bool) {
			calls = append(calls, call{l, r})
			res, ok := b.resolve(pol, val.Tuple(l.From), val.Tuple(l.To), val.Tuple(r.To))
			if !ok {
				return tree.Diff{}, false
			}
			return tree.Diff{Key: l.Key, From: l.From, To: tree.Item(res), Type: tree.ModifiedDiff}, true
		}
		var ar map[string]any
		if m, ok := s["args"].(map[string]any); ok {
			ar = m
		}
		switch a {
		case "EditL", "BlockEditL":
			left = b.edit(left, common.Int(ar["f1"]), common.Int(ar["f2"]), common.Int(ar["v"]))
		case "EditR", "BlockEditR":
			right = b.edit(right, common.Int(ar["f1"]), common.Int(ar["f2"]), common.Int(ar["v"]))
		case "EditBoth":
			left = b.edit(left, common.Int(ar["f1"]), common.Int(ar["f2"]), common.Int(ar["v"]))
			right = b.edit(right, common.Int(ar["f1"]), common.Int(ar["f2"]), common.Int(ar["v"]))
		case "SwapSides":
			left, right = right, left
		case "SetPolicy":
		case "MergeIntoLeft":
			// the merge commit: the real merge result becomes the left branch, the merged-in tip the next base
			root, _, err := tree.ThreeWayMerge(ctx, b.ns, left.Node(), right.Node(), base.Node(), collide, kd, ser)
			if err != nil {
				return common.Fail(si, a, "ThreeWayMerge:error", "no error", err.Error())
			}
			left = prolly.NewMap(root, b.ns, kd, vd)
			base = right
			calls = nil
			merges++
		case "Case":
			if si == 0 && len(steps) == 1 {
				base = b.bulk(exp["base"])
			} else {
				base = b.fromFiller(exp["base"])
			}
			left = b.mutateTo(base, exp["base"], exp["left"])
			right = b.mutateTo(base, exp["base"], exp["right"])
		default:
			panic("unknown action " + a)
		}
		// ------------------------------------------------------------ (1) tree.ThreeWayMerge
		calls = nil
		root, _, err := tree.ThreeWayMerge(ctx, b.ns, left.Node(), right.Node(), base.Node(), collide, kd, ser)
		if err != nil {
			return common.Fail(si, a, "ThreeWayMerge:error", "no error", err.Error())
		}
		merged := prolly.NewMap(root, b.ns, kd, vd)
		wantRows := b.withFiller(b.modelRows(exp["merged"]))
		evals++
		if ok, d := sameRows(wantRows, dumpRows(merged)); !ok {
			return common.Fail(si, a, "ThreeWayMerge:content", "merged = "+common.JS(exp["merged"]), d)
		}
		// canonical shape: the merged root is the root of the bulk-built tree of the same content
		bulk := b.bulkRows(wantRows)
		evals++
		if bulk.HashOf() != merged.HashOf() {
			return common.Fail(si, a, "ThreeWayMerge:canonical-shape", "root "+bulk.HashOf().String()+" (bulk build of the merged content)", "root "+merged.HashOf().String())
		}
		// collision callbacks: exactly the collisions, once each, sides not swapped
		wantCalls := b.expandCalls(exp["collisions"])
		got := append([]call(nil), calls...)
		sort.SliceStable(got, func(i, j int) bool {
			c, _ := kd.Compare(ctx, val.Tuple(got[i].left.Key), val.Tuple(got[j].left.Key))
			return c < 0
		})
		evals++
		if len(got) != len(wantCalls) {
			gk := "-"
			for _, g := range got {
				gk += b.showKey(val.Tuple(g.left.Key)) + " "
			}
			return common.Fail(si, a, "ThreeWayMerge:collision-set", fmt.Sprintf("%d callbacks %s", len(wantCalls), common.JS(exp["collisions"])), fmt.Sprintf("%d callbacks %s", len(got), gk))
		}
		for i, w := range wantCalls {
			g := got[i]
			if !bytes.Equal(w.k, g.left.Key) || !bytes.Equal(w.k, g.right.Key) {
				return common.Fail(si, a, "ThreeWayMerge:collision-set", b.showKey(w.k), b.showKey(val.Tuple(g.left.Key))+"/"+b.showKey(val.Tuple(g.right.Key)))
			}
			if !bytes.Equal(w.left, g.left.To) || !bytes.Equal(w.right, g.right.To) || !bytes.Equal(w.base, g.left.From) || !bytes.Equal(w.base, g.right.From) ||
				w.ltype != g.left.Type || w.rtype != g.right.Type {
				return common.Fail(si, a, "ThreeWayMerge:collision-sides",
					fmt.Sprintf("%s base=%s left=%s(%s) right=%s(%s)", b.showKey(w.k), showVal(w.base), showVal(w.left), w.ltype.DiffTypeString(), showVal(w.right), w.rtype.DiffTypeString()),
					fmt.Sprintf("left{from=%s to=%s %s} right{from=%s to=%s %s}", showVal(val.Tuple(g.left.From)), showVal(val.Tuple(g.left.To)), g.left.Type.DiffTypeString(),
						showVal(val.Tuple(g.right.From)), showVal(val.Tuple(g.right.To)), g.right.Type.DiffTypeString()))
			}
		}
		collisionsSeen += len(wantCalls)
		if len(wantCalls) >= int(b.n/3) && len(b.blocks) > 0 {
			blockCollisions++
		}
		// ------------------------------------------------------------ (2) the patch pipeline, step by step, and prolly.MergeMaps
		ps, err := explicitPatches(b.ns, left.Node(), right.Node(), base.Node(), collide)
		if err != nil {
			return common.Fail(si, a, "SendPatches:error", "no error", err.Error())
		}
		for _, p := range ps {
			if p.Level > 0 {
				rangePatches++
				if p.Level > maxLevel {
					maxLevel = p.Level
				}
			} else {
				pointPatches++
			}
		}
		root2, err := tree.ApplyPatches[val.Tuple](ctx, b.ns, left.Node(), kd, ser, &slicePatches{ps: ps})
		if err != nil {
			return common.Fail(si, a, "ApplyPatches:error", "no error", err.Error())
		}
		evals++
		if root2.HashOf() != root.HashOf() {
			return common.Fail(si, a, "ApplyPatches:root", root.HashOf().String(), root2.HashOf().String())
		}
		mm, _, err := prolly.MergeMaps(ctx, left, right, base, collide)
		if err != nil {
			return common.Fail(si, a, "MergeMaps:error", "no error", err.Error())
		}
		evals++
		if mm.HashOf() != root.HashOf() {
			return common.Fail(si, a, "MergeMaps:root", root.HashOf().String(), mm.HashOf().String())
		}
		// ------------------------------------------------------------ (3) tree.ThreeWayDiffer
		resolveCb := func(_ *sql.Context, l, r, bs val.Tuple) (val.Tuple, bool, error) {
			res, ok := b.resolve(pol, bs, l, r)
			return res, ok, nil
		}
		differ, err := tree.NewThreeWayDiffer(ctx, b.ns, left.Tuples(), right.Tuples(), base.Tuples(), resolveCb, false, tree.ThreeWayDiffInfo{}, kd)
		if err != nil {
			return common.Fail(si, a, "ThreeWayDiffer:error", "no error", err.Error())
		}
		wantOps := b.expandOps(exp["ops"])
		mut := left.Mutate()
		n := 0
		for {
			d, err := differ.Next(sqlCtx)
			if errors.Is(err, io.EOF) {
				break
			}
			if err != nil {
				return common.Fail(si, a, "ThreeWayDiffer:error", "no error", err.Error())
			}
			if n >= len(wantOps) {
				return common.Fail(si, a, "ThreeWayDiffer:ops", fmt.Sprintf("%d ops", len(wantOps)), fmt.Sprintf("extra op %s at %s", d.Op.String(), b.showKey(d.Key)))
			}
			w := wantOps[n]
			if !bytes.Equal(w.k, d.Key) || w.op != d.Op.String() {
				return common.Fail(si, a, "ThreeWayDiffer:ops", fmt.Sprintf("#%d %s at %s", n, w.op, b.showKey(w.k)), fmt.Sprintf("#%d %s at %s", n, d.Op.String(), b.showKey(d.Key)))
			}
			if !bytes.Equal(w.base, d.Base) || !bytes.Equal(w.left, d.Left) || !bytes.Equal(w.right, d.Right) || !bytes.Equal(w.merged, d.Merged) {
				return common.Fail(si, a, "ThreeWayDiffer:op-fields", fmt.Sprintf("#%d %s at %s base=%s left=%s right=%s merged=%s", n, w.op, b.showKey(w.k), showVal(w.base), showVal(w.left), showVal(w.right), showVal(w.merged)),
					fmt.Sprintf("base=%s left=%s right=%s merged=%s", showVal(d.Base), showVal(d.Left), showVal(d.Right), showVal(d.Merged)))
			}
			opKinds[w.op] = true
			switch d.Op {
			case tree.DiffOpRightAdd, tree.DiffOpRightModify:
				must(mut.Put(ctx, d.Key, d.Right))
			case tree.DiffOpRightDelete, tree.DiffOpDivergentDeleteResolved:
				must(mut.Delete(ctx, d.Key))
			case tree.DiffOpDivergentModifyResolved:
				must(mut.Put(ctx, d.Key, d.Merged))
			case tree.DiffOpDivergentDeleteConflict, tree.DiffOpDivergentModifyConflict:
			}
			if d.Op >= tree.DiffOpDivergentModifyResolved {
				divergentOps++
			}
			n++
		}
		evals++
		if n != len(wantOps) {
			return common.Fail(si, a, "ThreeWayDiffer:ops", fmt.Sprintf("%d ops, next %s at %s", len(wantOps), wantOps[n].op, b.showKey(wantOps[n].k)), fmt.Sprintf("%d ops", n))
		}
		om, err := mut.Map(ctx)
		must(err)
		evals++
		if ok, d := sameRows(b.withFiller(b.modelRows(exp["opsmerged"])), dumpRows(om)); !ok {
			return common.Fail(si, a, "ThreeWayDiffer:applied-ops-content", "applying the ops to left = "+common.JS(exp["opsmerged"]), d)
		}
		if exp["agree"].(bool) {
			evals++
			if om.HashOf() != merged.HashOf() {
				return common.Fail(si, a, "differ-vs-patch-merge", "same map from both formulations: "+merged.HashOf().String(), om.HashOf().String())
			}
		}
	}
	hb, _, bb := b.treeStats(base)
	hl, _, bl := b.treeStats(left)
	hr, _, br := b.treeStats(right)
	kinds := make([]string, 0, len(opKinds))
	for k := range opKinds {
		kinds = append(kinds, k)
	}
	sort.Strings(kinds)
	return common.Result{"ok": true, "evals": evals, "collisions": collisionsSeen, "rangePatches": rangePatches, "pointPatches": pointPatches,
		"maxLevel": maxLevel, "merges": merges, "blockCollisions": blockCollisions, "divergentOps": divergentOps, "opKinds": kinds,
		"heights": []int{hb, hl, hr}, "atBoundary": bb + bl + br, "pivots": b.pivots, "robustPivots": b.robust, "alignedBlocks": b.aligned, "filler": len(b.filler)}
}
