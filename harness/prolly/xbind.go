// Binding shared by the diff (C13) and merge (C14) modes: model keys <<f1, f2>> -> concrete (int64, int64) tuples.
//
//	f1 = a  ->  X[a]: evenly spaced, or ("pivot") the f1 of a filler row that ends a leaf of the filler tree; that row is
//	            adopted as a model point key of the group, so the model key is a chunk-boundary key
//	f2 = b  ->  the interval [b*S2, b*S2 + n - 1]; a point key occupies only its first element, a block key all n
//	            (n rows = several whole chunks that appear / change / disappear with one model edit)
//	filler  ->  static rows shared by every version: about `filler` rows in every gap between / below / above the f1 groups,
//	            `inner` rows inside every f1 group between consecutive f2 intervals
//	value v ->  (v, payload[v]); rows of a block carry (v, marker+index+noise(v, i)); with twin = [v, w] value w is the
//	            non-canonical encoding (explicit trailing NULL) of value v
//
// The binding is mechanical: it never computes an expected diff or merge, it only expands what TLC computed.
package main

import (
	"bytes"
	"context"
	"encoding/binary"
	"fmt"
	"math/rand"
	"os"
	"sort"
	"strconv"
	"time"

	"github.com/dolthub/dolt/go/store/prolly"
	"github.com/dolthub/dolt/go/store/prolly/tree"
	"github.com/dolthub/dolt/go/store/val"
	"github.com/dolthub/dolt/go/zz_verif/common"
)

const (
	xS1 = int64(1) << 24
	xS2 = int64(1) << 13
)

type crow struct {
	f1, f2 int64
	k, v   val.Tuple
}

type xb struct {
	ns      tree.NodeStore
	f1s     []int
	f2s     []int
	X       map[int]int64
	n       int64 // rows per block key
	blocks  map[[2]int]bool
	filler  []crow
	pvals   map[int]val.Tuple   // model value -> tuple of a point key
	bvals   map[int][]val.Tuple // model value -> tuples of the rows of a block
	pivots  int                 // number of f1 groups for which a boundary key was found
	pivotB  map[int]int         // f1 -> f2 of the model key that is a chunk-boundary key in the filler tree
	fillerM prolly.Map
	uses    int
	twinOf  map[int]int
	bkeys   map[[2]int][]val.Tuple // key tuples of the rows of a block key (cache)
	blen    map[[2]int]int64       // rows of each block key (<= n; shortened so that the block ends on a chunk boundary: "align")
	aligned int
	robust  int // pivots that still end a leaf when every model key is present
}

var xbCache = map[string]*xb{}

func rawValue(ns tree.NodeStore, v int64, pay []byte) val.Tuple { return value(ns, v, pay) }

// nonCanonical re-encodes a one-field tuple (v) as a two-field tuple (v, NULL) with an explicit NULL suffix.
func nonCanonical(t val.Tuple) val.Tuple {
	if t.Count() != 1 {
		panic("twin source must have a NULL payload")
	}
	data := t[:len(t)-2] // field bytes; a 1-field tuple has no offsets
	out := make([]byte, 0, len(data)+4)
	out = append(out, data...)
	var off [2]byte
	binary.LittleEndian.PutUint16(off[:], uint16(len(data)))
	out = append(out, off[:]...)
	out = append(out, 2, 0)
	return val.Tuple(out)
}

func getXB(c map[string]any) *xb {
	ck := common.JS(c["binding"]) + common.JS(c["F1"]) + common.JS(c["F2"]) + common.JS(c["blocks"]) + common.JS(c["twin"])
	if b, ok := xbCache[ck]; ok && b.uses < 150 {
		b.uses++
		return b
	}
	b := newXB(c)
	xbCache[ck] = b
	return b
}

func newXB(c map[string]any) *xb {
	bi := c["binding"].(map[string]any)
	geti := func(k string, d int) int {
		if v, ok := bi[k]; ok {
			return common.Int(v)
		}
		return d
	}
	b := &xb{ns: tree.NewTestNodeStore(), X: map[int]int64{}, blocks: map[[2]int]bool{}, pvals: map[int]val.Tuple{},
		bvals: map[int][]val.Tuple{}, pivotB: map[int]int{}, twinOf: map[int]int{}, bkeys: map[[2]int][]val.Tuple{}, blen: map[[2]int]int64{}}
	b.f1s, b.f2s = common.Ints(c["F1"]), common.Ints(c["F2"])
	sort.Ints(b.f1s)
	sort.Ints(b.f2s)
	for _, code := range common.Ints(c["blocks"]) {
		b.blocks[[2]int{code / 10, code % 10}] = true
	}
	rng := rand.New(rand.NewSource(int64(geti("seed", 1))))
	b.n = int64(geti("block", 200))
	if b.n >= xS2/2 {
		panic("block too large")
	}
	per, inner, paysz, bpay := geti("filler", 0), geti("inner", 0), geti("paysz", 0), geti("bpay", 24)
	nv := 8
	if tw, ok := c["twin"].([]any); ok {
		for _, p := range tw {
			pp := common.Ints(p)
			b.twinOf[pp[1]] = pp[0]
		}
	}
	for v := 1; v <= nv; v++ {
		var p []byte
		if paysz > 0 {
			p = make([]byte, 1+rng.Intn(paysz))
			rng.Read(p)
			p[0] = 0xA0
		} else {
			p = []byte{0xA0}
		}
		b.pvals[v] = rawValue(b.ns, int64(v), p)
	}
	for w, v := range b.twinOf {
		b.pvals[v] = rawValue(b.ns, int64(v), nil) // canonical: NULL payload trimmed
		b.pvals[w] = nonCanonical(b.pvals[v])
	}
	if len(b.blocks) > 0 {
		for v := 1; v <= nv; v++ {
			rows := make([]val.Tuple, b.n)
			for i := int64(0); i < b.n; i++ {
				p := make([]byte, 5+rng.Intn(bpay+1))
				rng.Read(p)
				p[0] = 0xB1
				binary.LittleEndian.PutUint32(p[1:5], uint32(i))
				rows[i] = rawValue(b.ns, int64(v), p)
			}
			b.bvals[v] = rows
		}
		// twins (diff mode only): the rows of the source value have a NULL payload, the twin is their non-canonical encoding
		for w, v := range b.twinOf {
			src, tw := make([]val.Tuple, b.n), make([]val.Tuple, b.n)
			for i := int64(0); i < b.n; i++ {
				src[i] = rawValue(b.ns, int64(v), nil)
				tw[i] = nonCanonical(src[i])
			}
			b.bvals[v], b.bvals[w] = src, tw
		}
	}
	// filler rows: uniformly over f1 in [0, (|F1|+1)*S1), i.e. about `filler` rows below, between and above the groups;
	// half of them have an f2 on the model lattice (b*S2) so that a filler row can be adopted as a model key (pivot)
	seen := map[[2]int64]bool{}
	add := func(f1, f2 int64) {
		if seen[[2]int64{f1, f2}] {
			return
		}
		seen[[2]int64{f1, f2}] = true
		p := make([]byte, 1+rng.Intn(120))
		rng.Read(p)
		p[0] = 0xF0
		b.filler = append(b.filler, crow{f1: f1, f2: f2, k: key(b.ns, f1, f2), v: rawValue(b.ns, int64(1000+rng.Intn(1000)), p)})
	}
	span := int64(len(b.f1s)+1) * xS1
	isX := map[int64]bool{}
	for i, a := range b.f1s {
		b.X[a] = int64(i+1) * xS1
		isX[b.X[a]] = true
	}
	for i := 0; i < per*(len(b.f1s)+1); i++ {
		f1 := rng.Int63n(span)
		if isX[f1] {
			continue
		}
		if rng.Intn(2) == 0 {
			add(f1, int64(b.f2s[rng.Intn(len(b.f2s))])*xS2)
		} else {
			add(f1, rng.Int63n(1<<14))
		}
	}
	sortRows(b.filler)
	// pivot: adopt, for every f1 group, a filler row that ends a leaf of the filler-only tree as a model (point) key of that
	// group: when the model key is present the tree has a chunk boundary right after it, when it is absent the boundary is gone
	if geti("pivot", 0) > 0 && per > 0 {
		fm := b.bulkRows(b.filler)
		type cand struct{ f1, f2 int64 }
		var cands []cand
		last := fm.LastKey(ctx)
		must(fm.WalkNodes(ctx, func(_ context.Context, nd *tree.Node) error {
			if nd.IsLeaf() && nd.Count() > 0 {
				k := val.Tuple(nd.GetKey(nd.Count() - 1))
				f1, _ := kd.GetInt64(0, k)
				f2, _ := kd.GetInt64(1, k)
				if f2%xS2 == 0 && !bytes.Equal(k, last) {
					cands = append(cands, cand{f1, f2})
				}
			}
			return nil
		}))
		sort.Slice(cands, func(i, j int) bool { return cands[i].f1 < cands[j].f1 })
		prev := int64(-1)
		for i, a := range b.f1s {
			target := int64(i+1) * xS1
			best := -1
			for ci, cd := range cands {
				if cd.f1 <= prev || cd.f1 >= span-1 || b.isBlock(a, int(cd.f2/xS2)) {
					continue
				}
				// leave room for the groups that follow
				if cd.f1 > target+xS1/2 {
					break
				}
				if best < 0 || abs64(cd.f1-target) < abs64(cands[best].f1-target) {
					best = ci
				}
			}
			if best >= 0 {
				delete(isX, b.X[a])
				b.X[a] = cands[best].f1
				b.pivotB[a] = int(cands[best].f2 / xS2)
				b.pivots++
			}
			isX[b.X[a]] = true
			prev = b.X[a]
		}
		// rows that share f1 with a group would sit inside the model's f2 intervals: drop them (the adopted row included)
		kept := b.filler[:0]
		for _, r := range b.filler {
			if !isX[r.f1] {
				kept = append(kept, r)
			}
		}
		b.filler = kept
	}
	// notail: no filler above the last f1 group, so the model keys of the last group are the END of the key space
	// (a right side that deletes a suffix then has its tail leaf inside the shared part; rows added by left come after it)
	if geti("notail", 0) > 0 {
		maxX := b.X[b.f1s[len(b.f1s)-1]]
		kept := b.filler[:0]
		for _, r := range b.filler {
			if r.f1 < maxX {
				kept = append(kept, r)
			}
		}
		b.filler = kept
	}
	// filler inside the groups (between the f2 intervals), after X is final
	if inner > 0 {
		for _, a := range b.f1s {
			for j := -1; j < len(b.f2s); j++ {
				if geti("notail", 0) > 0 && a == b.f1s[len(b.f1s)-1] && j == len(b.f2s)-1 {
					continue
				}
				var lo, hi int64
				if j < 0 {
					lo, hi = int64(b.f2s[0])*xS2-xS2/2, int64(b.f2s[0])*xS2
				} else {
					lo = int64(b.f2s[j])*xS2 + b.n
					hi = int64(b.f2s[j])*xS2 + xS2
					if j+1 < len(b.f2s) {
						hi = int64(b.f2s[j+1]) * xS2
					}
				}
				for i := 0; i < inner; i++ {
					add(b.X[a], lo+rng.Int63n(hi-lo))
				}
			}
		}
		sortRows(b.filler)
	}
	// align: shorten every block so that its last row ends a leaf when all model keys are present with value 1
	// (a block edit then adds / removes chunks exactly on chunk boundaries)
	leafEnds := func() map[[2]int64]bool {
		var rows []crow
		for _, a := range b.f1s {
			for _, f2 := range b.f2s {
				rows = append(rows, b.rowsFor(a, f2, 1)...)
			}
		}
		m := b.bulkRows(b.withFiller(rows))
		ends := map[[2]int64]bool{}
		must(m.WalkNodes(ctx, func(_ context.Context, nd *tree.Node) error {
			if nd.IsLeaf() && nd.Count() > 0 {
				k := val.Tuple(nd.GetKey(nd.Count() - 1))
				f1, _ := kd.GetInt64(0, k)
				f2, _ := kd.GetInt64(1, k)
				ends[[2]int64{f1, f2}] = true
			}
			return nil
		}))
		return ends
	}
	if geti("align", 0) > 0 && len(b.blocks) > 0 {
		ends := leafEnds()
		for _, a := range b.f1s {
			for _, f2 := range b.f2s {
				if !b.isBlock(a, f2) {
					continue
				}
				for i := b.n - 2; i >= b.n/3; i-- {
					if ends[[2]int64{b.X[a], int64(f2)*xS2 + i}] {
						b.blen[[2]int{a, f2}] = i + 1
						b.aligned++
						break
					}
				}
			}
		}
	}
	if b.pivots > 0 {
		ends := leafEnds()
		for a, f2 := range b.pivotB {
			if ends[[2]int64{b.X[a], int64(f2) * xS2}] {
				b.robust++
			}
		}
	}
	b.fillerM = b.bulkRows(b.filler)
	b.uses = 1
	return b
}

func abs64(x int64) int64 {
	if x < 0 {
		return -x
	}
	return x
}

func sortRows(rs []crow) {
	sort.Slice(rs, func(i, j int) bool {
		return rs[i].f1 < rs[j].f1 || (rs[i].f1 == rs[j].f1 && rs[i].f2 < rs[j].f2)
	})
}

func (b *xb) isBlock(a, f2 int) bool { return b.blocks[[2]int{a, f2}] }

func (b *xb) rowsOfBlock(a, f2 int) int64 {
	if l, ok := b.blen[[2]int{a, f2}]; ok {
		return l
	}
	return b.n
}

// rowsFor: the concrete rows of model entry (a, f2) = v.
func (b *xb) rowsFor(a, f2, v int) []crow {
	x, y := b.X[a], int64(f2)*xS2
	if !b.isBlock(a, f2) {
		return []crow{{f1: x, f2: y, k: key(b.ns, x, y), v: b.pvals[v]}}
	}
	ks, ok := b.bkeys[[2]int{a, f2}]
	if !ok {
		ks = make([]val.Tuple, b.n)
		for i := int64(0); i < b.n; i++ {
			ks[i] = key(b.ns, x, y+i)
		}
		b.bkeys[[2]int{a, f2}] = ks
	}
	n := b.n
	if l, ok := b.blen[[2]int{a, f2}]; ok {
		n = l
	}
	out := make([]crow, n)
	for i := int64(0); i < n; i++ {
		var vv val.Tuple
		if v > 0 {
			vv = b.bvals[v][i]
		}
		out[i] = crow{f1: x, f2: y + i, k: ks[i], v: vv}
	}
	return out
}

// valueAt: the tuple of model value v at the row of concrete key (f1, f2) (block rows differ per row); nil for v = 0.
func (b *xb) valueAt(f2 int64, blockRow bool, v int) val.Tuple {
	if v == 0 {
		return nil
	}
	if blockRow {
		return b.bvals[v][f2%xS2]
	}
	return b.pvals[v]
}

// modelRows: concrete rows of a TLC entry list [[f1, f2, v] ...] (ascending), without filler.
func (b *xb) modelRows(entries any) []crow {
	var out []crow
	for _, e := range entries.([]any) {
		t := common.Ints(e)
		out = append(out, b.rowsFor(t[0], t[1], t[2])...)
	}
	return out
}

// withFiller merges (both ascending).
func (b *xb) withFiller(rows []crow) []crow {
	out := make([]crow, 0, len(rows)+len(b.filler))
	i, j := 0, 0
	for i < len(rows) || j < len(b.filler) {
		if j >= len(b.filler) || (i < len(rows) && (rows[i].f1 < b.filler[j].f1 || (rows[i].f1 == b.filler[j].f1 && rows[i].f2 < b.filler[j].f2))) {
			out = append(out, rows[i])
			i++
		} else {
			out = append(out, b.filler[j])
			j++
		}
	}
	return out
}

func (b *xb) bulkRows(rows []crow) prolly.Map {
	tups := make([]val.Tuple, 0, 2*len(rows))
	for _, r := range rows {
		tups = append(tups, r.k, r.v)
	}
	m, err := prolly.NewMapFromTuples(ctx, b.ns, kd, vd, tups...)
	must(err)
	return m
}

// bulk builds filler + model entries with the chunker from scratch.
func (b *xb) bulk(entries any) prolly.Map { return b.bulkRows(b.withFiller(b.modelRows(entries))) }

// fromFiller derives the map by mutating the shared filler tree (structure shared with every other version).
func (b *xb) fromFiller(entries any) prolly.Map {
	mut := b.fillerM.Mutate()
	for _, r := range b.modelRows(entries) {
		must(mut.Put(ctx, r.k, r.v))
	}
	m, err := mut.Map(ctx)
	must(err)
	return m
}

// edit applies one model edit (v = 0 deletes) through MutableMap.
func (b *xb) edit(m prolly.Map, a, f2, v int) prolly.Map {
	mut := m.Mutate()
	for _, r := range b.rowsFor(a, f2, v) {
		if v == 0 {
			must(mut.Delete(ctx, r.k))
		} else {
			must(mut.Put(ctx, r.k, r.v))
		}
	}
	out, err := mut.Map(ctx)
	must(err)
	return out
}

// mutateTo derives the map with content `to` from map m whose content is `from` (entry lists), editing only the differences.
func (b *xb) mutateTo(m prolly.Map, from, to any) prolly.Map {
	fm := map[[2]int]int{}
	for _, e := range from.([]any) {
		t := common.Ints(e)
		fm[[2]int{t[0], t[1]}] = t[2]
	}
	mut := m.Mutate()
	for _, e := range to.([]any) {
		t := common.Ints(e)
		k := [2]int{t[0], t[1]}
		if fm[k] != t[2] {
			for _, r := range b.rowsFor(t[0], t[1], t[2]) {
				must(mut.Put(ctx, r.k, r.v))
			}
		}
		delete(fm, k)
	}
	for k := range fm {
		for _, r := range b.rowsFor(k[0], k[1], 0) {
			must(mut.Delete(ctx, r.k))
		}
	}
	out, err := mut.Map(ctx)
	must(err)
	return out
}

func dumpRows(m prolly.Map) []crow {
	it, err := m.IterAll(ctx)
	must(err)
	var out []crow
	for {
		k, v, err := it.Next(ctx)
		if err != nil {
			break
		}
		f1, _ := kd.GetInt64(0, k)
		f2, _ := kd.GetInt64(1, k)
		out = append(out, crow{f1: f1, f2: f2, k: k, v: v})
	}
	return out
}

// sameRows compares key and value bytes.
func sameRows(a, b []crow) (bool, string) {
	n := len(a)
	if len(b) < n {
		n = len(b)
	}
	for i := 0; i < n; i++ {
		if !bytes.Equal(a[i].k, b[i].k) || !bytes.Equal(a[i].v, b[i].v) {
			return false, fmt.Sprintf("row %d: expected (%d,%d)=%s observed (%d,%d)=%s", i, a[i].f1, a[i].f2, showVal(a[i].v), b[i].f1, b[i].f2, showVal(b[i].v))
		}
	}
	if len(a) != len(b) {
		return false, fmt.Sprintf("expected %d rows, observed %d", len(a), len(b))
	}
	return true, ""
}

func showVal(v val.Tuple) string {
	if v == nil {
		return "nil"
	}
	x, _ := vd.GetInt64(0, v)
	return fmt.Sprintf("%d/%dB/c%d", x, len(v), v.Count())
}

// model coordinates of a concrete key (for messages): group a, f2 value, row index; ok=false for filler.
func (b *xb) modelOf(f1, f2 int64) (a, bb int, i int64, ok bool) {
	for _, aa := range b.f1s {
		if b.X[aa] == f1 {
			if f2 < 0 {
				return 0, 0, 0, false
			}
			bb = int(f2 / xS2)
			i = f2 % xS2
			for _, y := range b.f2s {
				if y == bb && ((b.isBlock(aa, bb) && i < b.rowsOfBlock(aa, bb)) || i == 0) {
					return aa, bb, i, true
				}
			}
			return 0, 0, 0, false
		}
	}
	return 0, 0, 0, false
}

// treeStats: height, number of leaves, and how many model keys are the first / last key of a leaf.
func (b *xb) treeStats(m prolly.Map) (height, leaves, atBoundary int) {
	height = m.Height()
	must(m.WalkNodes(ctx, func(_ context.Context, nd *tree.Node) error {
		if nd.IsLeaf() && nd.Count() > 0 {
			leaves++
			for _, idx := range []int{0, nd.Count() - 1} {
				k := val.Tuple(nd.GetKey(idx))
				f1, _ := kd.GetInt64(0, k)
				f2, _ := kd.GetInt64(1, k)
				if _, _, _, ok := b.modelOf(f1, f2); ok {
					atBoundary++
				}
			}
		}
		return nil
	}))
	return
}

// watchdog: a case that does not finish within $VERIF_CASE_TIMEOUT seconds (default 900) is answered with
// fp "watchdog-timeout" (the check turns that into INCONCLUSIVE, never into a violation: verdicts must not depend on
// wall-clock time); the stuck goroutine cannot be stopped, so every later case of this process is reported as skipped.
var poisoned = false

func withWatchdog(fn func(c map[string]any) common.Result) func(c map[string]any) common.Result {
	limit := 900
	if v, err := strconv.Atoi(os.Getenv("VERIF_CASE_TIMEOUT")); err == nil && v > 0 {
		limit = v
	}
	return func(c map[string]any) common.Result {
		if poisoned {
			return common.Result{"ok": nil, "skipped": true}
		}
		done := make(chan common.Result, 1)
		go func() {
			defer func() {
				if p := recover(); p != nil {
					done <- common.Result{"ok": false, "panic": true, "fp": "panic", "detail": fmt.Sprintf("panic: %v", p)}
				}
			}()
			done <- fn(c)
		}()
		select {
		case r := <-done:
			return r
		case <-time.After(time.Duration(limit) * time.Second):
			poisoned = true
			return common.Result{"ok": false, "fp": "watchdog-timeout", "detail": fmt.Sprintf("case did not finish within %d s (hang or overloaded machine)", limit)}
		}
	}
}
