package main

import (
	"fmt"
	"math/rand"
	"os"
	"sort"
	"strconv"
	"strings"

	"github.com/dolthub/dolt/go/zz_verif/common"
	"github.com/dolthub/dolt/go/zz_verif/sqlh"
)

// ---------------------------------------------------------------------------------------------------------------
// binding: model value -> concrete SQL value.  pk r -> r*pkStep; filler rows have pk % pkStep != 0.
// cell value v -> palette entry of the column type; with nullZero the model value 0 is SQL NULL.
// The binding is mechanical and never computes an expectation.

const pkStep = 1000

type binding struct {
	colType  string // "int" | "varchar" | "bigtext"
	nullZero bool
	filler   int
	seed     int64
	nc       int
	rows     []int
	unique   []int
	branches []string
	main     string
}

func getBinding(c map[string]any) *binding {
	b := &binding{colType: "int", nc: 2, main: "main"}
	if m, ok := c["binding"].(map[string]any); ok {
		if v, ok := m["type"].(string); ok {
			b.colType = v
		}
		if v, ok := m["null0"].(bool); ok {
			b.nullZero = v
		}
		if v, ok := m["filler"]; ok {
			b.filler = common.Int(v)
		}
		if v, ok := m["seed"]; ok {
			b.seed = int64(common.Int(v))
		}
	}
	if v, ok := c["NC"]; ok {
		b.nc = common.Int(v)
	}
	b.rows = common.Ints(c["Rows"])
	b.unique = common.Ints(c["UniqueCols"])
	b.branches = strs(c["Branches"])
	if v, ok := c["Main"].(string); ok {
		b.main = v
	}
	return b
}

func (b *binding) sqlType() string {
	switch b.colType {
	case "varchar":
		return "varchar(40)"
	case "bigtext":
		return "text"
	}
	return "int"
}

// lit renders model value v as an SQL literal.
func (b *binding) lit(v int) string {
	if v == 0 && b.nullZero {
		return "NULL"
	}
	switch b.colType {
	case "varchar":
		return fmt.Sprintf("'v%d-%s'", v, strings.Repeat("x", v*3))
	case "bigtext":
		return fmt.Sprintf("'v%d-%s'", v, strings.Repeat("y", 3000+v))
	}
	return strconv.Itoa(10 + v*7)
}

// unlit maps a concrete cell back to the model value (-1000 = not a palette value).
func (b *binding) unlit(x any) int {
	if x == nil {
		if b.nullZero {
			return 0
		}
		return -1000
	}
	switch b.colType {
	case "varchar", "bigtext":
		s, ok := x.(string)
		if !ok || !strings.HasPrefix(s, "v") {
			return -1000
		}
		i := strings.Index(s, "-")
		if i < 0 {
			return -1000
		}
		v, err := strconv.Atoi(s[1:i])
		if err != nil || b.lit(v) != "'"+s+"'" {
			return -1000
		}
		return v
	}
	n, ok := x.(int64)
	if !ok || (n-10)%7 != 0 {
		return -1000
	}
	return int((n - 10) / 7)
}

func (b *binding) cols() string {
	cs := []string{"pk"}
	for i := 1; i <= b.nc; i++ {
		cs = append(cs, fmt.Sprintf("c%d", i))
	}
	return strings.Join(cs, ",")
}

// ---------------------------------------------------------------------------------------------------------------

type txnWorld struct {
	*world
	b          *binding
	obs        *sqlh.Session            // set-up session (autocommit, main branch)
	obsB       map[string]*sqlh.Session // one observer per branch, checked out on it (AS OF 'STAGED' resolves against the CURRENT database)
	baseLog    map[string]int
	fillerSig  string
	evals      int
	queries    int
	fillerRows int
}

func (w *txnWorld) tableRef(branch string, qualified bool) string {
	if qualified {
		return "`db1/" + branch + "`.t"
	}
	return "t"
}

// readRoots reads the model rows of the three roots and the number of dolt commits of a branch through session s.
func (w *txnWorld) readRoots(s *sqlh.Session, branch string, qualified bool) (map[string]any, error) {
	out := map[string]any{}
	tr := w.tableRef(branch, qualified)
	for _, root := range []struct{ k, asof string }{{"w", ""}, {"s", " as of 'STAGED'"}, {"h", " as of 'HEAD'"}} {
		rows, err := s.Query(fmt.Sprintf("select %s from %s%s where pk %% %d = 0 order by pk", w.b.cols(), tr, root.asof, pkStep))
		w.queries++
		if err != nil {
			return nil, fmt.Errorf("read %s of %s: %w", root.k, branch, err)
		}
		var mr []any
		for _, r := range rows {
			row := []any{float64(r[0].(int64) / pkStep)}
			for _, x := range r[1:] {
				row = append(row, float64(w.b.unlit(x)))
			}
			mr = append(mr, row)
		}
		if mr == nil {
			mr = []any{}
		}
		out[root.k] = mr
	}
	logT := "dolt_log"
	if qualified {
		logT = "`db1/" + branch + "`.dolt_log"
	}
	rows, err := s.Query("select count(*) from " + logT)
	w.queries++
	if err != nil {
		return nil, fmt.Errorf("read log of %s: %w", branch, err)
	}
	out["n"] = float64(int(rows[0][0].(int64)) - w.baseLog[branch])
	return out, nil
}

// fillerSignature: count and checksum of the filler rows of every root of every branch (must never change).
func (w *txnWorld) fillerSignature() (string, error) {
	if w.b.filler == 0 {
		return "", nil
	}
	var parts []string
	for _, br := range w.b.branches {
		for _, asof := range []string{"", " as of 'STAGED'", " as of 'HEAD'"} {
			rows, err := w.obsB[br].Query(fmt.Sprintf("select count(*), coalesce(sum(pk),0), coalesce(sum(crc32(concat_ws('|',%s))),0) from t%s where pk %% %d <> 0", w.b.cols(), asof, pkStep))
			w.queries++
			if err != nil {
				return "", err
			}
			parts = append(parts, sqlh.RowsString(rows, false))
		}
	}
	return strings.Join(parts, ";"), nil
}

func sameJSON(a, b any) bool { return common.JS(a) == common.JS(b) }

func newTxnWorld(c map[string]any, sessions []string, init map[string]any) (*txnWorld, error) {
	w0, err := newWorld(sessions)
	if err != nil {
		return nil, err
	}
	w := &txnWorld{world: w0, b: getBinding(c), baseLog: map[string]int{}}
	obs, err := w.srv.NewSession("obs")
	if err != nil {
		w.close()
		return nil, err
	}
	w.obs = obs
	b := w.b
	var cols []string
	for i := 1; i <= b.nc; i++ {
		cols = append(cols, fmt.Sprintf("c%d %s", i, b.sqlType()))
	}
	ddl := "create table t (pk int primary key, " + strings.Join(cols, ", ")
	for _, u := range b.unique {
		if b.colType == "bigtext" {
			ddl += fmt.Sprintf(", unique key u%d (c%d(50))", u, u)
		} else {
			ddl += fmt.Sprintf(", unique key u%d (c%d)", u, u)
		}
	}
	ddl += ")"
	setup := []string{ddl}
	// initial model rows: the working root of the main branch in the Init record (all roots of all branches are equal)
	for _, r := range init[b.main].(map[string]any)["w"].([]any) {
		row := r.([]any)
		vals := []string{strconv.Itoa(common.Int(row[0]) * pkStep)}
		for _, x := range row[1:] {
			vals = append(vals, b.lit(common.Int(x)))
		}
		setup = append(setup, fmt.Sprintf("insert into t (%s) values (%s)", b.cols(), strings.Join(vals, ",")))
	}
	if b.filler > 0 {
		rng := rand.New(rand.NewSource(b.seed))
		maxPk := (len(b.rows) + 1) * pkStep
		seen := map[int]bool{}
		var tuples []string
		for len(seen) < b.filler {
			pk := 1 + rng.Intn(maxPk)
			if pk%pkStep == 0 || seen[pk] {
				continue
			}
			seen[pk] = true
			vals := []string{strconv.Itoa(pk)}
			for i := 0; i < b.nc; i++ {
				// filler cells use values outside the palette, unique per row (so that a UNIQUE index accepts them)
				switch b.colType {
				case "int":
					vals = append(vals, strconv.Itoa(100000+pk*10+i))
				case "varchar":
					vals = append(vals, fmt.Sprintf("'f%d-%d'", pk, i))
				default:
					vals = append(vals, fmt.Sprintf("'f%d-%d-%s'", pk, i, strings.Repeat("z", rng.Intn(400))))
				}
			}
			tuples = append(tuples, "("+strings.Join(vals, ",")+")")
			if len(tuples) == 500 {
				setup = append(setup, fmt.Sprintf("insert into t (%s) values %s", b.cols(), strings.Join(tuples, ",")))
				tuples = nil
			}
		}
		if len(tuples) > 0 {
			setup = append(setup, fmt.Sprintf("insert into t (%s) values %s", b.cols(), strings.Join(tuples, ",")))
		}
	}
	setup = append(setup, "call dolt_commit('-Am','init')")
	for _, br := range b.branches {
		if br != b.main {
			setup = append(setup, "call dolt_branch('"+br+"')")
		}
	}
	for _, q := range setup {
		if err := w.obs.Exec(q); err != nil {
			w.close()
			return nil, fmt.Errorf("setup %q: %w", q[:min(len(q), 80)], err)
		}
	}
	w.obsB = map[string]*sqlh.Session{}
	for _, br := range b.branches {
		o, err := w.srv.NewSession("obs-" + br)
		if err != nil {
			w.close()
			return nil, err
		}
		if err := o.Exec("call dolt_checkout('" + br + "')"); err != nil {
			w.close()
			return nil, err
		}
		w.obsB[br] = o
	}
	for _, br := range b.branches {
		rows, err := w.obs.Query("select count(*) from `db1/" + br + "`.dolt_log")
		if err != nil {
			w.close()
			return nil, err
		}
		w.baseLog[br] = int(rows[0][0].(int64))
	}
	sig, err := w.fillerSignature()
	if err != nil {
		w.close()
		return nil, err
	}
	w.fillerSig = sig
	return w, nil
}

// observeStore: the persisted state as a fresh autocommit session sees it.
func (w *txnWorld) observeStore() (map[string]any, error) {
	out := map[string]any{}
	for _, br := range w.b.branches {
		r, err := w.readRoots(w.obsB[br], br, false)
		if err != nil {
			return nil, err
		}
		out[br] = r
	}
	return out, nil
}

func boolInt(v any) string {
	if v.(bool) {
		return "1"
	}
	return "0"
}

// txnStatement: SQL text of one Txn.tla action.
func (w *txnWorld) txnStatement(a string, args map[string]any) string {
	b := w.b
	tref := func() string { return w.tableRef(args["b"].(string), args["q"].(bool)) }
	switch a {
	case "Update":
		return fmt.Sprintf("update %s set c%d = %s where pk = %d", tref(), common.Int(args["i"]), b.lit(common.Int(args["v"])), common.Int(args["r"])*pkStep)
	case "Insert":
		vals := []string{strconv.Itoa(common.Int(args["r"]) * pkStep)}
		for _, x := range args["row"].([]any) {
			vals = append(vals, b.lit(common.Int(x)))
		}
		return fmt.Sprintf("insert into %s (%s) values (%s)", tref(), b.cols(), strings.Join(vals, ","))
	case "Delete":
		return fmt.Sprintf("delete from %s where pk = %d", tref(), common.Int(args["r"])*pkStep)
	case "Begin":
		return "start transaction"
	case "Commit":
		return "commit"
	case "Rollback":
		return "rollback"
	case "DoltCommit":
		if args["all"].(bool) {
			return "call dolt_commit('-a','-m','verif')"
		}
		return "call dolt_commit('-m','verif')"
	case "DoltAdd":
		return "call dolt_add('-A')"
	case "Checkout":
		return "call dolt_checkout('" + args["b"].(string) + "')"
	case "Use":
		if args["b"].(string) == "base" {
			return "use db1"
		}
		return "use `db1/" + args["b"].(string) + "`"
	case "SetAutocommit":
		return "set autocommit = " + boolInt(args["v"])
	case "SetTc":
		return "set @@dolt_transaction_commit = " + boolInt(args["v"])
	case "Savepoint":
		return "savepoint sp1"
	case "RollbackTo":
		return "rollback to savepoint sp1"
	case "Release":
		return "release savepoint sp1"
	}
	panic("unknown action " + a)
}

func argMap(v any) map[string]any {
	if m, ok := v.(map[string]any); ok {
		return m
	}
	return map[string]any{}
}

func runReplay(c map[string]any) common.Result {
	if sp, _ := c["spec"].(string); sp == "AutoInc" {
		return replayAutoInc(c)
	}
	steps := c["steps"].([]any)
	if len(steps) == 0 || steps[0].(map[string]any)["a"] != "Init" {
		return common.Result{"ok": false, "fp": "harness:no-init", "detail": "behaviour does not start with Init"}
	}
	init := steps[0].(map[string]any)
	acs := init["args"].(map[string]any)["ac"].(map[string]any)
	var names []string
	for n := range acs {
		names = append(names, n)
	}
	sort.Strings(names)
	w, err := newTxnWorld(c, names, init["exp"].(map[string]any)["store"].(map[string]any))
	if err != nil {
		return common.Result{"ok": false, "fp": "harness:setup", "detail": err.Error(), "inconclusive": true}
	}
	defer w.close()
	for _, n := range names {
		// SET autocommit followed by ROLLBACK: the session starts without an open transaction
		w.sess[n].MustExec("set autocommit = " + boolInt(acs[n]))
		w.sess[n].MustExec("rollback")
	}
	st0, err := w.observeStore()
	if err != nil {
		return common.Result{"ok": false, "fp": "harness:setup", "detail": err.Error(), "inconclusive": true}
	}
	if !sameJSON(st0, init["exp"].(map[string]any)["store"]) {
		return common.Fail(0, "Init", "store", init["exp"].(map[string]any)["store"], st0)
	}
	res := common.Result{"ok": true}
	var soft []any
	stat := map[string]int{}
	finish := func(r common.Result) common.Result {
		r["evals"] = w.evals
		r["queries"] = w.queries
		r["stat"] = stat
		if soft != nil {
			r["soft"] = soft
		}
		return r
	}
	for i := 1; i < len(steps); i++ {
		st := steps[i].(map[string]any)
		a := st["a"].(string)
		args := argMap(st["args"])
		exp := st["exp"].(map[string]any)
		s := w.sess[st["s"].(string)]
		expRes := exp["res"].(string)
		var got string
		if a == "Read" {
			out, err := w.readRoots(s, args["b"].(string), args["q"].(bool))
			got = errClass(err)
			w.evals++
			if got != expRes {
				return finish(common.Fail(i, a, "result-class", expRes, fmt.Sprint(got, " ", err)))
			}
			w.evals += 4
			eo := exp["out"].(map[string]any)
			if args["q"].(bool) {
				// `db/b`.t AS OF 'STAGED' resolves STAGED against the session's current database, not against b:
				// the staged root of another branch is not observable from this session
				delete(out, "s")
				eo = map[string]any{"w": eo["w"], "h": eo["h"], "n": eo["n"]}
				w.evals--
			}
			if !sameJSON(out, eo) {
				what := "rows"
				if args["stale"].(bool) {
					what = "rows-in-open-transaction"
				}
				return finish(common.Fail(i, a, what, eo, out))
			}
			if args["stale"].(bool) {
				stat["stale_reads"]++
			}
		} else {
			q := w.txnStatement(a, args)
			rows, err := s.Query(q)
			w.queries++
			got = errClass(err)
			w.evals++
			if got != expRes {
				if b, _ := exp["sconf"].(bool); b && expRes == "retry" && (got == "ok" || got == "nothing") {
					// ("nothing": dolt_commit found nothing to commit, committed the SQL transaction -- accepting the
					// staged conflict -- and then reported "nothing to commit")
					// candidate finding: conflict in the merge of the staged root / moved head accepted silently.
					// The real state has diverged from the model's; the behaviour ends here.
					stat["ended_at_staged_conflict"]++
					if os.Getenv("VERIF_ONLY") == "c22" {
						return finish(res) // not a C22 matter: the behaviour simply ends here
					}
					f := common.Fail(i, a, "staged-conflict-accepted", expRes, got)
					f["detail"] = f["detail"].(string) + "\n  statement: " + q
					soft = append(soft, map[string]any(f))
					return finish(res)
				}
				detail := ""
				if err != nil {
					detail = " (" + err.Error() + ")"
				}
				f := common.Fail(i, a, "result-class:"+expRes+"->"+got, expRes, got+detail)
				f["detail"] = f["detail"].(string) + "\n  statement: " + q
				return finish(f)
			}
			if out, ok := exp["out"].(map[string]any); ok && err == nil {
				if aff, ok := out["aff"]; ok {
					w.evals++
					g := sqlh.RowsString(rows, false)
					if g != fmt.Sprintf("(OK(%d))", common.Int(aff)) {
						return finish(common.Fail(i, a, "rows-affected", aff, g))
					}
				}
				if al, ok := out["already"]; ok {
					w.evals++
					g := strings.Contains(sqlh.RowsString(rows, false), "Already on branch")
					if g != al.(bool) {
						return finish(common.Fail(i, a, "already-on-branch", al, sqlh.RowsString(rows, false)))
					}
				}
			}
			if expRes != "ok" {
				stat["res_"+expRes]++
			}
			if att, _ := exp["att"].(bool); att {
				if ff, _ := exp["ff"].(bool); !ff {
					if expRes == "ok" {
						stat["merge_commits"]++
					}
				} else {
					stat["ff_commits"]++
				}
			}
		}
		// persisted state after every step, as a fresh session sees it
		obs, err := w.observeStore()
		if err != nil {
			return finish(common.Fail(i, a, "observer-error", nil, err.Error()))
		}
		w.evals += 4 * len(w.b.branches)
		if !sameJSON(obs, exp["store"]) {
			what := "persisted-state"
			if expRes != "ok" {
				what = "persisted-state-after-failed-statement"
			}
			return finish(common.Fail(i, a, what, exp["store"], obs))
		}
	}
	sig, err := w.fillerSignature()
	if err != nil {
		return finish(common.Fail(len(steps), "Final", "observer-error", nil, err.Error()))
	}
	w.evals++
	if sig != w.fillerSig {
		return finish(common.Fail(len(steps), "Final", "filler-rows-changed", w.fillerSig, sig))
	}
	return finish(res)
}
