package main

import (
	"fmt"
	"sort"
	"strings"

	"github.com/dolthub/dolt/go/zz_verif/common"
	"github.com/dolthub/dolt/go/zz_verif/sqlh"
)

// R mode for spec/AutoInc.tla (Atomic = TRUE behaviours): one SQL statement per action, LAST_INSERT_ID(), the
// session's view of the table and the persisted tables of every branch compared after every step.

type aiWorld struct {
	*world
	branches []string
	tables   []string
	main     string
	obsB     map[string]*sqlh.Session
	evals    int
	pad      int // binding: number of unrelated columns / rows is irrelevant here; pad = extra payload column width
}

func idList(rows [][]any) []any {
	out := []any{}
	for _, r := range rows {
		out = append(out, float64(r[0].(int64)))
	}
	return out
}

func (w *aiWorld) tref(t, branch string, qualified bool) string {
	if qualified {
		return "`db1/" + branch + "`." + t
	}
	return t
}

func (w *aiWorld) observe() (map[string]any, error) {
	out := map[string]any{}
	for _, br := range w.branches {
		m := map[string]any{}
		for _, t := range w.tables {
			rows, err := w.obsB[br].Query("select id from " + t + " order by id")
			if err != nil {
				return nil, err
			}
			m[t] = idList(rows)
		}
		out[br] = m
	}
	return out, nil
}

func newAIWorld(c map[string]any, sessions []string) (*aiWorld, error) {
	w0, err := newWorld(sessions)
	if err != nil {
		return nil, err
	}
	w := &aiWorld{world: w0, branches: strs(c["Branches"]), tables: strs(c["Tables"]), main: "main", obsB: map[string]*sqlh.Session{}}
	if v, ok := c["Main"].(string); ok {
		w.main = v
	}
	idType := "int"
	if m, ok := c["binding"].(map[string]any); ok {
		if v, ok := m["idtype"].(string); ok {
			idType = v
		}
	}
	setup, err := w.srv.NewSession("setup")
	if err != nil {
		w.close()
		return nil, err
	}
	var qs []string
	for _, t := range w.tables {
		qs = append(qs, fmt.Sprintf("create table %s (id %s primary key auto_increment, x int)", t, idType))
	}
	qs = append(qs, "call dolt_commit('-Am','init')")
	for _, br := range w.branches {
		if br != w.main {
			qs = append(qs, "call dolt_branch('"+br+"')")
		}
	}
	for _, q := range qs {
		if err := setup.Exec(q); err != nil {
			w.close()
			return nil, fmt.Errorf("setup %q: %w", q, err)
		}
	}
	for _, br := range w.branches {
		o, err := w.srv.NewSession("obs-" + br)
		if err == nil {
			err = o.Exec("call dolt_checkout('" + br + "')")
		}
		if err != nil {
			w.close()
			return nil, err
		}
		w.obsB[br] = o
	}
	return w, nil
}

func aiStatement(a string, args map[string]any) string {
	t, _ := args["t"].(string)
	switch a {
	case "InsertGen":
		k := 1
		if v, ok := args["k"]; ok {
			k = common.Int(v)
		}
		vals := make([]string, k)
		for i := range vals {
			vals[i] = "(0)"
		}
		return fmt.Sprintf("insert into %s (x) values %s", t, strings.Join(vals, ","))
	case "InsertExplicit":
		return fmt.Sprintf("insert into %s (id, x) values (%d, 0)", t, common.Int(args["n"]))
	case "Delete":
		return fmt.Sprintf("delete from %s where id = %d", t, common.Int(args["n"]))
	case "AlterAI":
		return fmt.Sprintf("alter table %s auto_increment = %d", t, common.Int(args["n"]))
	case "Commit":
		return "commit"
	case "Rollback":
		return "rollback"
	case "Checkout":
		return "call dolt_checkout('" + args["b"].(string) + "')"
	}
	panic("unknown action " + a)
}

func replayAutoInc(c map[string]any) common.Result {
	steps := c["steps"].([]any)
	init := steps[0].(map[string]any)
	acs := init["args"].(map[string]any)["ac"].(map[string]any)
	var names []string
	for n := range acs {
		names = append(names, n)
	}
	sort.Strings(names)
	w, err := newAIWorld(c, names)
	if err != nil {
		return common.Result{"ok": false, "fp": "harness:setup", "detail": err.Error(), "inconclusive": true}
	}
	defer w.close()
	for _, n := range names {
		w.sess[n].MustExec("set autocommit = " + boolInt(acs[n]))
		w.sess[n].MustExec("rollback")
	}
	stat := map[string]int{}
	var allGen []int // every generated id observed, in hand-out order (for the result; uniqueness is the spec's expectation)
	finish := func(r common.Result) common.Result {
		r["evals"] = w.evals
		r["stat"] = stat
		r["generated"] = len(allGen)
		return r
	}
	lastInsertID := func(s *sqlh.Session) (any, error) {
		rows, err := s.Query("select last_insert_id()")
		if err != nil {
			return nil, err
		}
		return float64(rows[0][0].(int64)), nil
	}
	for i := 1; i < len(steps); i++ {
		st := steps[i].(map[string]any)
		a := st["a"].(string)
		args := argMap(st["args"])
		exp := st["exp"].(map[string]any)
		out := argMap(exp["out"])
		sname := st["s"].(string)
		s := w.sess[sname]
		expRes := exp["res"].(string)
		if a == "Read" {
			got := map[string]any{}
			for _, t := range w.tables {
				rows, err := s.Query("select id from " + w.tref(t, args["b"].(string), args["q"].(bool)) + " order by id")
				if err != nil {
					return finish(common.Fail(i, a, "error", "ok", err.Error()))
				}
				got[t] = idList(rows)
			}
			w.evals += len(w.tables)
			if !sameJSON(got, out["rows"]) {
				return finish(common.Fail(i, a, "rows", out["rows"], got))
			}
		} else {
			q := aiStatement(a, args)
			rows, err := s.Query(q)
			got := errClass(err)
			w.evals++
			if got != expRes {
				d := ""
				if err != nil {
					d = " (" + err.Error() + ")"
				}
				f := common.Fail(i, a, "result-class:"+expRes+"->"+got, expRes, got+d)
				f["detail"] = f["detail"].(string) + "\n  statement: " + q
				return finish(f)
			}
			if aff, ok := out["aff"]; ok && err == nil {
				w.evals++
				if g := sqlh.RowsString(rows, false); g != fmt.Sprintf("(OK(%d))", common.Int(aff)) {
					return finish(common.Fail(i, a, "rows-affected", aff, g))
				}
			}
			if al, ok := out["already"]; ok && err == nil {
				w.evals++
				if g := strings.Contains(sqlh.RowsString(rows, false), "Already on branch"); g != al.(bool) {
					return finish(common.Fail(i, a, "already-on-branch", al, sqlh.RowsString(rows, false)))
				}
			}
			if v, ok := out["view"]; ok {
				// the session's own view of the table it just wrote (same transaction, or the fresh state under autocommit)
				vr, err := s.Query("select id from " + args["t"].(string) + " order by id")
				if err != nil {
					return finish(common.Fail(i, a, "view-error", v, err.Error()))
				}
				w.evals++
				if !sameJSON(idList(vr), v) {
					what := "view"
					if a == "InsertGen" {
						what = "generated-ids"
					}
					return finish(common.Fail(i, a, what, v, idList(vr)))
				}
			}
			if a == "InsertGen" {
				stat["generated"] += len(out["ids"].([]any))
				for _, x := range out["ids"].([]any) {
					allGen = append(allGen, common.Int(x))
				}
				stat["gen_by_"+sname]++
			}
			if expRes != "ok" {
				stat["res_"+expRes]++
			}
		}
		if l, ok := out["lid"]; ok {
			g, err := lastInsertID(s)
			w.evals++
			if err != nil || !sameJSON(g, l) {
				return finish(common.Fail(i, a, "last_insert_id", l, fmt.Sprint(g, err)))
			}
		}
		obs, err := w.observe()
		if err != nil {
			return finish(common.Fail(i, a, "observer-error", nil, err.Error()))
		}
		w.evals += len(w.branches) * len(w.tables)
		if !sameJSON(obs, exp["store"]) {
			return finish(common.Fail(i, a, "persisted-state", exp["store"], obs))
		}
	}
	return finish(common.Result{"ok": true})
}
