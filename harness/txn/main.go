// Engine E8 "txn": K SQL sessions on one in-process dolt engine over an on-disk repository.
// Modes (argv[1]):
//   script  - run a list of {s, q} statements and report rows / error classes (debugging, --replay of probes)
//   replay  - R mode: behaviours of spec/Txn.tla or spec/AutoInc.tla, one statement at a time in TLC's order,
//             every result set / error class / LAST_INSERT_ID compared with TLC's expectation
//   stress  - T mode: ungated goroutines, acknowledged-transaction log for TraceTxn.tla / TraceAutoInc.tla
// Expected values come from the behaviour file (computed by TLC); this program only maps model values to SQL
// text and concrete values (binding) and compares.
package main

import (
	"fmt"
	"os"

	"github.com/dolthub/dolt/go/zz_verif/common"
)

func main() {
	mode := "replay"
	if len(os.Args) > 1 {
		mode = os.Args[1]
	}
	switch mode {
	case "script":
		common.Run(runScript)
	case "replay":
		common.Run(runReplay)
	case "stress":
		common.Run(runStress)
	default:
		fmt.Println("unknown mode", mode)
		os.Exit(3)
	}
}
