package main

import (
	"fmt"
	"os"
	"strings"

	"github.com/dolthub/go-mysql-server/sql"

	"github.com/dolthub/dolt/go/libraries/doltcore/sqle/dsess"
	"github.com/dolthub/dolt/go/zz_verif/common"
	"github.com/dolthub/dolt/go/zz_verif/sqlh"
)

// errClass maps an engine error to the error classes the specs know. The mapping is by error kind / message of
// the real code; it never depends on the expectation.
func errClass(err error) string {
	if err == nil {
		return "ok"
	}
	msg := err.Error()
	switch {
	case strings.HasPrefix(msg, "PANIC"):
		return "panic"
	case sql.ErrLockDeadlock.Is(err) || strings.Contains(msg, dsess.ErrRetryTransaction.Error()):
		return "retry"
	case strings.Contains(msg, "Merge conflict detected"):
		return "conflicts"
	case strings.Contains(msg, "constraint violations, transaction rolled back"):
		return "constraint"
	case strings.Contains(msg, dsess.ErrDirtyWorkingSets.Error()):
		return "dirty2"
	case sql.ErrPrimaryKeyViolation.Is(err) || strings.Contains(msg, "duplicate primary key"):
		return "dup"
	case sql.ErrUniqueKeyViolation.Is(err) || strings.Contains(msg, "duplicate unique key"):
		return "dupuniq"
	case strings.Contains(msg, "no changes to dolt_commit on branch"):
		return "nochanges"
	case strings.Contains(msg, "nothing to commit"):
		return "nothing"
	case strings.Contains(msg, "optimistic lock failed"):
		return "optlock"
	case sql.ErrSavepointDoesNotExist.Is(err):
		return "nosavepoint"
	case sql.ErrTableNotFound.Is(err):
		return "notable"
	}
	return "other"
}

type world struct {
	srv  *sqlh.Server
	dir  string
	sess map[string]*sqlh.Session
}

func newWorld(names []string) (*world, error) {
	parent := os.Getenv("VERIF_WORK")
	if parent == "" {
		parent = os.TempDir()
	}
	dir, err := os.MkdirTemp(parent, "txn-")
	if err != nil {
		return nil, err
	}
	srv, err := sqlh.NewRepoServer(dir, "db1")
	if err != nil {
		os.RemoveAll(dir)
		return nil, err
	}
	w := &world{srv: srv, dir: dir, sess: map[string]*sqlh.Session{}}
	for _, n := range names {
		s, err := srv.NewSession(n)
		if err != nil {
			w.close()
			return nil, err
		}
		w.sess[n] = s
	}
	return w, nil
}

func (w *world) close() {
	w.srv.Close()
	os.RemoveAll(w.dir)
}

func strs(v any) []string {
	if v == nil {
		return nil
	}
	a := v.([]any)
	out := make([]string, len(a))
	for i := range a {
		out[i] = a[i].(string)
	}
	return out
}

// runScript: {"sessions":[..], "setup":[sql...] (run on the first session), "steps":[{"s":name,"q":sql}]}
func runScript(c map[string]any) common.Result {
	names := strs(c["sessions"])
	w, err := newWorld(names)
	if err != nil {
		return common.Result{"ok": false, "fp": "setup", "detail": err.Error()}
	}
	defer w.close()
	for _, q := range strs(c["setup"]) {
		if err := w.sess[names[0]].Exec(q); err != nil {
			return common.Result{"ok": false, "fp": "setup", "detail": q + ": " + err.Error()}
		}
	}
	var out []any
	for _, st := range c["steps"].([]any) {
		m := st.(map[string]any)
		s := w.sess[m["s"].(string)]
		q := m["q"].(string)
		rows, err := s.Query(q)
		r := map[string]any{"s": m["s"], "q": q, "class": errClass(err)}
		if err != nil {
			r["err"] = err.Error()
		} else {
			r["rows"] = sqlh.RowsString(rows, false)
		}
		out = append(out, r)
		if os.Getenv("VERIF_VERBOSE") != "" {
			fmt.Printf("%-3s %-70s -> %v\n", m["s"], q, func() any {
				if err != nil {
					return "ERR[" + errClass(err) + "] " + err.Error()
				}
				return sqlh.RowsString(rows, false)
			}())
		}
	}
	return common.Result{"ok": true, "steps": out}
}
