package main

import (
	"fmt"
	"math/rand"
	"sort"
	"sync"
	"sync/atomic"

	"github.com/dolthub/go-mysql-server/sql"

	"github.com/dolthub/dolt/go/libraries/doltcore/doltdb"
	"github.com/dolthub/dolt/go/libraries/doltcore/sqle/dsess"
	"github.com/dolthub/dolt/go/libraries/doltcore/sqle/globalstate"
	"github.com/dolthub/dolt/go/zz_verif/common"
	"github.com/dolthub/dolt/go/zz_verif/sqlh"
)

// T mode: ungated goroutines. Every statement is bracketed by a "call" and a "ret" event stamped with one global
// atomic counter; the merged event list is validated by spec/TraceTxn.tla / spec/TraceAutoInc.tla.

// tracer: one global atomic counter orders the events of all goroutines; every goroutine appends to its own buffer
// (no shared lock between the counter increment and the traced call, so the goroutines really run in parallel).
type tracer struct {
	ctr  int64
	mu   sync.Mutex
	bufs []*traceBuf
}

type traceBuf struct {
	evs  []map[string]any
	seqs []int64
}

// buf returns a new per-goroutine buffer.
func (t *tracer) buf() *traceBuf {
	b := &traceBuf{}
	t.mu.Lock()
	t.bufs = append(t.bufs, b)
	t.mu.Unlock()
	return b
}

func (t *tracer) log(b *traceBuf, ev map[string]any) {
	b.seqs = append(b.seqs, atomic.AddInt64(&t.ctr, 1))
	b.evs = append(b.evs, ev)
}

func (t *tracer) sorted() []any {
	type item struct {
		seq int64
		ev  map[string]any
	}
	var all []item
	for _, b := range t.bufs {
		for i := range b.evs {
			all = append(all, item{b.seqs[i], b.evs[i]})
		}
	}
	sort.Slice(all, func(a, b int) bool { return all[a].seq < all[b].seq })
	out := make([]any, 0, len(all)+2)
	for _, it := range all {
		out = append(out, it.ev)
	}
	return out
}

func runStress(c map[string]any) common.Result {
	switch c["workload"].(string) {
	case "txn":
		return stressTxn(c)
	case "autoinc":
		return stressAutoInc(c)
	case "tracker":
		return stressTracker(c)
	}
	return common.Result{"ok": false, "fp": "harness:workload", "detail": "unknown workload"}
}

// ---------------------------------------------------------------------------------------------------------------
// workload "txn": K sessions (autocommit off) run M transactions each over the model rows of table t.

func stressTxn(c map[string]any) common.Result {
	names := strs(c["Sessions"])
	rowsM := common.Ints(c["Rows"])
	vals := common.Ints(c["Vals"])
	M := common.Int(c["M"])
	seed := int64(common.Int(c["seed"]))
	// initial state: every model row present with the smallest value
	minV := vals[0]
	for _, v := range vals {
		if v < minV {
			minV = v
		}
	}
	init := map[string]any{}
	b0 := getBinding(c)
	var initRows []any
	for _, r := range rowsM {
		row := []any{float64(r)}
		for i := 0; i < b0.nc; i++ {
			row = append(row, float64(minV))
		}
		initRows = append(initRows, row)
	}
	init[b0.main] = map[string]any{"w": initRows}
	w, err := newTxnWorld(c, names, init)
	if err != nil {
		return common.Result{"ok": false, "fp": "harness:setup", "detail": err.Error(), "inconclusive": true}
	}
	defer w.close()
	for _, n := range names {
		w.sess[n].MustExec("set autocommit = 0")
		w.sess[n].MustExec("rollback")
	}
	readW := 2 // out of 10 statements; the rest: 5 updates, 2 inserts, 1 delete (scaled down when reads dominate)
	if b, _ := c["reads"].(bool); b {
		readW = 5
	}
	tr := &tracer{}
	var wg sync.WaitGroup
	var panicked atomic.Value
	for gi, n := range names {
		wg.Add(1)
		go func(gi int, name string) {
			defer wg.Done()
			defer func() {
				if p := recover(); p != nil {
					panicked.Store(fmt.Sprint(p))
				}
			}()
			rng := rand.New(rand.NewSource(seed*1000 + int64(gi)))
			s := w.sess[name]
			tb := tr.buf()
			// statement: log call, execute, log ret
			do := func(a string, args map[string]any) string {
				tr.log(tb, map[string]any{"ev": "call", "s": name, "a": a, "args": args})
				var res string
				out := map[string]any{}
				if a == "Read" {
					o, err := w.readRoots(s, args["b"].(string), false)
					res = errClass(err)
					if err == nil {
						out = o
					}
				} else {
					rows, err := s.Query(w.txnStatement(a, args))
					res = errClass(err)
					if err == nil && (a == "Update" || a == "Insert" || a == "Delete") {
						var aff int
						fmt.Sscanf(sqlh.RowsString(rows, false), "(OK(%d))", &aff)
						out["aff"] = aff
					} else if a == "Update" || a == "Insert" || a == "Delete" {
						out["aff"] = 0
					}
				}
				tr.log(tb, map[string]any{"ev": "ret", "s": name, "res": res, "out": out})
				return res
			}
			cur := b0.main
			for m := 0; m < M; m++ {
				if len(b0.branches) > 1 && rng.Intn(8) == 0 {
					nb := b0.branches[rng.Intn(len(b0.branches))]
					do("Checkout", map[string]any{"b": nb})
					cur = nb
				}
				kind := rng.Intn(20)
				if kind < 14 {
					do("Begin", map[string]any{})
				}
				nops := 1 + rng.Intn(3)
				for o := 0; o < nops; o++ {
					r := rowsM[rng.Intn(len(rowsM))]
					switch x := rng.Intn(10); {
					case x < readW:
						do("Read", map[string]any{"b": cur, "q": false})
					case x < 7:
						do("Update", map[string]any{"b": cur, "q": false, "r": r, "i": 1 + rng.Intn(b0.nc), "v": vals[rng.Intn(len(vals))]})
					case x < 9:
						row := make([]any, b0.nc)
						for i := range row {
							row[i] = vals[rng.Intn(len(vals))]
						}
						do("Insert", map[string]any{"b": cur, "q": false, "r": r, "row": row})
					default:
						do("Delete", map[string]any{"b": cur, "q": false, "r": r})
					}
				}
				switch {
				case kind == 19:
					do("Rollback", map[string]any{})
				case kind == 18:
					do("DoltCommit", map[string]any{"all": true})
				default:
					do("Commit", map[string]any{})
				}
			}
			// leave no transaction open
			do("Rollback", map[string]any{})
		}(gi, n)
	}
	wg.Wait()
	if p := panicked.Load(); p != nil {
		return common.Result{"ok": false, "fp": "panic", "detail": p.(string)}
	}
	final, err := w.observeStore()
	if err != nil {
		return common.Result{"ok": false, "fp": "harness:final", "detail": err.Error(), "inconclusive": true}
	}
	evs := append([]any{map[string]any{"ev": "reset"}}, tr.sorted()...)
	evs = append(evs, map[string]any{"ev": "final", "store": final})
	return common.Result{"ok": true, "trace": evs, "events": len(evs)}
}

// ---------------------------------------------------------------------------------------------------------------
// workload "autoinc": K sessions insert into auto-increment tables on several branches through SQL.
// Autocommit inserts persist; BEGIN ; insert ; ROLLBACK hands a value out without persisting it.

func stressAutoInc(c map[string]any) common.Result {
	names := strs(c["Sessions"])
	M := common.Int(c["M"])
	seed := int64(common.Int(c["seed"]))
	w, err := newAIWorld(c, names)
	if err != nil {
		return common.Result{"ok": false, "fp": "harness:setup", "detail": err.Error(), "inconclusive": true}
	}
	defer w.close()
	tr := &tracer{}
	var wg sync.WaitGroup
	var failure atomic.Value
	for gi, n := range names {
		wg.Add(1)
		go func(gi int, name string) {
			defer wg.Done()
			defer func() {
				if p := recover(); p != nil {
					failure.Store(fmt.Sprint("panic: ", p))
				}
			}()
			rng := rand.New(rand.NewSource(seed*1000 + int64(gi)))
			s := w.sess[name]
			br := w.branches[gi%len(w.branches)]
			tb := tr.buf()
			s.MustExec("call dolt_checkout('" + br + "')")
			for m := 0; m < M; m++ {
				t := w.tables[rng.Intn(len(w.tables))]
				persist := rng.Intn(5) != 0
				explicit := rng.Intn(6) == 0
				if !persist {
					s.MustExec("start transaction")
				}
				ev := map[string]any{"ev": "call", "s": name, "t": t, "b": br, "persist": persist, "n": 0}
				var q string
				if explicit {
					// explicit values are unique per goroutine and trace (never a duplicate key), above and below the sequence
					n := 1 + rng.Intn(M*len(names)*2)
					n = n*len(names) + gi
					ev["a"], ev["n"] = "InsertExplicit", n
					q = fmt.Sprintf("insert into %s (id, x) values (%d, 0)", t, n)
				} else {
					ev["a"] = "InsertGen"
					q = fmt.Sprintf("insert into %s (x) values (0)", t)
				}
				tr.log(tb, ev)
				_, err := s.Query(q)
				res := errClass(err)
				id := 0
				if err == nil {
					if explicit {
						id = ev["n"].(int)
					} else {
						rows, err2 := s.Query("select last_insert_id()")
						if err2 != nil {
							failure.Store("last_insert_id: " + err2.Error())
							return
						}
						id = int(rows[0][0].(int64))
					}
				} else if res != "dup" {
					failure.Store(fmt.Sprintf("%s: %v", q, err))
					return
				}
				tr.log(tb, map[string]any{"ev": "ret", "s": name, "res": res, "id": id})
				if !persist {
					s.MustExec("rollback")
				}
			}
		}(gi, n)
	}
	wg.Wait()
	if f := failure.Load(); f != nil {
		return common.Result{"ok": false, "fp": "stress:statement-failed", "detail": f.(string)}
	}
	final, err := w.observe()
	if err != nil {
		return common.Result{"ok": false, "fp": "harness:final", "detail": err.Error(), "inconclusive": true}
	}
	evs := append([]any{map[string]any{"ev": "reset"}}, tr.sorted()...)
	evs = append(evs, map[string]any{"ev": "final", "store": final})
	return common.Result{"ok": true, "trace": evs, "events": len(evs)}
}

// ---------------------------------------------------------------------------------------------------------------
// workload "tracker": goroutines call AutoIncrementTracker.Next directly (the call GetNextAutoIncrementValue makes),
// maximal contention on the load / store of one table's sequence.

func stressTracker(c map[string]any) common.Result {
	names := strs(c["Sessions"])
	M := common.Int(c["M"])
	seed := int64(common.Int(c["seed"]))
	w, err := newAIWorld(c, names)
	if err != nil {
		return common.Result{"ok": false, "fp": "harness:setup", "detail": err.Error(), "inconclusive": true}
	}
	defer w.close()
	// the tracker of database db1
	ctx0, err := w.srv.Eng.NewContext(w.srv.Ctx, w.sess[names[0]].Sess)
	if err != nil {
		return common.Result{"ok": false, "fp": "harness:setup", "detail": err.Error(), "inconclusive": true}
	}
	db, ok := dsess.DSessFromSess(w.sess[names[0]].Sess).Provider().BaseDatabase(ctx0, "db1")
	if !ok {
		return common.Result{"ok": false, "fp": "harness:setup", "detail": "no base database", "inconclusive": true}
	}
	gsp, ok := db.(globalstate.GlobalStateProvider)
	if !ok {
		return common.Result{"ok": false, "fp": "harness:setup", "detail": "database is not a GlobalStateProvider", "inconclusive": true}
	}
	tracker, err := dsess.GetAutoIncrementTracker(ctx0, gsp.GetGlobalState())
	if err != nil {
		return common.Result{"ok": false, "fp": "harness:setup", "detail": err.Error(), "inconclusive": true}
	}
	for _, n := range names {
		// touch the database in every session first so that session state exists
		if _, err := w.sess[n].Query("select count(*) from " + w.tables[0]); err != nil {
			return common.Result{"ok": false, "fp": "harness:setup", "detail": err.Error(), "inconclusive": true}
		}
	}
	tr := &tracer{}
	var wg sync.WaitGroup
	var failure atomic.Value
	start := make(chan struct{})
	for gi, n := range names {
		wg.Add(1)
		go func(gi int, name string) {
			defer wg.Done()
			defer func() {
				if p := recover(); p != nil {
					failure.Store(fmt.Sprint("panic: ", p))
				}
			}()
			rng := rand.New(rand.NewSource(seed*1000 + int64(gi)))
			s := w.sess[name]
			ctx, err := w.srv.Eng.NewContext(w.srv.Ctx, s.Sess)
			if err != nil {
				failure.Store(err.Error())
				return
			}
			sql.SessionCommandBegin(s.Sess)
			defer sql.SessionCommandEnd(s.Sess)
			tb := tr.buf()
			// make sure the session has loaded db1 (validateBounds looks the working set up)
			<-start
			for m := 0; m < M; m++ {
				t := w.tables[rng.Intn(len(w.tables))]
				ev := map[string]any{"ev": "call", "s": name, "t": t, "b": w.main, "persist": false, "n": 0}
				var given any
				if rng.Intn(10) == 0 {
					n := (1+rng.Intn(M*len(names)))*len(names) + gi
					ev["a"], ev["n"] = "InsertExplicit", n
					given = int64(n)
				} else {
					ev["a"] = "InsertGen"
				}
				tr.log(tb, ev)
				v, err := tracker.Next(ctx, doltdb.TableName{Name: t}, given)
				if err != nil {
					failure.Store("Next: " + err.Error())
					return
				}
				tr.log(tb, map[string]any{"ev": "ret", "s": name, "res": "ok", "id": int(v)})
			}
		}(gi, n)
	}
	close(start)
	wg.Wait()
	if f := failure.Load(); f != nil {
		return common.Result{"ok": false, "fp": "stress:tracker-call-failed", "detail": f.(string)}
	}
	final, err := w.observe()
	if err != nil {
		return common.Result{"ok": false, "fp": "harness:final", "detail": err.Error(), "inconclusive": true}
	}
	evs := append([]any{map[string]any{"ev": "reset"}}, tr.sorted()...)
	evs = append(evs, map[string]any{"ev": "final", "store": final})
	return common.Result{"ok": true, "trace": evs, "events": len(evs)}
}
