// Engine E9 "repo": generic step replayer for behaviours of /verif/spec/Repo.tla.
//
// A case is {"steps":[{a,s,args,res,q,exp}...], "binding":{...}, "tables":[...], "keys":[...], "sessions":[...], "obs":[...]}.
// Every step's action is mapped to SQL / dolt_* procedure calls on an in-process dolt SQL engine over a fresh on-disk
// repository; after EVERY step the real repository is projected (librepo.Project) and compared with the projection
// TLC computed (exp), and the call's outcome class with res. Query steps (QDiff, QHistory, QAncestor) and the
// observers named in "obs" ("asof","diff","patch","history") compare read paths with TLC's answers:
//
//	C32  dolt_diff(), dolt_commit_diff_<t>, dolt_diff_<t>, dolt_diff_summary(), dolt_patch() applied on a scratch branch
//	C33  AS OF hash / branch / tag / HEAD~n, revision databases `db/<rev>`, dolt_history_<t>
//
// Expected values come only from the behaviour (TLC); this program binds model values to concrete ones and compares.
package main

import (
	"fmt"
	"os"
	"regexp"
	"sort"
	"strings"

	"github.com/dolthub/dolt/go/zz_verif/common"
	"github.com/dolthub/dolt/go/zz_verif/librepo"
	"github.com/dolthub/dolt/go/zz_verif/sqlh"
)

func main() {
	if len(os.Args) > 1 && os.Args[1] == "script" {
		common.Run(runScript)
		return
	}
	common.Run(runCase)
}

type engine struct {
	prev   *librepo.Proj // expectation of the previous step (= the state before the current one)
	r      *librepo.Repo
	obs    map[string]bool
	stepNo int
	stats  map[string]int
	soft   []any
	tables []string
	report map[string]bool // named deviations this check reports as (known) findings
}

func strs(v any) []string {
	var out []string
	if a, ok := v.([]any); ok {
		for _, x := range a {
			out = append(out, x.(string))
		}
	}
	return out
}

func amap(v any) map[string]any {
	if m, ok := v.(map[string]any); ok {
		return m
	}
	return map[string]any{}
}

func runCase(c map[string]any) common.Result {
	tables := strs(c["tables"])
	bd := librepo.NewBinding(amap(c["binding"]), common.Ints(c["keys"]))
	r, err := librepo.Open(strs(c["sessions"]), tables, bd)
	if err != nil {
		return common.Result{"ok": false, "fp": "setup", "detail": err.Error()}
	}
	defer r.Close()
	e := &engine{r: r, obs: map[string]bool{}, stats: map[string]int{}, tables: tables, report: map[string]bool{}}
	for _, o := range strs(c["obs"]) {
		e.obs[o] = true
	}
	for _, d := range strs(c["report_devs"]) {
		e.report[d] = true
	}
	steps := c["steps"].([]any)
	truncated := -1
	for i, sv := range steps {
		e.stepNo = i
		st := sv.(map[string]any)
		a := st["a"].(string)
		stop, fail := e.step(st)
		if fail != nil {
			fail["stats"] = e.stats
			fail["evals"] = r.Evals
			return fail
		}
		e.stats[a+":"+st["res"].(string)]++
		if stop {
			truncated = i
			break
		}
	}
	// observers over the final state
	last := steps[len(steps)-1].(map[string]any)
	if truncated < 0 {
		if f := e.observe(librepo.DecodeProj(last["exp"]), len(steps)-1, "final"); f != nil {
			f["stats"] = e.stats
			f["evals"] = r.Evals
			return f
		}
	}
	res := common.Result{"ok": true, "evals": r.Evals, "stats": e.stats, "truncated": truncated, "commits": len(r.Hash)}
	if len(e.soft) > 0 {
		res["soft"] = e.soft
	}
	return res
}

// ---------------------------------------------------------------------------------------------- outcome classes

var errClasses = []struct {
	tag string
	re  *regexp.Regexp
}{
	{"err:nothing", regexp.MustCompile(`(?i)nothing to commit|no changes added to commit`)},
	{"err:dirty", regexp.MustCompile(`(?i)cannot cherry-pick with uncommitted changes|local changes would be overwritten by revert|cannot start a rebase with uncommitted changes`)},
	{"err:mergecommit", regexp.MustCompile(`cherry-picking a merge commit is not supported`)},
	{"err:noparent", regexp.MustCompile(`without parents is not supported|cannot revert commit with no parents`)},
	{"err:empty", regexp.MustCompile(`cherry-pick commit is empty`)},
	{"err:nochange", regexp.MustCompile(`no changes were made, nothing to commit`)},
	{"err:moddel", regexp.MustCompile(`(?i)table was modified in one branch and deleted in the other|schema conflict`)},
	{"err:twice", regexp.MustCompile(`(?i)table with same name .* added in 2 commits|added in 2 commits can't be merged|same name`)},
	{"err:exists", regexp.MustCompile(`already exists`)},
	{"err:nochanges", regexp.MustCompile(`No local changes to save`)},
	{"err:untracked-clash", regexp.MustCompile(`(?i)untracked table.*would be overwritten`)}, // intended outcome of a named deviation; the code has no such error today
	{"err:conflict", regexp.MustCompile(`(?i)local changes to the following tables would be overwritten by applying stash`)},
	{"err:bothws", regexp.MustCompile(`(?i)checkout would overwrite uncommitted changes on target branch`)},
	{"err:overwrite", regexp.MustCompile(`(?i)local changes to the following tables would be overwritten by checkout`)},
	{"err:nocommits", regexp.MustCompile(`didn't identify any commits`)},
	{"err:plan", regexp.MustCompile(`invalid rebase plan`)},
	{"err:unstaged", regexp.MustCompile(`with unstaged changes`)},
}

func classify(err error) string {
	if err == nil {
		return "ok"
	}
	msg := err.Error()
	// "no changes were made, nothing to commit" must win over "nothing to commit"
	if strings.Contains(msg, "no changes were made") {
		return "err:nochange"
	}
	for _, c := range errClasses {
		if c.re.MatchString(msg) {
			return c.tag
		}
	}
	return "err:?" + msg
}

// ---------------------------------------------------------------------------------------------- one step

func (e *engine) fail(action, what string, exp, got any) common.Result {
	return common.Fail(e.stepNo, action, what, exp, got)
}

func (e *engine) hash(v any) string {
	h, err := e.r.HashOf(common.Int(v))
	if err != nil {
		panic(err)
	}
	return h
}

func firstRow(rows [][]any) []any {
	if len(rows) == 0 {
		return nil
	}
	return rows[0]
}

// step performs one behaviour step. stop = the behaviour cannot be followed further (intended semantics observed at a
// named deviation); fail = mismatch.
func (e *engine) step(st map[string]any) (stop bool, fail common.Result) {
	a := st["a"].(string)
	args := amap(st["args"])
	expRes := st["res"].(string)
	var ss *sqlh.Session
	if s, _ := st["s"].(string); s != "" {
		ss = e.r.Sess[s]
	}
	bd := e.r.Bd
	var err error
	var rows [][]any
	res := ""
	call := func(q string) {
		rows, err = ss.Query(q)
	}
	t, _ := args["t"].(string)
	switch a {
	case "Insert":
		call(fmt.Sprintf("insert into `%s` (pk, c1) values (%d, %s)", t, bd.Keys[common.Int(args["k"])], bd.Lit("c1", common.Int(args["v"]))))
	case "Update":
		col := args["c"].(string)
		call(fmt.Sprintf("update `%s` set %s = %s where pk = %d", t, col, bd.Lit(col, common.Int(args["v"])), bd.Keys[common.Int(args["k"])]))
		if err == nil && fmt.Sprint(firstRow(rows)) != "[OK(1)]" {
			return false, e.fail(a, "rows affected", "OK(1)", fmt.Sprint(rows))
		}
	case "Delete":
		call(fmt.Sprintf("delete from `%s` where pk = %d", t, bd.Keys[common.Int(args["k"])]))
		if err == nil && fmt.Sprint(firstRow(rows)) != "[OK(1)]" {
			return false, e.fail(a, "rows affected", "OK(1)", fmt.Sprint(rows))
		}
	case "CreateTable":
		call(fmt.Sprintf("create table `%s` (pk int primary key, c1 %s)", t, bd.SQLType("c1")))
		if err == nil && bd.Filler > 0 {
			var sb strings.Builder
			fmt.Fprintf(&sb, "insert into `%s` (pk, c1) values ", t)
			for i := 0; i < bd.Filler; i++ {
				if i > 0 {
					sb.WriteString(",")
				}
				fmt.Fprintf(&sb, "(%d,%s)", librepo.FillerBase+i*3, bd.Lit("c1", 1+i%len(bd.Pal["c1"])))
			}
			call(sb.String())
		}
	case "DropTable":
		call(fmt.Sprintf("drop table `%s`", t))
	case "AddColumn":
		call(fmt.Sprintf("alter table `%s` add column c2 %s", t, bd.SQLType("c2")))
	case "Add":
		call(fmt.Sprintf("call dolt_add('%s')", t))
	case "AddAll":
		call("call dolt_add('-A')")
	case "Commit":
		call(fmt.Sprintf("call dolt_commit('-m', 'm%d')", e.stepNo))
	case "CommitAll":
		call(fmt.Sprintf("call dolt_commit('-A', '-m', 'm%d')", e.stepNo))
	case "Branch":
		call(fmt.Sprintf("call dolt_branch('%s', '%s')", args["b"], e.hash(args["c"])))
	case "Tag":
		call(fmt.Sprintf("call dolt_tag('%s', '%s')", args["n"], e.hash(args["c"])))
	case "DeleteTag":
		call(fmt.Sprintf("call dolt_tag('-d', '%s')", args["n"]))
	case "CheckoutSession":
		call(fmt.Sprintf("call dolt_checkout('%s')", args["b"]))
	case "CheckoutMove":
		call(fmt.Sprintf("call dolt_checkout('--move', '%s')", args["b"]))
	case "CheckoutTable":
		call(fmt.Sprintf("call dolt_checkout('%s')", t))
	case "ResetHard":
		call(fmt.Sprintf("call dolt_reset('--hard', '%s')", e.hash(args["c"])))
	case "ResetSoft":
		call(fmt.Sprintf("call dolt_reset('--soft', '%s')", e.hash(args["c"])))
	case "ResetMixed":
		call(fmt.Sprintf("call dolt_reset('%s')", e.hash(args["c"])))
	case "ResetStaged":
		ts := strs(args["ts"])
		if len(ts) == len(e.tables) {
			call("call dolt_reset()")
		} else {
			call(fmt.Sprintf("call dolt_reset('%s')", ts[0]))
		}
	case "StashPush":
		call("call dolt_stash('push', 'st')")
	case "StashPop":
		call(fmt.Sprintf("call dolt_stash('pop', 'st', 'stash@{%d}')", common.Int(args["i"])))
	case "StashDrop":
		call(fmt.Sprintf("call dolt_stash('drop', 'st', 'stash@{%d}')", common.Int(args["i"])))
	case "Merge":
		call(fmt.Sprintf("call dolt_merge('%s')", args["b"]))
		if err == nil {
			row := firstRow(rows)
			switch {
			case fmt.Sprint(row[2]) != "0":
				res = "conflict"
			case fmt.Sprint(row[1]) == "1":
				res = "ff"
			case row[0] == nil || fmt.Sprint(row[0]) == "":
				res = "uptodate" // ErrUpToDate / ErrIsAhead: nothing to merge, reported in the message column
			default:
				res = "ok"
			}
		}
	case "Abort":
		proc := map[string]string{"merge": "dolt_merge", "cherry": "dolt_cherry_pick", "revert": "dolt_revert"}[args["kind"].(string)]
		call(fmt.Sprintf("call %s('--abort')", proc))
	case "Continue":
		proc := map[string]string{"cherry": "dolt_cherry_pick", "revert": "dolt_revert"}[args["kind"].(string)]
		call(fmt.Sprintf("call %s('--continue')", proc))
		if err == nil && fmt.Sprint(firstRow(rows)[1]) != "0" {
			res = "conflict"
		}
	case "Resolve":
		call(fmt.Sprintf("call dolt_conflicts_resolve('--%s', '%s')", args["side"], t))
	case "CherryPick":
		call(fmt.Sprintf("call dolt_cherry_pick('%s')", e.hash(args["c"])))
		if err == nil && fmt.Sprint(firstRow(rows)[1]) != "0" {
			res = "conflict"
		}
	case "Revert":
		call(fmt.Sprintf("call dolt_revert('%s')", e.hash(args["c"])))
		if err == nil && fmt.Sprint(firstRow(rows)[1]) != "0" {
			res = "conflict"
		}
	case "Rebase":
		res, err = e.rebase(ss, args)
	case "QDiff", "QHistory", "QAncestor":
		// read-only: the state must be unchanged (compared below), then the query itself
	default:
		return false, e.fail(a, "unknown action", a, nil)
	}
	if res == "" {
		res = classify(err)
	}
	dev, _ := args["dev"].(string)
	ideal := amap(args["ideal"])
	exp := librepo.DecodeProj(st["exp"])
	if res != expRes {
		if dev != "" && res == fmt.Sprint(ideal["res"]) {
			// named deviation of the model, but the code gave the intended outcome: check the intended state
			real, perr := e.r.Project()
			if perr != nil {
				return false, e.fail(a, "projection failed", nil, perr.Error())
			}
			if ok, what := e.matchesIdeal(ideal, real); !ok {
				return false, e.fail(a, "intended outcome "+res+" but "+what, ideal, nil)
			}
			e.stats["ideal:"+dev]++
			return true, nil
		}
		return false, e.fail(a, "outcome", expRes, res)
	}
	e.r.Evals++
	// projection after the step
	real, perr := e.r.Project()
	if perr != nil {
		return false, e.fail(a, "projection failed", nil, perr.Error())
	}
	if d := e.r.Compare(exp, real); d != nil {
		if dev == "" {
			return false, e.fail(a, d.What, d.Exp, d.Got)
		}
		// named deviation: the behaviour follows the code; the code did NOT do that. Did it do the intended thing?
		if ok, _ := e.matchesIdeal(ideal, real); ok && res == fmt.Sprint(ideal["res"]) {
			e.stats["ideal:"+dev]++
			return true, nil
		}
		return false, e.fail(a, d.What+" (neither the code's named deviation "+dev+" nor the intended result)", d.Exp, d.Got)
	}
	e.prev = exp
	if dev != "" {
		// the real code took the named deviation: a candidate known finding; the behaviour continues. Only the check that
		// owns the deviation reports it (case field "report_devs"); the others just count it.
		e.stats["dev:"+dev]++
		if e.report[dev] {
			f := common.Fail(e.stepNo, a, dev, ideal, "the code behaves as the named deviation describes")
			e.soft = append(e.soft, f)
		}
	}
	switch a {
	case "QDiff":
		if f := e.qdiff(ss, st["s"].(string), args, amap(st["q"]), exp); f != nil {
			return false, f
		}
	case "QHistory":
		if f := e.qhistory(ss, st["q"], exp); f != nil {
			return false, f
		}
	case "QAncestor":
		if f := e.qancestor(ss, args, amap(st["q"]), exp); f != nil {
			return false, f
		}
	}
	if e.obs["every"] {
		if f := e.observe(exp, e.stepNo, "step"); f != nil {
			return false, f
		}
	}
	return false, nil
}

// matchesIdeal: does the real state equal the INTENDED result of a step at which the model follows a named deviation?
// ideal = {res, same: true (state unchanged)} or {res, b, w, s} (working and staged root of branch b).
func (e *engine) matchesIdeal(ideal map[string]any, real *librepo.RealState) (bool, string) {
	if same, _ := ideal["same"].(bool); same {
		if e.prev == nil {
			return false, "no previous state"
		}
		if d := e.r.Compare(e.prev, real); d != nil {
			return false, "the state changed: " + d.What
		}
		return true, ""
	}
	b, _ := ideal["b"].(string)
	if librepo.CompareRoots("w", librepo.DecodeRoot(ideal["w"]), real.WS[b].W) == nil &&
		librepo.CompareRoots("s", librepo.DecodeRoot(ideal["s"]), real.WS[b].S) == nil {
		return true, ""
	}
	return false, "working/staged root of " + b + " differ from the intended ones"
}

var planEnum = map[string]string{"pick": "pick", "squash": "squash", "fixup": "fixup", "drop": "drop", "reword": "reword"}

// rebase = dolt_rebase('-i', up); edit the plan; dolt_rebase('--continue'); abort if it stops.
func (e *engine) rebase(ss *sqlh.Session, args map[string]any) (string, error) {
	_, err := ss.Query(fmt.Sprintf("call dolt_rebase('-i', '%s')", e.hash(args["up"])))
	if err != nil {
		return "", err
	}
	abort := func() {
		if rows, err := ss.Query("select active_branch()"); err == nil && strings.HasPrefix(fmt.Sprint(rows[0][0]), "dolt_rebase_") {
			if _, err := ss.Query("call dolt_rebase('--abort')"); err != nil {
				panic("dolt_rebase --abort failed: " + err.Error())
			}
		}
	}
	rows, err := ss.Query("select rebase_order, commit_hash from dolt_rebase order by rebase_order")
	if err != nil {
		abort()
		return "", err
	}
	chain := common.Ints(args["chain"])
	plan := strs(args["plan"])
	var got []string
	for _, r := range rows {
		got = append(got, fmt.Sprint(r[1]))
	}
	var want []string
	for _, c := range chain {
		want = append(want, e.hash(c))
	}
	if fmt.Sprint(got) != fmt.Sprint(want) {
		abort()
		return "plan-mismatch: default plan " + fmt.Sprint(got) + " model chain " + fmt.Sprint(want), nil
	}
	for i, a := range plan {
		q := fmt.Sprintf("update dolt_rebase set action = '%s' where rebase_order = %d", planEnum[a], i+1)
		if a == "reword" {
			q = fmt.Sprintf("update dolt_rebase set action = 'reword', commit_message = 'reworded %d' where rebase_order = %d", e.stepNo, i+1)
		}
		if _, err := ss.Query(q); err != nil {
			abort()
			return "", fmt.Errorf("updating the plan: %w", err)
		}
	}
	_, err = ss.Query("call dolt_rebase('--continue')")
	if err != nil {
		abort()
		if strings.Contains(err.Error(), "data conflict detected while rebasing") {
			return "conflict-aborted", nil
		}
		return "", err
	}
	return "ok", nil
}

// ---------------------------------------------------------------------------------------------- C32 observers

type drow struct {
	K    int
	Ty   string
	F, T [2]int
}

// diffRows maps diff rows to the model view; rows of filler keys are counted, not returned (a filler row can only be
// part of a diff when the whole table appears or disappears).
func (e *engine) diffRows(cols []string, rows [][]any) ([]drow, int, error) {
	ci := func(n string) int {
		for i, c := range cols {
			if c == n {
				return i
			}
		}
		return -1
	}
	var out []drow
	filler := 0
	side := func(row []any, p string) ([2]int, any) {
		ipk := ci(p + "pk")
		if ipk < 0 || row[ipk] == nil {
			return [2]int{-1, -1}, nil
		}
		v := [2]int{e.r.Bd.Unval("c1", row[ci(p+"c1")]), 0}
		if i2 := ci(p + "c2"); i2 >= 0 {
			v[1] = e.r.Bd.Unval("c2", row[i2])
		}
		return v, row[ipk]
	}
	for _, row := range rows {
		var d drow
		var pk any
		var p any
		d.F, p = side(row, "from_")
		if p != nil {
			pk = p
		}
		d.T, p = side(row, "to_")
		if p != nil {
			pk = p
		}
		if x, ok := pk.(int64); ok && x >= librepo.FillerBase {
			filler++
			continue
		}
		k, ok := e.r.Bd.Unkey(pk)
		if !ok {
			return nil, 0, fmt.Errorf("diff row with a key outside the binding: %v", row)
		}
		d.K = k
		d.Ty = fmt.Sprint(row[ci("diff_type")])
		out = append(out, d)
	}
	sort.Slice(out, func(i, j int) bool { return out[i].K < out[j].K })
	return out, filler, nil
}

func decodeDiffRows(v any) []drow {
	var out []drow
	if a, ok := v.([]any); ok {
		for _, x := range a {
			m := x.(map[string]any)
			f, t := common.Ints(m["f"]), common.Ints(m["t"])
			out = append(out, drow{K: common.Int(m["k"]), Ty: m["ty"].(string), F: [2]int{f[0], f[1]}, T: [2]int{t[0], t[1]}})
		}
	}
	return out
}

func (e *engine) qdiff(ss *sqlh.Session, sess string, args, q map[string]any, exp *librepo.Proj) common.Result {
	from, to := common.Int(args["from"]), common.Int(args["to"])
	cur := exp.WS[exp.Cur[sess]] // working set of the session's branch, as TLC has it
	dtSet := map[string]bool{}
	for _, t := range strs(q["dt"]) {
		dtSet[t] = true
	}
	forkSet := map[string]bool{}
	for _, t := range strs(q["dtfork"]) {
		forkSet[t] = true
	}
	hf, ht := e.hash(from), e.hash(to)
	d := amap(q["d"])
	_, wrows, _ := librepo.Q(ss, "show tables")
	inWorking := map[string]bool{}
	for _, r := range wrows {
		inWorking[fmt.Sprint(r[0])] = true
	}
	for _, t := range e.tables {
		td, present := d[t].(map[string]any)
		var exp []drow
		if present {
			exp = decodeDiffRows(td["rows"])
		}
		check := func(what, query string) common.Result {
			cols, rows, err := librepo.Q(ss, query)
			e.r.Evals++
			if !present {
				// the table exists in neither commit
				if err == nil && len(rows) == 0 {
					return nil
				}
				if err != nil && strings.Contains(err.Error(), "not found") {
					return nil
				}
				return e.fail("QDiff", what+" for a table in neither commit", "no rows / table not found", fmt.Sprint(rows, err))
			}
			if err != nil {
				return e.fail("QDiff", what+" failed", exp, err.Error())
			}
			got, filler, err := e.diffRows(cols, rows)
			if err != nil {
				return e.fail("QDiff", what, exp, err.Error())
			}
			fex, tex := td["fex"].(bool), td["tex"].(bool)
			// (dolt_commit_diff_<t> with the table absent in to_commit lists every row as removed since dolt 8e806b7)
			wantFiller := 0
			if fex != tex {
				wantFiller = e.r.Bd.Filler
			}
			if fmt.Sprint(got) != fmt.Sprint(exp) {
				return e.fail("QDiff", what+" rows", exp, got)
			}
			if filler != wantFiller {
				return e.fail("QDiff", what+" filler rows in the diff", wantFiller, filler)
			}
			e.stats["diffrows"] += len(got)
			return nil
		}
		if f := check("dolt_diff()", fmt.Sprintf("select * from dolt_diff('%s', '%s', '%s')", hf, ht, t)); f != nil {
			return f
		}
		// dolt_commit_diff_<t> and dolt_diff_<t> have the columns of the table in the session's working root: they are
		// compared only when that schema covers the columns of both commits (otherwise values are not representable)
		wnc := 0
		if wt, ok := cur.W[t]; ok {
			wnc = wt.NC
		}
		covers := inWorking[t] && wnc > 0 && (!present || (wnc >= common.Int(td["fnc"]) && wnc >= common.Int(td["tnc"])))
		if dtSet[t] && covers && present {
			if f := check("dolt_diff_<t>", fmt.Sprintf("select * from `dolt_diff_%s` where to_commit = '%s' and from_commit = '%s'", t, ht, hf)); f != nil {
				return f
			}
			e.stats["difftable_reads"]++
		}
		if forkSet[t] && covers && present {
			// from_commit has a second child in the session's history (fork merged back). DiffPartitions.processCommit keeps
			// one child per parent (cmHashToTblInfo[parent] is overwritten), so one of the two diffs may be missing:
			// a complete answer is accepted, an empty one where rows are due is a candidate known finding.
			_, rows, err := librepo.Q(ss, fmt.Sprintf("select * from `dolt_diff_%s` where to_commit = '%s' and from_commit = '%s'", t, ht, hf))
			due := len(exp) > 0 || (td["fex"].(bool) != td["tex"].(bool) && e.r.Bd.Filler > 0)
			if err == nil && len(rows) == 0 && due {
				e.soft = append(e.soft, common.Fail(e.stepNo, "QDiff", "dolt_diff_<t> misses the diff of a commit whose parent has another child in the history", exp, nil))
				e.stats["difftable_fork_missing"]++
			} else {
				if f := check("dolt_diff_<t>", fmt.Sprintf("select * from `dolt_diff_%s` where to_commit = '%s' and from_commit = '%s'", t, ht, hf)); f != nil {
					return f
				}
				e.stats["difftable_fork_reads"]++
			}
		}
		if covers {
			if f := check("dolt_commit_diff_<t>", fmt.Sprintf("select * from `dolt_commit_diff_%s` where from_commit = '%s' and to_commit = '%s'", t, hf, ht)); f != nil {
				return f
			}
		}
	}
	// dolt_diff_summary: which tables changed
	_, rows, err := librepo.Q(ss, fmt.Sprintf("select to_table_name, from_table_name, diff_type from dolt_diff_summary('%s', '%s')", hf, ht))
	if err != nil {
		return e.fail("QDiff", "dolt_diff_summary failed", nil, err.Error())
	}
	gotSum := map[string]string{}
	for _, r := range rows {
		n := fmt.Sprint(r[0])
		if r[2] == "dropped" {
			n = fmt.Sprint(r[1])
		}
		gotSum[n] = fmt.Sprint(r[2])
	}
	expSum := map[string]string{}
	for t, v := range d {
		td := v.(map[string]any)
		fex, tex := td["fex"].(bool), td["tex"].(bool)
		switch {
		case !fex && tex:
			expSum[t] = "added"
		case fex && !tex:
			expSum[t] = "dropped"
		case len(decodeDiffRows(td["rows"])) > 0 || common.Int(td["fnc"]) != common.Int(td["tnc"]):
			expSum[t] = "modified"
		}
	}
	e.r.Evals++
	if fmt.Sprint(gotSum) != fmt.Sprint(expSum) {
		return e.fail("QDiff", "dolt_diff_summary", expSum, gotSum)
	}
	if e.obs["patch"] {
		return e.patch(from, to, librepo.DecodeRoot(q["to"]))
	}
	return nil
}

// patch applies the statements of dolt_patch(from, to) on a scratch branch created at from; the result must be `to`'s data and schema.
func (e *engine) patch(from, to int, want librepo.Root) common.Result {
	hf, ht := e.hash(from), e.hash(to)
	sc, err := e.r.Srv.NewSession("_scratch")
	if err != nil {
		return e.fail("QDiff", "scratch session", nil, err.Error())
	}
	_, rows, err := librepo.Q(sc, fmt.Sprintf("select statement_order, statement from dolt_patch('%s', '%s') order by statement_order", hf, ht))
	if err != nil {
		return e.fail("QDiff", "dolt_patch failed", nil, err.Error())
	}
	if err := sc.Exec(fmt.Sprintf("call dolt_checkout('-b', 'zz_scratch', '%s')", hf)); err != nil {
		return e.fail("QDiff", "scratch branch", nil, err.Error())
	}
	defer func() {
		sc.Exec("call dolt_reset('--hard')")
		sc.Exec("call dolt_checkout('main')")
		if err := sc.Exec("call dolt_branch('-D', 'zz_scratch')"); err != nil {
			panic("cannot delete the scratch branch: " + err.Error())
		}
	}()
	var stmts []string
	for _, r := range rows {
		s := fmt.Sprint(r[1])
		stmts = append(stmts, s)
		if err := sc.Exec(s); err != nil {
			return e.fail("QDiff", "patch statement fails: "+s, nil, err.Error())
		}
	}
	got, err := e.r.ReadRoot(sc, "")
	if err != nil {
		return e.fail("QDiff", "reading the patched root", nil, err.Error())
	}
	e.r.Evals++
	e.stats["patches"]++
	e.stats["patchstmts"] += len(stmts)
	if d := librepo.CompareRoots("dolt_patch round trip", want, got); d != nil {
		return e.fail("QDiff", d.What, d.Exp, map[string]any{"got": d.Got, "stmts": stmts})
	}
	return nil
}

// ---------------------------------------------------------------------------------------------- C33 observers

// expectTable compares one read path with the model's table (absent table = the read must fail with "table not found").
func (e *engine) expectTable(ss *sqlh.Session, what, qualified, asOf string, want librepo.Table, exists bool) common.Result {
	got, err := e.r.ReadTable(ss, qualified, asOf)
	e.r.Evals++
	if !exists {
		if err != nil && strings.Contains(err.Error(), "not found") {
			return nil
		}
		return e.fail("Observe", what+": table is absent in the model", "table not found", fmt.Sprint(got, err))
	}
	if err != nil {
		return e.fail("Observe", what+" failed", want, err.Error())
	}
	if d := librepo.CompareRoots(what, librepo.Root{"t": want}, librepo.Root{"t": got}); d != nil {
		return e.fail("Observe", what, want, got)
	}
	return nil
}

// observe: every bound commit through AS OF <hash> and the revision database `db/<hash>`; branches and tags by name.
func (e *engine) observe(exp *librepo.Proj, step int, when string) common.Result {
	if !e.obs["asof"] {
		return nil
	}
	ss := e.r.Insp
	ids := []int{}
	for id := range e.r.Hash {
		ids = append(ids, id)
	}
	sort.Ints(ids)
	for _, id := range ids {
		h := e.r.Hash[id]
		root := exp.CM[id-1].Root
		for _, t := range e.tables {
			tb, ex := root[t]
			if f := e.expectTable(ss, fmt.Sprintf("AS OF hash of c%d, table %s", id, t), "`"+t+"`", h, tb, ex); f != nil {
				return f
			}
			if f := e.expectTable(ss, fmt.Sprintf("revision database db/<hash of c%d>, table %s", id, t), "`db/"+h+"`.`"+t+"`", "", tb, ex); f != nil {
				return f
			}
		}
		e.stats["asof_commits"]++
	}
	for b, c := range exp.Br {
		for _, t := range e.tables {
			tb, ex := exp.CM[c-1].Root[t]
			if f := e.expectTable(ss, fmt.Sprintf("AS OF branch %s, table %s", b, t), "`"+t+"`", b, tb, ex); f != nil {
				return f
			}
			wt, wex := exp.WS[b].W[t]
			if f := e.expectTable(ss, fmt.Sprintf("revision database db/%s (working set), table %s", b, t), "`db/"+b+"`.`"+t+"`", "", wt, wex); f != nil {
				return f
			}
		}
	}
	for n, c := range exp.Tg {
		for _, t := range e.tables {
			tb, ex := exp.CM[c-1].Root[t]
			if f := e.expectTable(ss, fmt.Sprintf("AS OF tag %s, table %s", n, t), "`"+t+"`", n, tb, ex); f != nil {
				return f
			}
			if f := e.expectTable(ss, fmt.Sprintf("revision database db/%s (tag), table %s", n, t), "`db/"+n+"`.`"+t+"`", "", tb, ex); f != nil {
				return f
			}
		}
	}
	return nil
}

func (e *engine) qancestor(ss *sqlh.Session, args, q map[string]any, exp *librepo.Proj) common.Result {
	n := common.Int(args["n"])
	c := common.Int(q["c"])
	spec := fmt.Sprintf("HEAD~%d", n)
	if c == 0 {
		_, _, err := librepo.Q(ss, fmt.Sprintf("select hashof('%s')", spec))
		e.r.Evals++
		if err == nil {
			return e.fail("QAncestor", spec+" does not exist in the model", "error", "resolved")
		}
		return nil
	}
	_, rows, err := librepo.Q(ss, fmt.Sprintf("select hashof('%s')", spec))
	e.r.Evals++
	if err != nil {
		return e.fail("QAncestor", "hashof("+spec+")", e.hash(c), err.Error())
	}
	if fmt.Sprint(rows[0][0]) != e.hash(c) {
		return e.fail("QAncestor", "hashof("+spec+")", fmt.Sprintf("c%d=%s", c, e.hash(c)), rows[0][0])
	}
	for _, t := range e.tables {
		tb, ex := exp.CM[c-1].Root[t]
		if f := e.expectTable(ss, fmt.Sprintf("AS OF %s (= c%d), table %s", spec, c, t), "`"+t+"`", spec, tb, ex); f != nil {
			return f
		}
	}
	e.stats["ancestor_reads"]++
	return nil
}

// qhistory: dolt_history_<t> of the session's branch = for every ancestor commit in which t exists, its rows
// (projected on the table's current columns).
func (e *engine) qhistory(ss *sqlh.Session, qv any, exp *librepo.Proj) common.Result {
	q := amap(qv)
	for _, t := range e.tables {
		tq, present := q[t].(map[string]any)
		cols, rows, err := librepo.Q(ss, "select * from `dolt_history_"+t+"`")
		e.r.Evals++
		if !present {
			if err != nil && strings.Contains(err.Error(), "not found") {
				continue
			}
			return e.fail("QHistory", "dolt_history_"+t+" for a table absent from the working set", "table not found", fmt.Sprint(len(rows), err))
		}
		if err != nil {
			return e.fail("QHistory", "dolt_history_"+t+" failed", nil, err.Error())
		}
		nc := common.Int(tq["nc"])
		byCommit := map[string][][]any{}
		ih := -1
		for i, c := range cols {
			if c == "commit_hash" {
				ih = i
			}
		}
		for _, r := range rows {
			byCommit[fmt.Sprint(r[ih])] = append(byCommit[fmt.Sprint(r[ih])], r)
		}
		hist := amap(tq["h"])
		// TLC renders the function over commit ids as an object keyed by the id, or as an array when the ids are 1..n
		expBy := map[int]any{}
		if a, ok := tq["h"].([]any); ok {
			for i, v := range a {
				expBy[i+1] = v
			}
		}
		for k, v := range hist {
			var id int
			fmt.Sscan(k, &id)
			expBy[id] = v
		}
		seen := 0
		for id, v := range expBy {
			h := e.hash(id)
			want := librepo.Table{NC: nc}
			for _, r := range v.([]any) {
				ra := r.([]any)
				row := [3]int{common.Int(ra[0]), common.Int(ra[1]), common.Int(ra[2])}
				if nc == 1 {
					row[2] = 0
				}
				want.Rows = append(want.Rows, row)
			}
			// the same through the commit_hash filter (pushed down into the commit iterator: another code path)
			fcols, frows, ferr := librepo.Q(ss, fmt.Sprintf("select * from `dolt_history_%s` where commit_hash = '%s'", t, h))
			if ferr != nil {
				return e.fail("QHistory", fmt.Sprintf("dolt_history_%s where commit_hash = c%d failed", t, id), want, ferr.Error())
			}
			fgot, ferr := e.historyTable(fcols, frows)
			if ferr != nil {
				return e.fail("QHistory", fmt.Sprintf("dolt_history_%s where commit_hash = c%d", t, id), want, ferr.Error())
			}
			fgot.NC = nc
			if d := librepo.CompareRoots("h", librepo.Root{"t": want}, librepo.Root{"t": fgot}); d != nil {
				return e.fail("QHistory", fmt.Sprintf("dolt_history_%s filtered by commit_hash, rows of commit c%d", t, id), want, fgot)
			}
			e.r.Evals++
			got, err := e.historyTable(cols, byCommit[h])
			if err != nil {
				return e.fail("QHistory", fmt.Sprintf("dolt_history_%s at c%d", t, id), want, err.Error())
			}
			got.NC = nc
			if d := librepo.CompareRoots("h", librepo.Root{"t": want}, librepo.Root{"t": got}); d != nil {
				return e.fail("QHistory", fmt.Sprintf("dolt_history_%s rows of commit c%d", t, id), want, got)
			}
			if len(byCommit[h]) > 0 {
				seen++
			}
			e.r.Evals++
		}
		// no rows for commits outside the model's history of this table
		for h, rs := range byCommit {
			found := false
			for id := range expBy {
				if e.r.Hash[id] == h {
					found = true
				}
			}
			if !found {
				nonFiller := 0
				for _, r := range rs {
					if pk, ok := r[0].(int64); !ok || pk < librepo.FillerBase {
						nonFiller++
					}
				}
				return e.fail("QHistory", "dolt_history_"+t+" has rows for a commit that is no ancestor holding the table", "none", fmt.Sprintf("%s: %d rows", h, len(rs)))
			}
		}
		e.stats["history_commits"] += len(expBy)
	}
	return nil
}

func (e *engine) historyTable(cols []string, rows [][]any) (librepo.Table, error) {
	t := librepo.Table{NC: 1}
	ipk, i1, i2 := -1, -1, -1
	for i, c := range cols {
		switch c {
		case "pk":
			ipk = i
		case "c1":
			i1 = i
		case "c2":
			i2 = i
		}
	}
	for _, r := range rows {
		if pk, ok := r[ipk].(int64); ok && pk >= librepo.FillerBase {
			continue
		}
		k, ok := e.r.Bd.Unkey(r[ipk])
		if !ok {
			return t, fmt.Errorf("history row with a key outside the binding: %v", r)
		}
		row := [3]int{k, e.r.Bd.Unval("c1", r[i1]), 0}
		if i2 >= 0 {
			row[2] = e.r.Bd.Unval("c2", r[i2])
		}
		t.Rows = append(t.Rows, row)
	}
	sort.Slice(t.Rows, func(i, j int) bool { return t.Rows[i][0] < t.Rows[j][0] })
	return t, nil
}

// ---------------------------------------------------------------------------------------------- script mode (exploration, hand-written repros)

func runScript(c map[string]any) common.Result {
	dir, _ := os.MkdirTemp(os.Getenv("VERIF_WORK"), "repo-script-")
	defer os.RemoveAll(dir)
	srv, err := sqlh.NewRepoServer(dir, "db")
	if err != nil {
		return common.Result{"ok": false, "fp": "setup", "detail": err.Error()}
	}
	defer srv.Close()
	sess := map[string]*sqlh.Session{}
	var out []any
	for _, qv := range c["stmts"].([]any) {
		line := qv.(string)
		i := strings.Index(line, ":")
		sn, q := strings.TrimSpace(line[:i]), strings.TrimSpace(line[i+1:])
		ss, ok := sess[sn]
		if !ok {
			if ss, err = srv.NewSession(sn); err != nil {
				return common.Result{"ok": false, "fp": "setup", "detail": err.Error()}
			}
			sess[sn] = ss
		}
		rows, err := ss.Query(q)
		es := ""
		if err != nil {
			es = err.Error()
		}
		out = append(out, map[string]any{"q": line, "rows": sqlh.RowsString(rows, false), "err": es})
	}
	return common.Result{"ok": true, "out": out}
}
