// Child process of the in-package engine "dirlock" (property C41): opens / reads / writes / closes a journaling
// NomsBlockStore on command (fd 3), answers on fd 4, and ends every command with a marker system call so that the
// parent can cut this process's strace log per command.  Uses only the exported API of nbs; it is a separate small
// binary because the in-package test binary needs ~2 s of CPU to start (test-only init code of package nbs).
package main

import (
	"bufio"
	"bytes"
	"context"
	"encoding/json"
	"errors"
	"fmt"
	"os"
	"strings"
	"syscall"

	"github.com/dolthub/dolt/go/store/chunks"
	"github.com/dolthub/dolt/go/store/constants"
	"github.com/dolthub/dolt/go/store/hash"
	"github.com/dolthub/dolt/go/store/nbs"
	"github.com/dolthub/dolt/go/zz_verif/libbp"
)

func main() {
	var dir string
	var b libbp.DlBinding
	in := bufio.NewReaderSize(os.NewFile(3, "cmd"), 1<<16)
	out := os.NewFile(4, "resp")
	send := func(r libbp.DlResp) {
		bs, _ := json.Marshal(r)
		out.Write(append(bs, '\n'))
	}
	send(libbp.DlResp{Pid: os.Getpid(), Res: "hello"})
	ctx := context.Background()
	var st *nbs.NomsBlockStore
	var warns []string
	mode := func() string {
		if st == nil {
			return "closed"
		}
		if st.AccessMode() == chunks.ExclusiveAccessMode_Exclusive {
			return "rw"
		}
		return "ro"
	}
	takeWarn := func(r *libbp.DlResp) {
		for _, w := range warns {
			if strings.Contains(w, "chunk journal index") {
				r.Warn = true
			}
		}
		r.Warns = strings.Join(warns, " | ")
		if len(r.Warns) > 600 {
			r.Warns = r.Warns[:600]
		}
		warns = nil
	}
	isReadOnlyErr := func(err error) bool {
		return err != nil && strings.Contains(err.Error(), "database is read only")
	}
	for {
		line, err := in.ReadBytes('\n')
		if err != nil {
			return
		}
		var c libbp.DlCmd
		if err := json.Unmarshal(line, &c); err != nil {
			send(libbp.DlResp{Res: "badcmd", Err: err.Error()})
			continue
		}
		r := func() (r libbp.DlResp) {
			defer func() {
				if p := recover(); p != nil {
					r = libbp.DlResp{Res: "panic", Err: fmt.Sprint(p), Mode: mode()}
				}
			}()
			switch c.Op {
			case "open":
				dir, b = c.Dir, *c.B
				warns = nil
				opts := nbs.JournalingStoreOptions{}
				switch c.Opt {
				case "skip":
					opts.SkipLockFileTimeout = true
				case "failfast":
					opts.FailOnLockTimeout = true
				case "skipfailfast":
					opts.SkipLockFileTimeout, opts.FailOnLockTimeout = true, true
				}
				s, err := nbs.NewLocalJournalingStoreWithOptions(ctx, constants.FormatDoltString, dir, nbs.NewUnlimitedMemQuotaProvider(), false,
					func(e error) { warns = append(warns, e.Error()) }, opts)
				if err != nil {
					if errors.Is(err, nbs.ErrDatabaseLocked) {
						return libbp.DlResp{Res: "locked", Mode: "closed"}
					}
					return libbp.DlResp{Res: "error", Err: err.Error(), Mode: "closed"}
				}
				st = s
				return libbp.DlResp{Res: mode(), Mode: mode()}
			case "read":
				r := libbp.DlResp{Res: "ok"}
				if err := st.Rebase(ctx); err != nil {
					r.Res, r.Err = "error", "rebase: "+err.Error()
				}
				root, err := st.Root(ctx)
				if err != nil {
					r.Res, r.Err = "error", "root: "+err.Error()
				}
				r.Root = root.String()
				hs := hash.HashSet{}
				for i := 1; i <= libbp.DlMaxChunks; i++ {
					c := libbp.DlChunk(b, i)
					hs.Insert(c.Hash())
					has, err := st.Has(ctx, c.Hash())
					if err != nil {
						r.Res, r.Err = "error", "has: "+err.Error()
					}
					got, err := st.Get(ctx, c.Hash())
					if err != nil {
						r.Res, r.Err = "error", "get: "+err.Error()
					}
					if has != !got.IsEmpty() {
						r.Bad = fmt.Sprintf("Has(c%d)=%v but Get empty=%v", i, has, got.IsEmpty())
					}
					if has {
						r.Vis = append(r.Vis, i)
						if !bytes.Equal(got.Data(), c.Data()) {
							r.Bad = fmt.Sprintf("Get(c%d) returned different bytes", i)
						}
					}
				}
				absent, err := st.HasMany(ctx, hs)
				if err != nil {
					r.Res, r.Err = "error", "hasmany: "+err.Error()
				} else if len(absent) != len(hs)-len(r.Vis) {
					r.Bad = fmt.Sprintf("HasMany reports %d absent, Has reports %d present of %d", len(absent), len(r.Vis), len(hs))
				}
				r.Mode = mode()
				takeWarn(&r)
				return r
			case "write":
				r := libbp.DlResp{Res: "ok"}
				last, err := st.Root(ctx)
				if err != nil {
					r.Res, r.Err = "error", "root: "+err.Error()
					r.Mode = mode()
					takeWarn(&r)
					return r
				}
				ck := libbp.DlChunk(b, c.I)
				if c.I == 0 {
					ck = libbp.DlChunk(b, libbp.DlMaxChunks+1) // a read-only process tries to write something new
				}
				if err := st.Put(ctx, ck, libbp.DlNoAddrs); err != nil {
					r.Res, r.Err = "puterror", err.Error()
					if isReadOnlyErr(err) {
						r.Res = "readonly"
					}
				}
				if c.I == 1 && r.Res == "ok" {
					for k := 0; k < b.Filler; k++ {
						if err := st.Put(ctx, libbp.DlFiller(b, k), libbp.DlNoAddrs); err != nil {
							r.Res, r.Err = "puterror", err.Error()
							break
						}
					}
				}
				if r.Res == "ok" {
					ok, err := st.Commit(ctx, ck.Hash(), last)
					if err != nil {
						if isReadOnlyErr(err) {
							r.Res = "readonly"
						} else {
							r.Res, r.Err = "error", err.Error()
						}
					} else if !ok {
						r.Res = "commit-false"
					}
				}
				root, _ := st.Root(ctx)
				r.Root = root.String()
				r.Mode = mode()
				takeWarn(&r)
				return r
			case "close":
				err := st.Close()
				st = nil
				if err != nil {
					return libbp.DlResp{Res: "error", Err: err.Error(), Mode: "closed"}
				}
				return libbp.DlResp{Res: "ok", Mode: "closed"}
			}
			return libbp.DlResp{Res: "badcmd"}
		}()
		// marker: a traced system call that names the command just finished
		syscall.Open("/verif-marker/"+c.Tag, syscall.O_RDONLY, 0)
		send(r)
	}
}
