// Engine E4 (blobstore): drives blobstore.InMemoryBlobstore, LocalBlobstore and GitBlobstore (and nbs.NewBSStore on them)
// for C42.  Modes:
//   ranges  - R: every (size, offset, length) case enumerated by TLC from spec/Blobstore.tla, at a byte unit, plus Concatenate
//   race    - T: concurrent read-version / CheckAndPutManifest clients (goroutines; OS processes for the local blobstore);
//             the call/return log is returned for validation by spec/TraceBlobstore.tla
//   racechild - one client process of a multi-process race (internal)
//   smoke   - nbs.NewBSStore on the backend: chunks, commit, reopen
package main

import (
	"bytes"
	"context"
	"encoding/json"
	"fmt"
	"io"
	"math/rand"
	"os"
	"os/exec"
	"path/filepath"
	"sort"
	"strconv"
	"strings"
	"sync"
	"time"

	"github.com/dolthub/dolt/go/store/blobstore"
	"github.com/dolthub/dolt/go/store/chunks"
	"github.com/dolthub/dolt/go/store/constants"
	"github.com/dolthub/dolt/go/store/hash"
	"github.com/dolthub/dolt/go/store/nbs"
	"github.com/dolthub/dolt/go/zz_verif/common"
)

var ctx = context.Background()

func main() {
	mode := "ranges"
	if len(os.Args) > 1 {
		mode = os.Args[1]
	}
	switch mode {
	case "ranges":
		common.Run(runRanges)
	case "race":
		common.Run(runRace)
	case "racechild":
		raceChild()
	case "smoke":
		common.Run(runSmoke)
	default:
		fmt.Println("unknown mode", mode)
		os.Exit(3)
	}
}

func must(err error) {
	if err != nil {
		panic(err)
	}
}

var dirSeq int

func workDir(prefix string) string {
	dirSeq++
	d := filepath.Join(os.Getenv("VERIF_WORK"), fmt.Sprintf("%s-%d-%d", prefix, os.Getpid(), dirSeq))
	must(os.MkdirAll(d, 0o755))
	return d
}

// ---------------------------------------------------------------------------------------------- backends
type backend struct {
	kind   string
	dir    string
	remote string // git: bare remote
	opts   blobstore.GitBlobstoreOptions
	inmem  *blobstore.InMemoryBlobstore
	nclone int
}

func git(dir string, args ...string) {
	cmd := exec.Command("git", args...)
	cmd.Dir = dir
	cmd.Env = append(os.Environ(), "GIT_CONFIG_NOSYSTEM=1", "GIT_TERMINAL_PROMPT=0")
	if out, err := cmd.CombinedOutput(); err != nil {
		panic(fmt.Sprintf("git %v: %v\n%s", args, err, out))
	}
}

func init() {
	// identity and isolation for the git child processes GitBlobstore starts
	os.Setenv("GIT_AUTHOR_NAME", "verif")
	os.Setenv("GIT_AUTHOR_EMAIL", "verif@example.invalid")
	os.Setenv("GIT_COMMITTER_NAME", "verif")
	os.Setenv("GIT_COMMITTER_EMAIL", "verif@example.invalid")
	os.Setenv("GIT_CONFIG_NOSYSTEM", "1")
	os.Setenv("GIT_TERMINAL_PROMPT", "0")
	if os.Getenv("VERIF_WORK") != "" {
		os.Setenv("HOME", os.Getenv("VERIF_WORK"))
	}
}

func newBackend(kind string) *backend {
	b := &backend{kind: kind}
	switch kind {
	case "inmem":
		b.inmem = blobstore.NewInMemoryBlobstore("verif")
	case "local":
		b.dir = workDir("bs-local")
	case "git", "gitchunked":
		b.dir = workDir("bs-git")
		b.remote = filepath.Join(b.dir, "remote.git")
		git(b.dir, "init", "--bare", "-q", b.remote)
		b.opts = blobstore.GitBlobstoreOptions{SyncForReadTTL: time.Nanosecond}
		if kind == "gitchunked" {
			b.opts.MaxPartSize = 5000
		}
	default:
		panic("unknown backend " + kind)
	}
	return b
}

// open returns a blobstore object on the backend's storage. fresh = a new object (local: same directory; git: a new
// clone directory with the same remote); inmem always returns the one object.
func (b *backend) open(fresh bool) blobstore.Blobstore {
	switch b.kind {
	case "inmem":
		return b.inmem
	case "local":
		return blobstore.NewLocalBlobstore(b.dir)
	default:
		if fresh || b.nclone == 0 {
			b.nclone++
			d := filepath.Join(b.dir, fmt.Sprintf("local%d.git", b.nclone))
			git(b.dir, "init", "--bare", "-q", d)
			git(d, "remote", "add", "origin", b.remote)
		}
		d := filepath.Join(b.dir, fmt.Sprintf("local%d.git", b.nclone))
		bs, err := blobstore.NewGitBlobstoreWithOptions(d, blobstore.DoltDataRef, b.opts)
		must(err)
		return bs
	}
}

func (b *backend) cleanup() {
	if b.dir != "" {
		os.RemoveAll(b.dir)
	}
}

// ---------------------------------------------------------------------------------------------- ranges
func pattern(seed int64, key string, n int) []byte {
	h := int64(0)
	for _, c := range key {
		h = h*131 + int64(c)
	}
	rng := rand.New(rand.NewSource(seed*1000003 + h))
	d := make([]byte, n)
	rng.Read(d)
	return d
}

type getOutcome struct {
	data  []byte
	size  uint64
	err   error
	panic any
}

func safeGet(bs blobstore.Blobstore, key string, off, length int64) (o getOutcome) {
	defer func() {
		if p := recover(); p != nil {
			o.panic = p
		}
	}()
	rc, sz, _, err := bs.Get(ctx, key, blobstore.NewBlobRange(off, length))
	o.size = sz
	if err != nil {
		o.err = err
		return
	}
	defer rc.Close()
	o.data, o.err = io.ReadAll(rc)
	return
}

// case: {"backend", "unit", "seed", "ranges": [{size, off, len, lo, hi}], "concats": [{srcs:[n1,n2,n3], size}]}
func runRanges(c map[string]any) common.Result {
	b := newBackend(c["backend"].(string))
	defer b.cleanup()
	unit := int64(common.Int(c["unit"]))
	seed := int64(common.Int(c["seed"]))
	bs := b.open(false)
	evals := 0
	undefined := map[string]int{}
	bySize := map[int][]map[string]any{}
	for _, rv := range c["ranges"].([]any) {
		r := rv.(map[string]any)
		bySize[common.Int(r["size"])] = append(bySize[common.Int(r["size"])], r)
	}
	sizes := []int{}
	for s := range bySize {
		sizes = append(sizes, s)
	}
	sort.Ints(sizes)
	datas := map[string][]byte{}
	for _, s := range sizes {
		key := fmt.Sprintf("blob%d", s)
		d := pattern(seed, key, s*int(unit))
		datas[key] = d
		if _, err := blobstore.PutBytes(ctx, bs, key, d); err != nil {
			return common.Fail(0, "Put", "error", key, err.Error())
		}
	}
	checkRanges := func(step int, store blobstore.Blobstore, key string, d []byte, rs []map[string]any, how string) *common.Result {
		for _, r := range rs {
			off, ln := int64(common.Int(r["off"]))*unit, int64(common.Int(r["len"]))*unit
			lo, hi := int64(common.Int(r["lo"]))*unit, int64(common.Int(r["hi"]))*unit
			o := safeGet(store, key, off, ln)
			if common.Int(r["lo"]) < 0 {
				// outside the documented domain of BlobRange: record what the backend does, no verdict
				switch {
				case o.panic != nil:
					undefined["panic"]++
				case o.err != nil:
					undefined["error"]++
				case len(o.data) == 0:
					undefined["empty"]++
				default:
					undefined["data"]++
				}
				continue
			}
			evals++
			what := map[string]any{"backend": b.kind, "how": how, "key": key, "size": len(d), "offset": off, "length": ln, "want": [2]int64{lo, hi}}
			if o.panic != nil {
				f := common.Fail(step, "Get", "panic on a defined range", what, fmt.Sprint(o.panic))
				return &f
			}
			if o.err != nil {
				f := common.Fail(step, "Get", "error on a defined range", what, o.err.Error())
				return &f
			}
			if !bytes.Equal(o.data, d[lo:hi]) {
				f := common.Fail(step, "Get", "range is not the documented slice", what, fmt.Sprintf("%d bytes, first differing at %d", len(o.data), firstDiff(o.data, d[lo:hi])))
				return &f
			}
			if o.size != uint64(len(d)) {
				f := common.Fail(step, "Get", "reported blob size", what, o.size)
				return &f
			}
		}
		return nil
	}
	for _, s := range sizes {
		key := fmt.Sprintf("blob%d", s)
		if f := checkRanges(s, bs, key, datas[key], bySize[s], "same object"); f != nil {
			return *f
		}
	}
	// Concatenate: sources of n1, n2, n3 units; expected contents = the sources in order (TLC gives the size)
	nconc := 0
	if cv, ok := c["concats"]; ok && cv != nil {
		for ci, v := range cv.([]any) {
			cc := v.(map[string]any)
			ns := common.Ints(cc["srcs"])
			var srcs []string
			var want []byte
			for j, n := range ns {
				k := fmt.Sprintf("src%d_%d", ci, j)
				d := pattern(seed, k, n*int(unit))
				if _, err := blobstore.PutBytes(ctx, bs, k, d); err != nil {
					return common.Fail(ci, "Put", "error", k, err.Error())
				}
				srcs = append(srcs, k)
				want = append(want, d...)
			}
			key := fmt.Sprintf("cat%d", ci)
			if _, err := bs.Concatenate(ctx, key, srcs); err != nil {
				return common.Fail(ci, "Concatenate", "error", srcs, err.Error())
			}
			evals++
			if len(want) != common.Int(cc["size"])*int(unit) {
				return common.Result{"ok": false, "fp": "harness", "detail": "size bookkeeping"}
			}
			got, _, err := blobstore.GetBytes(ctx, bs, key, blobstore.AllRange)
			if err != nil || !bytes.Equal(got, want) {
				return common.Fail(ci, "Concatenate", "contents are not the concatenation of the sources", map[string]any{"backend": b.kind, "srcs": ns, "unit": unit}, fmt.Sprintf("%d bytes, err %v, first differing at %d", len(got), err, firstDiff(got, want)))
			}
			datas[key] = want
			if rs, ok := bySize[common.Int(cc["size"])]; ok {
				if f := checkRanges(ci, bs, key, want, rs, "concatenated"); f != nil {
					return *f
				}
			}
			nconc++
		}
	}
	// a second object on the same storage (local: same directory; git: flush through the manifest write, other clone)
	if b.kind != "inmem" {
		if strings.HasPrefix(b.kind, "git") {
			if _, err := bs.CheckAndPutManifest(ctx, "", []byte("verif: not a manifest, flushes every pending write")); err != nil {
				return common.Fail(0, "CheckAndPutManifest", "flush failed", nil, err.Error())
			}
		}
		other := b.open(true)
		for _, s := range sizes {
			key := fmt.Sprintf("blob%d", s)
			if f := checkRanges(s, other, key, datas[key], bySize[s], "second object"); f != nil {
				return *f
			}
		}
		for key, d := range datas {
			if strings.HasPrefix(key, "cat") {
				got, _, err := blobstore.GetBytes(ctx, other, key, blobstore.AllRange)
				evals++
				if err != nil || !bytes.Equal(got, d) {
					return common.Fail(0, "Concatenate", "second object reads other contents", key, fmt.Sprintf("%d bytes, err %v", len(got), err))
				}
			}
		}
	}
	return common.Result{"ok": true, "evals": evals, "undefined": undefined, "concats": nconc}
}

func firstDiff(a, b []byte) int {
	for i := 0; i < len(a) && i < len(b); i++ {
		if a[i] != b[i] {
			return i
		}
	}
	if len(a) != len(b) {
		if len(a) < len(b) {
			return len(a)
		}
		return len(b)
	}
	return -1
}

// ---------------------------------------------------------------------------------------------- race
type event struct {
	Ev     string `json:"ev"`
	P      string `json:"p,omitempty"`
	Op     string `json:"op,omitempty"`
	Exp    string `json:"exp,omitempty"`    // raw version
	Con    string `json:"con,omitempty"`    // raw contents
	Ok     int    `json:"ok"`               // ret of cas: 1 / 0 ; 2 = unexpected error
	Ver    string `json:"ver,omitempty"`    // ret of read / successful cas
	Actual string `json:"actual,omitempty"` // ret of failed cas
	Err    string `json:"err,omitempty"`
}

type logger interface{ log(e event) }

type memLog struct {
	mu sync.Mutex
	ev []event
}

func (m *memLog) log(e event) { m.mu.Lock(); m.ev = append(m.ev, e); m.mu.Unlock() }

type fileLog struct{ f *os.File }

func (l *fileLog) log(e event) {
	b, _ := json.Marshal(e)
	b = append(b, '\n')
	if _, err := l.f.Write(b); err != nil { // O_APPEND: one write per line, atomic
		panic(err)
	}
}

// client: rounds x ( read ; cas(version read, or a stale one) )
func client(bs blobstore.Blobstore, p string, rounds int, seed int64, lg logger) {
	rng := rand.New(rand.NewSource(seed))
	var old []string
	for i := 0; i < rounds; i++ {
		lg.log(event{Ev: "call", P: p, Op: "read"})
		data, ver, err := blobstore.GetBytes(ctx, bs, blobstore.ManifestKey, blobstore.AllRange)
		switch {
		case err == nil:
			lg.log(event{Ev: "ret", P: p, Op: "read", Ver: ver, Con: string(data)})
		case blobstore.IsNotFoundError(err):
			ver = ""
			lg.log(event{Ev: "ret", P: p, Op: "read", Ver: "", Con: ""})
		default:
			lg.log(event{Ev: "ret", P: p, Op: "read", Ok: 2, Err: err.Error()})
			return
		}
		exp := ver
		if len(old) > 0 && rng.Intn(5) == 0 {
			exp = old[rng.Intn(len(old))] // a deliberately stale expectation
		}
		old = append(old, ver)
		con := fmt.Sprintf("manifest-%s-%d-%d", p, seed, i)
		lg.log(event{Ev: "call", P: p, Op: "cas", Exp: exp, Con: con})
		nv, err := bs.CheckAndPutManifest(ctx, exp, []byte(con))
		switch {
		case err == nil:
			lg.log(event{Ev: "ret", P: p, Op: "cas", Ok: 1, Ver: nv})
		case blobstore.IsCheckAndPutError(err):
			lg.log(event{Ev: "ret", P: p, Op: "cas", Ok: 0, Actual: err.(blobstore.CheckAndPutError).ActualVersion})
		default:
			lg.log(event{Ev: "ret", P: p, Op: "cas", Ok: 2, Err: err.Error()})
			return
		}
		if rng.Intn(3) == 0 {
			time.Sleep(time.Duration(rng.Intn(3)) * time.Millisecond)
		}
	}
}

// case: {"backend", "clients": n, "rounds": r, "seed", "share": bool (goroutines share one object), "procs": bool}
func runRace(c map[string]any) common.Result {
	b := newBackend(c["backend"].(string))
	defer b.cleanup()
	n, rounds, seed := common.Int(c["clients"]), common.Int(c["rounds"]), int64(common.Int(c["seed"]))
	share, _ := c["share"].(bool)
	procs, _ := c["procs"].(bool)
	var evs []event
	if procs {
		if b.kind != "local" {
			return common.Result{"ok": false, "fp": "harness", "detail": "processes only for the local blobstore"}
		}
		logPath := filepath.Join(b.dir, "race.log")
		f, err := os.OpenFile(logPath, os.O_CREATE|os.O_WRONLY|os.O_APPEND, 0o644)
		must(err)
		f.Close()
		store := filepath.Join(b.dir, "store")
		must(os.MkdirAll(store, 0o755))
		var cmds []*exec.Cmd
		for i := 0; i < n; i++ {
			cmd := exec.Command(os.Args[0], "racechild", store, logPath, fmt.Sprintf("p%d", i+1), strconv.Itoa(rounds), strconv.FormatInt(seed*100+int64(i), 10))
			cmd.Stderr = os.Stderr
			must(cmd.Start())
			cmds = append(cmds, cmd)
		}
		for _, cmd := range cmds {
			if err := cmd.Wait(); err != nil {
				return common.Result{"ok": true, "unusable": "child failed: " + err.Error()}
			}
		}
		raw, err := os.ReadFile(logPath)
		must(err)
		for _, line := range bytes.Split(raw, []byte("\n")) {
			if len(line) == 0 {
				continue
			}
			var e event
			must(json.Unmarshal(line, &e))
			evs = append(evs, e)
		}
	} else {
		lg := &memLog{}
		var wg sync.WaitGroup
		var shared blobstore.Blobstore
		if share {
			shared = b.open(false)
		}
		stores := make([]blobstore.Blobstore, n)
		for i := 0; i < n; i++ {
			if share {
				stores[i] = shared
			} else {
				stores[i] = b.open(true)
			}
		}
		for i := 0; i < n; i++ {
			wg.Add(1)
			go func(i int) {
				defer wg.Done()
				client(stores[i], fmt.Sprintf("p%d", i+1), rounds, seed*100+int64(i), lg)
			}(i)
		}
		wg.Wait()
		evs = lg.ev
	}
	return internTrace(evs)
}

func raceChild() {
	store, logPath, p := os.Args[2], os.Args[3], os.Args[4]
	rounds, _ := strconv.Atoi(os.Args[5])
	seed, _ := strconv.ParseInt(os.Args[6], 10, 64)
	f, err := os.OpenFile(logPath, os.O_WRONLY|os.O_APPEND, 0o644)
	must(err)
	defer f.Close()
	client(blobstore.NewLocalBlobstore(store), p, rounds, seed, &fileLog{f})
}

// internTrace turns raw versions / contents into small integers (first-seen order; 0 = absent) and copies the fields of
// every "ret" line into its "call" line as res.
func internTrace(evs []event) common.Result {
	vers := map[string]int{"": 0}
	cons := map[string]int{"": 0}
	iv := func(s string) int {
		if _, ok := vers[s]; !ok {
			vers[s] = len(vers)
		}
		return vers[s]
	}
	ic := func(s string) int {
		if _, ok := cons[s]; !ok {
			cons[s] = len(cons)
		}
		return cons[s]
	}
	var out []map[string]any
	open := map[string]int{}
	wins, fails, stale := 0, 0, 0
	for _, e := range evs {
		if e.Ok == 2 {
			return common.Result{"ok": true, "unusable": "unexpected error from the blobstore: " + e.Err}
		}
		switch {
		case e.Ev == "call" && e.Op == "read":
			open[e.P] = len(out)
			out = append(out, map[string]any{"ev": "call", "p": e.P, "op": "read"})
		case e.Ev == "call" && e.Op == "cas":
			open[e.P] = len(out)
			out = append(out, map[string]any{"ev": "call", "p": e.P, "op": "cas", "exp": iv(e.Exp), "con": ic(e.Con)})
		case e.Ev == "ret" && e.Op == "read":
			res := map[string]any{"ver": iv(e.Ver), "con": ic(e.Con)}
			out[open[e.P]]["res"] = res
			out = append(out, map[string]any{"ev": "ret", "p": e.P})
		case e.Ev == "ret" && e.Op == "cas":
			var res map[string]any
			if e.Ok == 1 {
				res = map[string]any{"ok": 1, "ver": iv(e.Ver), "actual": 0}
				wins++
			} else {
				res = map[string]any{"ok": 0, "ver": 0, "actual": iv(e.Actual)}
				fails++
			}
			out[open[e.P]]["res"] = res
			out = append(out, map[string]any{"ev": "ret", "p": e.P})
		}
	}
	_ = stale
	return common.Result{"ok": true, "trace": out, "wins": wins, "fails": fails, "versions": len(vers) - 1}
}

// ---------------------------------------------------------------------------------------------- smoke: nbs on a blobstore
func runSmoke(c map[string]any) common.Result {
	b := newBackend(c["backend"].(string))
	defer b.cleanup()
	seed := int64(common.Int(c["seed"]))
	rng := rand.New(rand.NewSource(seed))
	q := nbs.NewUnlimitedMemQuotaProvider()
	noAddrs := func(chunks.Chunk) chunks.InsertAddrsCb {
		return func(ctx context.Context, addrs hash.HashSet, _ chunks.PendingRefExists) error { return nil }
	}
	st, err := nbs.NewBSStore(ctx, constants.FormatDefaultString, b.open(false), 1<<12, q)
	if err != nil {
		return common.Fail(0, "NewBSStore", "error", nil, err.Error())
	}
	var cs []chunks.Chunk
	root := hash.Hash{}
	evals := 0
	for round := 0; round < 3; round++ {
		for i := 0; i < 20; i++ {
			d := make([]byte, 10+rng.Intn(3000))
			rng.Read(d)
			ch := chunks.NewChunk(d)
			cs = append(cs, ch)
			if err := st.Put(ctx, ch, noAddrs); err != nil {
				return common.Fail(round, "Put", "error", nil, err.Error())
			}
		}
		nr := cs[len(cs)-1].Hash()
		ok, err := st.Commit(ctx, nr, root)
		if err != nil || !ok {
			return common.Fail(round, "Commit", "commit against the current root failed", nil, fmt.Sprint(ok, err))
		}
		// a commit against a stale root must fail and change nothing
		if round > 0 {
			ok, err := st.Commit(ctx, cs[0].Hash(), hash.Hash{})
			evals++
			if err != nil || ok {
				return common.Fail(round, "Commit", "commit against a stale root succeeded", nil, fmt.Sprint(ok, err))
			}
		}
		root = nr
		// reopen on a fresh object and read everything back
		st2, err := nbs.NewBSStore(ctx, constants.FormatDefaultString, b.open(b.kind != "inmem"), 1<<12, q)
		if err != nil {
			return common.Fail(round, "NewBSStore", "reopen failed", nil, err.Error())
		}
		r2, err := st2.Root(ctx)
		evals++
		if err != nil || r2 != root {
			return common.Fail(round, "Root", "reopened store has another root", root.String(), fmt.Sprint(r2, err))
		}
		for _, ch := range cs {
			got, err := st2.Get(ctx, ch.Hash())
			evals++
			if err != nil || !bytes.Equal(got.Data(), ch.Data()) {
				return common.Fail(round, "Get", "chunk differs after reopen", ch.Hash().String(), fmt.Sprint(len(got.Data()), err))
			}
		}
		st2.Close()
	}
	st.Close()
	return common.Result{"ok": true, "evals": evals}
}
