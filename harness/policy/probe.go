package main

import (
	"github.com/dolthub/go-mysql-server/sql"

	"github.com/dolthub/dolt/go/libraries/doltcore/branch_control"
	"github.com/dolthub/dolt/go/zz_verif/common"
)

// probe mode: concrete strings, no binding, no expectation. Used for the minimal reproductions quoted in LEADS.md:
// {"ops": [["acc", db, br, us, ho, perm] | ["accdel", db, br, us, ho] | ["ns", db, br, us, ho]], "match": [[db,br,us,ho]...], "cancreate": [[...]]}
func runProbe(c map[string]any) common.Result {
	t := newTables(false)
	for _, ov := range c["ops"].([]any) {
		o := ov.([]any)
		s := func(i int) string { return o[i].(string) }
		switch s(0) {
		case "acc":
			t.ctl.Access.Insert(s(1), s(2), s(3), s(4), branch_control.Permissions(common.Int(o[5])))
		case "accdel":
			t.ctl.Access.Delete(s(1), s(2), s(3), s(4))
		case "ns":
			must(t.nst.Insert(t.sctx, sql.Row{s(1), s(2), s(3), s(4)}))
		}
	}
	var m, cc []any
	if v, ok := c["match"]; ok {
		for _, qv := range v.([]any) {
			q := qv.([]any)
			m = append(m, t.match(q[0].(string), q[1].(string), q[2].(string), q[3].(string)))
		}
	}
	if v, ok := c["cancreate"]; ok {
		for _, qv := range v.([]any) {
			q := qv.([]any)
			cc = append(cc, t.ctl.Namespace.CanCreate(q[0].(string), q[1].(string), q[2].(string), q[3].(string)))
		}
	}
	return common.Result{"ok": true, "match": m, "cancreate": cc, "trie": t.ctl.Access.Root.String('z')}
}
