package main

import (
	"fmt"
	"sort"
	"strings"

	"github.com/dolthub/dolt/go/libraries/doltcore/doltdb"
	"github.com/dolthub/dolt/go/zz_verif/common"
)

// binding of the pattern-spec symbols: letters map to concrete letters chosen by the check (per case), wildcards to
// themselves.
func ignBind(c map[string]any) map[string]string {
	b := map[string]string{"*": "*", "?": "?", "%": "%"}
	for k, v := range c["binding"].(map[string]any) {
		b[k] = v.(string)
	}
	return b
}

func ignStr(b map[string]string, v any) string {
	var sb strings.Builder
	for _, x := range v.([]any) {
		s, ok := b[x.(string)]
		if !ok {
			panic("unbound symbol " + x.(string))
		}
		sb.WriteString(s)
	}
	return sb.String()
}

func ignCode(r doltdb.IgnoreResult) int {
	switch r {
	case doltdb.Ignore:
		return 0
	case doltdb.DontIgnore:
		return 1
	case doltdb.IgnorePatternConflict:
		return 2
	}
	return 3
}

func sortedStrs(b map[string]string, v any) []string {
	out := []string{}
	if v != nil {
		for _, p := range v.([]any) {
			out = append(out, ignStr(b, p))
		}
	}
	sort.Strings(out)
	return out
}

// case kinds:
//   pats:   {"names": [...], "rows": [{p, m:[0/1 per name]}]}            MatchTablePattern against Match
//   states: {"names": [...], "states": [{ps: [[pattern, ign]...], v: [{res, alg, dev, conf} per name]}]}
//   steps:  {"names": [...], "steps": [{a, args, exp: {ps, v}}]}          a dolt_ignore table edited row by row
func runIgnore(c map[string]any) common.Result {
	b := ignBind(c)
	var names []string
	for _, n := range c["names"].([]any) {
		names = append(names, ignStr(b, n))
	}
	evals := 0
	devs := map[string]int{}
	notes := map[string]int{}
	nontriv := 0
	var soft []common.Result
	if rows, ok := c["rows"]; ok {
		for ri, rv := range rows.([]any) {
			row := rv.(map[string]any)
			pat := ignStr(b, row["p"])
			exp := common.Ints(row["m"])
			for i, n := range names {
				got, err := doltdb.MatchTablePattern(pat, n)
				evals++
				if err != nil {
					return common.Fail(ri, "MatchTablePattern", "error", map[string]any{"pattern": pat, "name": n}, err.Error())
				}
				if got != (exp[i] == 1) {
					return common.Fail(ri, "MatchTablePattern", "differs from Match", map[string]any{"pattern": pat, "name": n, "match": exp[i]}, got)
				}
			}
		}
		return common.Result{"ok": true, "evals": evals}
	}
	check := func(step int, action string, st map[string]any, order int) *common.Result {
		var ip doltdb.IgnorePatterns
		for _, pv := range st["ps"].([]any) {
			p := pv.([]any)
			ip = append(ip, doltdb.NewIgnorePattern(ignStr(b, p[0]), p[1].(bool)))
		}
		// the table is a map; the slice order the code sees is the primary-key order, but no order may matter
		switch order {
		case 0:
			sort.Slice(ip, func(i, j int) bool { return ip[i].Pattern < ip[j].Pattern })
		case 1:
			sort.Slice(ip, func(i, j int) bool { return ip[i].Pattern > ip[j].Pattern })
		}
		vs := st["v"].([]any)
		for i, n := range names {
			v := vs[i].(map[string]any)
			res, err := ip.IsTableNameIgnored(doltdb.TableName{Name: n})
			got := ignCode(res)
			evals++
			want := common.Int(v["res"])
			if want != common.Int(v["alg"]) || want == 2 {
				nontriv++
			}
			// the error value must accompany exactly the Conflict result
			conflictErr := doltdb.AsDoltIgnoreInConflict(err)
			if (got == 2) != (conflictErr != nil) || (got != 2 && err != nil) {
				r := common.Fail(step, action, "result and error disagree", map[string]any{"patterns": ip, "name": n}, fmt.Sprintf("%d / %v", got, err))
				return &r
			}
			if got != want {
				dev := v["dev"].(string)
				f := common.Fail(step, "IsTableNameIgnored", dev, map[string]any{"patterns": ip, "name": n, "result": want, "code_algorithm": v["alg"]}, got)
				if dev != "none" && got == common.Int(v["alg"]) {
					devs[dev]++
					if len(soft) < 6 {
						soft = append(soft, f)
					}
					continue
				}
				f = common.Fail(step, action, "IsTableNameIgnored differs from the documented rule", map[string]any{"patterns": ip, "name": n, "result": want, "code_algorithm": v["alg"]}, got)
				return &f
			}
			if got == 2 && conflictErr != nil {
				if cf, ok := v["conf"].(map[string]any); ok {
					wt, wf := sortedStrs(b, cf["t"]), sortedStrs(b, cf["f"])
					gt := append([]string{}, conflictErr.TruePatterns...)
					gf := append([]string{}, conflictErr.FalsePatterns...)
					sort.Strings(gt)
					sort.Strings(gf)
					if strings.Join(wt, ",") != strings.Join(gt, ",") || strings.Join(wf, ",") != strings.Join(gf, ",") {
						notes["conflict-report-lists-other-patterns"]++
					}
				}
			}
		}
		return nil
	}
	if sts, ok := c["states"]; ok {
		for si, sv := range sts.([]any) {
			if f := check(si, "State", sv.(map[string]any), si%3); f != nil {
				return *f
			}
		}
	}
	if steps, ok := c["steps"]; ok {
		for si, sv := range steps.([]any) {
			s := sv.(map[string]any)
			if f := check(si, s["a"].(string), s["exp"].(map[string]any), si%3); f != nil {
				return *f
			}
		}
	}
	res := common.Result{"ok": true, "evals": evals, "devs": devs, "notes": notes, "nontrivial": nontriv}
	if len(soft) > 0 {
		res["soft"] = soft
	}
	return res
}
