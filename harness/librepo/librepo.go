// Package librepo: reusable projection of a real dolt repository onto the state of /verif/spec/Repo.tla, plus the
// binding of model values (keys, cell values, commit ids, sessions) to concrete ones. Shared by the repository-level
// engines (E9 "repo" for C31-C34; later C08 C09 C25 C35 C37 C43 C46 C47).
//
// Nothing here computes an expectation: Project() reads the real repository (SQL on revision databases, system
// tables, and the doltdb working-set API for the operation in progress), Compare() compares it field by field with
// the projection TLC shipped in the behaviour step.
package librepo

import (
	"context"
	"encoding/json"
	"fmt"
	"io"
	"os"
	"sort"
	"strings"

	"github.com/dolthub/go-mysql-server/sql"

	"github.com/dolthub/dolt/go/libraries/doltcore/doltdb"
	"github.com/dolthub/dolt/go/libraries/doltcore/ref"
	"github.com/dolthub/dolt/go/zz_verif/common"
	"github.com/dolthub/dolt/go/zz_verif/sqlh"
)

const FillerBase = 100000 // filler rows have pk >= FillerBase; model keys are bound below it

// ---------------------------------------------------------------------------------------------- binding

// Binding maps model values to concrete ones. It is mechanical: keys -> ints, cell value v>0 -> palette[v-1], 0 -> NULL.
type Binding struct {
	Keys   map[int]int64     // model key -> concrete pk
	RKeys  map[int64]int     // reverse
	Types  map[string]string // column -> "int" | "varchar" | "bigint"
	Pal    map[string][]any  // column -> concrete values for model values 1..NV
	Filler int               // number of static filler rows inserted by CreateTable
}

var strPalette = []any{"it's", "a\\b\"c", "", "x;--y", "tab\there"}
var intPalette = []any{int64(7), int64(-3), int64(0), int64(2147483647), int64(12)}
var bigPalette = []any{int64(-9223372036854775807), int64(4294967296), int64(5), int64(-1), int64(99)}

// NewBinding builds the binding from the case's "binding" object: {"keys":"small|spread","c1":"int|varchar|bigint","c2":...,"filler":n}
func NewBinding(b map[string]any, keys []int) *Binding {
	bd := &Binding{Keys: map[int]int64{}, RKeys: map[int64]int{}, Types: map[string]string{}, Pal: map[string][]any{}}
	mode, _ := b["keys"].(string)
	for i, k := range keys {
		var v int64
		switch mode {
		case "spread":
			v = []int64{-40000, 17, 65536, 99999, -1}[i%5]
		default:
			v = int64(k)
		}
		bd.Keys[k] = v
		bd.RKeys[v] = k
	}
	for _, c := range []string{"c1", "c2"} {
		t, _ := b[c].(string)
		if t == "" {
			t = "int"
		}
		bd.Types[c] = t
		switch t {
		case "varchar":
			bd.Pal[c] = strPalette
		case "bigint":
			bd.Pal[c] = bigPalette
		default:
			bd.Pal[c] = intPalette
		}
	}
	if f, ok := b["filler"]; ok {
		bd.Filler = common.Int(f)
	}
	return bd
}

func (bd *Binding) SQLType(col string) string {
	switch bd.Types[col] {
	case "varchar":
		return "varchar(40)"
	case "bigint":
		return "bigint"
	}
	return "int"
}

// Lit renders model value v of column col as an SQL literal.
func (bd *Binding) Lit(col string, v int) string {
	if v == 0 {
		return "NULL"
	}
	x := bd.Pal[col][v-1]
	if s, ok := x.(string); ok {
		return "'" + strings.NewReplacer("\\", "\\\\", "'", "''").Replace(s) + "'"
	}
	return fmt.Sprint(x)
}

// Unval maps a concrete cell back to the model value (-9 if it is not in the palette).
func (bd *Binding) Unval(col string, x any) int {
	if x == nil {
		return 0
	}
	for i, p := range bd.Pal[col] {
		switch pv := p.(type) {
		case string:
			if s, ok := x.(string); ok && s == pv {
				return i + 1
			}
		case int64:
			switch xv := x.(type) {
			case int64:
				if xv == pv {
					return i + 1
				}
			case float64:
				if int64(xv) == pv {
					return i + 1
				}
			}
		}
	}
	return -9
}

func (bd *Binding) Unkey(x any) (int, bool) {
	var v int64
	switch xv := x.(type) {
	case int64:
		v = xv
	case float64:
		v = int64(xv)
	default:
		return 0, false
	}
	k, ok := bd.RKeys[v]
	return k, ok
}

// ---------------------------------------------------------------------------------------------- projection types

// Table is the model view of a table: number of non-key columns and rows [key, c1, c2] (c2 = 0 when nc = 1), key order.
type Table struct {
	NC   int      `json:"nc"`
	Rows [][3]int `json:"rows"`
}
type Root map[string]Table

type Conflict struct {
	K int    `json:"k"`
	B [2]int `json:"b"`
	O [2]int `json:"o"`
	T [2]int `json:"t"`
}

type WS struct {
	W      Root                  `json:"w"`
	S      Root                  `json:"s"`
	MK     string                `json:"mk"`
	MC     int                   `json:"mc"`
	Conf   map[string][]Conflict `json:"conf"`
	Status [][3]any              `json:"status"`
}

type Commit struct {
	P    []int `json:"p"`
	Root Root  `json:"root"`
}

type Stash struct {
	Br string `json:"br"`
	Hd int    `json:"hd"`
}

// Proj mirrors Repo.tla's Proj operator.
type Proj struct {
	Br  map[string]int    `json:"br"`
	WS  map[string]WS     `json:"ws"`
	CM  []Commit          `json:"cm"`
	Cur map[string]string `json:"cur"`
	St  []Stash           `json:"st"`
	Tg  map[string]int    `json:"tg"`
}

// ---------------------------------------------------------------------------------------------- decoding of TLC's JSON
// ToJson renders an empty function/sequence as [] whatever its "type"; these helpers accept that.

func obj(v any) map[string]any {
	if m, ok := v.(map[string]any); ok {
		return m
	}
	return map[string]any{}
}
func arr(v any) []any {
	if a, ok := v.([]any); ok {
		return a
	}
	return nil
}

func DecodeTable(v any) Table {
	m := obj(v)
	t := Table{NC: common.Int(m["nc"])}
	for _, r := range arr(m["rows"]) {
		ra := arr(r)
		t.Rows = append(t.Rows, [3]int{common.Int(ra[0]), common.Int(ra[1]), common.Int(ra[2])})
	}
	return t
}
func DecodeRoot(v any) Root {
	r := Root{}
	for k, tv := range obj(v) {
		r[k] = DecodeTable(tv)
	}
	return r
}
func pair(v any) [2]int {
	a := arr(v)
	return [2]int{common.Int(a[0]), common.Int(a[1])}
}
func DecodeProj(v any) *Proj {
	m := obj(v)
	p := &Proj{Br: map[string]int{}, WS: map[string]WS{}, Cur: map[string]string{}, Tg: map[string]int{}}
	for b, c := range obj(m["br"]) {
		p.Br[b] = common.Int(c)
	}
	for b, wv := range obj(m["ws"]) {
		wm := obj(wv)
		w := WS{W: DecodeRoot(wm["w"]), S: DecodeRoot(wm["s"]), MK: wm["mk"].(string), MC: common.Int(wm["mc"]), Conf: map[string][]Conflict{}}
		for t, cv := range obj(wm["conf"]) {
			for _, c := range arr(cv) {
				cm := obj(c)
				w.Conf[t] = append(w.Conf[t], Conflict{K: common.Int(cm["k"]), B: pair(cm["b"]), O: pair(cm["o"]), T: pair(cm["t"])})
			}
		}
		for _, s := range arr(wm["status"]) {
			sa := arr(s)
			w.Status = append(w.Status, [3]any{sa[0].(string), common.Int(sa[1]), sa[2].(string)})
		}
		p.WS[b] = w
	}
	for _, cv := range arr(m["cm"]) {
		cm := obj(cv)
		p.CM = append(p.CM, Commit{P: common.Ints(cm["p"]), Root: DecodeRoot(cm["root"])})
	}
	for s, b := range obj(m["cur"]) {
		p.Cur[s] = b.(string)
	}
	for _, sv := range arr(m["st"]) {
		sm := obj(sv)
		p.St = append(p.St, Stash{Br: sm["br"].(string), Hd: common.Int(sm["hd"])})
	}
	for n, c := range obj(m["tg"]) {
		p.Tg[n] = common.Int(c)
	}
	return p
}

// ---------------------------------------------------------------------------------------------- the repository under test

type Repo struct {
	Srv      *sqlh.Server
	Sess     map[string]*sqlh.Session
	Insp     *sqlh.Session // inspector session: only reads, switches between revision databases
	Bd       *Binding
	Tables   []string
	Hash     map[int]string // model commit id -> real hash (binding, learnt from the commit graph)
	Dir      string
	Evals    int
	verified map[string]bool // commit hashes whose content has been compared already
}

// Open creates a fresh repository with one SQL session per model session.
func Open(sessions []string, tables []string, bd *Binding) (*Repo, error) {
	dir, err := os.MkdirTemp(os.Getenv("VERIF_WORK"), "repo-")
	if err != nil {
		return nil, err
	}
	srv, err := sqlh.NewRepoServer(dir, "db")
	if err != nil {
		os.RemoveAll(dir)
		return nil, err
	}
	r := &Repo{Srv: srv, Sess: map[string]*sqlh.Session{}, Bd: bd, Tables: tables, Hash: map[int]string{}, Dir: dir, verified: map[string]bool{}}
	for _, s := range append([]string{"_insp"}, sessions...) {
		ss, err := srv.NewSession(s)
		if err != nil {
			r.Close()
			return nil, err
		}
		// conflicts of merge / cherry-pick / revert stay in the working set (otherwise autocommit rolls the call back)
		if err := ss.Exec("set @@dolt_allow_commit_conflicts = 1"); err != nil {
			r.Close()
			return nil, err
		}
		if s == "_insp" {
			r.Insp = ss
		} else {
			r.Sess[s] = ss
		}
	}
	rows, err := r.Insp.Query("select hashof('main')")
	if err != nil {
		r.Close()
		return nil, err
	}
	r.Hash[1] = rows[0][0].(string) // model commit 1 = the initial commit
	return r, nil
}

func (r *Repo) Close() {
	r.Srv.Close()
	os.RemoveAll(r.Dir)
}

// Q runs a query and returns column names and rows.
func Q(ss *sqlh.Session, q string) (cols []string, rows [][]any, err error) {
	ctx, err := ss.S.Eng.NewContext(ss.S.Ctx, ss.Sess)
	if err != nil {
		return nil, nil, err
	}
	sql.SessionCommandBegin(ss.Sess)
	defer sql.SessionCommandEnd(ss.Sess)
	defer func() {
		if p := recover(); p != nil {
			err = fmt.Errorf("PANIC in query %q: %v", q, p)
		}
	}()
	sch, it, _, err := ss.S.Eng.Query(ctx, q)
	if err != nil {
		return nil, nil, err
	}
	for _, c := range sch {
		cols = append(cols, strings.ToLower(c.Name))
	}
	for {
		row, err := it.Next(ctx)
		if err == io.EOF {
			break
		}
		if err != nil {
			it.Close(ctx)
			return nil, nil, err
		}
		out := make([]any, len(row))
		for i, v := range row {
			out[i] = sqlh.Norm(ctx, v, sch, i)
		}
		rows = append(rows, out)
	}
	if err := it.Close(ctx); err != nil {
		return nil, nil, err
	}
	return cols, rows, nil
}

func idx(cols []string, name string) int {
	for i, c := range cols {
		if c == name {
			return i
		}
	}
	return -1
}

// ReadTable reads a user table through |ss| with an optional " as of '...'" suffix and maps it to the model view.
// Filler rows (pk >= FillerBase) are counted, not returned; their number must be what CreateTable inserted.
func (r *Repo) ReadTable(ss *sqlh.Session, qualified string, asOf string) (Table, error) {
	q := "select * from " + qualified
	if asOf != "" {
		q += " as of '" + asOf + "'"
	}
	cols, rows, err := Q(ss, q)
	if err != nil {
		return Table{}, err
	}
	return r.rowsToTable(cols, rows, "")
}

func (r *Repo) rowsToTable(cols []string, rows [][]any, prefix string) (Table, error) {
	ipk, i1, i2 := idx(cols, prefix+"pk"), idx(cols, prefix+"c1"), idx(cols, prefix+"c2")
	if ipk < 0 || i1 < 0 {
		return Table{}, fmt.Errorf("unexpected columns %v", cols)
	}
	t := Table{NC: 1}
	if i2 >= 0 {
		t.NC = 2
	}
	filler := 0
	for _, row := range rows {
		if pk, ok := row[ipk].(int64); ok && pk >= FillerBase {
			filler++
			continue
		}
		k, ok := r.Bd.Unkey(row[ipk])
		if !ok {
			return Table{}, fmt.Errorf("row with a key outside the binding: %v", row)
		}
		m := [3]int{k, r.Bd.Unval("c1", row[i1]), 0}
		if i2 >= 0 {
			m[2] = r.Bd.Unval("c2", row[i2])
		}
		t.Rows = append(t.Rows, m)
	}
	if filler != r.Bd.Filler {
		return Table{}, fmt.Errorf("filler rows: %d present, %d inserted", filler, r.Bd.Filler)
	}
	sort.Slice(t.Rows, func(i, j int) bool { return t.Rows[i][0] < t.Rows[j][0] })
	return t, nil
}

func (r *Repo) userTables(ss *sqlh.Session, asOf string) ([]string, error) {
	q := "show tables"
	if asOf != "" {
		q += " as of '" + asOf + "'"
	}
	_, rows, err := Q(ss, q)
	if err != nil {
		return nil, err
	}
	var out []string
	for _, row := range rows {
		n := row[0].(string)
		if !strings.HasPrefix(n, "dolt_") {
			out = append(out, n)
		}
	}
	return out, nil
}

// ReadRoot reads every user table of a root: asOf "" = working root of the database the session uses.
func (r *Repo) ReadRoot(ss *sqlh.Session, asOf string) (Root, error) {
	names, err := r.userTables(ss, asOf)
	if err != nil {
		return nil, err
	}
	root := Root{}
	for _, n := range names {
		t, err := r.ReadTable(ss, "`"+n+"`", asOf)
		if err != nil {
			return nil, fmt.Errorf("table %s as of %q: %w", n, asOf, err)
		}
		root[n] = t
	}
	return root, nil
}

// Graph is the real commit graph: hash -> parent hashes in parent order.
func (r *Repo) Graph() (map[string][]string, error) {
	_, rows, err := Q(r.Insp, "select commit_hash, parent_hash, parent_index from dolt_commit_ancestors")
	if err != nil {
		return nil, err
	}
	g := map[string][]string{}
	type pe struct {
		h string
		i int64
	}
	tmp := map[string][]pe{}
	for _, row := range rows {
		h := row[0].(string)
		if _, ok := g[h]; !ok {
			g[h] = nil
		}
		if row[1] != nil {
			tmp[h] = append(tmp[h], pe{row[1].(string), row[2].(int64)})
		}
	}
	for h, ps := range tmp {
		sort.Slice(ps, func(i, j int) bool { return ps[i].i < ps[j].i })
		for _, p := range ps {
			g[h] = append(g[h], p.h)
		}
	}
	return g, nil
}

// RealState is what Project reads (hashes still concrete).
type RealState struct {
	Br    map[string]string
	WS    map[string]WS // MC unresolved: MCHash holds the hash
	MCH   map[string]string
	Cur   map[string]string
	St    [][2]string // branch, head hash
	Tg    map[string]string
	Graph map[string][]string
}

func (r *Repo) use(db string) error {
	_, _, err := Q(r.Insp, "use `"+db+"`")
	return err
}

// Project reads the whole repository.
func (r *Repo) Project() (*RealState, error) {
	st := &RealState{Br: map[string]string{}, WS: map[string]WS{}, MCH: map[string]string{}, Cur: map[string]string{}, Tg: map[string]string{}}
	if err := r.use("db"); err != nil {
		return nil, err
	}
	_, rows, err := Q(r.Insp, "select name, hash from dolt_branches")
	if err != nil {
		return nil, err
	}
	for _, row := range rows {
		st.Br[row[0].(string)] = row[1].(string)
	}
	if st.Graph, err = r.Graph(); err != nil {
		return nil, err
	}
	_, rows, err = Q(r.Insp, "select tag_name, tag_hash from dolt_tags")
	if err != nil {
		return nil, err
	}
	for _, row := range rows {
		st.Tg[row[0].(string)] = row[1].(string)
	}
	cols, rows, err := Q(r.Insp, "select * from dolt_stashes")
	if err != nil {
		return nil, err
	}
	type se struct {
		id     string
		br, hd string
	}
	var ses []se
	for _, row := range rows {
		ses = append(ses, se{row[idx(cols, "stash_id")].(string), row[idx(cols, "branch")].(string), row[idx(cols, "hash")].(string)})
	}
	sort.Slice(ses, func(i, j int) bool { return ses[i].id < ses[j].id }) // stash@{0} first
	for _, e := range ses {
		st.St = append(st.St, [2]string{strings.TrimPrefix(e.br, "refs/heads/"), e.hd})
	}
	for name, ss := range r.Sess {
		_, rows, err := Q(ss, "select active_branch()")
		if err != nil {
			return nil, err
		}
		st.Cur[name] = fmt.Sprint(rows[0][0])
	}
	ddb := r.Srv.DEnv.DoltDB(context.Background())
	for b := range st.Br {
		if err := r.use("db/" + b); err != nil {
			return nil, err
		}
		w := WS{Conf: map[string][]Conflict{}, MK: "none"}
		if w.W, err = r.ReadRoot(r.Insp, ""); err != nil {
			return nil, fmt.Errorf("working root of %s: %w", b, err)
		}
		if w.S, err = r.ReadRoot(r.Insp, "STAGED"); err != nil {
			return nil, fmt.Errorf("staged root of %s: %w", b, err)
		}
		_, rows, err := Q(r.Insp, "select table_name, staged, status from dolt_status")
		if err != nil {
			return nil, err
		}
		for _, row := range rows {
			w.Status = append(w.Status, [3]any{row[0].(string), int(row[1].(int64)), row[2].(string)})
		}
		_, rows, err = Q(r.Insp, "select `table` from dolt_conflicts")
		if err != nil {
			return nil, err
		}
		for _, row := range rows {
			t := row[0].(string)
			cs, err := r.readConflicts(t)
			if err != nil {
				return nil, err
			}
			w.Conf[t] = cs
		}
		// operation in progress: from the stored working set itself
		wsRef, err := ref.WorkingSetRefForHead(ref.NewBranchRef(b))
		if err != nil {
			return nil, err
		}
		rws, err := ddb.ResolveWorkingSet(context.Background(), wsRef)
		if err != nil {
			return nil, fmt.Errorf("working set of %s: %w", b, err)
		}
		if rws.MergeActive() {
			ms := rws.MergeState()
			switch {
			case ms.IsCherryPick():
				w.MK = "cherry"
			case ms.IsRevert():
				w.MK = "revert"
			default:
				w.MK = "merge"
			}
			h, err := ms.Commit().HashOf()
			if err != nil {
				return nil, err
			}
			st.MCH[b] = h.String()
		}
		if rws.RebaseActive() {
			w.MK = "rebase"
		}
		st.WS[b] = w
	}
	_ = doltdb.Working
	if err := r.use("db"); err != nil {
		return nil, err
	}
	return st, nil
}

func (r *Repo) readConflicts(t string) ([]Conflict, error) {
	cols, rows, err := Q(r.Insp, "select * from `dolt_conflicts_"+t+"`")
	if err != nil {
		return nil, err
	}
	var out []Conflict
	get := func(row []any, side string) ([2]int, any) {
		ipk := idx(cols, side+"pk")
		if row[ipk] == nil {
			return [2]int{-1, -1}, nil
		}
		v := [2]int{r.Bd.Unval("c1", row[idx(cols, side+"c1")]), 0}
		if i2 := idx(cols, side+"c2"); i2 >= 0 {
			v[1] = r.Bd.Unval("c2", row[i2])
		}
		return v, row[ipk]
	}
	for _, row := range rows {
		var c Conflict
		var pk any
		var p any
		c.B, p = get(row, "base_")
		if p != nil {
			pk = p
		}
		c.O, p = get(row, "our_")
		if p != nil {
			pk = p
		}
		c.T, p = get(row, "their_")
		if p != nil {
			pk = p
		}
		k, ok := r.Bd.Unkey(pk)
		if !ok {
			return nil, fmt.Errorf("conflict row with a key outside the binding: %v", row)
		}
		c.K = k
		out = append(out, c)
	}
	sort.Slice(out, func(i, j int) bool { return out[i].K < out[j].K })
	return out, nil
}

// ---------------------------------------------------------------------------------------------- comparison

type Diff struct {
	What     string
	Exp, Got any
}

func jsEq(a, b any) bool {
	x, _ := json.Marshal(a)
	y, _ := json.Marshal(b)
	return string(x) == string(y)
}

func normRoot(r Root) Root {
	out := Root{}
	for k, t := range r {
		if t.Rows == nil {
			t.Rows = [][3]int{}
		}
		out[k] = t
	}
	return out
}

func CompareRoots(what string, exp, got Root) *Diff {
	if !jsEq(normRoot(exp), normRoot(got)) {
		return &Diff{what, normRoot(exp), normRoot(got)}
	}
	return nil
}

// bind unifies model commit |id| with real |hash| (and, recursively, their parents in order); the content of a
// commit bound for the first time is read AS OF its hash and compared with the model's root.
func (r *Repo) bind(exp *Proj, st *RealState, id int, hash string, what string) *Diff {
	if id <= 0 || id > len(exp.CM) {
		return &Diff{what + ": no such model commit", id, hash}
	}
	if h, ok := r.Hash[id]; ok {
		if h != hash {
			return &Diff{what + ": commit", fmt.Sprintf("c%d=%s", id, h), hash}
		}
		return nil
	}
	ps, ok := st.Graph[hash]
	if !ok {
		return &Diff{what + ": commit not in dolt_commit_ancestors", id, hash}
	}
	mp := exp.CM[id-1].P
	if len(ps) != len(mp) {
		return &Diff{fmt.Sprintf("%s: parents of new commit c%d", what, id), mp, ps}
	}
	r.Hash[id] = hash
	for i := range mp {
		if d := r.bind(exp, st, mp[i], ps[i], fmt.Sprintf("%s: parent %d of c%d", what, i, id)); d != nil {
			return d
		}
	}
	if !r.verified[hash] {
		r.verified[hash] = true
		if err := r.use("db"); err != nil {
			return &Diff{"use db", nil, err.Error()}
		}
		got, err := r.ReadRoot(r.Insp, hash)
		if err != nil {
			return &Diff{fmt.Sprintf("content of commit c%d", id), exp.CM[id-1].Root, err.Error()}
		}
		r.Evals++
		if d := CompareRoots(fmt.Sprintf("content of new commit c%d (%s)", id, what), exp.CM[id-1].Root, got); d != nil {
			return d
		}
	}
	return nil
}

func sortStatus(s [][3]any) []string {
	out := []string{}
	for _, x := range s {
		out = append(out, fmt.Sprintf("%v|%v|%v", x[0], x[1], x[2]))
	}
	sort.Strings(out)
	return out
}

// Compare compares the projection shipped by TLC with the real state; nil = equal. It extends the commit binding.
func (r *Repo) Compare(exp *Proj, st *RealState) *Diff {
	// branches
	eb, gb := []string{}, []string{}
	for b := range exp.Br {
		eb = append(eb, b)
	}
	for b := range st.Br {
		gb = append(gb, b)
	}
	sort.Strings(eb)
	sort.Strings(gb)
	if !jsEq(eb, gb) {
		return &Diff{"branches", eb, gb}
	}
	for _, b := range eb {
		if d := r.bind(exp, st, exp.Br[b], st.Br[b], "head of "+b); d != nil {
			return d
		}
		r.Evals++
	}
	// tags
	if len(exp.Tg) != len(st.Tg) {
		return &Diff{"tags", exp.Tg, st.Tg}
	}
	for n, c := range exp.Tg {
		h, ok := st.Tg[n]
		if !ok {
			return &Diff{"tags", exp.Tg, st.Tg}
		}
		if d := r.bind(exp, st, c, h, "tag "+n); d != nil {
			return d
		}
		r.Evals++
	}
	// stashes
	if len(exp.St) != len(st.St) {
		return &Diff{"stashes", exp.St, st.St}
	}
	for i, e := range exp.St {
		if e.Br != st.St[i][0] {
			return &Diff{fmt.Sprintf("stash@{%d} branch", i), e.Br, st.St[i][0]}
		}
		if d := r.bind(exp, st, e.Hd, st.St[i][1], fmt.Sprintf("stash@{%d} head", i)); d != nil {
			return d
		}
		r.Evals++
	}
	// sessions
	for s, b := range st.Cur {
		if exp.Cur[s] != b {
			return &Diff{"current branch of " + s, exp.Cur[s], b}
		}
		r.Evals++
	}
	// working sets
	for _, b := range eb {
		e, g := exp.WS[b], st.WS[b]
		if d := CompareRoots("working root of "+b, e.W, g.W); d != nil {
			return d
		}
		if d := CompareRoots("staged root of "+b, e.S, g.S); d != nil {
			return d
		}
		if e.MK != g.MK {
			return &Diff{"operation in progress on " + b, e.MK, g.MK}
		}
		if e.MK != "none" {
			if d := r.bind(exp, st, e.MC, st.MCH[b], "merge-state commit of "+b); d != nil {
				return d
			}
		}
		ec := map[string][]Conflict{}
		for t, c := range e.Conf {
			ec[t] = c
		}
		if !jsEq(ec, g.Conf) {
			return &Diff{"conflicts on " + b, ec, g.Conf}
		}
		if es, gs := sortStatus(e.Status), sortStatus(g.Status); !jsEq(es, gs) {
			return &Diff{"dolt_status of " + b, es, gs}
		}
		r.Evals += 5
	}
	return nil
}

// HashOf returns the bound hash of a model commit.
func (r *Repo) HashOf(id int) (string, error) {
	h, ok := r.Hash[id]
	if !ok {
		return "", fmt.Errorf("model commit c%d is not bound to a real commit", id)
	}
	return h, nil
}
