package main

import (
	"fmt"
	"os"
	"sort"
	"strings"

	"github.com/dolthub/dolt/go/zz_verif/common"
	"github.com/dolthub/dolt/go/zz_verif/sqlh"
)

// ---------------------------------------------------------------------------------------------------------------
// keyed mode (C29, C43): a batch of sub-cases, one table each, in ONE repository.
//   main: create tables, insert base rows, commit           (base)
//   L / R: replay the side's DML/DDL, comparing the table with TLC's expectation after every statement, commit
//   for ours in (L, R), for every path: new branch from ours; CALL dolt_merge(theirs); compare rows, dolt_conflicts_<t>,
//   dolt_conflicts; then the path: abort | resolve --ours + commit | resolve --theirs + commit | manual + abort
// Expected values come only from the case (computed by TLC); this file maps them to SQL text and compares strings.
// ---------------------------------------------------------------------------------------------------------------

type fail struct {
	Stage  string `json:"stage"`
	Dir    string `json:"dir"`
	What   string `json:"what"`
	Detail string `json:"detail"`
}

type sub struct {
	i      int
	c      map[string]any
	b      *binding
	dkind  string
	dside  string
	dpos   int
	ddef   int
	dcol   int
	fails  []fail
	dead   map[string]bool // direction -> stop checking (first failure per direction is reported)
	evals  int
	sqllog []string
}

func (s *sub) failf(stage, dir, what, format string, a ...any) {
	s.fails = append(s.fails, fail{stage, dir, what, fmt.Sprintf(format, a...)})
	if dir != "" {
		s.dead[dir] = true
	} else {
		s.dead["L"], s.dead["R"] = true, true
	}
}

var baseSch = []int{1, 2}

func (s *sub) sideSch(side string) []int {
	return common.Ints(s.c[map[string]string{"L": "lsch", "R": "rsch"}[side]])
}

func newSub(i int, m map[string]any) *sub {
	s := &sub{i: i, c: m["case"].(map[string]any), b: parseBinding(m["bind"].(map[string]any)), dead: map[string]bool{}}
	d := s.c["delta"].(map[string]any)
	s.dkind, s.dside = d["kind"].(string), d["side"].(string)
	s.dpos, s.ddef, s.dcol = common.Int(d["pos"]), common.Int(d["def"]), common.Int(d["col"])
	return s
}

type runner struct {
	ss  *sqlh.Session
	log []string
}

func (r *runner) q(q string) ([][]any, error) {
	rows, err := r.ss.Query(q)
	l := q
	if len(l) > 300 {
		l = l[:300] + "..."
	}
	if err != nil {
		l += "   -- ERROR: " + err.Error()
	}
	r.log = append(r.log, l)
	return rows, err
}

func (r *runner) must(q string) {
	if _, err := r.q(q); err != nil {
		panic(fmt.Sprintf("harness statement failed: %s: %v", q, err))
	}
}

func (r *runner) tail(n int) string {
	l := r.log
	if len(l) > n {
		l = l[len(l)-n:]
	}
	return strings.Join(l, ";\n    ")
}

func (s *sub) createSQL() string {
	b := s.b
	q := "create table `" + b.Name + "` (" + b.pkDDL()
	for _, c := range baseSch {
		q += ", " + colName(c) + " " + palettes[b.Types[c]].ddl
	}
	q += ", primary key (" + strings.Join(b.pkCols(), ", ") + ")"
	if b.Index {
		q += ", key idx_c1 (c1)"
	}
	return q + ")"
}

func (s *sub) insertSQL(k int, row mrow, sch []int, widenedCol int) string {
	b := s.b
	cols := append([]string{}, b.pkCols()...)
	vals := append([]string{}, b.pkLits(k)...)
	for _, c := range sch {
		cols = append(cols, colName(c))
		vals = append(vals, b.lit(c, row[c-1], c == widenedCol))
	}
	return "insert into `" + b.Name + "` (" + strings.Join(cols, ", ") + ") values (" + strings.Join(vals, ", ") + ")"
}

func (s *sub) alterSQL() string {
	b := s.b
	lastpk := b.pkCols()[len(b.pkCols())-1]
	switch s.dkind {
	case "add":
		q := "alter table `" + b.Name + "` add column c3 " + palettes[b.Types[3]].ddl
		if s.ddef != 0 {
			q += " default " + b.lit(3, s.ddef, false)
		}
		switch s.dpos {
		case 1:
			q += " after " + lastpk
		case 2:
			q += " after c1"
		}
		return q
	case "drop":
		return "alter table `" + b.Name + "` drop column " + colName(s.dcol)
	case "reorder":
		return "alter table `" + b.Name + "` modify column c2 " + palettes[b.Types[2]].ddl + " after " + lastpk
	case "widen":
		return "alter table `" + b.Name + "` modify column " + colName(s.dcol) + " " + palettes[b.Widen].ddl
	}
	panic("unknown delta " + s.dkind)
}

// replaySide executes the side's statements; after each one the table must equal TLC's expectation.
func (s *sub) replaySide(r *runner, side string, checkOps bool) {
	b := s.b
	sch := baseSch
	wcol := 0
	ops, _ := s.c[map[string]string{"L": "lops", "R": "rops"}[side]].([]any)
	for n, o := range ops {
		op := o.(map[string]any)
		var q string
		switch op["op"].(string) {
		case "alter":
			q = s.alterSQL()
			sch = s.sideSch(side)
			if s.dkind == "widen" {
				wcol = s.dcol
			}
		case "insert":
			q = s.insertSQL(common.Int(op["k"]), toRow(op["row"]), sch, wcol)
		case "update":
			row := toRow(op["row"])
			var sets []string
			for _, c := range common.Ints(op["set"]) {
				sets = append(sets, colName(c)+" = "+b.lit(c, row[c-1], c == wcol))
			}
			q = "update `" + b.Name + "` set " + strings.Join(sets, ", ") + " where " + b.pkWhere("", common.Int(op["k"]))
		case "delete":
			q = "delete from `" + b.Name + "` where " + b.pkWhere("", common.Int(op["k"]))
		default:
			panic("unknown op")
		}
		if _, err := r.q(q); err != nil {
			s.failf("edit", side, "error", "statement %d of side %s failed: %s: %v", n, side, q, err)
			return
		}
		if checkOps {
			got, err := readTable(r.ss, b, sch, "")
			if err != nil {
				s.failf("edit", side, "error", "reading the table after statement %d of side %s: %v", n, side, err)
				return
			}
			exp := b.renderTable(toTable(op["exp"]), sch, wcol)
			s.evals += len(exp) + 1
			if !eqStrings(got, exp) {
				s.failf("edit", side, "rows", "table after statement %d of side %s (%s)\n  expected (spec): %v\n  observed (code): %v", n, side, q, clip(exp), clip(got))
				return
			}
		}
	}
}

func nullOr(parts []string) string { return strings.Join(parts, "|") }

// expected rendering of one conflict record
func (s *sub) renderConf(cf map[string]any, msch, tsch []int) string {
	b := s.b
	k := common.Int(cf["k"])
	side := func(r mrow, sch []int) string {
		if len(r) == 0 {
			n := len(b.pkCols()) + len(sch)
			return strings.TrimSuffix(strings.Repeat("NULL|", n), "|")
		}
		return b.renderRow(k, r, sch, 0)
	}
	return "base[" + side(toRow(cf["base"]), baseSch) + "] ours[" + side(toRow(cf["ours"]), msch) + "]" + cf["odt"].(string) +
		" theirs[" + side(toRow(cf["theirs"]), tsch) + "]" + cf["tdt"].(string)
}

func readConflicts(r *runner, b *binding, msch, tsch []int) ([]string, error) {
	var cols []string
	add := func(prefix string, sch []int) {
		for _, p := range b.pkCols() {
			cols = append(cols, prefix+p)
		}
		for _, c := range sch {
			cols = append(cols, b.sel(prefix, c))
		}
	}
	add("base_", baseSch)
	nb := len(cols)
	add("our_", msch)
	cols = append(cols, "our_diff_type")
	no := len(cols)
	add("their_", tsch)
	cols = append(cols, "their_diff_type")
	rows, err := r.q("select " + strings.Join(cols, ", ") + " from `dolt_conflicts_" + b.Name + "`")
	if err != nil {
		return nil, err
	}
	out := make([]string, len(rows))
	for i, row := range rows {
		out[i] = "base[" + renderSQLRow(row[:nb], 0) + "] ours[" + renderSQLRow(row[nb:no-1], 0) + "]" + fmt.Sprint(row[no-1]) +
			" theirs[" + renderSQLRow(row[no:len(row)-1], 0) + "]" + fmt.Sprint(row[len(row)-1])
	}
	sort.Strings(out)
	return out, nil
}

// compareMerged: table rows, dolt_conflicts_<t>, dolt_conflicts after CALL dolt_merge
func (s *sub) compareMerged(r *runner, dir string, m map[string]any, stage string, expRows any, expConfKeys []int, allConf []any) {
	b := s.b
	msch := common.Ints(m["sch"])
	tsch := s.sideSch(other(dir))
	got, err := readTable(r.ss, b, msch, "")
	if err != nil {
		s.failf(stage, dir, "error", "reading merged table: %v", err)
		return
	}
	exp := b.renderTable(toTable(expRows), msch, 0)
	s.evals += len(exp) + 1
	if !eqStrings(got, exp) {
		s.failf(stage, dir, "rows", "table rows (ours=%s)\n  expected (spec): %v\n  observed (code): %v", dir, clip(exp), clip(got))
		return
	}
	var expConf []string
	for _, cf := range allConf {
		cfm := cf.(map[string]any)
		k := common.Int(cfm["k"])
		for _, ek := range expConfKeys {
			if ek == k {
				expConf = append(expConf, s.renderConf(cfm, msch, tsch))
			}
		}
	}
	sort.Strings(expConf)
	var gotConf []string
	if len(expConf) == 0 {
		// without conflicts dolt_conflicts_<t> has the columns of the current schema only: just count
		rows, err := r.q("select count(*) from `dolt_conflicts_" + b.Name + "`")
		if err != nil {
			s.failf(stage, dir, "error", "reading dolt_conflicts_%s: %v", b.Name, err)
			return
		}
		if fmt.Sprint(rows[0][0]) != "0" {
			gotConf = []string{fmt.Sprintf("<%v conflict rows>", rows[0][0])}
			if gc, err := readConflicts(r, b, msch, tsch); err == nil {
				gotConf = gc
			}
		}
	} else {
		gotConf, err = readConflicts(r, b, msch, tsch)
		if err != nil {
			rows, err2 := r.q("select count(*) from `dolt_conflicts_" + b.Name + "`")
			if err2 == nil && fmt.Sprint(rows[0][0]) == "0" {
				gotConf = nil
			} else {
				s.failf(stage, dir, "error", "reading dolt_conflicts_%s: %v", b.Name, err)
				return
			}
		}
	}
	s.evals += len(expConf) + 1
	if !eqStrings(gotConf, expConf) {
		s.failf(stage, dir, "conflicts", "dolt_conflicts_%s (ours=%s)\n  expected (spec): %v\n  observed (code): %v", b.Name, dir, clip(expConf), clip(gotConf))
		return
	}
	rows, err := r.q("select num_conflicts from dolt_conflicts where `table` = '" + b.Name + "'")
	if err != nil {
		s.failf(stage, dir, "error", "reading dolt_conflicts: %v", err)
		return
	}
	n := 0
	if len(rows) > 0 {
		n = int(rows[0][0].(int64))
	}
	s.evals++
	if n != len(expConf) {
		s.failf(stage, dir, "summary", "dolt_conflicts.num_conflicts for %s: expected %d, observed %d", b.Name, len(expConf), n)
	}
}

func other(d string) string {
	if d == "L" {
		return "R"
	}
	return "L"
}

func confKeys(m map[string]any) []int {
	var ks []int
	for _, cf := range m["conf"].([]any) {
		ks = append(ks, common.Int(cf.(map[string]any)["k"]))
	}
	return ks
}

// override the "ours" part of a conflict record with the current row of the table (the conflicts table shows the CURRENT row)
func withOurs(allConf []any, cur mtable, base mtable) []any {
	out := make([]any, len(allConf))
	for i, cf := range allConf {
		m := map[string]any{}
		for k, v := range cf.(map[string]any) {
			m[k] = v
		}
		k := common.Int(m["k"])
		if r, ok := cur[k]; ok {
			rr := make([]any, len(r))
			for j, x := range r {
				rr[j] = x
			}
			m["ours"] = rr
			if _, ok := base[k]; ok {
				m["odt"] = "modified"
			} else {
				m["odt"] = "added"
			}
		} else {
			m["ours"] = []any{}
			if _, ok := base[k]; ok {
				m["odt"] = "removed"
			} else {
				m["odt"] = "added"
			}
		}
		out[i] = m
	}
	return out
}

func runKeyed(c map[string]any) common.Result {
	dir, _ := os.MkdirTemp(os.Getenv("VERIF_WORK"), "rm-keyed-")
	defer os.RemoveAll(dir)
	srv, err := sqlh.NewRepoServer(dir, "db")
	if err != nil {
		return common.Result{"ok": false, "fp": "setup", "detail": err.Error()}
	}
	defer srv.Close()
	ss, err := srv.NewSession("s")
	if err != nil {
		return common.Result{"ok": false, "fp": "setup", "detail": err.Error()}
	}
	r := &runner{ss: ss}
	var subs []*sub
	for i, m := range c["subs"].([]any) {
		subs = append(subs, newSub(i, m.(map[string]any)))
	}
	var paths []string
	for _, p := range c["paths"].([]any) {
		paths = append(paths, p.(string))
	}
	checkOps := c["checkOps"] != false
	// isolate: every sub-case gets its own pair of branches (and its own merges) inside the one repository, so that a
	// failing CALL dolt_merge concerns that sub-case only. Otherwise one pair of branches carries the edits of all tables.
	isolate := c["isolate"] == true

	r.must("set @@dolt_allow_commit_conflicts = 1")
	r.must("create table zz_marker (id int primary key)")
	for _, s := range subs {
		r.must(s.createSQL())
		base := toTable(s.c["base"])
		for _, k := range sortedKeys(base) {
			r.must(s.insertSQL(k, base[k], baseSch, 0))
		}
	}
	r.must("call dolt_commit('-Am', 'base')")
	batchErr := ""
	if isolate {
		for _, s := range subs {
			if e := runGroup(r, []*sub{s}, fmt.Sprintf("s%d", s.i), paths, checkOps); e != "" {
				s.failf("engine", "", "group", "%s", e)
			}
		}
	} else {
		batchErr = runGroup(r, subs, "", paths, checkOps)
	}

	out := common.Result{}
	ok := batchErr == ""
	evals := 0
	var sr []any
	for _, s := range subs {
		evals += s.evals
		if len(s.fails) > 0 {
			ok = false
		}
		sr = append(sr, map[string]any{"i": s.i, "ok": len(s.fails) == 0, "fails": s.fails})
	}
	out["ok"] = ok
	out["evals"] = evals
	out["subs"] = sr
	if batchErr != "" {
		out["batchError"] = batchErr
	}
	if !ok {
		out["sqltail"] = r.tail(60)
	}
	return out
}

// runGroup: the tables of |subs| are edited on the branches <px>L and <px>R (from main) and merged in both directions.
func runGroup(r *runner, subs []*sub, px string, paths []string, checkOps bool) (batchErr string) {
	defer func() {
		if p := recover(); p != nil {
			batchErr = fmt.Sprintf("harness statement failed inside a group: %v", p)
			r.q("call dolt_merge('--abort')")
			r.q("call dolt_reset('--hard')")
			r.q("call dolt_checkout('main')")
		}
	}()
	single := len(subs) == 1
	br := map[string]string{"L": px + "L", "R": px + "R"}
	for _, side := range []string{"L", "R"} {
		r.must("call dolt_checkout('main')")
		r.must("call dolt_checkout('-b', '" + br[side] + "')")
		for _, s := range subs {
			s.replaySide(r, side, checkOps)
		}
		r.must("insert into zz_marker values (" + fmt.Sprint(len(r.log)) + ")")
		r.must("call dolt_commit('-Am', 'side " + side + "')")
	}

	cleanup := func() {
		r.q("call dolt_merge('--abort')")
		r.q("call dolt_reset('--hard')")
	}
dirs:
	for di, d := range []string{"L", "R"} {
		for pi, path := range paths {
			mb := fmt.Sprintf("m_%s%s_%d", px, d, pi)
			r.must("call dolt_checkout('" + br[d] + "')")
			r.must("call dolt_checkout('-b', '" + mb + "')")
			res, err := r.q("call dolt_merge('" + br[other(d)] + "')")
			if err != nil {
				if !single {
					batchErr = fmt.Sprintf("CALL dolt_merge failed for a batch (ours=%s): %v", d, err)
					cleanup()
					break dirs
				}
				if !subs[0].dead[d] {
					subs[0].failf("merge", d, "error", "CALL dolt_merge('%s') with %s checked out failed: %v", other(d), d, err)
				}
				cleanup()
				continue dirs
			}
			anyConf := false
			for _, s := range subs {
				if len(s.c["m"].([]any)[di].(map[string]any)["conf"].([]any)) > 0 {
					anyConf = true
				}
			}
			gotConf := len(res) == 1 && fmt.Sprint(res[0][2]) == "1"
			if len(res) != 1 || gotConf != anyConf || fmt.Sprint(res[0][1]) != "0" {
				if single {
					if !subs[0].dead[d] {
						subs[0].failf("merge", d, "result", "dolt_merge result row %v; model: conflicts=%v, fast_forward=0", res, anyConf)
					}
				} else if gotConf != anyConf {
					batchErr = fmt.Sprintf("dolt_merge result row %v; model: conflicts=%v", res, anyConf)
					cleanup()
					break dirs
				}
			}
			anyConf = gotConf
			for _, s := range subs {
				if s.dead[d] {
					if path == "ours" || path == "theirs" {
						r.q("call dolt_conflicts_resolve('--ours', '" + s.b.Name + "')") // keep the batch committable
					}
					continue
				}
				m := s.c["m"].([]any)[di].(map[string]any)
				allConf := m["conf"].([]any)
				if pi == 0 {
					s.compareMerged(r, d, m, "merge", m["rows"], confKeys(m), allConf)
				}
				if s.dead[d] {
					if path == "ours" || path == "theirs" {
						r.q("call dolt_conflicts_resolve('--ours', '" + s.b.Name + "')")
					}
					continue
				}
				s.path(r, d, path, m)
			}
			// finish the path for the whole group
			switch path {
			case "ours", "theirs":
				if !anyConf {
					break // the merge was committed by dolt_merge itself
				}
				if _, err := r.q("call dolt_commit('-Am', 'merged')"); err != nil {
					if single {
						if !subs[0].dead[d] {
							subs[0].failf("path:"+path, d, "error", "dolt_commit after resolving every conflict failed: %v", err)
						}
					} else {
						batchErr = "dolt_commit after resolve failed for a batch: " + err.Error()
					}
					cleanup()
					if batchErr != "" {
						break dirs
					}
					continue
				}
				for _, s := range subs {
					if s.dead[d] {
						continue
					}
					m := s.c["m"].([]any)[di].(map[string]any)
					exp := m["resOurs"]
					if path == "theirs" {
						if m["theirsOK"] != true && len(m["conf"].([]any)) > 0 {
							continue
						}
						if len(m["conf"].([]any)) > 0 {
							exp = m["resTheirs"]
						}
					}
					s.compareMerged(r, d, m, "path:"+path+":commit", exp, nil, nil)
				}
			default:
				if _, err := r.q("call dolt_merge('--abort')"); err != nil {
					// nothing to abort only when the merge was committed (no conflicts at all)
					if !strings.Contains(err.Error(), "no merge to abort") {
						for _, s := range subs {
							if !s.dead[d] {
								s.failf("path:"+path, d, "error", "dolt_merge('--abort') failed: %v", err)
							}
						}
					}
				} else {
					for _, s := range subs {
						if s.dead[d] {
							continue
						}
						m := s.c["m"].([]any)[di].(map[string]any)
						// after the abort our table is back (our schema), no conflicts
						osch := s.sideSch(d)
						got, err := readTable(r.ss, s.b, osch, "")
						exp := s.b.renderTable(toTable(m["aborted"]), osch, 0)
						s.evals += len(exp) + 1
						if err != nil || !eqStrings(got, exp) {
							s.failf("path:"+path+":abort", d, "rows", "table after dolt_merge('--abort') (ours=%s) err=%v\n  expected (spec): %v\n  observed (code): %v", d, err, clip(exp), clip(got))
							continue
						}
						rows, err := r.q("select count(*) from dolt_conflicts where `table` = '" + s.b.Name + "'")
						if err != nil || fmt.Sprint(rows[0][0]) != "0" {
							s.failf("path:"+path+":abort", d, "conflicts", "conflicts remain after abort: %v %v", rows, err)
						}
					}
				}
				r.q("call dolt_reset('--hard')")
			}
		}
	}
	return batchErr
}

// path: what happens to the conflicts after the merge (C43)
func (s *sub) path(r *runner, d, path string, m map[string]any) {
	b := s.b
	stage := "path:" + path
	allConf := m["conf"].([]any)
	base := toTable(s.c["base"])
	switch path {
	case "abort":
		return
	case "ours":
		if _, err := r.q("call dolt_conflicts_resolve('--ours', '" + b.Name + "')"); err != nil {
			s.failf(stage, d, "error", "dolt_conflicts_resolve --ours failed: %v", err)
			return
		}
		s.compareMerged(r, d, m, stage, m["resOurs"], nil, nil)
	case "theirs":
		_, err := r.q("call dolt_conflicts_resolve('--theirs', '" + b.Name + "')")
		if len(allConf) > 0 && m["theirsOK"] != true {
			// their schema differs from the table's schema: dolt documents that this is refused
			s.evals++
			if err == nil || !strings.Contains(err.Error(), "conflict schema's columns are not equal") {
				s.failf(stage, d, "error", "dolt_conflicts_resolve --theirs with a different schema on their side: expected ErrConfSchIncompatible, got %v", err)
				return
			}
			// nothing changed; fall back to --ours so that the batch can be committed
			s.compareMerged(r, d, m, stage+":refused", m["rows"], confKeys(m), allConf)
			if _, err := r.q("call dolt_conflicts_resolve('--ours', '" + b.Name + "')"); err != nil {
				s.failf(stage, d, "error", "dolt_conflicts_resolve --ours failed: %v", err)
			}
			return
		}
		if err != nil {
			s.failf(stage, d, "error", "dolt_conflicts_resolve --theirs failed: %v", err)
			return
		}
		exp := m["resTheirs"]
		if len(allConf) == 0 {
			exp = m["rows"]
		}
		s.compareMerged(r, d, m, stage, exp, nil, nil)
	case "manual":
		msch := common.Ints(m["sch"])
		tsch := s.sideSch(other(d))
		theirs := toTable(s.c[map[string]string{"L": "right", "R": "left"}[d]])
		cur := toTable(m["rows"])
		for n, st := range m["manual"].([]any) {
			step := st.(map[string]any)
			k := common.Int(step["k"])
			how := step["how"].(string)
			var src mrow
			var ssch []int
			prefix := ""
			switch how {
			case "theirs":
				src, ssch, prefix = theirs[k], tsch, "their_"
			case "base":
				src, ssch, prefix = base[k], baseSch, "base_"
			}
			var qs []string
			if how != "keep" {
				if len(src) == 0 {
					qs = append(qs, "delete from `"+b.Name+"` where "+b.pkWhere("", k))
				} else {
					var common_ []int
					for _, c := range ssch {
						for _, mc := range msch {
							if mc == c {
								common_ = append(common_, c)
							}
						}
					}
					_, ourPresent := cur[k]
					if s.dkind == "none" && ourPresent && n%2 == 0 {
						// documented way: update our_ columns through the conflicts table
						var sets []string
						for _, c := range common_ {
							sets = append(sets, "our_"+colName(c)+" = "+prefix+colName(c))
						}
						qs = append(qs, "update `dolt_conflicts_"+b.Name+"` set "+strings.Join(sets, ", ")+" where "+b.pkWhere("our_", k))
					} else {
						cols := append([]string{}, b.pkCols()...)
						sel := []string{}
						for _, p := range b.pkCols() {
							sel = append(sel, prefix+p)
						}
						for _, c := range common_ {
							cols = append(cols, colName(c))
							sel = append(sel, prefix+colName(c))
						}
						qs = append(qs, "replace into `"+b.Name+"` ("+strings.Join(cols, ", ")+") select "+strings.Join(sel, ", ")+
							" from `dolt_conflicts_"+b.Name+"` where "+b.pkWhere(prefix, k))
					}
				}
			}
			qs = append(qs, "delete from `dolt_conflicts_"+b.Name+"` where ("+b.pkWhere("base_", k)+") or ("+b.pkWhere("our_", k)+") or ("+b.pkWhere("their_", k)+")")
			for _, q := range qs {
				if _, err := r.q(q); err != nil {
					s.failf(stage, d, "error", "manual resolution of key %d (%s): %s: %v", k, how, q, err)
					return
				}
			}
			cur = toTable(step["rows"])
			st := fmt.Sprintf("%s:%s", stage, how)
			s.compareMerged(r, d, m, st, step["rows"], common.Ints(step["conf"]), withOurs(allConf, cur, base))
			if s.dead[d] {
				return
			}
		}
	}
}
