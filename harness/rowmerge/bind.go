package main

import (
	"fmt"
	"sort"
	"strings"

	"github.com/dolthub/dolt/go/zz_verif/common"
	"github.com/dolthub/dolt/go/zz_verif/sqlh"
)

// ---------------------------------------------------------------------------------------------------------------
// Binding: model values -> SQL. Mechanical and identity-like; it never computes an expected result.
//   model cell value 0 = NULL, 1..3 = the palette entries of the column's SQL type
//   model key k      = primary key value(s) of the chosen key type
//   model column id  = column c<id>
// ---------------------------------------------------------------------------------------------------------------

type palette struct {
	ddl  string
	lits []string // SQL literal of model value 1..3
	outs []string // canonical rendering of the value as read back (sqlh.Norm + fmt.Sprint)
}

var longText = strings.Repeat("lorem ipsum dolor sit amet ", 120) // > 2 kB: stored out of band

var palettes = map[string]palette{
	"int":       {"int", []string{"11", "22", "33"}, []string{"11", "22", "33"}},
	"bigint":    {"bigint", []string{"-9000000000", "22", "9000000001"}, []string{"-9000000000", "22", "9000000001"}},
	"varchar":   {"varchar(20)", []string{"'a'", "'bb'", "'ccc'"}, []string{"a", "bb", "ccc"}},
	"varchar40": {"varchar(40)", []string{"'a'", "'bb'", "'ccc'"}, []string{"a", "bb", "ccc"}},
	"text":      {"text", []string{"'a'", "'bb'", "'ccc'"}, []string{"a", "bb", "ccc"}},
	"bigtext":   {"text", []string{"'" + longText + "1'", "'" + longText + "2'", "'x'"}, []string{longText + "1", longText + "2", "x"}},
	"double":    {"double", []string{"1.5", "-2.25", "1e10"}, []string{"1.5", "-2.25", "1e+10"}},
	"decimal":   {"decimal(10,2)", []string{"1.10", "22.20", "-3.30"}, []string{"1.10", "22.20", "-3.30"}},
	"datetime":  {"datetime", []string{"'2020-01-01 00:00:00'", "'2021-02-03 04:05:06'", "'1999-12-31 23:59:59'"}, []string{"2020-01-01 00:00:00", "2021-02-03 04:05:06", "1999-12-31 23:59:59"}},
	"varbinary": {"varbinary(16)", []string{"x'00ff'", "x'4142'", "x'7a'"}, []string{"\x00\xff", "AB", "z"}},
}

type binding struct {
	Name  string         // table name
	PK    string         // "int" | "varchar" | "composite"
	Types map[int]string // column id -> palette name
	Widen string         // palette of the widened column after ALTER (delta kind "widen")
	Index bool           // non-unique secondary index on c1 (forces the row-level merge path)
}

func parseBinding(m map[string]any) *binding {
	b := &binding{Name: m["name"].(string), PK: m["pk"].(string), Types: map[int]string{}}
	for k, v := range m["types"].(map[string]any) {
		var id int
		fmt.Sscan(k, &id)
		b.Types[id] = v.(string)
	}
	if w, ok := m["widen"].(string); ok {
		b.Widen = w
	}
	if ix, ok := m["index"].(bool); ok {
		b.Index = ix
	}
	return b
}

func (b *binding) pkCols() []string {
	if b.PK == "composite" {
		return []string{"pk", "pk2"}
	}
	return []string{"pk"}
}

func (b *binding) pkDDL() string {
	switch b.PK {
	case "varchar":
		return "pk varchar(12) not null"
	case "composite":
		return "pk int not null, pk2 varchar(8) not null"
	}
	return "pk int not null"
}

// pkLits: literals of the key columns of model key k.
func (b *binding) pkLits(k int) []string {
	switch b.PK {
	case "varchar":
		return []string{fmt.Sprintf("'key-%d'", k)}
	case "composite":
		return []string{fmt.Sprint(100 - k), fmt.Sprintf("'k%d'", k)}
	}
	return []string{fmt.Sprint(k * 10)}
}

func (b *binding) pkOuts(k int) string {
	switch b.PK {
	case "varchar":
		return fmt.Sprintf("key-%d", k)
	case "composite":
		return fmt.Sprintf("%d|k%d", 100-k, k)
	}
	return fmt.Sprint(k * 10)
}

func (b *binding) pkWhere(prefix string, k int) string {
	cs := b.pkCols()
	ls := b.pkLits(k)
	parts := make([]string, len(cs))
	for i := range cs {
		parts[i] = prefix + cs[i] + " = " + ls[i]
	}
	return strings.Join(parts, " and ")
}

func (b *binding) typeOf(col int, widened bool) string {
	if widened && b.Widen != "" {
		return b.Widen
	}
	return b.Types[col]
}

func (b *binding) lit(col, v int, widened bool) string {
	if v == 0 {
		return "NULL"
	}
	return palettes[b.typeOf(col, widened)].lits[v-1]
}

func (b *binding) out(col, v int, widened bool) string {
	if v == 0 {
		return "NULL"
	}
	return palettes[b.typeOf(col, widened)].outs[v-1]
}

func colName(id int) string { return fmt.Sprintf("c%d", id) }

// sel: select expression of column |id| (with a dolt_conflicts prefix or ""). TEXT values stored out of band come back as
// lazy wrappers which sqlh.Norm does not unwrap; CONCAT() materialises them (NULL stays NULL).
func (b *binding) sel(prefix string, id int) string {
	n := prefix + colName(id)
	t := b.Types[id]
	if t == "text" || t == "bigtext" || b.Widen == "text" {
		return "concat(" + n + ")"
	}
	return n
}

// ---------------------------------------------------------------------------------------------------------------
// model rows / tables as they arrive from TLC: a row is [v(c1), v(c2), v(c3)] with -1 = column not in the schema
// ---------------------------------------------------------------------------------------------------------------

type mrow []int

func toRow(v any) mrow {
	if v == nil {
		return nil
	}
	return mrow(common.Ints(v))
}

type mtable map[int]mrow // present keys only

func toTable(v any) mtable {
	t := mtable{}
	if v == nil {
		return t
	}
	for _, e := range v.([]any) {
		m := e.(map[string]any)
		t[common.Int(m["k"])] = toRow(m["r"])
	}
	return t
}

func sortedKeys(t mtable) []int {
	ks := make([]int, 0, len(t))
	for k := range t {
		ks = append(ks, k)
	}
	sort.Ints(ks)
	return ks
}

// renderRow: canonical string of a model row under schema |sch| (column ids in the order given).
func (b *binding) renderRow(k int, r mrow, sch []int, widenedCol int) string {
	parts := []string{b.pkOuts(k)}
	for _, c := range sch {
		parts = append(parts, b.out(c, r[c-1], c == widenedCol))
	}
	return strings.Join(parts, "|")
}

func renderSQLRow(r []any, npk int) string {
	parts := make([]string, 0, len(r))
	for _, v := range r {
		if v == nil {
			parts = append(parts, "NULL")
		} else {
			parts = append(parts, fmt.Sprint(v))
		}
	}
	return strings.Join(parts, "|")
}

// readTable: SELECT pk.., c<sch..> FROM t ORDER BY pk.. rendered canonically, one string per row (sorted).
func readTable(ss *sqlh.Session, b *binding, sch []int, asOf string) ([]string, error) {
	cols := append([]string{}, b.pkCols()...)
	for _, c := range sch {
		cols = append(cols, b.sel("", c))
	}
	q := "select " + strings.Join(cols, ", ") + " from `" + b.Name + "`"
	if asOf != "" {
		q += " as of '" + asOf + "'"
	}
	rows, err := ss.Query(q)
	if err != nil {
		return nil, err
	}
	out := make([]string, len(rows))
	for i, r := range rows {
		out[i] = renderSQLRow(r, len(b.pkCols()))
	}
	sort.Strings(out)
	return out, nil
}

func (b *binding) renderTable(t mtable, sch []int, widenedCol int) []string {
	out := make([]string, 0, len(t))
	for _, k := range sortedKeys(t) {
		out = append(out, b.renderRow(k, t[k], sch, widenedCol))
	}
	sort.Strings(out)
	return out
}

func eqStrings(a, b []string) bool {
	if len(a) != len(b) {
		return false
	}
	for i := range a {
		if a[i] != b[i] {
			return false
		}
	}
	return true
}

func clip(s []string) []string {
	out := make([]string, len(s))
	for i, x := range s {
		if len(x) > 160 {
			x = x[:70] + fmt.Sprintf("...(%d bytes)...", len(x)) + x[len(x)-40:]
		}
		out[i] = x
	}
	return out
}
