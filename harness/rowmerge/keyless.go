package main

import (
	"fmt"
	"os"
	"sort"
	"strings"

	"github.com/dolthub/dolt/go/zz_verif/common"
	"github.com/dolthub/dolt/go/zz_verif/sqlh"
)

// ---------------------------------------------------------------------------------------------------------------
// keyless mode (C27): tables without primary key are bags. Every DML statement (INSERT of duplicates,
// DELETE/UPDATE ... LIMIT n, DELETE/UPDATE by one column) is followed by a comparison of
//   full scan (multiset), COUNT(*), GROUP BY all columns, lookups by c1 (through the secondary index when there is one)
// with the bag computed by TLC; then both merge directions, dolt_conflicts_<t> with cardinalities, resolve / abort.
// ---------------------------------------------------------------------------------------------------------------

type ksub struct {
	i     int
	c     map[string]any
	b     *binding
	kcols int
	fails []fail
	dead  map[string]bool
	evals int
}

func (s *ksub) failf(stage, dir, what, format string, a ...any) {
	s.fails = append(s.fails, fail{stage, dir, what, fmt.Sprintf(format, a...)})
	if dir != "" {
		s.dead[dir] = true
	} else {
		s.dead["L"], s.dead["R"] = true, true
	}
}

type bagEnt struct {
	r []int
	n int
}

func toBag(v any) []bagEnt {
	var out []bagEnt
	if v == nil {
		return out
	}
	for _, e := range v.([]any) {
		m := e.(map[string]any)
		out = append(out, bagEnt{common.Ints(m["r"]), common.Int(m["n"])})
	}
	return out
}

func (s *ksub) cols() []string {
	var cs []string
	for c := 1; c <= s.kcols; c++ {
		cs = append(cs, colName(c))
	}
	return cs
}

// select expressions (TEXT columns are materialised, see binding.sel)
func (s *ksub) sels(prefix string) []string {
	var cs []string
	for c := 1; c <= s.kcols; c++ {
		cs = append(cs, s.b.sel(prefix, c))
	}
	return cs
}

func (s *ksub) renderK(r []int) string {
	parts := make([]string, len(r))
	for i, v := range r {
		parts[i] = s.b.out(i+1, v, false)
	}
	return strings.Join(parts, "|")
}

func (s *ksub) lits(r []int) string {
	parts := make([]string, len(r))
	for i, v := range r {
		parts[i] = s.b.lit(i+1, v, false)
	}
	return strings.Join(parts, ", ")
}

func (s *ksub) whereRow(r []int) string {
	parts := make([]string, len(r))
	for i, v := range r {
		parts[i] = colName(i+1) + " <=> " + s.b.lit(i+1, v, false)
	}
	return strings.Join(parts, " and ")
}

// compareBag: every read path against the bag
func (s *ksub) compareBag(r *runner, stage, dir string, bag []bagEnt) {
	b := s.b
	var exp []string
	total := 0
	byC1 := map[int][]string{}
	for _, e := range bag {
		for j := 0; j < e.n; j++ {
			exp = append(exp, s.renderK(e.r))
			byC1[e.r[0]] = append(byC1[e.r[0]], s.renderK(e.r))
		}
		total += e.n
	}
	sort.Strings(exp)
	read := func(q string) ([]string, error) {
		rows, err := r.q(q)
		if err != nil {
			return nil, err
		}
		out := make([]string, len(rows))
		for i, row := range rows {
			out[i] = renderSQLRow(row, 0)
		}
		sort.Strings(out)
		return out, nil
	}
	cl := strings.Join(s.cols(), ", ")
	sl := strings.Join(s.sels(""), ", ")
	got, err := read("select " + sl + " from `" + b.Name + "`")
	s.evals += total + 1
	if err != nil || !eqStrings(got, exp) {
		s.failf(stage, dir, "rows", "full scan (multiset) err=%v\n  expected (spec): %v\n  observed (code): %v", err, clip(exp), clip(got))
		return
	}
	rows, err := r.q("select count(*) from `" + b.Name + "`")
	s.evals++
	if err != nil || fmt.Sprint(rows[0][0]) != fmt.Sprint(total) {
		s.failf(stage, dir, "count", "COUNT(*): expected %d, observed %v %v", total, rows, err)
		return
	}
	var expG []string
	for _, e := range bag {
		expG = append(expG, s.renderK(e.r)+"|"+fmt.Sprint(e.n))
	}
	sort.Strings(expG)
	got, err = read("select " + sl + ", count(*) from `" + b.Name + "` group by " + cl)
	s.evals += len(expG)
	if err != nil || !eqStrings(got, expG) {
		s.failf(stage, dir, "groupby", "GROUP BY all columns err=%v\n  expected (spec): %v\n  observed (code): %v", err, clip(expG), clip(got))
		return
	}
	// lookups by c1 (index lookup when the table has idx_c1), every value of the palette and NULL
	for v := 0; v <= 3; v++ {
		q := "select " + sl + " from `" + b.Name + "` where c1 = " + b.lit(1, v, false)
		if v == 0 {
			q = "select " + sl + " from `" + b.Name + "` where c1 is null"
		}
		got, err = read(q)
		e := byC1[v]
		sort.Strings(e)
		s.evals++
		if err != nil || !eqStrings(got, e) {
			s.failf(stage, dir, "lookup", "lookup by c1 (%s) err=%v\n  expected (spec): %v\n  observed (code): %v", q, err, clip(e), clip(got))
			return
		}
	}
}

func (s *ksub) replaySide(r *runner, side string) {
	b := s.b
	ops, _ := s.c[map[string]string{"L": "lops", "R": "rops"}[side]].([]any)
	for n, o := range ops {
		op := o.(map[string]any)
		var q string
		switch op["op"].(string) {
		case "kinsert":
			row := common.Ints(op["r"])
			var vs []string
			for j := 0; j < common.Int(op["n"]); j++ {
				vs = append(vs, "("+s.lits(row)+")")
			}
			q = "insert into `" + b.Name + "` values " + strings.Join(vs, ", ")
		case "kdelete":
			q = fmt.Sprintf("delete from `%s` where %s limit %d", b.Name, s.whereRow(common.Ints(op["r"])), common.Int(op["n"]))
		case "kupdate":
			to := common.Ints(op["to"])
			var sets []string
			for i, v := range to {
				sets = append(sets, colName(i+1)+" = "+b.lit(i+1, v, false))
			}
			q = fmt.Sprintf("update `%s` set %s where %s limit %d", b.Name, strings.Join(sets, ", "), s.whereRow(common.Ints(op["r"])), common.Int(op["n"]))
		case "kdelwhere":
			c := common.Int(op["c"])
			q = fmt.Sprintf("delete from `%s` where %s <=> %s", b.Name, colName(c), b.lit(c, common.Int(op["v"]), false))
		case "kupdwhere":
			c, c2 := common.Int(op["c"]), common.Int(op["c2"])
			q = fmt.Sprintf("update `%s` set %s = %s where %s <=> %s", b.Name, colName(c2), b.lit(c2, common.Int(op["v2"]), false), colName(c), b.lit(c, common.Int(op["v"]), false))
		default:
			panic("unknown keyless op")
		}
		if _, err := r.q(q); err != nil {
			s.failf("edit", side, "error", "statement %d of side %s failed: %s: %v", n, side, q, err)
			return
		}
		s.compareBag(r, "edit:"+op["op"].(string), side, toBag(op["exp"]))
		if s.dead[side] {
			s.fails[len(s.fails)-1].Detail = fmt.Sprintf("after statement %d of side %s (%s): ", n, side, q) + s.fails[len(s.fails)-1].Detail
			return
		}
	}
}

func (s *ksub) compareKConf(r *runner, stage, d string, conf []any) {
	b := s.b
	var cols []string
	for _, p := range []string{"base_", "our_"} {
		cols = append(cols, s.sels(p)...)
		if p == "our_" {
			cols = append(cols, "our_diff_type")
		}
	}
	cols = append(cols, s.sels("their_")...)
	cols = append(cols, "their_diff_type", "base_cardinality", "our_cardinality", "their_cardinality")
	rows, err := r.q("select " + strings.Join(cols, ", ") + " from `dolt_conflicts_" + b.Name + "`")
	if err != nil {
		s.failf(stage, d, "error", "reading dolt_conflicts_%s: %v", b.Name, err)
		return
	}
	var got, exp []string
	for _, row := range rows {
		got = append(got, renderSQLRow(row, 0))
	}
	nulls := strings.TrimSuffix(strings.Repeat("NULL|", s.kcols), "|")
	for _, cf := range conf {
		m := cf.(map[string]any)
		row := s.renderK(common.Ints(m["r"]))
		side := func(n int) string {
			if n == 0 {
				return nulls
			}
			return row
		}
		bn, on, tn := common.Int(m["bn"]), common.Int(m["on"]), common.Int(m["tn"])
		exp = append(exp, fmt.Sprintf("%s|%s|%s|%s|%s|%d|%d|%d", side(bn), side(on), m["odt"], side(tn), m["tdt"], bn, on, tn))
	}
	sort.Strings(got)
	sort.Strings(exp)
	s.evals += len(exp) + 1
	if !eqStrings(got, exp) {
		s.failf(stage, d, "conflicts", "dolt_conflicts_%s (ours=%s)\n  expected (spec): %v\n  observed (code): %v", b.Name, d, clip(exp), clip(got))
		return
	}
	rows, err = r.q("select num_conflicts from dolt_conflicts where `table` = '" + b.Name + "'")
	n := 0
	if err == nil && len(rows) > 0 {
		n = int(rows[0][0].(int64))
	}
	s.evals++
	if err != nil || n != len(exp) {
		s.failf(stage, d, "summary", "dolt_conflicts.num_conflicts: expected %d, observed %d %v", len(exp), n, err)
	}
}

func runKeyless(c map[string]any) common.Result {
	dir, _ := os.MkdirTemp(os.Getenv("VERIF_WORK"), "rm-keyless-")
	defer os.RemoveAll(dir)
	srv, err := sqlh.NewRepoServer(dir, "db")
	if err != nil {
		return common.Result{"ok": false, "fp": "setup", "detail": err.Error()}
	}
	defer srv.Close()
	ss, err := srv.NewSession("s")
	if err != nil {
		return common.Result{"ok": false, "fp": "setup", "detail": err.Error()}
	}
	r := &runner{ss: ss}
	var subs []*ksub
	for i, m := range c["subs"].([]any) {
		mm := m.(map[string]any)
		s := &ksub{i: i, c: mm["case"].(map[string]any), b: parseBinding(mm["bind"].(map[string]any)), dead: map[string]bool{}}
		s.kcols = common.Int(s.c["kcols"])
		subs = append(subs, s)
	}
	var paths []string
	for _, p := range c["paths"].([]any) {
		paths = append(paths, p.(string))
	}
	single := len(subs) == 1
	r.must("set @@dolt_allow_commit_conflicts = 1")
	r.must("create table zz_marker (id int primary key)")
	for _, s := range subs {
		q := "create table `" + s.b.Name + "` ("
		for ci := 1; ci <= s.kcols; ci++ {
			if ci > 1 {
				q += ", "
			}
			q += colName(ci) + " " + palettes[s.b.Types[ci]].ddl
		}
		if s.b.Index {
			q += ", key idx_c1 (c1)"
		}
		r.must(q + ")")
		for _, e := range toBag(s.c["base"]) {
			var vs []string
			for j := 0; j < e.n; j++ {
				vs = append(vs, "("+s.lits(e.r)+")")
			}
			r.must("insert into `" + s.b.Name + "` values " + strings.Join(vs, ", "))
		}
		s.compareBag(r, "base", "", toBag(s.c["base"]))
	}
	r.must("call dolt_commit('-Am', 'base')")
	for _, side := range []string{"L", "R"} {
		r.must("call dolt_checkout('main')")
		r.must("call dolt_checkout('-b', '" + side + "')")
		for _, s := range subs {
			if !s.dead[side] {
				s.replaySide(r, side)
			}
		}
		r.must("insert into zz_marker values (" + map[string]string{"L": "1", "R": "2"}[side] + ")")
		r.must("call dolt_commit('-Am', 'side " + side + "')")
	}
	batchErr := ""
	cleanup := func() {
		r.q("call dolt_merge('--abort')")
		r.q("call dolt_reset('--hard')")
	}
dirs:
	for di, d := range []string{"L", "R"} {
		for pi, path := range paths {
			r.must("call dolt_checkout('" + d + "')")
			r.must(fmt.Sprintf("call dolt_checkout('-b', 'm_%s_%d')", d, pi))
			res, err := r.q("call dolt_merge('" + other(d) + "')")
			if err != nil {
				if !single {
					batchErr = fmt.Sprintf("CALL dolt_merge failed for a batch (ours=%s): %v", d, err)
					break dirs
				}
				if !subs[0].dead[d] {
					subs[0].failf("merge", d, "error", "CALL dolt_merge failed: %v", err)
				}
				cleanup()
				continue dirs
			}
			anyConf := false
			for _, s := range subs {
				if len(s.c["m"].([]any)[di].(map[string]any)["conf"].([]any)) > 0 {
					anyConf = true
				}
			}
			gotConf := len(res) == 1 && fmt.Sprint(res[0][2]) == "1"
			if gotConf != anyConf {
				if single {
					if !subs[0].dead[d] {
						subs[0].failf("merge", d, "result", "dolt_merge result row %v; model: conflicts=%v", res, anyConf)
					}
				} else {
					batchErr = fmt.Sprintf("dolt_merge result row %v; model: conflicts=%v", res, anyConf)
					cleanup()
					break dirs
				}
			}
			for _, s := range subs {
				m := s.c["m"].([]any)[di].(map[string]any)
				if s.dead[d] {
					if path == "ours" || path == "theirs" {
						r.q("call dolt_conflicts_resolve('--ours', '" + s.b.Name + "')")
					}
					continue
				}
				if pi == 0 {
					s.compareBag(r, "merge", d, toBag(m["rows"]))
					if !s.dead[d] {
						s.compareKConf(r, "merge", d, m["conf"].([]any))
					}
				}
				if s.dead[d] {
					if path == "ours" || path == "theirs" {
						r.q("call dolt_conflicts_resolve('--ours', '" + s.b.Name + "')")
					}
					continue
				}
				switch path {
				case "ours", "theirs":
					if _, err := r.q("call dolt_conflicts_resolve('--" + path + "', '" + s.b.Name + "')"); err != nil {
						s.failf("path:"+path, d, "error", "dolt_conflicts_resolve --%s failed: %v", path, err)
						r.q("call dolt_conflicts_resolve('--ours', '" + s.b.Name + "')")
						continue
					}
					exp := m["resOurs"]
					if path == "theirs" {
						exp = m["resTheirs"]
					}
					s.compareBag(r, "path:"+path, d, toBag(exp))
					if !s.dead[d] {
						s.compareKConf(r, "path:"+path, d, nil)
					}
				case "manualk":
					if len(m["conf"].([]any)) > 0 {
						if _, err := r.q("delete from `dolt_conflicts_" + s.b.Name + "`"); err != nil {
							s.failf("path:manualk", d, "error", "DELETE FROM dolt_conflicts_%s failed: %v", s.b.Name, err)
							continue
						}
						s.compareBag(r, "path:manualk", d, toBag(m["rows"]))
						if !s.dead[d] {
							s.compareKConf(r, "path:manualk", d, nil)
						}
					}
				}
			}
			switch path {
			case "ours", "theirs":
				if anyConf {
					if _, err := r.q("call dolt_commit('-Am', 'merged')"); err != nil {
						if single {
							if !subs[0].dead[d] {
								subs[0].failf("path:"+path, d, "error", "dolt_commit after resolving every conflict failed: %v", err)
							}
						} else {
							batchErr = "dolt_commit after resolve failed for a batch: " + err.Error()
						}
						cleanup()
						if batchErr != "" {
							break dirs
						}
						continue
					}
					for _, s := range subs {
						if s.dead[d] {
							continue
						}
						m := s.c["m"].([]any)[di].(map[string]any)
						exp := m["resOurs"]
						if path == "theirs" {
							exp = m["resTheirs"]
						}
						s.compareBag(r, "path:"+path+":commit", d, toBag(exp))
					}
				}
			default:
				if _, err := r.q("call dolt_merge('--abort')"); err == nil {
					for _, s := range subs {
						if s.dead[d] {
							continue
						}
						m := s.c["m"].([]any)[di].(map[string]any)
						s.compareBag(r, "path:"+path+":abort", d, toBag(m["aborted"]))
						if !s.dead[d] {
							s.compareKConf(r, "path:"+path+":abort", d, nil)
						}
					}
				} else if !strings.Contains(err.Error(), "no merge to abort") {
					for _, s := range subs {
						if !s.dead[d] {
							s.failf("path:"+path, d, "error", "dolt_merge('--abort') failed: %v", err)
						}
					}
				}
				r.q("call dolt_reset('--hard')")
			}
		}
	}
	out := common.Result{}
	ok := batchErr == ""
	evals := 0
	var sr []any
	for _, s := range subs {
		evals += s.evals
		if len(s.fails) > 0 {
			ok = false
		}
		sr = append(sr, map[string]any{"i": s.i, "ok": len(s.fails) == 0, "fails": s.fails})
	}
	out["ok"], out["evals"], out["subs"] = ok, evals, sr
	if batchErr != "" {
		out["batchError"] = batchErr
	}
	if !ok {
		out["sqltail"] = r.tail(60)
	}
	return out
}
