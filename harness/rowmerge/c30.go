package main

import (
	"context"
	"fmt"
	"math/rand"
	"os"
	"sort"
	"strings"

	"github.com/dolthub/dolt/go/libraries/doltcore/doltdb"
	"github.com/dolthub/dolt/go/libraries/doltcore/doltdb/durable"
	"github.com/dolthub/dolt/go/libraries/doltcore/merge"
	"github.com/dolthub/dolt/go/libraries/doltcore/ref"
	"github.com/dolthub/dolt/go/libraries/doltcore/sqle/dsess"
	"github.com/dolthub/dolt/go/libraries/doltcore/table/editor"
	"github.com/dolthub/dolt/go/store/prolly/tree"
	"github.com/dolthub/dolt/go/store/val"
	"github.com/dolthub/dolt/go/zz_verif/common"
	"github.com/dolthub/dolt/go/zz_verif/sqlh"
)

// ---------------------------------------------------------------------------------------------------------------
// c30 mode: every sub-case is run on TWO tables with identical data
//   f<i>  (pk, c1, c2, pad)                 - qualifies for the chunk-level fast merge (canFastMergeProllyTrees)
//   s<i>  (pk, c1, c2, pad, KEY idx_c1(c1)) - a non-unique secondary index forces the row-by-row ThreeWayDiffer path
// Amplification (mechanical): model key k stands for the block of R consecutive primary keys [k*BLK, k*BLK+R), all
// carrying the model row; F filler rows (never edited) surround the blocks so that the trees have several levels and
// unchanged chunks are shared by base, left and right. One model edit therefore adds / removes / rewrites whole chunks.
// Compared: rows of f and s (equal to each other and to the amplified model), dolt_conflicts_<t>, dolt_conflicts,
// merge.MergeStats of both tables from merge.MergeCommits (the function dolt_merge calls), dolt_diff_stat.
// ---------------------------------------------------------------------------------------------------------------

const blk = 100000

type amp struct {
	R       int
	F       int
	seed    int64
	scatter bool          // model keys are bound to rows at chosen positions of three consecutive leaf chunks
	pks     map[int][]int // scatter: model key -> concrete primary keys
	layout  string        // scatter: the chosen leaves and positions (for messages)
	filler []string // rendered filler rows "pk|c1|c2|pad"
	fsql   []string // VALUES tuples of the filler
}

type c30sub struct {
	*sub
	a     amp
	names [2]string // fast, slow
}

func padOf(pk int) string {
	return fmt.Sprintf("p%d-%s", pk, strings.Repeat("x", pk%23))
}

func (s *c30sub) buildFiller() {
	rng := rand.New(rand.NewSource(s.a.seed))
	seen := map[int]bool{}
	var pks []int
	if s.a.scatter {
		for pk := 1; pk <= s.a.F; pk++ {
			pks = append(pks, pk)
		}
	}
	for len(pks) < s.a.F {
		g := rng.Intn(3) // below key 1, between, above key 2
		pk := g*blk + s.a.R + 1 + rng.Intn(blk-s.a.R-2)
		if g == 0 {
			pk = 1 + rng.Intn(blk-2)
		}
		if seen[pk] {
			continue
		}
		seen[pk] = true
		pks = append(pks, pk)
	}
	sort.Ints(pks)
	for _, pk := range pks {
		v1, v2 := rng.Intn(4), rng.Intn(4)
		if s.a.scatter {
			v1, v2 = 1+rng.Intn(3), 1+rng.Intn(3) // fixed-width cells: updates never move a chunk boundary
		}
		s.a.filler = append(s.a.filler, fmt.Sprintf("%d|%s|%s|%s", pk, s.b.out(1, v1, false), s.b.out(2, v2, false), padOf(pk)))
		s.a.fsql = append(s.a.fsql, fmt.Sprintf("(%d, %s, %s, '%s')", pk, s.b.lit(1, v1, false), s.b.lit(2, v2, false), padOf(pk)))
	}
}

// keyPks: the concrete primary keys a model key stands for
func (s *c30sub) keyPks(k int) []int {
	if s.a.scatter {
		return s.a.pks[k]
	}
	out := make([]int, s.a.R)
	for j := range out {
		out[j] = k*blk + j
	}
	return out
}

func inList(pks []int) string {
	parts := make([]string, len(pks))
	for i, p := range pks {
		parts[i] = fmt.Sprint(p)
	}
	return "(" + strings.Join(parts, ", ") + ")"
}

// leaves: the primary keys of every leaf chunk of the table's clustered index, read from the session's working root
func leaves(srv *sqlh.Server, ss *sqlh.Session, table string) ([][]int, error) {
	sqlCtx, err := srv.Eng.NewContext(context.Background(), ss.Sess)
	if err != nil {
		return nil, err
	}
	sqlCtx.SetCurrentDatabase(srv.DB)
	roots, ok := dsess.DSessFromSess(ss.Sess).GetRoots(sqlCtx, srv.DB)
	if !ok {
		return nil, fmt.Errorf("no roots")
	}
	tbl, ok, err := roots.Working.GetTable(sqlCtx, doltdb.TableName{Name: table})
	if err != nil || !ok {
		return nil, fmt.Errorf("table %s: %v", table, err)
	}
	idx, err := tbl.GetRowData(sqlCtx)
	if err != nil {
		return nil, err
	}
	m, err := durable.ProllyMapFromIndex(idx)
	if err != nil {
		return nil, err
	}
	kd := m.KeyDesc()
	var out [][]int
	err = m.WalkNodes(sqlCtx, func(_ context.Context, nd *tree.Node) error {
		if nd.IsLeaf() && nd.Count() > 0 {
			var pks []int
			for i := 0; i < nd.Count(); i++ {
				v, _ := kd.GetInt32(0, val.Tuple(nd.GetKey(i)))
				pks = append(pks, int(v))
			}
			out = append(out, pks)
		}
		return nil
	})
	return out, err
}

// scatterBind: three consecutive leaf chunks A, B, C (C not the last leaf). One model key stands for {a row of A, a row of B,
// the LAST key of C}, the other for {another row of A (first or last key of A), a non-last row of C (first key or middle)};
// B is touched by one model key only, so the other side's patch generator can climb above leaf level between A and C.
func (s *c30sub) scatterBind(lv [][]int) error {
	rng := rand.New(rand.NewSource(s.a.seed))
	var cand []int
	for i := 1; i+3 < len(lv); i++ {
		if len(lv[i]) >= 4 && len(lv[i+1]) >= 3 && len(lv[i+2]) >= 4 {
			cand = append(cand, i)
		}
	}
	if len(cand) == 0 {
		return fmt.Errorf("table has %d leaves: no three consecutive inner leaves", len(lv))
	}
	i := cand[rng.Intn(len(cand))]
	A, B, C := lv[i], lv[i+1], lv[i+2]
	mid := func(l []int) int { return l[1+rng.Intn(len(l)-2)] }
	a1 := mid(A)
	a2 := A[0]
	if rng.Intn(2) == 0 {
		a2 = A[len(A)-1]
	}
	c2 := C[0]
	if rng.Intn(2) == 0 {
		c2 = mid(C)
	}
	set1 := []int{a1, mid(B), C[len(C)-1]}
	set2 := []int{a2, c2}
	k1, k2 := 1, 2
	if rng.Intn(2) == 0 {
		k1, k2 = 2, 1
	}
	s.a.pks = map[int][]int{k1: set1, k2: set2}
	s.a.layout = fmt.Sprintf("%d leaves; A=[%d..%d] B=[%d..%d] C=[%d..%d]; key %d -> %v, key %d -> %v", len(lv), A[0], A[len(A)-1], B[0], B[len(B)-1], C[0], C[len(C)-1], k1, set1, k2, set2)
	return nil
}

func (s *c30sub) expand(t mtable) []string {
	out := append([]string{}, s.a.filler...)
	for k, r := range t {
		for _, pk := range s.keyPks(k) {
			out = append(out, fmt.Sprintf("%d|%s|%s|%s", pk, s.b.out(1, r[0], false), s.b.out(2, r[1], false), padOf(pk)))
		}
	}
	sort.Strings(out)
	return out
}

func readAmp(r *runner, name string) ([]string, error) {
	rows, err := r.ss.Query("select pk, c1, c2, pad from `" + name + "`")
	if err != nil {
		return nil, err
	}
	out := make([]string, len(rows))
	for i, row := range rows {
		out[i] = renderSQLRow(row, 0)
	}
	sort.Strings(out)
	return out, nil
}

func diffSummary(exp, got []string) string {
	em, gm := map[string]int{}, map[string]int{}
	for _, x := range exp {
		em[x]++
	}
	for _, x := range got {
		gm[x]++
	}
	var miss, extra []string
	for x := range em {
		if gm[x] < em[x] {
			miss = append(miss, x)
		}
	}
	for x := range gm {
		if em[x] < gm[x] {
			extra = append(extra, x)
		}
	}
	sort.Strings(miss)
	sort.Strings(extra)
	n := func(s []string) []string {
		if len(s) > 4 {
			return append(clip(s[:4]), fmt.Sprintf("... %d more", len(s)-4))
		}
		return clip(s)
	}
	return fmt.Sprintf("%d expected rows, %d observed; missing %v; unexpected %v", len(exp), len(got), n(miss), n(extra))
}

func (s *c30sub) insertBlock(r *runner, name string, k int, row mrow) error {
	var vals []string
	for _, pk := range s.keyPks(k) {
		vals = append(vals, fmt.Sprintf("(%d, %s, %s, '%s')", pk, s.b.lit(1, row[0], false), s.b.lit(2, row[1], false), padOf(pk)))
	}
	return insertChunks(r, name, vals)
}

func insertChunks(r *runner, name string, vals []string) error {
	for i := 0; i < len(vals); i += 400 {
		j := i + 400
		if j > len(vals) {
			j = len(vals)
		}
		if _, err := r.q("insert into `" + name + "` (pk, c1, c2, pad) values " + strings.Join(vals[i:j], ", ")); err != nil {
			return err
		}
	}
	return nil
}

func (s *c30sub) compareBoth(r *runner, stage, dir string, t mtable) {
	exp := s.expand(t)
	for _, name := range s.names {
		got, err := readAmp(r, name)
		s.evals += len(t) + 1
		if err != nil || !eqStrings(got, exp) {
			s.failf(stage, dir, "rows:"+name[:1], "table %s err=%v: %s", name, err, diffSummary(exp, got))
			return
		}
	}
}

func (s *c30sub) replaySide(r *runner, side string) {
	ops, _ := s.c[map[string]string{"L": "lops", "R": "rops"}[side]].([]any)
	for n, o := range ops {
		op := o.(map[string]any)
		k := common.Int(op["k"])
		in := inList(s.keyPks(k))
		for _, name := range s.names {
			var err error
			switch op["op"].(string) {
			case "insert":
				err = s.insertBlock(r, name, k, toRow(op["row"]))
			case "update":
				row := toRow(op["row"])
				var sets []string
				for _, c := range common.Ints(op["set"]) {
					sets = append(sets, colName(c)+" = "+s.b.lit(c, row[c-1], false))
				}
				_, err = r.q(fmt.Sprintf("update `%s` set %s where pk in %s", name, strings.Join(sets, ", "), in))
			case "delete":
				_, err = r.q(fmt.Sprintf("delete from `%s` where pk in %s", name, in))
			}
			if err != nil {
				s.failf("edit", side, "error", "statement %d of side %s on %s failed: %v", n, side, name, err)
				return
			}
		}
		s.compareBoth(r, "edit", side, toTable(op["exp"]))
		if s.dead[side] {
			return
		}
	}
}

func (s *c30sub) readConf(r *runner, name string) ([]string, error) {
	rows, err := r.q("select base_pk, base_c1, base_c2, our_pk, our_c1, our_c2, our_diff_type, their_pk, their_c1, their_c2, their_diff_type from `dolt_conflicts_" + name + "`")
	if err != nil {
		return nil, err
	}
	out := make([]string, len(rows))
	for i, row := range rows {
		out[i] = renderSQLRow(row, 0)
	}
	sort.Strings(out)
	return out, nil
}

func (s *c30sub) expConf(conf []any) []string {
	var out []string
	for _, cf := range conf {
		m := cf.(map[string]any)
		k := common.Int(m["k"])
		for _, pk := range s.keyPks(k) {
			side := func(row mrow) string {
				if len(row) == 0 {
					return "NULL|NULL|NULL"
				}
				return fmt.Sprintf("%d|%s|%s", pk, s.b.out(1, row[0], false), s.b.out(2, row[1], false))
			}
			out = append(out, side(toRow(m["base"]))+"|"+side(toRow(m["ours"]))+"|"+m["odt"].(string)+"|"+side(toRow(m["theirs"]))+"|"+m["tdt"].(string))
		}
	}
	sort.Strings(out)
	return out
}

type mstats struct {
	Op                                 string
	Adds, Mods, Dels, Confs, Violations int
}

func (m mstats) String() string {
	return fmt.Sprintf("{op=%s adds=%d mods=%d dels=%d conflicts=%d}", m.Op, m.Adds, m.Mods, m.Dels, m.Confs)
}

func opName(o merge.TableMergeOp) string {
	switch o {
	case merge.TableUnmodified:
		return "unmodified"
	case merge.TableAdded:
		return "added"
	case merge.TableRemoved:
		return "removed"
	}
	return "modified"
}

// mergeStats runs merge.MergeCommits (what dolt_merge's executeMerge calls) on the two branch heads; nothing is written.
func mergeStats(srv *sqlh.Server, ss *sqlh.Session, ours, theirs string) (map[string]mstats, error) {
	sqlCtx, err := srv.Eng.NewContext(context.Background(), ss.Sess)
	if err != nil {
		return nil, err
	}
	sqlCtx.SetCurrentDatabase(srv.DB)
	ds := dsess.DSessFromSess(ss.Sess)
	ddb, ok := ds.GetDoltDB(sqlCtx, srv.DB)
	if !ok {
		return nil, fmt.Errorf("no dolt db")
	}
	oc, err := ddb.ResolveCommitRef(sqlCtx, ref.NewBranchRef(ours))
	if err != nil {
		return nil, err
	}
	tc, err := ddb.ResolveCommitRef(sqlCtx, ref.NewBranchRef(theirs))
	if err != nil {
		return nil, err
	}
	tr, err := dsess.GetTableResolver(sqlCtx, srv.DB)
	if err != nil {
		return nil, err
	}
	res, err := merge.MergeCommits(sqlCtx, tr, oc, tc, editor.Options{})
	if err != nil {
		return nil, err
	}
	out := map[string]mstats{}
	for n, st := range res.Stats {
		out[n.Name] = mstats{opName(st.Operation), st.Adds, st.Modifications, st.Deletes, st.DataConflicts, st.ConstraintViolations}
	}
	return out, nil
}

var _ = doltdb.TableName{}

func (s *c30sub) mult() int {
	if s.a.scatter {
		return -1 // model keys stand for sets of different sizes: statistics are compared between the two tables only
	}
	return s.a.R
}

// weightedStats: the model's statistics with every model key counted as many times as it has concrete rows
func (s *c30sub) weightedStats(m map[string]any, fastPath bool) mstats {
	st := m["stats"].(map[string]any)
	out := mstats{Op: st["op"].(string)}
	if out.Op == "unmodified" {
		return out
	}
	for i, o := range m["ops"].([]any) {
		n := len(s.keyPks(i + 1))
		switch o.(string) {
		case "rightAdd":
			out.Adds += n
		case "rightModify", "divergentModifyResolved":
			out.Mods += n
		case "rightDelete", "divergentDeleteResolved":
			out.Dels += n
		case "divergentModifyConflict", "divergentDeleteConflict":
			out.Confs += n
		}
	}
	if fastPath {
		out.Adds, out.Mods, out.Dels = 0, 0, 0
	}
	return out
}

func modelStats(m map[string]any, key string, R int) mstats {
	st := m[key].(map[string]any)
	return mstats{Op: st["op"].(string), Adds: R * common.Int(st["adds"]), Mods: R * common.Int(st["mods"]), Dels: R * common.Int(st["dels"]), Confs: R * common.Int(st["confs"])}
}

func runC30(c map[string]any) common.Result {
	dir, _ := os.MkdirTemp(os.Getenv("VERIF_WORK"), "rm-c30-")
	defer os.RemoveAll(dir)
	srv, err := sqlh.NewRepoServer(dir, "db")
	if err != nil {
		return common.Result{"ok": false, "fp": "setup", "detail": err.Error()}
	}
	defer srv.Close()
	ss, err := srv.NewSession("s")
	if err != nil {
		return common.Result{"ok": false, "fp": "setup", "detail": err.Error()}
	}
	r := &runner{ss: ss}
	var subs []*c30sub
	for i, m := range c["subs"].([]any) {
		mm := m.(map[string]any)
		s := &c30sub{sub: newSub(i, mm)}
		am := mm["amp"].(map[string]any)
		s.a = amp{R: common.Int(am["R"]), F: common.Int(am["F"]), seed: int64(common.Int(am["seed"])), scatter: am["scatter"] == true}
		s.names = [2]string{"f" + s.b.Name, "s" + s.b.Name}
		s.buildFiller()
		subs = append(subs, s)
	}
	single := len(subs) == 1
	r.must("set @@dolt_allow_commit_conflicts = 1")
	r.must("create table zz_marker (id int primary key)")
	for _, s := range subs {
		for ni, name := range s.names {
			q := "create table `" + name + "` (pk int not null, c1 " + palettes[s.b.Types[1]].ddl + ", c2 " + palettes[s.b.Types[2]].ddl + ", pad varchar(64), primary key (pk)"
			if ni == 1 {
				q += ", key idx_c1 (c1)"
			}
			r.must(q + ")")
			if err := insertChunks(r, name, s.a.fsql); err != nil {
				panic(err)
			}
			if s.a.scatter && ni == 0 {
				lv, err := leaves(srv, ss, name)
				if err == nil {
					err = s.scatterBind(lv)
				}
				if err != nil {
					panic(fmt.Sprintf("scatter binding: %v", err))
				}
				// the chosen rows stop being filler
				chosen := map[string]bool{}
				for _, set := range s.a.pks {
					for _, pk := range set {
						chosen[fmt.Sprint(pk)] = true
					}
				}
				var keep []string
				for _, f := range s.a.filler {
					if !chosen[f[:strings.Index(f, "|")]] {
						keep = append(keep, f)
					}
				}
				s.a.filler = keep
			}
			base := toTable(s.c["base"])
			for _, k := range sortedKeys(base) {
				if s.a.scatter {
					r.must(fmt.Sprintf("update `%s` set c1 = %s, c2 = %s where pk in %s", name, s.b.lit(1, base[k][0], false), s.b.lit(2, base[k][1], false), inList(s.keyPks(k))))
					continue
				}
				if err := s.insertBlock(r, name, k, base[k]); err != nil {
					panic(err)
				}
			}
		}
		if s.a.scatter {
			r.log = append(r.log, "-- scatter binding of "+s.b.Name+": "+s.a.layout)
		}
		s.compareBoth(r, "base", "", toTable(s.c["base"]))
	}
	r.must("call dolt_commit('-Am', 'base')")
	for _, side := range []string{"L", "R"} {
		r.must("call dolt_checkout('main')")
		r.must("call dolt_checkout('-b', '" + side + "')")
		for _, s := range subs {
			if !s.dead[side] {
				s.replaySide(r, side)
			}
		}
		r.must("insert into zz_marker values (" + map[string]string{"L": "1", "R": "2"}[side] + ")")
		r.must("call dolt_commit('-Am', 'side " + side + "')")
	}
	batchErr := ""
	var notes []string
dirs:
	for di, d := range []string{"L", "R"} {
		// internal statistics of both paths
		st, err := mergeStats(srv, ss, d, other(d))
		if err != nil {
			if !single {
				batchErr = fmt.Sprintf("merge.MergeCommits failed for a batch (ours=%s): %v", d, err)
				break dirs
			}
			subs[0].failf("mergecommits", d, "error", "merge.MergeCommits failed: %v", err)
			continue
		}
		for _, s := range subs {
			if s.dead[d] {
				continue
			}
			m := s.c["m"].([]any)[di].(map[string]any)
			slow, fast := st[s.names[1]], st[s.names[0]]
			if c["nostats"] == true {
				continue
			}
			expSlow := s.weightedStats(m, false)
			s.evals += 2
			if slow != expSlow {
				s.failf("stats", d, "slow", "merge.MergeStats of %s (row-level path): expected (spec) %v, observed %v", s.names[1], expSlow, slow)
				continue
			}
			if fast != slow {
				// the named deviation StatsFastPath of the spec: reported separately (soft), the comparison goes on
				expFast := s.weightedStats(m, true)
				what := "fast-differs-from-slow:other"
				if fast == expFast {
					what = "fast-differs-from-slow:adds-mods-deletes-not-counted"
				}
				s.fails = append(s.fails, fail{"stats", d, what, fmt.Sprintf("merge.MergeStats differ between the two paths for identical inputs: fast path table %s %v, row-level path table %s %v", s.names[0], fast, s.names[1], slow)})
			}
		}
		r.must("call dolt_checkout('" + d + "')")
		r.must("call dolt_checkout('-b', 'm_" + d + "')")
		res, err := r.q("call dolt_merge('" + other(d) + "')")
		if err != nil {
			if !single {
				batchErr = fmt.Sprintf("CALL dolt_merge failed for a batch (ours=%s): %v", d, err)
				break dirs
			}
			if !subs[0].dead[d] {
				subs[0].failf("merge", d, "error", "CALL dolt_merge failed: %v", err)
			}
			r.q("call dolt_merge('--abort')")
			r.q("call dolt_reset('--hard')")
			continue
		}
		anyConf := false
		for _, s := range subs {
			if len(s.c["m"].([]any)[di].(map[string]any)["conf"].([]any)) > 0 {
				anyConf = true
			}
		}
		if gotConf := len(res) == 1 && fmt.Sprint(res[0][2]) == "1"; gotConf != anyConf {
			notes = append(notes, fmt.Sprintf("dolt_merge result row %v; model: conflicts=%v", res, anyConf))
		}
		for _, s := range subs {
			if s.dead[d] {
				continue
			}
			m := s.c["m"].([]any)[di].(map[string]any)
			s.compareBoth(r, "merge", d, toTable(m["rows"]))
			if s.dead[d] {
				continue
			}
			exp := s.expConf(m["conf"].([]any))
			var both [2][]string
			for ni, name := range s.names {
				got, err := s.readConf(r, name)
				both[ni] = got
				s.evals += len(m["conf"].([]any)) + 1
				if err != nil || !eqStrings(got, exp) {
					s.failf("merge", d, "conflicts:"+name[:1], "dolt_conflicts_%s err=%v: %s", name, err, diffSummary(exp, got))
					break
				}
				rows, err := r.q("select num_conflicts from dolt_conflicts where `table` = '" + name + "'")
				n := 0
				if err == nil && len(rows) > 0 {
					n = int(rows[0][0].(int64))
				}
				s.evals++
				if err != nil || n != len(exp) {
					s.failf("merge", d, "summary:"+name[:1], "dolt_conflicts.num_conflicts of %s: expected %d, observed %d %v", name, len(exp), n, err)
					break
				}
			}
		}
		// user-visible statistics: dolt_diff_stat between our head and the merge result (what `dolt merge` prints)
		if !anyConf {
			for _, s := range subs {
				if s.dead[d] || s.a.scatter {
					continue
				}
				m := s.c["m"].([]any)[di].(map[string]any)
				us := m["ustats"].(map[string]any)
				exp := fmt.Sprintf("%d|%d|%d", s.a.R*common.Int(us["adds"]), s.a.R*common.Int(us["dels"]), s.a.R*common.Int(us["mods"]))
				for _, name := range s.names {
					rows, err := r.q("select rows_added, rows_deleted, rows_modified from dolt_diff_stat('" + d + "', 'm_" + d + "', '" + name + "')")
					got := "0|0|0"
					if err == nil && len(rows) > 0 {
						got = renderSQLRow(rows[0], 0)
					}
					s.evals++
					if err != nil || got != exp {
						s.failf("merge", d, "diffstat:"+name[:1], "dolt_diff_stat(%s..merge, %s) added|deleted|modified: expected %s, observed %s %v", d, name, exp, got, err)
						break
					}
				}
			}
		}
		r.q("call dolt_merge('--abort')")
		r.q("call dolt_reset('--hard')")
	}
	out := common.Result{}
	ok := batchErr == ""
	evals := 0
	var sr []any
	for _, s := range subs {
		evals += s.evals
		if len(s.fails) > 0 {
			ok = false
		}
		sr = append(sr, map[string]any{"i": s.i, "ok": len(s.fails) == 0, "fails": s.fails})
	}
	out["ok"], out["evals"], out["subs"], out["notes"] = ok, evals, sr, notes
	if batchErr != "" {
		out["batchError"] = batchErr
	}
	if !ok {
		out["sqltail"] = r.tail(40)
	}
	return out
}
