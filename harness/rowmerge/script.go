package main

import (
	"fmt"
	"os"
	"time"

	"github.com/dolthub/dolt/go/zz_verif/common"
	"github.com/dolthub/dolt/go/zz_verif/sqlh"
)

// script mode: case = {"stmts": ["sql", ...]}; every statement is run on one session of a fresh repository and
// its rows or error are returned verbatim. Used for exploration and for --replay of hand-written repros.
func runScript(c map[string]any) common.Result {
	dir, _ := os.MkdirTemp(os.Getenv("VERIF_WORK"), "rm-script-")
	defer os.RemoveAll(dir)
	srv, err := sqlh.NewRepoServer(dir, "db")
	if err != nil {
		return common.Result{"ok": false, "fp": "setup", "detail": err.Error()}
	}
	defer srv.Close()
	ss, err := srv.NewSession("s")
	if err != nil {
		return common.Result{"ok": false, "fp": "setup", "detail": err.Error()}
	}
	var out []any
	for _, q := range c["stmts"].([]any) {
		t := time.Now()
		rows, err := ss.Query(q.(string))
		e := ""
		if err != nil {
			e = err.Error()
		}
		out = append(out, map[string]any{"q": q, "rows": sqlh.RowsString(rows, false), "err": e, "ms": fmt.Sprintf("%.1f", float64(time.Since(t).Microseconds())/1000)})
	}
	return common.Result{"ok": true, "out": out}
}
