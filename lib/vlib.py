"""Shared machinery for /verif checks: TLC runs, behaviour export, Go engine builds (via -overlay,
nothing is ever written to /repo), evidence files, verdict rules.

Verdict rule (DESIGN.md section 1): a VIOLATION comes only from real-code behaviour that was reproduced.
Model-level problems, build errors, timeouts => Inconclusive (exit 2).
"""
import hashlib
import json
import os
import random
import re
import shutil
import subprocess
import sys
import tempfile
import time

VERIF = os.path.dirname(os.path.dirname(os.path.abspath(__file__)))
REPO = os.environ.get("VERIF_REPO", "/repo")
REPO_GO = os.path.join(REPO, "go")
GO_TOOLCHAIN = "/root/go/pkg/mod/golang.org/toolchain@v0.0.1-go1.26.2.linux-amd64/bin"
TLA_CP = "/opt/veriftools/tla/tla2tools.jar:/opt/veriftools/tla/CommunityModules-deps.jar"
NCPU = os.cpu_count() or 4


class _RC:
    def __init__(self, rc):
        self.returncode = rc


class _PoolOfProcs:
    """Run the given commands with at most `conc` alive at a time; outputs() yields (stdout, returncode) in command order."""

    def __init__(self, cmds, cwd, conc):
        self.cmds, self.cwd, self.conc = cmds, cwd, conc

    def outputs(self, t_end, on_timeout):
        import tempfile as _tf
        files = [_tf.TemporaryFile(mode="w+") for _ in self.cmds]
        running, nxt, done = {}, 0, {}
        try:
            while len(done) < len(self.cmds):
                while nxt < len(self.cmds) and len(running) < self.conc:
                    running[nxt] = subprocess.Popen(self.cmds[nxt], cwd=self.cwd, stdout=files[nxt], stderr=subprocess.STDOUT, text=True)
                    nxt += 1
                for i, p in list(running.items()):
                    if p.poll() is not None:
                        done[i] = p.returncode
                        del running[i]
                if time.time() > t_end:
                    raise on_timeout()
                if running:
                    time.sleep(0.2)
        finally:
            for p in running.values():
                p.kill()
        for i in range(len(self.cmds)):
            files[i].seek(0)
            yield files[i].read(), done[i]
            files[i].close()


def default_workers():
    """TLC worker count: VERIF_TLC_WORKERS, else /verif/.work/tlc_workers (a local, uncommitted throttle used while many
    builders share the machine), else all cores (max 16)."""
    v = os.environ.get("VERIF_TLC_WORKERS")
    if not v:
        try:
            v = open(os.path.join(VERIF, ".work", "tlc_workers")).read().strip()
        except Exception:
            v = ""
    try:
        return max(1, min(int(v), NCPU))
    except Exception:
        return min(NCPU, 16)


def max_shards():
    """Upper bound on parallel engine processes: VERIF_MAX_SHARDS, else /verif/.work/max_shards (local throttle), else all cores."""
    v = os.environ.get("VERIF_MAX_SHARDS")
    if not v:
        try:
            v = open(os.path.join(VERIF, ".work", "max_shards")).read().strip()
        except Exception:
            v = ""
    try:
        return max(1, int(v))
    except Exception:
        return NCPU


def default_heap():
    """JVM heap for exhaustive TLC runs: VERIF_TLC_HEAP, else /verif/.work/tlc_heap (local throttle), else 8g."""
    v = os.environ.get("VERIF_TLC_HEAP")
    if not v:
        try:
            v = open(os.path.join(VERIF, ".work", "tlc_heap")).read().strip()
        except Exception:
            v = ""
    return v or "8g"


class Inconclusive(Exception):
    pass


def go_env():
    e = dict(os.environ)
    e["PATH"] = GO_TOOLCHAIN + ":" + e.get("PATH", "")
    # scratch worktrees (VERIF_REPO=...) build with -trimpath so that they share one build cache instead of recompiling
    # the whole module per directory; /repo itself is built as it is
    flags = "-mod=mod" if os.path.realpath(REPO) == "/repo" else "-mod=mod -trimpath"
    e.update(GOTOOLCHAIN="local", GOFLAGS=flags, GOPROXY="off", GOSUMDB="off", CGO_ENABLED=e.get("CGO_ENABLED", "1"))
    return e


def sh(cmd, cwd=None, env=None, timeout=None, input=None, check=False):
    p = subprocess.run(cmd, cwd=cwd, env=env, timeout=timeout, input=input, stdout=subprocess.PIPE,
                       stderr=subprocess.STDOUT, text=True, shell=isinstance(cmd, str))
    if check and p.returncode != 0:
        raise Inconclusive("command failed (%d): %s\n%s" % (p.returncode, cmd, p.stdout[-4000:]))
    return p.returncode, p.stdout


class Ctx:
    def __init__(self, pid, tier, seed, level, replay=None):
        self.id = pid
        self.tier = tier
        self.seed = seed
        self.level = level
        self.replay = replay
        self.t0 = time.time()
        self.rng = random.Random(seed * 1000003 + int(pid[1:]))
        self.work = tempfile.mkdtemp(prefix="verif-%s-" % pid)
        self.cov = {"states": 0, "transitions": 0, "traces_validated_against_impl": 0, "evaluations": 0,
                    "distinct_nontrivial": 0, "samples": [], "rule": "", "tlc_runs": [], "exhaustive": False}
        self.assumptions = []
        self.notes = []
        self.violations = []
        self.known_hits = []
        self._nontrivial = set()
        self.replay_dir = os.path.join(VERIF, "replays", pid)
        if replay is None:
            shutil.rmtree(self.replay_dir, ignore_errors=True)
        self.known = load_known().get(pid, [])
        self.dev_skip = False

    # ---------------------------------------------------------------- properties of the tier
    def q(self, quick, thorough):
        return quick if self.tier == "quick" else thorough

    def log(self, *a):
        print("[%s %6.1fs]" % (self.id, time.time() - self.t0), *a, flush=True)

    # ---------------------------------------------------------------- TLC
    def _spec_dir(self):
        d = os.path.join(self.work, "spec")
        if not os.path.isdir(d):
            shutil.copytree(os.path.join(VERIF, "spec"), d)
        return d

    def tlc_check(self, module, cfg, workers=None, timeout=1800, coverage=False, require_actions=None,
                  heap=None, extra_args=(), record=True, deadlock=False):
        """Exhaustive TLC run. A model-level violation is Inconclusive (it is about the spec)."""
        if os.environ.get("VERIF_DEV_SKIP_TLC") == "1":
            # development aid only: the run can then never be a pass (finish() returns 2) and writes no evidence
            self.dev_skip = True
            self.log("DEV: skipping exhaustive TLC run %s/%s" % (module, cfg))
            return {"module": module, "cfg": cfg, "generated": 0, "distinct": 0, "depth": 0, "wall_s": 0, "rc": 0, "out": "", "actions": {}}
        d = self._spec_dir()
        md = tempfile.mkdtemp(prefix="md-", dir=self.work)
        cmd = ["java", "-XX:+UseParallelGC", "-Xss256m"]
        cmd.append("-Xmx" + (heap or default_heap()))
        cmd += ["-cp", TLA_CP, "tlc2.TLC", "-workers", str(workers or default_workers()), "-metadir", md,
                "-config", os.path.join("cfg", cfg), "-noGenerateSpecTE"]
        if not deadlock:
            cmd.append("-deadlock")
        if coverage:
            cmd += ["-coverage", "1"]
        cmd += list(extra_args) + [module]
        t = time.time()
        try:
            rc, out = sh(cmd, cwd=d, timeout=timeout)
        except subprocess.TimeoutExpired:
            raise Inconclusive("TLC timeout on %s/%s" % (module, cfg))
        finally:
            shutil.rmtree(md, ignore_errors=True)
        m = re.search(r"(\d+) states generated, (\d+) distinct states found", out)
        dm = re.search(r"The depth of the complete state graph search is (\d+)", out)
        res = {"module": module, "cfg": cfg, "generated": int(m.group(1)) if m else 0,
               "distinct": int(m.group(2)) if m else 0, "depth": int(dm.group(1)) if dm else 0,
               "wall_s": round(time.time() - t, 1), "rc": rc}
        ok = rc == 0 and "Model checking completed. No error has been found." in out
        if not ok:
            p = os.path.join(VERIF, "replays", self.id)
            os.makedirs(p, exist_ok=True)
            with open(os.path.join(p, "tlc-%s.out" % cfg), "w") as f:
                f.write(out)
            raise Inconclusive("TLC reports a model-level error for %s/%s (saved to replays/%s/tlc-%s.out):\n%s"
                               % (module, cfg, self.id, cfg, out[-3000:]))
        if coverage or require_actions:
            res["actions"] = parse_coverage(out)
            for a in (require_actions or []):
                if res["actions"].get(a, 0) == 0:
                    raise Inconclusive("vacuity: action %s never taken in %s/%s" % (a, module, cfg))
        if record:
            self.cov["states"] += res["distinct"]
            self.cov["transitions"] += res["generated"]
            self.cov["tlc_runs"].append({k: res[k] for k in ("module", "cfg", "generated", "distinct", "depth", "wall_s")})
        self.log("TLC %s/%s: %d generated, %d distinct, depth %d, %.1fs" %
                 (module, cfg, res["generated"], res["distinct"], res["depth"], res["wall_s"]))
        res["out"] = out
        return res

    def tlc_behaviours(self, module, cfg, num, depth, seed=None, timeout=1800, procs=None, aril=0):
        """Simulation-mode TLC; the spec's CONSTRAINT prints ToJson(hist) for finished behaviours.
        Returns de-duplicated behaviours (lists of step records)."""
        d = self._spec_dir()
        seed = self.seed if seed is None else seed
        # The number of seed streams is FIXED (8 unless the caller asks otherwise) so that the generated behaviours do not depend
        # on the machine or on the local throttle; only the number of streams running at the same time is throttled.
        procs = procs or 8
        conc = max(1, min(procs, default_workers()))
        per = (num + procs - 1) // procs
        cmds = []
        for i in range(procs):
            md = tempfile.mkdtemp(prefix="md-", dir=self.work)
            cmds.append(["java", "-XX:+UseParallelGC", "-Xss256m", "-Xmx2g", "-cp", TLA_CP, "tlc2.TLC", "-workers", "1",
                         "-metadir", md, "-config", os.path.join("cfg", cfg), "-deadlock", "-noGenerateSpecTE",
                         "-simulate", "num=%d" % per, "-depth", str(depth), "-seed", str(seed * 7919 + i * 104729 + 17), module])
        ps = _PoolOfProcs(cmds, d, conc)
        out = []
        seen = set()
        t_end = time.time() + timeout
        for o, rc in ps.outputs(t_end, lambda: Inconclusive("TLC simulate timeout on %s/%s" % (module, cfg))):
            p = _RC(rc)
            if "Error:" in o and "states generated" not in o.split("Error:")[-1] and p.returncode != 0:
                raise Inconclusive("TLC simulate error on %s/%s:\n%s" % (module, cfg, o[-3000:]))
            for line in o.splitlines():
                if line.startswith('"[') or line.startswith('"{'):
                    try:
                        b = json.loads(json.loads(line))
                    except Exception:
                        continue
                    h = hashlib.sha1(json.dumps(b, sort_keys=True).encode()).hexdigest()
                    if h not in seen:
                        seen.add(h)
                        out.append(b)
        if not out:
            raise Inconclusive("TLC simulate produced no behaviours for %s/%s" % (module, cfg))
        self.log("TLC simulate %s/%s: %d distinct behaviours (requested %d, depth %d)" % (module, cfg, len(out), num, depth))
        return out

    def tlc_trace_validate(self, module, cfg, trace_path, timeout=600, trace_name="trace.ndjson"):
        """Validate one ndjson trace (possibly a concatenation with Reset events) against a Trace spec.
        Returns (accepted, matched, total, output). The Trace spec must print 'TRACE_MATCHED <n>'."""
        d = self._spec_dir()
        shutil.copy(trace_path, os.path.join(d, trace_name))
        md = tempfile.mkdtemp(prefix="md-", dir=self.work)
        env = dict(os.environ)
        cmd = ["java", "-XX:+UseParallelGC", "-Xss256m", "-Dtlc2.tool.queue.IStateQueue=StateDeque", "-cp", TLA_CP,
               "tlc2.TLC", "-workers", "1", "-metadir", md, "-config", os.path.join("cfg", cfg), "-deadlock",
               "-noGenerateSpecTE", module]
        try:
            rc, out = sh(cmd, cwd=d, timeout=timeout, env=env)
        except subprocess.TimeoutExpired:
            raise Inconclusive("TLC trace validation timeout")
        finally:
            shutil.rmtree(md, ignore_errors=True)
        total = sum(1 for _ in open(trace_path))
        m = re.findall(r"TRACE_MATCHED (\d+)", out)
        matched = max([int(x) for x in m]) if m else -1
        inv_viol = "Invariant" in out and "is violated" in out
        accepted = (rc == 0 and matched == total and not inv_viol)
        return accepted, matched, total, out

    # ---------------------------------------------------------------- Go engines
    def overlay(self, mapping):
        p = os.path.join(self.work, "overlay-%d.json" % len(os.listdir(self.work)))
        with open(p, "w") as f:
            json.dump({"Replace": mapping}, f)
        return p

    def build_engine(self, name, tags="verif"):
        """Build /verif/harness/<name>/*.go as package main inside /repo/go (overlay at go/zz_verif/<name>)."""
        src = os.path.join(VERIF, "harness", name)
        mapping = {}
        for root, _, files in os.walk(src):
            for fn in files:
                if fn.endswith(".go"):
                    rel = os.path.relpath(os.path.join(root, fn), src)
                    mapping[os.path.join(REPO_GO, "zz_verif", name, rel)] = os.path.join(root, fn)
        mapping.update(shared_mapping())
        ov = self.overlay(mapping)
        out = os.path.join(self.work, "engine-" + name)
        t = time.time()
        rc, o = sh(["go", "build", "-tags", tags, "-overlay", ov, "-o", out, "./zz_verif/" + name], cwd=REPO_GO,
                   env=go_env(), timeout=3600)
        if rc != 0:
            raise Inconclusive("engine %s does not build against the current tree:\n%s" % (name, o[-4000:]))
        self.log("built engine %s in %.1fs" % (name, time.time() - t))
        return out

    def build_inpkg(self, pkg, engine, tags="verif"):
        """Compile the test binary of /repo/go/<pkg> with /verif/inpkg/<pkg>/<engine>/*.go injected (overlay).
        Several engines may target the same package; each lives in its own sub-directory and is built alone.
        Run the result with run_engine(..., test_run="TestVerifXxx")."""
        src = os.path.join(VERIF, "inpkg", pkg, engine)
        mapping = {}
        for fn in os.listdir(src):
            if fn.endswith(".go"):
                dst = os.path.join(REPO_GO, pkg, fn)
                if os.path.exists(dst):
                    raise Inconclusive("overlay would shadow an existing file: " + dst)
                mapping[dst] = os.path.join(src, fn)
        mapping.update(shared_mapping())
        ov = self.overlay(mapping)
        out = os.path.join(self.work, "inpkg-" + pkg.replace("/", "_") + "-" + engine + ".test")
        t = time.time()
        rc, o = sh(["go", "test", "-c", "-vet=off", "-tags", tags, "-overlay", ov, "-o", out, "./" + pkg], cwd=REPO_GO,
                   env=go_env(), timeout=3600)
        if rc != 0:
            raise Inconclusive("in-package engine %s/%s does not build against the current tree:\n%s" % (pkg, engine, o[-4000:]))
        self.log("built in-package engine %s/%s in %.1fs" % (pkg, engine, time.time() - t))
        return out

    def binding_selftest(self, binary, good_case, corrupt, args=(), test_run=None, env=None):
        """Binding demonstration: the engine must accept good_case and reject corrupt(good_case)
        (one expected field changed / one step dropped). Otherwise the check is Inconclusive."""
        import copy
        good = copy.deepcopy(good_case)
        bad = corrupt(copy.deepcopy(good_case))
        r = self.run_engine(binary, args, [good, bad], shards=1, test_run=test_run, env=env)
        if not r[0].get("ok"):
            return  # the real run will report it
        if r[1].get("ok"):
            raise Inconclusive("binding self-test failed: engine accepted a corrupted expectation")
        self.cov["binding_selftest"] = "corrupted expectation rejected: " + str(r[1].get("fp") or r[1].get("detail", ""))[:200]

    def run_engine(self, binary, args, cases, shards=None, timeout=3600, env=None, test_run=None):
        """Feed cases (JSON objects, one per line) to the engine in `shards` parallel processes.
        The engine writes one JSON result per case: {"n":i,"ok":bool,...}. Returns the list of results
        ordered by n. A crashed/timeouted engine is Inconclusive unless it reported a violation for the case."""
        shards = shards or min(NCPU, max(1, len(cases) // 4))
        shards = max(1, min(shards, len(cases), max_shards()))
        for i, c in enumerate(cases):
            c["n"] = i
        procs = []
        for s in range(shards):
            part = cases[s::shards]
            inp = os.path.join(self.work, "in-%s-%d-%d.ndjson" % (os.path.basename(binary), s, random.randrange(1 << 30)))
            outp = inp.replace("in-", "out-")
            with open(inp, "w") as f:
                for c in part:
                    f.write(json.dumps(c) + "\n")
            e = go_env()
            e.update(env or {})
            e.update(VERIF_IN=inp, VERIF_OUT=outp, VERIF_SEED=str(self.seed), VERIF_TIER=self.tier,
                     VERIF_WORK=self.work)
            if test_run:
                cmd = [binary, "-test.run", "^" + test_run + "$", "-test.timeout", "0", "-test.count", "1"] + list(args)
            else:
                cmd = [binary] + list(args)
            lf = open(outp + ".log", "w")
            procs.append((subprocess.Popen(cmd, env=e, stdout=lf, stderr=subprocess.STDOUT, cwd=self.work), inp, outp, part, lf))
        results = {}
        t_end = time.time() + timeout
        for p, inp, outp, part, lf in procs:
            try:
                p.wait(timeout=max(1, t_end - time.time()))
            except subprocess.TimeoutExpired:
                p.kill()
                p.wait()
            lf.close()
            got = 0
            if os.path.exists(outp):
                for line in open(outp):
                    line = line.strip()
                    if not line:
                        continue
                    try:
                        r = json.loads(line)
                    except Exception:
                        continue
                    results[r["n"]] = r
                    got += 1
            if p.returncode != 0 or got != len(part):
                tail = open(outp + ".log").read()[-3000:]
                missing = [c["n"] for c in part if c["n"] not in results]
                # the case being executed when the engine died
                for n in missing[:1]:
                    # killed by a signal (OOM killer, timeout kill, operator) is the environment, not behaviour of dolt
                    results[n] = {"n": n, "ok": False, "crash": True, "signal": (p.returncode or 0) < 0,
                                  "detail": "engine exited rc=%s before answering; log tail:\n%s" % (p.returncode, tail)}
                for n in missing[1:]:
                    results[n] = {"n": n, "ok": None, "skipped": True}
        return [results[i] for i in range(len(cases))]

    # ---------------------------------------------------------------- verdicts
    def nontrivial(self, key):
        self._nontrivial.add(key)

    def sample(self, obj, limit=3):
        if len(self.cov["samples"]) < limit:
            self.cov["samples"].append(obj)

    def save_replay(self, obj):
        os.makedirs(self.replay_dir, exist_ok=True)
        h = hashlib.sha1(json.dumps(obj, sort_keys=True, default=str).encode()).hexdigest()[:12]
        p = os.path.join(self.replay_dir, "%d-%s.json" % (self.seed, h))
        with open(p, "w") as f:
            json.dump(obj, f, indent=1, default=str)
        return p

    def violation(self, fingerprint, what, replay_obj):
        """Report a reproduced real-code divergence. fingerprint identifies the failing input/call site/history."""
        for k in self.known:
            if k.get("status", "open") == "open" and re.search(k["fingerprint"], fingerprint):
                if k["fingerprint"] not in [x["fingerprint"] for x in self.known_hits]:
                    self.known_hits.append(k)
                return
        replay_obj = dict(replay_obj)
        replay_obj.update(property=self.id, tier=self.tier, seed=self.seed, fingerprint=fingerprint, what=what)
        p = self.save_replay(replay_obj)
        self.violations.append((fingerprint, what, p))

    def finish(self):
        self.cov["distinct_nontrivial"] = max(self.cov["distinct_nontrivial"], len(self._nontrivial))
        wall = round(time.time() - self.t0, 1)
        ev = {"property_id": self.id, "tier": self.tier, "seed": self.seed, "level": self.level,
              "coverage": self.cov, "assumptions": self.assumptions, "wall_s": wall,
              "violations": len(self.violations), "notes": self.notes,
              "known_findings_hit": [k["fingerprint"] for k in self.known_hits]}
        if self.dev_skip:
            for fp, what, p in self.violations[:20]:
                print("VIOLATION property=%s replay=%s" % (self.id, p))
                print("  " + what[:2000])
            print("DEV RUN (exhaustive TLC skipped): not a verdict; %d violations" % len(self.violations))
            shutil.rmtree(self.work, ignore_errors=True)
            return 1 if self.violations else 2
        if self.replay is None:
            # evidence/ is only ever written from runs against /repo itself; runs against a scratch worktree
            # (VERIF_REPO=..., used to try the checks on mutants) leave their evidence under .work/
            evd = os.path.join(VERIF, "evidence") if os.path.realpath(REPO) == "/repo" else os.path.join(VERIF, ".work", "mutant-evidence")
            os.makedirs(evd, exist_ok=True)
            with open(os.path.join(evd, self.id + ".json"), "w") as f:
                json.dump(ev, f, indent=1, default=str)
        for k in self.known_hits:
            print("KNOWN-FINDING: property=%s %s" % (self.id, k["what"]))
        for fp, what, p in self.violations[:20]:
            print("VIOLATION property=%s replay=%s" % (self.id, p))
            print("  " + what[:2000])
        shutil.rmtree(self.work, ignore_errors=True)
        if self.violations:
            return 1
        self.log("OK: %d evaluations, %d distinct nontrivial, %d traces/behaviours on real code, %.0fs" %
                 (self.cov["evaluations"], self.cov["distinct_nontrivial"], self.cov["traces_validated_against_impl"], wall))
        return 0

    # ---------------------------------------------------------------- generic replay driver
    def replay_behaviours(self, binary, behaviours, args=(), critical=None, fingerprint=None, shards=None,
                          test_run=None, timeout=3600, env=None, wrap=None):
        """R-mode: run each behaviour through the engine; on mismatch re-execute once; report reproduced ones.
        critical(b) -> bool marks non-trivial behaviours. fingerprint(b, r) -> str."""
        cases = [(wrap(b) if wrap else {"steps": b}) for b in behaviours]
        res = self.run_engine(binary, args, cases, shards=shards, test_run=test_run, timeout=timeout, env=env)
        bad = []
        for c, r in zip(cases, res):
            if r.get("skipped"):
                continue
            self.cov["evaluations"] += int(r.get("evals", len(c.get("steps", [])) or 1))
            for sf in (r.get("soft") or []):
                # engine kept going after a mismatch it classified as a candidate known finding
                fp = fingerprint(c, sf) if fingerprint else str(sf.get("fp"))
                self.violation(fp, sf.get("detail", ""), {"case": c, "result": sf, "reproduced": True})
            if r["ok"]:
                self.cov["traces_validated_against_impl"] += 1
                key = hashlib.sha1(json.dumps([s.get("a") if isinstance(s, dict) else s for s in c.get("steps", [c])], sort_keys=True, default=str).encode()
                                   + json.dumps(c.get("key", ""), default=str).encode()).hexdigest()
                if critical is None or critical(c, r):
                    self.nontrivial(key)
                    self.sample({"case": c, "result": {k: v for k, v in r.items() if k != "n"}})
            else:
                bad.append((c, r))
        skipped = sum(1 for r in res if r.get("skipped"))
        if skipped and not bad:
            raise Inconclusive("%d cases skipped without a failing case" % skipped)
        for c, r in bad[:10]:
            # re-execute once, alone
            r2 = self.run_engine(binary, args, [dict(c)], shards=1, test_run=test_run, timeout=timeout, env=env)[0]
            if r2.get("ok"):
                self.notes.append("unreproduced mismatch (ignored): " + json.dumps(r)[:500])
                continue
            if r2.get("signal"):
                raise Inconclusive("engine killed by a signal while re-executing a failing case (resource pressure?): " + str(r2.get("detail"))[:300])
            fp = fingerprint(c, r2) if fingerprint else (str(r2.get("fp") or r2.get("step_action") or "mismatch"))
            self.violation(fp, r2.get("detail") or json.dumps(r2)[:1500], {"case": c, "result": r2, "reproduced": True})
        if bad and not self.violations and not self.known_hits and not any("unreproduced" in n for n in self.notes):
            raise Inconclusive("mismatches vanished")
        return res


SHARED_PKGS = ("common", "sqlh")


def shared_pkgs():
    """common, sqlh and every harness/lib* directory are library packages visible to all engines."""
    hd = os.path.join(VERIF, "harness")
    return sorted(set(SHARED_PKGS) | {n for n in os.listdir(hd) if n.startswith("lib") and os.path.isdir(os.path.join(hd, n))})


def shared_mapping():
    """Library packages under /verif/harness that engines may import as github.com/dolthub/dolt/go/zz_verif/<name>."""
    m = {}
    for name in shared_pkgs():
        d = os.path.join(VERIF, "harness", name)
        if os.path.isdir(d):
            for fn in os.listdir(d):
                if fn.endswith(".go"):
                    m[os.path.join(REPO_GO, "zz_verif", name, fn)] = os.path.join(d, fn)
    return m


def parse_coverage(out):
    acts = {}
    for m in re.finditer(r"<(\w+) line \d+, col \d+ to line \d+, col \d+ of module \w+>: (\d+):(\d+)", out):
        acts[m.group(1)] = acts.get(m.group(1), 0) + int(m.group(3))
    return acts


def load_known():
    """known_findings.json plus known_findings.d/*.json (one file per property, same format)."""
    import glob
    out = {}
    paths = [os.path.join(VERIF, "known_findings.json")] + sorted(glob.glob(os.path.join(VERIF, "known_findings.d", "*.json")))
    for p in paths:
        if not os.path.exists(p):
            continue
        for k in json.load(open(p)).get("findings", []):
            out.setdefault(k["property"], []).append(k)
    return out


def main(argv):
    import argparse
    import importlib.util
    ap = argparse.ArgumentParser()
    ap.add_argument("id")
    ap.add_argument("--tier", default=os.environ.get("VERIF_TIER", "quick"), choices=["quick", "thorough"])
    ap.add_argument("--replay")
    a = ap.parse_args(argv)
    seed = int(os.environ.get("VERIF_SEED", "1"))
    modp = os.path.join(VERIF, "checks", a.id.lower() + ".py")
    if not os.path.exists(modp):
        print("no such check", a.id)
        return 2
    spec = importlib.util.spec_from_file_location("check_" + a.id, modp)
    mod = importlib.util.module_from_spec(spec)
    spec.loader.exec_module(mod)
    ctx = Ctx(a.id, a.tier, seed, mod.LEVEL, replay=a.replay)
    try:
        mod.run(ctx)
        return ctx.finish()
    except Inconclusive as e:
        print("INCONCLUSIVE property=%s: %s" % (a.id, e))
        if ctx.violations:
            return ctx.finish()
        shutil.rmtree(ctx.work, ignore_errors=True)
        return 2
    except subprocess.TimeoutExpired as e:
        print("INCONCLUSIVE property=%s: timeout %s" % (a.id, e))
        shutil.rmtree(ctx.work, ignore_errors=True)
        return 2
