// Engine E11 "replication", in-package part (injected into go/libraries/doltcore/sqle/cluster with -overlay).
//
// Drives the REAL cluster commithook (newCommitHook, Run -> replicate/tick goroutines, Execute through the real
// doltdb commit-hook plumbing, the wait functions through the real dsess.WaitForReplicationController) and a REAL
// cluster.Controller (setRoleAndEpoch: immediate / graceful transitions, waitForHooksToReplicate) between two local
// DoltDBs.  The standby's chunk store is wrapped for fault injection (down, injected failures, blocked pulls, held
// commits).  One event per critical section of /verif/spec/ClusterHook.tla is logged, most of them INSIDE h.mu through
// seams that need no change to dolt (see /verif/spec/TraceClusterHook.tla for the list); the ndjson trace is returned
// to checks/c45.py which validates it with TLC against TraceClusterHook.tla.  No verdict is computed here except
// sanity conditions of the harness itself (reported as "inconclusive").
package cluster

import (
	"context"
	"errors"
	"fmt"
	"math/rand"
	"os"
	"path/filepath"
	"runtime"
	"runtime/debug"
	"strconv"
	"strings"
	"sync"
	"sync/atomic"
	"testing"
	"time"

	"github.com/dolthub/go-mysql-server/sql"
	"github.com/sirupsen/logrus"

	"github.com/dolthub/dolt/go/libraries/doltcore/branch_control"
	"github.com/dolthub/dolt/go/libraries/doltcore/doltdb"
	"github.com/dolthub/dolt/go/libraries/doltcore/env"
	"github.com/dolthub/dolt/go/libraries/doltcore/ref"
	"github.com/dolthub/dolt/go/libraries/doltcore/sqle/dsess"
	"github.com/dolthub/dolt/go/libraries/utils/config"
	"github.com/dolthub/dolt/go/libraries/utils/filesys"
	"github.com/dolthub/dolt/go/store/chunks"
	"github.com/dolthub/dolt/go/store/datas"
	"github.com/dolthub/dolt/go/store/hash"
	"github.com/dolthub/dolt/go/store/nbs"
	"github.com/dolthub/dolt/go/store/types"
	"github.com/dolthub/dolt/go/zz_verif/common"
)

// ---------------------------------------------------------------- event log

type vrLog struct {
	mu     sync.Mutex
	events []map[string]any
	names  map[hash.Hash]string
	closed bool
	clock  int64
	seen   map[string]int
}

func (l *vrLog) nameLocked(h hash.Hash) string {
	if h.IsEmpty() {
		return "none"
	}
	if n, ok := l.names[h]; ok {
		return n
	}
	n := "h" + strconv.Itoa(len(l.names))
	l.names[h] = n
	return n
}

// add appends one event; fn (optional) runs under the log lock and may fill in fields that need interning
func (l *vrLog) add(ev string, fn func(e map[string]any, name func(hash.Hash) string)) {
	l.mu.Lock()
	defer l.mu.Unlock()
	if l.closed {
		return
	}
	e := map[string]any{"ev": ev}
	if fn != nil {
		fn(e, l.nameLocked)
	}
	l.seen[ev]++
	l.events = append(l.events, e)
}

func vrGoid() int64 {
	var buf [64]byte
	n := runtime.Stack(buf[:], false)
	s := strings.TrimPrefix(string(buf[:n]), "goroutine ")
	if i := strings.IndexByte(s, ' '); i > 0 {
		id, _ := strconv.ParseInt(s[:i], 10, 64)
		return id
	}
	return -1
}

type vrKey struct{}

func vrCallOf(ctx context.Context) string {
	if v, ok := ctx.Value(vrKey{}).(string); ok {
		return v
	}
	return ""
}

// ---------------------------------------------------------------- chunk store wrappers

type vrFull interface {
	chunks.ChunkStore
	chunks.TableFileStore
	nbs.NBSCompressedChunkStore
}

// source store: serialises root changes against root reads so that SrcCommit / ExecRead / InitRead are exact
type vrSrcStore struct {
	vrFull
	r      *vrRun
	mu     sync.RWMutex
	holdMu sync.Mutex
	hold   map[string]chan struct{} // call id -> gate that delays the return of Execute's root read
}

func (s *vrSrcStore) Commit(ctx context.Context, current, last hash.Hash) (bool, error) {
	s.mu.Lock()
	defer s.mu.Unlock()
	ok, err := s.vrFull.Commit(ctx, current, last)
	if ok && err == nil && current != last {
		x := vrCallOf(ctx)
		s.r.log.add("SrcCommit", func(e map[string]any, name func(hash.Hash) string) { e["x"] = x; e["root"] = name(current) })
	}
	return ok, err
}

func (s *vrSrcStore) Root(ctx context.Context) (hash.Hash, error) {
	g := vrGoid()
	if x, ok := s.r.execGoids.Load(g); ok {
		s.mu.RLock()
		h, err := s.vrFull.Root(ctx)
		s.r.log.add("ExecRead", func(e map[string]any, name func(hash.Hash) string) { e["x"] = x; e["root"] = name(h) })
		s.mu.RUnlock()
		s.holdMu.Lock()
		gate := s.hold[x.(string)]
		delete(s.hold, x.(string))
		s.holdMu.Unlock()
		if gate != nil {
			<-gate // a delayed goroutine between db.NomsRoot and h.mu.Lock (G-mode gate)
		}
		return h, err
	}
	if g == s.r.replGoid.Load() && s.r.replInit.Load() {
		s.mu.RLock()
		defer s.mu.RUnlock()
		h, err := s.vrFull.Root(ctx)
		s.r.log.add("InitRead", func(e map[string]any, name func(hash.Hash) string) { e["root"] = name(h) })
		s.r.replInit.Store(false)
		return h, err
	}
	return s.vrFull.Root(ctx)
}

// standby store: fault injection, exact DestCommit / HB / Fault / DestFetch events
type vrDstStore struct {
	vrFull
	r           *vrRun
	mu          sync.Mutex
	down        bool
	failCommit  int           // next n root updates report "root moved"
	failPull    int           // next n pulls fail
	block       chan struct{} // pulls wait here (or for their context)
	holdCommit  chan struct{} // a successful root update does not return before this gate opens
	commitHeld  chan struct{} // closed when a commit is being held
	cur         hash.Hash
	errDown     error
	pullEntered int64
}

func (s *vrDstStore) check() error {
	s.mu.Lock()
	defer s.mu.Unlock()
	if s.down {
		return s.errDown
	}
	return nil
}

func (s *vrDstStore) HasMany(ctx context.Context, hs hash.HashSet) (hash.HashSet, error) {
	if vrGoid() == s.r.replGoid.Load() {
		s.mu.Lock()
		blk := s.block
		fp := s.failPull > 0
		if fp {
			s.failPull--
		}
		dn := s.down
		s.mu.Unlock()
		atomic.AddInt64(&s.pullEntered, 1)
		if dn {
			return nil, s.errDown
		}
		if fp {
			return nil, errors.New("verif: injected pull failure")
		}
		if blk != nil {
			select {
			case <-blk:
			case <-ctx.Done():
				return nil, context.Cause(ctx)
			}
		}
	} else if err := s.check(); err != nil {
		return nil, err
	}
	return s.vrFull.HasMany(ctx, hs)
}

func (s *vrDstStore) AddTableFilesToManifest(ctx context.Context, m map[string]int, ga chunks.InsertAddrsCurry) error {
	if err := s.check(); err != nil {
		return err
	}
	return s.vrFull.AddTableFilesToManifest(ctx, m, ga)
}

func (s *vrDstStore) Rebase(ctx context.Context) error {
	if err := s.check(); err != nil {
		return err
	}
	return s.vrFull.Rebase(ctx)
}

func (s *vrDstStore) Root(ctx context.Context) (hash.Hash, error) {
	if vrGoid() == s.r.replGoid.Load() {
		if err := s.check(); err != nil {
			return hash.Hash{}, err
		}
	}
	return s.vrFull.Root(ctx)
}

func (s *vrDstStore) Commit(ctx context.Context, current, last hash.Hash) (bool, error) {
	s.mu.Lock()
	if s.down {
		s.mu.Unlock()
		return false, s.errDown
	}
	if err := ctx.Err(); err != nil {
		s.mu.Unlock()
		return false, context.Cause(ctx)
	}
	if current == last {
		ok, err := s.vrFull.Commit(ctx, current, last)
		s.r.log.add("HB", func(e map[string]any, name func(hash.Hash) string) { e["root"] = name(current) })
		s.mu.Unlock()
		return ok, err
	}
	if s.failCommit > 0 {
		s.failCommit--
		s.r.log.add("DestCommit", func(e map[string]any, name func(hash.Hash) string) {
			e["new"] = name(current)
			e["last"] = name(last)
			e["ok"] = false
		})
		s.mu.Unlock()
		return false, nil
	}
	ok, err := s.vrFull.Commit(ctx, current, last)
	if err != nil {
		s.mu.Unlock()
		return ok, err
	}
	if ok {
		s.cur = current
	}
	s.r.log.add("DestCommit", func(e map[string]any, name func(hash.Hash) string) {
		e["new"] = name(current)
		e["last"] = name(last)
		e["ok"] = ok
	})
	gate := s.holdCommit
	held := s.commitHeld
	s.holdCommit = nil
	s.mu.Unlock()
	if gate != nil && ok {
		close(held)
		<-gate
	}
	return ok, err
}

func (s *vrDstStore) setDown(down bool) {
	s.mu.Lock()
	defer s.mu.Unlock()
	if s.down == down {
		return
	}
	s.down = down
	s.r.log.add("Fault", func(e map[string]any, _ func(hash.Hash) string) { e["up"] = !down })
}

// ---------------------------------------------------------------- the registered commit hook: forwards to the real one

type vrHookWrap struct {
	r *vrRun
	h *commithook
}

var _ doltdb.CommitHook = (*vrHookWrap)(nil)
var _ doltdb.NotifyWaitFailedCommitHook = (*vrHookWrap)(nil)

func (w *vrHookWrap) Execute(ctx context.Context, ds datas.Dataset, db *doltdb.DoltDB) (func(context.Context) error, error) {
	x := vrCallOf(ctx)
	g := vrGoid()
	w.r.execGoids.Store(g, x)
	f, err := w.h.Execute(ctx, ds, db)
	w.r.execGoids.Delete(g)
	w.r.log.add("ExecEnd", func(e map[string]any, _ func(hash.Hash) string) { e["x"] = x; e["wait"] = f != nil })
	return f, err
}
func (w *vrHookWrap) NotifyWaitFailed()           { w.h.NotifyWaitFailed() }
func (w *vrHookWrap) ExecuteForWorkingSets() bool { return w.h.ExecuteForWorkingSets() }
func (w *vrHookWrap) ExecuteForReplicaWrite() bool {
	return w.h.ExecuteForReplicaWrite()
}

// ---------------------------------------------------------------- logrus seam: log lines emitted under h.mu

type vrLogHook struct{ r *vrRun }

func (vrLogHook) Levels() []logrus.Level { return logrus.AllLevels }

func (lh vrLogHook) Fire(e *logrus.Entry) error {
	r := lh.r
	m := e.Message
	h := r.h
	if h == nil {
		return nil
	}
	snap := func(ev map[string]any, name func(hash.Hash) string) { ev["s"] = r.snapLocked(name) }
	switch {
	case strings.HasPrefix(m, "cluster/commithook: fetching current head."):
		r.replGoid.Store(vrGoid())
		r.replInit.Store(true)
		r.log.add("Init", snap)
	case strings.HasPrefix(m, "signaling replication thread to push new head: "):
		x, _ := r.execGoids.Load(vrGoid())
		hs := strings.TrimSpace(strings.TrimPrefix(m, "signaling replication thread to push new head: "))
		root, ok := hash.MaybeParse(hs)
		if !ok {
			r.seamBroken("cannot parse root in: " + m)
		}
		r.log.add("ExecSet", func(ev map[string]any, name func(hash.Hash) string) { ev["x"] = x; ev["root"] = name(root); snap(ev, name) })
	case strings.HasPrefix(m, "cluster/commithook received commit callback for a commit on"):
		x, _ := r.execGoids.Load(vrGoid())
		r.log.add("ExecNotPrimary", func(ev map[string]any, name func(hash.Hash) string) { ev["x"] = x; snap(ev, name) })
	case strings.HasPrefix(m, "cluster/commithook: could not replicate to standby: error creating sql.Context"):
		r.log.add("AttemptFail", func(ev map[string]any, name func(hash.Hash) string) { ev["kind"] = "ctx"; snap(ev, name) })
	case strings.HasPrefix(m, "cluster/commithook: could not replicate to standby: error fetching destDB"):
		r.log.add("AttemptFail", func(ev map[string]any, name func(hash.Hash) string) { ev["kind"] = "fetch"; snap(ev, name) })
	case strings.HasPrefix(m, "cluster/commithook: pushing chunks for root hash "):
		f := strings.Fields(strings.TrimPrefix(m, "cluster/commithook: pushing chunks for root hash "))
		root, ok := hash.MaybeParse(f[0])
		if !ok {
			r.seamBroken("cannot parse root in: " + m)
		}
		r.log.add("Pushing", func(ev map[string]any, name func(hash.Hash) string) { ev["root"] = name(root) })
	case strings.HasPrefix(m, "cluster/commithook: successfully pushed chunks, setting root"):
		r.log.add("Pulled", nil)
	case strings.HasPrefix(m, "cluster/commithook: successfully Committed chunks on destDB"):
		r.log.add("AttemptOK", snap)
	case strings.HasPrefix(m, "cluster/commithook: failed to commit chunks on destDB"):
		r.log.add("AttemptFail", func(ev map[string]any, name func(hash.Hash) string) { ev["kind"] = "push"; snap(ev, name) })
	case strings.HasPrefix(m, "cluster/commithook: background thread: waiting for signal."):
		r.replGoid.Store(vrGoid())
		r.log.add("Quiesce", snap)
	case strings.HasPrefix(m, "cluster/commithook: background thread: woken up."):
		r.log.add("Woken", snap)
	}
	return nil
}

// ---------------------------------------------------------------- the run

type vrRun struct {
	dir      string
	log      *vrLog
	src, dst *doltdb.DoltDB
	srcStore *vrSrcStore
	dstStore *vrDstStore
	srcEnv   *env.DoltEnv
	dstEnv   *env.DoltEnv
	h        *commithook
	ctl      *Controller
	bt       *sql.BackgroundThreads
	wrap     *vrHookWrap

	execGoids sync.Map // goid -> call id (goroutines running commithook.Execute)
	waitGoids sync.Map // goid -> call id (goroutines running a wait function)
	replGoid  atomic.Int64
	replInit  atomic.Bool // the replicate goroutine is inside the primaryNeedsInit block
	failCtx   atomic.Int64

	roMu     sync.RWMutex
	readOnly bool

	sessMu sync.Mutex
	sess   map[uint32]*vrCall
	nCalls atomic.Int64

	broken atomic.Value // string: a seam of the harness does not work against this tree
	wsMeta map[string][]string
	wsMu   sync.Mutex
}

type vrCall struct {
	x      string
	id     uint32
	cancel context.CancelFunc
	sess   sql.Session
}

func (r *vrRun) seamBroken(s string) { r.broken.CompareAndSwap(nil, s) }

// called with h.mu held (inside a critical section of the hook)
func (r *vrRun) snapLocked(name func(hash.Hash) string) map[string]any {
	h := r.h
	return map[string]any{"role": string(vrRoleName(h.role)), "next": name(h.nextHead), "last": name(h.lastPushedHead),
		"ff": h.fastFailReplicationWait, "bo": !h.nextPushAttempt.IsZero(), "pend": h.progressNotifier.HasWaiters()}
}

func vrRoleName(r Role) string {
	switch r {
	case RolePrimary:
		return "primary"
	case RoleStandby:
		return "standby"
	}
	return "broken"
}

var vrBase = time.Unix(1800000000, 0)

func (r *vrRun) now() time.Time {
	g := vrGoid()
	var t int64
	if x, ok := r.execGoids.Load(g); ok {
		r.log.add("ExecNow", func(e map[string]any, name func(hash.Hash) string) { e["x"] = x; e["s"] = r.snapLocked(name); t = r.log.clock })
	} else if x, ok := r.waitGoids.Load(g); ok {
		r.log.add("WaitFailNow", func(e map[string]any, _ func(hash.Hash) string) { e["x"] = x; t = r.log.clock })
	} else {
		r.seamBroken("nowFunc called from an unknown goroutine")
		r.log.mu.Lock()
		t = r.log.clock
		r.log.mu.Unlock()
	}
	return vrBase.Add(time.Duration(t) * time.Second)
}

func (r *vrRun) advanceClock(d int64) {
	r.log.mu.Lock()
	r.log.clock += d
	t := r.log.clock
	if !r.log.closed {
		r.log.events = append(r.log.events, map[string]any{"ev": "Clock", "t": t})
	}
	r.log.mu.Unlock()
}

func vrInitEnv(parent, name string) (*env.DoltEnv, error) {
	ctx := context.Background()
	dir := filepath.Join(parent, name)
	if err := os.MkdirAll(dir, 0o755); err != nil {
		return nil, err
	}
	fs, err := filesys.LocalFilesysWithWorkingDir(dir)
	if err != nil {
		return nil, err
	}
	home := filepath.Join(parent, "home")
	os.MkdirAll(home, 0o755)
	dEnv := env.LoadWithoutDB(ctx, func() (string, error) { return home, nil }, fs, doltdb.LocalDirDoltDB, "verif")
	if err := dEnv.InitRepoWithTime(ctx, types.Format_DOLT, "verif", "verif@example.com", "main", time.Unix(1700000000, 0)); err != nil {
		return nil, err
	}
	return dEnv, nil
}

type vrVars struct{}

func (vrVars) AddSystemVariables([]sql.SystemVariable) {}
func (vrVars) GetGlobal(string) (sql.SystemVariable, interface{}, bool) {
	return nil, nil, false
}

func vrNewRun(role Role, destUp bool) (*vrRun, error) {
	ctx := context.Background()
	parent, err := os.MkdirTemp(os.Getenv("VERIF_WORK"), "c45-hook-")
	if err != nil {
		return nil, err
	}
	r := &vrRun{dir: parent, sess: map[uint32]*vrCall{}, wsMeta: map[string][]string{}}
	r.log = &vrLog{names: map[hash.Hash]string{}, seen: map[string]int{}, closed: true}
	if r.srcEnv, err = vrInitEnv(parent, "src"); err != nil {
		return nil, err
	}
	if r.dstEnv, err = vrInitEnv(parent, "dst"); err != nil {
		return nil, err
	}
	srcCS, ok1 := datas.ChunkStoreFromDatabase(doltdb.ExposeDatabaseFromDoltDB(r.srcEnv.DoltDB(ctx))).(vrFull)
	dstCS, ok2 := datas.ChunkStoreFromDatabase(doltdb.ExposeDatabaseFromDoltDB(r.dstEnv.DoltDB(ctx))).(vrFull)
	if !ok1 || !ok2 {
		return nil, errors.New("local chunk store does not implement the expected interfaces")
	}
	r.srcStore = &vrSrcStore{vrFull: srcCS, r: r, hold: map[string]chan struct{}{}}
	r.dstStore = &vrDstStore{vrFull: dstCS, r: r, errDown: errors.New("verif: standby is down"), down: !destUp}
	if r.src, err = doltdb.DoltDBFromCS(r.srcStore, "src"); err != nil {
		return nil, err
	}
	if r.dst, err = doltdb.DoltDBFromCS(r.dstStore, "dst"); err != nil {
		return nil, err
	}
	// a second branch with its working set, before the hook exists
	cm, err := r.src.ResolveCommitRef(ctx, ref.NewBranchRef("main"))
	if err != nil {
		return nil, err
	}
	if err = r.src.NewBranchAtCommit(ctx, ref.NewBranchRef("b2"), cm, nil); err != nil {
		return nil, err
	}
	srcRoot, _ := srcCS.Root(ctx)
	dstRoot, _ := dstCS.Root(ctx)
	r.dstStore.cur = dstRoot

	lgr := logrus.New()
	lgr.SetLevel(logrus.TraceLevel)
	lgr.SetOutput(vrDiscard{})
	lgr.AddHook(vrLogHook{r})
	tmp := filepath.Join(parent, "tmp")
	os.MkdirAll(tmp, 0o755)
	h := newCommitHook(lgr, "standby", "file:///verif/standby", "src", role, func(context.Context) (*doltdb.DoltDB, error) {
		s := r.dstStore
		s.mu.Lock()
		defer s.mu.Unlock()
		r.log.add("DestFetch", func(e map[string]any, _ func(hash.Hash) string) { e["ok"] = !s.down })
		if s.down {
			return nil, s.errDown
		}
		return r.dst, nil
	}, r.src, tmp)
	h.nowFunc = r.now
	r.h = h
	r.wrap = &vrHookWrap{r: r, h: h}
	r.src.PrependCommitHooks(ctx, r.wrap)

	r.readOnly = role != RolePrimary
	c := &Controller{
		persistentCfg:            config.NewMapConfig(map[string]string{}),
		role:                     role,
		epoch:                    1,
		commithooks:              []*commithook{h},
		lgr:                      lgr,
		systemVars:               vrVars{},
		authDbPersister:          &replicatingAuthDbPersister{},
		bcReplication:            &branchControlReplication{bcController: &branch_control.Controller{}},
		outstandingDropDatabases: map[string]*databaseDropReplication{},
	}
	c.sinterceptor.lgr = lgr.WithFields(logrus.Fields{})
	c.cinterceptor.lgr = lgr.WithFields(logrus.Fields{})
	c.standbyCallback = func(standby bool) {
		r.roMu.Lock()
		r.readOnly = standby
		r.log.add("ReadOnly", func(e map[string]any, _ func(hash.Hash) string) { e["v"] = standby })
		r.roMu.Unlock()
	}
	c.ManageQueryConnections(func(f func(sql.Session) (bool, error)) error {
		r.sessMu.Lock()
		var ss []sql.Session
		for _, cl := range r.sess {
			ss = append(ss, cl.sess)
		}
		r.sessMu.Unlock()
		for _, s := range ss {
			if stop, err := f(s); stop || err != nil {
				return err
			}
		}
		return nil
	}, func(id uint32) {
		r.sessMu.Lock()
		cl := r.sess[id]
		r.sessMu.Unlock()
		if cl != nil {
			r.log.add("Kill", func(e map[string]any, _ func(hash.Hash) string) { e["x"] = cl.x })
			cl.cancel()
		}
	}, func(id uint32) error { return nil })
	r.ctl = c

	r.log.mu.Lock()
	r.log.closed = false
	r.log.mu.Unlock()
	r.log.add("Reset", func(e map[string]any, name func(hash.Hash) string) {
		e["role"] = vrRoleName(role)
		e["src"] = name(srcRoot)
		e["dest"] = name(dstRoot)
		e["destUp"] = destUp
	})
	r.bt = sql.NewBackgroundThreads()
	ctxF := func(ctx context.Context) (*sql.Context, error) {
		if vrGoid() == r.replGoid.Load() || r.replGoid.Load() == 0 {
			if r.replInit.Load() {
				// the primaryNeedsInit block (h.mu held): the root read that follows is logged as InitRead
				return sql.NewContext(ctx), nil
			}
			if r.failCtx.Load() > 0 {
				r.failCtx.Add(-1)
				r.log.add("AttemptCtx", func(e map[string]any, _ func(hash.Hash) string) { e["ok"] = false })
				return nil, errors.New("verif: injected sql.Context failure")
			}
			r.log.add("AttemptCtx", func(e map[string]any, _ func(hash.Hash) string) { e["ok"] = true })
		}
		return sql.NewContext(ctx), nil
	}
	if err := h.Run(r.bt, ctxF); err != nil {
		return nil, err
	}
	return r, nil
}

type vrDiscard struct{}

func (vrDiscard) Write(p []byte) (int, error) { return len(p), nil }

func (r *vrRun) close() {
	r.log.mu.Lock()
	r.log.closed = true
	r.log.mu.Unlock()
	r.dstStore.mu.Lock()
	if r.dstStore.block != nil {
		close(r.dstStore.block)
		r.dstStore.block = nil
	}
	r.dstStore.mu.Unlock()
	done := make(chan struct{})
	go func() { r.bt.Shutdown(); close(done) }()
	select {
	case <-done:
	case <-time.After(30 * time.Second):
	}
	r.srcEnv.Close()
	r.dstEnv.Close()
	os.RemoveAll(r.dir)
}

// snap: the harness takes h.mu itself and reads everything (a read-only linearization point)
func (r *vrRun) snap() {
	r.h.mu.Lock()
	r.srcStore.mu.RLock()
	r.dstStore.mu.Lock()
	sr, _ := r.srcStore.vrFull.Root(context.Background())
	dr := r.dstStore.cur
	r.log.add("Snap", func(e map[string]any, name func(hash.Hash) string) {
		e["s"] = r.snapLocked(name)
		e["src"] = name(sr)
		e["dest"] = name(dr)
	})
	r.dstStore.mu.Unlock()
	r.srcStore.mu.RUnlock()
	r.h.mu.Unlock()
}

// ---------------------------------------------------------------- client calls (real writes on the source database)

// write performs one dataset write the way a SQL session does, then waits for replication through the real
// dsess.WaitForReplicationController (ack timeout = 1 s, the smallest the system variable allows).
func (r *vrRun) write(kind, branch string) string {
	n := r.nCalls.Add(1)
	x := "x" + strconv.FormatInt(n, 10)
	r.roMu.RLock()
	if r.readOnly {
		r.log.add("WriteRejected", func(e map[string]any, _ func(hash.Hash) string) { e["x"] = x })
		r.roMu.RUnlock()
		return x
	}
	r.log.add("WriteBegin", func(e map[string]any, _ func(hash.Hash) string) { e["x"] = x })
	r.roMu.RUnlock()

	wctx := context.WithValue(context.Background(), vrKey{}, x)
	var rsc doltdb.ReplicationStatusController
	err := r.doWrite(wctx, kind, branch, x, &rsc)
	if err != nil {
		r.seamBroken(fmt.Sprintf("write %s/%s failed: %v", kind, branch, err))
		return x
	}

	// the session that waits for the acknowledgement; a role transition may kill it
	kctx, cancel := context.WithCancel(context.Background())
	sess := sql.NewBaseSessionWithClientServer("verif", sql.Client{User: "root", Address: "%"}, uint32(n))
	cl := &vrCall{x: x, id: uint32(n), cancel: cancel, sess: sess}
	r.sessMu.Lock()
	r.sess[cl.id] = cl
	r.sessMu.Unlock()
	sctx := sql.NewContext(kctx, sql.WithSession(sess))
	if len(rsc.Wait) == 0 {
		r.log.add("WaitEnd", func(e map[string]any, _ func(hash.Hash) string) { e["x"] = x; e["res"] = "none" })
	}
	for i := range rsc.Wait {
		f := rsc.Wait[i]
		nf := rsc.NotifyWaitFailed[i]
		rsc.Wait[i] = func(ctx context.Context) error {
			g := vrGoid()
			r.waitGoids.Store(g, x)
			err := f(ctx)
			r.waitGoids.Delete(g)
			res := "ack"
			if err != nil {
				switch {
				case strings.Contains(err.Error(), "circuit breaker"):
					res = "ff"
				case errors.Is(err, doltdb.ErrReplicationWaitFailed):
					res = "timeout"
				default:
					res = "canceled"
				}
			}
			r.log.add("WaitEnd", func(e map[string]any, _ func(hash.Hash) string) { e["x"] = x; e["res"] = res })
			return err
		}
		rsc.NotifyWaitFailed[i] = func() {
			r.log.add("NotifyStart", func(e map[string]any, _ func(hash.Hash) string) { e["x"] = x })
			nf()
			r.log.add("NotifyEnd", func(e map[string]any, _ func(hash.Hash) string) { e["x"] = x })
		}
	}
	dsess.WaitForReplicationController(sctx, rsc)
	warned := len(sess.Warnings()) > 0
	r.log.add("ClientDone", func(e map[string]any, _ func(hash.Hash) string) { e["x"] = x; e["warned"] = warned })
	r.sessMu.Lock()
	delete(r.sess, cl.id)
	r.sessMu.Unlock()
	cancel()
	return x
}

func (r *vrRun) doWrite(ctx context.Context, kind, branch, x string, rsc *doltdb.ReplicationStatusController) error {
	br := ref.NewBranchRef(branch)
	wsRef, err := ref.WorkingSetRefForHead(br)
	if err != nil {
		return err
	}
	ws, err := r.src.ResolveWorkingSet(ctx, wsRef)
	if err != nil {
		return err
	}
	ph, err := ws.HashOf()
	if err != nil {
		return err
	}
	r.wsMu.Lock()
	hist := r.wsMeta[branch]
	r.wsMu.Unlock()
	switch kind {
	case "ws", "wsaba":
		desc := "verif " + x
		if kind == "wsaba" && len(hist) >= 2 {
			desc = hist[len(hist)-2] // the value before the last update: the database root goes back (ABA)
		}
		meta := &datas.WorkingSetMeta{Name: "verif", Email: "verif@example.com", Timestamp: 1700000000, Description: desc}
		if err := r.src.UpdateWorkingSet(ctx, wsRef, ws, ph, meta, rsc); err != nil {
			return err
		}
		r.wsMu.Lock()
		r.wsMeta[branch] = append(r.wsMeta[branch], desc)
		r.wsMu.Unlock()
		return nil
	case "commit":
		cm, err := r.src.ResolveCommitRef(ctx, br)
		if err != nil {
			return err
		}
		rv, err := cm.GetRootValue(ctx)
		if err != nil {
			return err
		}
		meta, err := datas.NewCommitMetaWithAuthor("verif", "verif@example.com", "verif commit "+x, time.Unix(1700000100, 0))
		if err != nil {
			return err
		}
		pc, err := r.src.NewPendingCommit(ctx, doltdb.Roots{Head: rv, Working: rv, Staged: rv}, nil, hash.Hash{}, meta)
		if err != nil {
			return err
		}
		wm := &datas.WorkingSetMeta{Name: "verif", Email: "verif@example.com", Timestamp: 1700000000, Description: "verif " + x}
		_, err = r.src.CommitWithWorkingSet(ctx, br, wsRef, pc, ws.WithWorkingRoot(rv).WithStagedRoot(rv), ph, wm, rsc)
		if err == nil {
			r.wsMu.Lock()
			r.wsMeta[branch] = append(r.wsMeta[branch], "verif "+x)
			r.wsMu.Unlock()
		}
		return err
	}
	return errors.New("unknown write kind " + kind)
}

// ---------------------------------------------------------------- role transitions through the real controller

func (r *vrRun) transition(to string, graceful bool) bool {
	r.log.add("RoleStart", func(e map[string]any, _ func(hash.Hash) string) { e["to"] = to; e["graceful"] = graceful })
	r.ctl.mu.Lock()
	epoch := r.ctl.epoch
	r.ctl.mu.Unlock()
	role := to
	if to == "broken" {
		role = string(RoleDetectedBrokenConfig)
	}
	if !(role == string(RoleStandby) || role == string(RoleDetectedBrokenConfig)) || graceful {
		epoch++ // a same-epoch change is only allowed for the non-graceful demotions
	}
	res, err := r.ctl.setRoleAndEpoch(role, epoch, roleTransitionOptions{graceful: graceful})
	ok := err == nil && res.changedRole
	r.log.add("RoleEnd", func(e map[string]any, _ func(hash.Hash) string) { e["ok"] = ok })
	return ok
}

// ---------------------------------------------------------------- quiescence and convergence

// settle waits (bounded) until the hook has nothing left to do; returns false when the bound was missed
func (r *vrRun) settle(bound time.Duration) bool {
	deadline := time.Now().Add(bound)
	for time.Now().Before(deadline) {
		r.h.mu.Lock()
		cu := r.h.isCaughtUp()
		idle := r.h.cancelReplicate == nil
		r.h.mu.Unlock()
		if cu && idle {
			return true
		}
		time.Sleep(20 * time.Millisecond)
	}
	return false
}

// readable: every ref of the source resolves on the standby to the same address (after convergence)
func (r *vrRun) compareRefs() string {
	ctx := context.Background()
	sr, err := r.src.GetRefsWithHashes(ctx)
	if err != nil {
		return "src refs: " + err.Error()
	}
	r.dstStore.vrFull.Rebase(ctx)
	// a fresh view of the standby's store (the hook's destDB caches nothing we rely on)
	d2, err := doltdb.DoltDBFromCS(r.dstStore.vrFull, "dst-read")
	if err != nil {
		return err.Error()
	}
	dr, err := d2.GetRefsWithHashes(ctx)
	if err != nil {
		return "dst refs: " + err.Error()
	}
	sm := map[string]hash.Hash{}
	for _, x := range sr {
		sm[x.Ref.String()] = x.Hash
	}
	for _, x := range dr {
		if sm[x.Ref.String()] != x.Hash {
			return fmt.Sprintf("ref %s: source %s standby %s", x.Ref.String(), sm[x.Ref.String()], x.Hash)
		}
		delete(sm, x.Ref.String())
	}
	if len(sm) > 0 {
		return fmt.Sprintf("%d refs missing on the standby", len(sm))
	}
	for _, b := range []string{"main", "b2"} {
		wsRef, _ := ref.WorkingSetRefForHead(ref.NewBranchRef(b))
		a, e1 := r.src.ResolveWorkingSet(ctx, wsRef)
		bb, e2 := d2.ResolveWorkingSet(ctx, wsRef)
		if e1 != nil || e2 != nil {
			return fmt.Sprintf("working set %s: %v / %v", b, e1, e2)
		}
		ha, _ := a.HashOf()
		hb, _ := bb.HashOf()
		if ha != hb {
			return fmt.Sprintf("working set %s differs", b)
		}
		if _, err := d2.ResolveCommitRef(ctx, ref.NewBranchRef(b)); err != nil {
			return fmt.Sprintf("standby cannot read head of %s: %v", b, err)
		}
	}
	return ""
}

func (r *vrRun) result(extra common.Result) common.Result {
	r.log.mu.Lock()
	ev := make([]map[string]any, len(r.log.events))
	copy(ev, r.log.events)
	seen := map[string]int{}
	for k, v := range r.log.seen {
		seen[k] = v
	}
	r.log.mu.Unlock()
	res := common.Result{"ok": true, "trace": ev, "seen": seen, "calls": r.nCalls.Load(), "hashes": len(r.log.names)}
	if b := r.broken.Load(); b != nil {
		res["ok"] = false
		res["inconclusive"] = "harness seam: " + b.(string)
	}
	for k, v := range extra {
		res[k] = v
	}
	return res
}

// ---------------------------------------------------------------- schedules

func vrSetAckTimeout(secs int64) {
	sql.SystemVariables.AssignValues(map[string]interface{}{dsess.DoltClusterAckWritesTimeoutSecs: secs})
}

// random: seeded concurrent workload (two writers + one controller thread injecting faults and role changes)
func vrRandom(c map[string]any) common.Result {
	seed := int64(common.Int(c["seed"]))
	nops := common.Int(c["ops"])
	rng := rand.New(rand.NewSource(seed))
	startRole := RolePrimary
	if rng.Intn(6) == 0 {
		startRole = RoleStandby
	}
	destUp := rng.Intn(5) != 0
	r, err := vrNewRun(startRole, destUp)
	if err != nil {
		return common.Result{"ok": false, "inconclusive": "setup: " + err.Error()}
	}
	defer r.close()
	vrSetAckTimeout(1)
	allowSlow := c["slow"] == true // graceful transitions against a dead standby cost 10 s each

	type wop struct {
		kind, branch string
		pause        int
	}
	mk := func(n int, branch string) []wop {
		out := make([]wop, n)
		for i := range out {
			k := "ws"
			switch rng.Intn(6) {
			case 0:
				k = "commit"
			case 1, 2:
				k = "wsaba"
			}
			out[i] = wop{k, branch, rng.Intn(30)}
		}
		return out
	}
	w1, w2 := mk(nops, "main"), mk(nops, "b2")
	var wg sync.WaitGroup
	stop := make(chan struct{})
	runW := func(ops []wop) {
		defer wg.Done()
		for _, o := range ops {
			select {
			case <-stop:
				return
			default:
			}
			r.write(o.kind, o.branch)
			time.Sleep(time.Duration(o.pause) * time.Millisecond)
		}
	}
	wg.Add(2)
	go runW(w1)
	go runW(w2)

	// controller thread
	role := vrRoleName(startRole)
	nctl := nops + rng.Intn(nops+1)
	slowUsed := false
	for i := 0; i < nctl; i++ {
		time.Sleep(time.Duration(5+rng.Intn(60)) * time.Millisecond)
		switch p := rng.Intn(100); {
		case p < 14:
			r.dstStore.setDown(true)
		case p < 30:
			r.dstStore.setDown(false)
		case p < 36:
			r.dstStore.mu.Lock()
			if r.dstStore.block == nil {
				r.dstStore.block = make(chan struct{})
			}
			r.dstStore.mu.Unlock()
		case p < 46:
			r.dstStore.mu.Lock()
			if r.dstStore.block != nil {
				close(r.dstStore.block)
				r.dstStore.block = nil
			}
			r.dstStore.mu.Unlock()
		case p < 50:
			r.dstStore.mu.Lock()
			r.dstStore.failCommit++
			r.dstStore.mu.Unlock()
		case p < 54:
			r.dstStore.mu.Lock()
			r.dstStore.failPull++
			r.dstStore.mu.Unlock()
		case p < 57:
			r.failCtx.Add(1)
		case p < 67:
			r.advanceClock(int64(1 + rng.Intn(3)))
		case p < 80:
			r.snap()
		case p < 88:
			if role == "primary" {
				to := "standby"
				if rng.Intn(4) == 0 {
					to = "broken"
				}
				if r.transition(to, false) {
					role = to
				}
			} else if r.transition("primary", false) {
				role = "primary"
			}
		default:
			if role == "primary" {
				// a graceful transition only when it can finish quickly, unless this run may be slow
				r.dstStore.mu.Lock()
				quick := !r.dstStore.down && r.dstStore.block == nil
				r.dstStore.mu.Unlock()
				if quick || (allowSlow && !slowUsed) {
					slowUsed = slowUsed || !quick
					if r.transition("standby", true) {
						role = "standby"
					}
				}
			} else if r.transition("primary", false) {
				role = "primary"
			}
		}
	}
	wg.Wait()
	close(stop)

	// quiescence: heal the standby, make sure the hook is primary, wait for it to have nothing left to do
	r.dstStore.mu.Lock()
	if r.dstStore.block != nil {
		close(r.dstStore.block)
		r.dstStore.block = nil
	}
	r.dstStore.failCommit, r.dstStore.failPull = 0, 0
	r.dstStore.mu.Unlock()
	r.failCtx.Store(0)
	r.dstStore.setDown(false)
	if role != "primary" {
		if r.transition("primary", false) {
			role = "primary"
		}
	}
	r.write("ws", "main") // one last write whose acknowledgement can succeed
	settled := r.settle(20 * time.Second)
	r.snap()
	extra := common.Result{"settled": settled}
	if settled {
		// read-back of the standby through a fresh DoltDB: what TLC's QuiescentConverged demands of the roots,
		// the harness double-checks for the refs (the same hashes must also be loadable there)
		r.h.mu.Lock()
		cu := r.h.isCaughtUp()
		r.h.mu.Unlock()
		sr, _ := r.srcStore.vrFull.Root(context.Background())
		r.dstStore.mu.Lock()
		dr := r.dstStore.cur
		r.dstStore.mu.Unlock()
		if cu && sr == dr {
			if d := r.compareRefs(); d != "" {
				extra["refs_differ"] = d
			} else {
				extra["converged"] = true
			}
		}
	}
	return r.result(extra)
}

// stale: G-mode reproduction of the named deviation ExecLocked-with-a-stale-root (see ClusterHook.tla):
// writer 1's Execute has read the root and is delayed before h.mu; writer 2 commits and executes; writer 1 resumes.
func vrStale(c map[string]any) common.Result {
	r, err := vrNewRun(RolePrimary, true)
	if err != nil {
		return common.Result{"ok": false, "inconclusive": "setup: " + err.Error()}
	}
	defer r.close()
	vrSetAckTimeout(5)
	r.write("ws", "main")
	if !r.settle(20 * time.Second) {
		return r.result(common.Result{"settled": false})
	}
	gate := make(chan struct{})
	next := "x" + strconv.FormatInt(r.nCalls.Load()+1, 10)
	r.srcStore.holdMu.Lock()
	r.srcStore.hold[next] = gate
	r.srcStore.holdMu.Unlock()
	var wg sync.WaitGroup
	wg.Add(1)
	go func() { defer wg.Done(); r.write("ws", "main") }() // its Execute reads the root, then is held
	// wait until the read happened
	for i := 0; i < 2000; i++ {
		r.log.mu.Lock()
		n := r.log.seen["ExecRead"]
		r.log.mu.Unlock()
		if n >= 2 {
			break
		}
		time.Sleep(5 * time.Millisecond)
	}
	// writer 2 commits a newer root, executes, is replicated and acknowledged.  (Should Execute ever read the root
	// under h.mu, writer 2 blocks behind the held read: the gate is then opened after a bound and nothing is stale.)
	w2 := make(chan struct{})
	go func() { r.write("ws", "b2"); close(w2) }()
	settled := true
	select {
	case <-w2:
		settled = r.settle(20 * time.Second)
	case <-time.After(15 * time.Second):
	}
	close(gate)
	wg.Wait()
	<-w2
	settled = r.settle(20*time.Second) && settled
	time.Sleep(100 * time.Millisecond)
	r.snap()
	if c["graceful"] == true {
		r.transition("standby", true)
		r.snap()
	}
	return r.result(common.Result{"settled": settled})
}

// aba: G-mode reproduction of the named deviation "caught up while an attempt for another root is in flight":
// the standby's root update of attempt A is held before it returns; a write brings the source back to the last pushed
// root hash; Execute finds the hook caught up (no wait function); a graceful transition succeeds at once.
func vrABA(c map[string]any) common.Result {
	r, err := vrNewRun(RolePrimary, true)
	if err != nil {
		return common.Result{"ok": false, "inconclusive": "setup: " + err.Error()}
	}
	defer r.close()
	vrSetAckTimeout(1)
	r.write("ws", "main") // history of the working set: [d1]
	r.write("ws", "main") // [d1 d2]   standby has d2's root after settling
	if !r.settle(20 * time.Second) {
		return r.result(common.Result{"settled": false})
	}
	gate := make(chan struct{})
	held := make(chan struct{})
	r.dstStore.mu.Lock()
	r.dstStore.holdCommit = gate
	r.dstStore.commitHeld = held
	r.dstStore.mu.Unlock()
	var wg sync.WaitGroup
	wg.Add(1)
	go func() { defer wg.Done(); r.write("ws", "main") }() // [d1 d2 d3]: attempt for d3's root, its standby commit is held
	select {
	case <-held:
	case <-time.After(20 * time.Second):
		close(gate)
		wg.Wait()
		return r.result(common.Result{"settled": false})
	}
	time.Sleep(100 * time.Millisecond)
	r.write("wsaba", "main") // back to d2: same root hash as the last pushed head
	r.snap()
	ok := r.transition("standby", true)
	close(gate)
	wg.Wait()
	time.Sleep(200 * time.Millisecond)
	r.snap()
	return r.result(common.Result{"settled": true, "graceful_ok": ok})
}

func TestVerifReplication(t *testing.T) {
	if os.Getenv("VERIF_IN") == "" {
		t.Skip("driven by /verif/checks/c45.py")
	}
	debug.SetGCPercent(40)
	common.Run(func(c map[string]any) common.Result {
		defer debug.FreeOSMemory()
		switch c["kind"] {
		case "random":
			return vrRandom(c)
		case "stale":
			return vrStale(c)
		case "aba":
			return vrABA(c)
		}
		return common.Result{"ok": false, "inconclusive": "unknown case kind"}
	})
}
