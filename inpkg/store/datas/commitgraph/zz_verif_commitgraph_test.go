// In-package part of engine E6 "commitgraph" (injected into go/store/datas with `go test -overlay`; nothing is added
// to /repo). It reaches what the exported API hides: findCommonAncestorUsingParentsList (the merge-base walk used for
// commits without a parent closure), transitiveClosure, and compares them - on DAGs enumerated by TLC from
// /verif/spec/CommitGraph.tla - with the expected sets computed by TLC and with FindCommonAncestor (closure walk).
package datas

import (
	"context"
	"fmt"
	"testing"
	"time"

	"github.com/dolthub/dolt/go/store/chunks"
	"github.com/dolthub/dolt/go/store/hash"
	"github.com/dolthub/dolt/go/store/types"
	"github.com/dolthub/dolt/go/zz_verif/common"
)

func TestVerifCommitGraph(t *testing.T) {
	common.Run(verifRunDag)
}

func verifInts2(v any) [][]int {
	a := v.([]any)
	out := make([][]int, len(a))
	for i := range a {
		out[i] = common.Ints(a[i])
	}
	return out
}

func verifIn(s []int, x int) bool {
	for _, y := range s {
		if x == y {
			return true
		}
	}
	return false
}

func verifRunDag(c map[string]any) common.Result {
	ctx := context.Background()
	g := c["graph"].(map[string]any)
	n := common.Int(g["n"])
	par := verifInts2(g["par"])
	ht := common.Ints(g["ht"])
	var hca [][][]int
	for _, row := range g["hca"].([]any) {
		hca = append(hca, verifInts2(row))
	}
	seed := 0
	if bm, ok := c["binding"].(map[string]any); ok {
		seed = common.Int(bm["seed"])
	}
	storage := &chunks.MemoryStorage{}
	db := NewDatabase(storage.NewViewWithFormat(types.Format_DOLT.VersionString())).(*database)
	defer db.Close()
	addr := make([]hash.Hash, n+1)
	cm := make([]*Commit, n+1)
	id := map[hash.Hash]int{}
	evals := 0
	for i := 1; i <= n; i++ {
		var ps []hash.Hash
		for _, p := range par[i-1] {
			ps = append(ps, addr[p])
		}
		ds, err := db.GetDataset(ctx, fmt.Sprintf("verif/c%d", i))
		if err != nil {
			panic(err)
		}
		d := CommitDateAt(time.UnixMilli(int64(1000*seed + i)))
		meta := &CommitMeta{Author: CommitIdent{Name: "v", Email: "v@example.com", Date: d}, Committer: CommitIdent{Name: "v", Email: "v@example.com", Date: d},
			Description: fmt.Sprintf("inpkg commit %d seed %d", i, seed)}
		ds, err = db.Commit(ctx, ds, types.String(fmt.Sprintf("v%d", i)), CommitOptions{Parents: ps, Meta: meta})
		if err != nil {
			return common.Fail(i, "AddCommit", "commit creation failed", par[i-1], err.Error())
		}
		a, _ := ds.MaybeHeadAddr()
		addr[i] = a
		if j, dup := id[a]; dup {
			return common.Fail(i, "AddCommit", "binding error: equal addresses", j, i)
		}
		id[a] = i
		cm[i], err = LoadCommitAddr(ctx, db, a)
		if err != nil {
			panic(err)
		}
		if int(cm[i].Height()) != ht[i-1] {
			return common.Fail(i, "Meta(inpkg)", "datas.Commit.Height", ht[i-1], cm[i].Height())
		}
		evals++
	}
	name := func(h hash.Hash) any {
		if x, ok := id[h]; ok {
			return x
		}
		return "unknown:" + h.String()
	}
	multi, tiesMin, tiesOther, disagree := 0, 0, 0, 0
	for a := 1; a <= n; a++ {
		// transitiveClosure = the commit and all its ancestors
		tc, err := transitiveClosure(ctx, db, cm[a])
		if err != nil {
			panic(err)
		}
		for x := 1; x <= n; x++ {
			want := len(hca[x-1][a-1]) == 1 && hca[x-1][a-1][0] == x // x is an ancestor of a (or a itself) iff HCA(x,a) = {x}
			if tc.Has(addr[x]) != want {
				return common.Fail(a*100+x, "transitiveClosure", fmt.Sprintf("membership of c%d in the closure of c%d", x, a), want, tc.Has(addr[x]))
			}
			evals++
		}
		for b := 1; b <= n; b++ {
			want := hca[a-1][b-1]
			act := "MergeBase(findCommonAncestorUsingParentsList)"
			h, ok, err := findCommonAncestorUsingParentsList(ctx, cm[a], cm[b], db, db, db.ns, db.ns)
			if err != nil {
				return common.Fail(a*100+b, act, "error", want, err.Error())
			}
			evals++
			if !ok {
				if len(want) != 0 {
					return common.Fail(a*100+b, act, fmt.Sprintf("no merge base reported although one exists (c%d,c%d)", a, b), want, "none")
				}
				continue
			}
			if len(want) == 0 {
				return common.Fail(a*100+b, act, fmt.Sprintf("merge base reported although none exists (c%d,c%d)", a, b), "none", name(h))
			}
			if x, known := id[h]; !known || !verifIn(want, x) {
				return common.Fail(a*100+b, act, fmt.Sprintf("merge base of (c%d,c%d) is not a highest common ancestor", a, b), want, name(h))
			}
			h2, ok2, _ := findCommonAncestorUsingParentsList(ctx, cm[a], cm[b], db, db, db.ns, db.ns)
			if !ok2 || h2 != h {
				return common.Fail(a*100+b, act, fmt.Sprintf("merge base of (c%d,c%d) not stable across repetitions", a, b), name(h), name(h2))
			}
			h3, ok3, _ := findCommonAncestorUsingParentsList(ctx, cm[b], cm[a], db, db, db.ns, db.ns)
			if !ok3 || h3 != h {
				return common.Fail(a*100+b, act, fmt.Sprintf("merge base depends on argument order: (c%d,c%d) vs (c%d,c%d)", a, b, b, a), name(h), name(h3))
			}
			evals += 2
			// closure walk on the same pair (must also be a candidate; may be a different one on ties)
			hc, okc, err := FindCommonAncestor(ctx, cm[a], cm[b], db, db, db.ns, db.ns)
			if err != nil || !okc {
				return common.Fail(a*100+b, "MergeBase(datas.FindCommonAncestor)", "no merge base reported although one exists", want, fmt.Sprint(err))
			}
			if x, known := id[hc]; !known || !verifIn(want, x) {
				return common.Fail(a*100+b, "MergeBase(datas.FindCommonAncestor)", fmt.Sprintf("merge base of (c%d,c%d) is not a highest common ancestor", a, b), want, name(hc))
			}
			evals++
			if len(want) > 1 && a < b {
				multi++
				mn := addr[want[0]]
				for _, x := range want {
					if addr[x].Less(mn) {
						mn = addr[x]
					}
				}
				if h == mn {
					tiesMin++
				} else {
					tiesOther++
				}
				if hc != h {
					disagree++
				}
			}
		}
	}
	return common.Result{"ok": true, "evals": evals, "multi": multi, "tiesListMin": tiesMin, "tiesListOther": tiesOther, "routeDisagree": disagree}
}
