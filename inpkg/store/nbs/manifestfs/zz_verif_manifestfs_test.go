// Engine "manifestfs" (in-package, injected with -overlay) for C05.
//
// Mode S (TestVerifManifestFSScenario): executes a sequential scenario of table-file landings, manifest updates,
// conjoins, GC swaps + PruneTableFiles and reopens on REAL local stores while the process is traced with
// `strace -f -y`; marker lines (one write(2) each to $VERIF_MARK) delimit the operations. The syscall log is
// validated against /verif/spec/TraceManifestFS.tla and replayed onto shadow directories to build crash images.
// Mode I (TestVerifManifestFSImage): opens crash images with the real code and reports what it finds.
// Mode G (TestVerifManifestFS): gated interleavings of writers and the grace pruner (see zz_verif_manifestfs_gated_test.go).
package nbs

import (
	"bytes"
	"context"
	"crypto/sha512"
	"encoding/json"
	"fmt"
	"io"
	"os"
	"path/filepath"
	"sort"
	"testing"

	dherrors "github.com/dolthub/dolt/go/libraries/utils/errors"
	"github.com/dolthub/dolt/go/store/chunks"
	"github.com/dolthub/dolt/go/store/constants"
	"github.com/dolthub/dolt/go/store/hash"
	"github.com/dolthub/dolt/go/zz_verif/common"
)

const vfChunkSize = 64

type vfBinding struct {
	chunk  map[string]chunks.Chunk
	byHash map[hash.Hash]string
	addrs  []string
}

func vfNewBinding(seed int64, addrs []string) *vfBinding {
	b := &vfBinding{chunk: map[string]chunks.Chunk{}, byHash: map[hash.Hash]string{}, addrs: addrs}
	for _, a := range addrs {
		s := sha512.Sum512([]byte(fmt.Sprintf("verif-c05-%d-%s", seed, a)))
		c := chunks.NewChunk(s[:vfChunkSize])
		b.chunk[a] = c
		b.byHash[c.Hash()] = a
	}
	return b
}

func vfNoAddrs(c chunks.Chunk) chunks.InsertAddrsCb {
	return func(ctx context.Context, addrs hash.HashSet, exists chunks.PendingRefExists) error { return nil }
}

// build the bytes of a table file holding the given chunks
func vfBuildTable(b *vfBinding, addrs []string) (hash.Hash, []byte, uint32, error) {
	mt := newMemTable(1 << 20)
	for _, a := range addrs {
		c := b.chunk[a]
		if mt.addChunk(c.Hash(), c.Data()) == chunkNotAdded {
			return hash.Hash{}, nil, 0, fmt.Errorf("memtable full")
		}
	}
	name, data, _, cnt, _, err := mt.write(nil, nil, &Stats{})
	return name, data, cnt, err
}

type vfMarker struct{ f *os.File }

func (m *vfMarker) mark(v map[string]any) {
	if m == nil || m.f == nil {
		return
	}
	bs, _ := json.Marshal(v)
	m.f.Write(append(append([]byte("MARK "), bs...), '\n'))
}

func vfStrs(v any) []string {
	if v == nil {
		return nil
	}
	a := v.([]any)
	out := make([]string, len(a))
	for i := range a {
		out[i] = a[i].(string)
	}
	return out
}

// what a table file holds, in model names
func vfTableContents(ctx context.Context, b *vfBinding, st *NomsBlockStore) map[string][]string {
	out := map[string][]string{}
	for _, css := range []chunkSourceSet{st.tables.novel, st.tables.upstream} {
		for h, cs := range css {
			var set []string
			for _, a := range b.addrs {
				if has, _, err := cs.has(b.chunk[a].Hash(), nil); err == nil && has {
					set = append(set, a)
				}
			}
			sort.Strings(set)
			out[h.String()] = set
		}
	}
	return out
}

func vfOpenLocal(dir string, maxTables int) (*NomsBlockStore, error) {
	st, err := newLocalStore(context.Background(), constants.FormatDoltString, dir, 1<<20, maxTables, NewUnlimitedMemQuotaProvider(), false)
	if err != nil {
		return nil, err
	}
	st.SetFatalBehavior(dherrors.FatalBehaviorError)
	return st, nil
}

// TestVerifManifestFSScenario is run under strace. Scenario = $VERIF_SCENARIO (JSON):
// {"dir":..., "seed":..., "addrs":[..], "writers":["w1","w2"], "ops":[{"w":"w1","op":"commit"|"addfile"|"conjoin"|"gc"|"reopen","addrs":[..]}...]}
func TestVerifManifestFSScenario(t *testing.T) {
	sc := os.Getenv("VERIF_SCENARIO")
	if sc == "" {
		t.Skip("verif scenario: none")
	}
	var s map[string]any
	if err := json.Unmarshal([]byte(sc), &s); err != nil {
		t.Fatal(err)
	}
	ctx := context.Background()
	dir := s["dir"].(string)
	side := s["side"].(string) // hard links of every table file ever landed (they are immutable): content source for crash images
	b := vfNewBinding(int64(common.Int(s["seed"])), vfStrs(s["addrs"]))
	mf, err := os.OpenFile(os.Getenv("VERIF_MARK"), os.O_APPEND|os.O_CREATE|os.O_WRONLY, 0644)
	if err != nil {
		t.Fatal(err)
	}
	m := &vfMarker{mf}
	stores := map[string]*NomsBlockStore{}
	m.mark(map[string]any{"ph": "setup-begin"})
	for _, w := range vfStrs(s["writers"]) {
		st, err := vfOpenLocal(dir, defaultMaxTables)
		if err != nil {
			t.Fatal(err)
		}
		stores[w] = st
	}
	m.mark(map[string]any{"ph": "setup-end"})
	tables := map[string][]string{}
	linkAll := func() {
		es, _ := os.ReadDir(dir)
		for _, e := range es {
			if len(e.Name()) == 32 {
				os.Link(filepath.Join(dir, e.Name()), filepath.Join(side, e.Name()))
			}
		}
	}
	for n, o := range s["ops"].([]any) {
		op := o.(map[string]any)
		w := op["w"].(string)
		st := stores[w]
		kind := op["op"].(string)
		res := "ok"
		var tname string
		switch kind {
		case "commit":
			m.mark(map[string]any{"ph": "begin", "n": n, "w": w, "op": kind, "addrs": op["addrs"]})
			as := vfStrs(op["addrs"])
			for _, a := range as {
				if err := st.Put(ctx, b.chunk[a], vfNoAddrs); err != nil {
					t.Fatal(err)
				}
			}
			var ok bool
			for try := 0; try < 5; try++ {
				if err = st.Rebase(ctx); err != nil {
					break
				}
				var r hash.Hash
				r, _ = st.Root(ctx)
				ok, err = st.Commit(ctx, b.chunk[as[0]].Hash(), r)
				if err != nil || ok {
					break
				}
			}
			if err != nil {
				res = "err:" + err.Error()
			} else if !ok {
				res = "false"
			}
		case "addfile", "gc":
			as := vfStrs(op["addrs"])
			name, data, cnt, err := vfBuildTable(b, as)
			if err != nil {
				t.Fatal(err)
			}
			tname = name.String()
			sorted := append([]string{}, as...)
			sort.Strings(sorted)
			tables[tname] = sorted
			m.mark(map[string]any{"ph": "begin", "n": n, "w": w, "op": kind, "addrs": op["addrs"], "table": tname})
			// Rebase first: with a stale cached gcGen (another store swapped tables) AddTableFilesToManifest retries forever
			// (store.go addTableFilesToManifest: gcGenMismatch => continue, nothing refreshes nbs.upstream) - see LEADS.md
			if err := st.Rebase(ctx); err != nil {
				t.Fatal(err)
			}
			cl, err := st.WriteTableFile(ctx, tname, 0, int(cnt), nil, func() (io.ReadCloser, uint64, error) {
				return io.NopCloser(bytes.NewReader(data)), uint64(len(data)), nil
			})
			if err != nil {
				res = "err:" + err.Error()
				break
			}
			m.mark(map[string]any{"ph": "landed", "n": n, "w": w, "table": tname})
			if kind == "addfile" {
				err = st.AddTableFilesToManifest(ctx, map[string]int{tname: int(cnt)}, vfNoAddrs)
				cl.Close()
			} else {
				err = st.swapTables(ctx, []tableSpec{{name, cnt}}, chunks.GCMode_Full, nil)
				cl.Close()
				if err == nil {
					m.mark(map[string]any{"ph": "swapped", "n": n, "w": w})
					linkAll()
					err = st.PruneTableFiles(ctx)
				}
			}
			if err != nil {
				res = "err:" + err.Error()
			}
		case "conjoin":
			m.mark(map[string]any{"ph": "begin", "n": n, "w": w, "op": kind})
			if err = st.Rebase(ctx); err == nil {
				linkAll()
				var h hash.Hash
				h, err = st.ConjoinTableFiles(ctx, nil)
				tname = h.String()
			}
			if err != nil {
				res = "err:" + err.Error()
			}
		case "reopen":
			m.mark(map[string]any{"ph": "begin", "n": n, "w": w, "op": kind})
			if err = st.Close(); err == nil {
				st, err = vfOpenLocal(dir, defaultMaxTables)
				stores[w] = st
			}
			if err != nil {
				t.Fatal(err)
			}
		}
		linkAll()
		for k, v := range vfTableContents(ctx, b, stores[w]) {
			tables[k] = v
		}
		_, mc, _ := parseIfExists(ctx, dir, nil)
		var specs []string
		for _, sp := range mc.specs {
			specs = append(specs, sp.name.String())
		}
		var files []string
		if es, err := os.ReadDir(dir); err == nil {
			for _, e := range es {
				if len(e.Name()) == 32 {
					files = append(files, e.Name())
				}
			}
		}
		m.mark(map[string]any{"ph": "end", "n": n, "w": w, "op": kind, "res": res, "table": tname, "specs": specs, "files": files, "tables": tables})
	}
	for _, st := range stores {
		st.Close()
	}
	m.mark(map[string]any{"ph": "done"})
	fmt.Println("VERIF_SCENARIO_OK")
}

// TestVerifManifestFSImage opens crash images ($VERIF_IN: {"dir":...}) with the unmodified constructor and reports
// whether the store opens, which tables its manifest names, whether every one of them opens and holds readable chunks.
func TestVerifManifestFSImage(t *testing.T) {
	if os.Getenv("VERIF_IN") == "" {
		t.Skip("verif engine: no VERIF_IN")
	}
	common.Run(func(c map[string]any) common.Result {
		if c["mode"] != "image" {
			return common.Result{"ok": false, "fp": "bad-mode"}
		}
		ctx := context.Background()
		dir := c["dir"].(string)
		ex, mc, perr := parseIfExists(ctx, dir, nil)
		out := common.Result{"ok": true, "manifest_exists": ex}
		if perr != nil {
			out["manifest_error"] = perr.Error()
		}
		var specs []string
		for _, sp := range mc.specs {
			specs = append(specs, sp.name.String())
		}
		sort.Strings(specs)
		out["specs"] = specs
		st, err := NewLocalStore(ctx, constants.FormatDoltString, dir, 1<<20, NewUnlimitedMemQuotaProvider(), false)
		if err != nil {
			out["open_error"] = err.Error()
			return out
		}
		defer st.Close()
		seen := map[hash.Hash]bool{}
		bad := 0
		err = st.IterateAllChunks(ctx, func(ch chunks.Chunk) {
			if ch.Hash() == chunks.NewChunk(ch.Data()).Hash() {
				seen[ch.Hash()] = true
			} else {
				bad++
			}
		})
		if err != nil {
			out["read_error"] = err.Error()
		} else if bad > 0 {
			out["read_error"] = fmt.Sprintf("%d chunks read back with bytes that do not hash to their address", bad)
		}
		out["chunks"] = len(seen)
		cnt, _ := st.Count(ctx)
		out["count"] = cnt
		return out
	})
}
