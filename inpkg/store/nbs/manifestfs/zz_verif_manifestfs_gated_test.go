// Mode G of engine "manifestfs": replays TLC-generated interleavings (spec/Prune.tla, generator constraint GCoarse) of a
// writer store (WriteTableFile + AddTableFilesToManifest) and the grace pruner of another store on one directory.
// Gates: manifest.ParseIfExists (R), manifest.Update entry (U1), writeHook of updateWithChecker (U2: LOCK held, temp
// manifest written and fsynced), manifest.Update exit (U3); the repo's _testPruneAfterSnapshotHook (PA) and
// _testPruneUnderLockHook (PB). Clock ticks are realised by shifting the mtime of every file by one hour (os.Chtimes).
package nbs

import (
	"bytes"
	"context"
	"errors"
	"fmt"
	"io"
	"os"
	"path/filepath"
	"sort"
	"strings"
	"sync/atomic"
	"syscall"
	"testing"
	"time"

	dherrors "github.com/dolthub/dolt/go/libraries/utils/errors"
	"github.com/dolthub/dolt/go/store/constants"
	"github.com/dolthub/dolt/go/store/hash"
	"github.com/dolthub/dolt/go/zz_verif/common"
)

var vgStepTimeout = 60 * time.Second

const vgTick = time.Hour

type vgEvent struct {
	gate string
	err  error
	st   PruneStats
}

type vgProc struct {
	name   string
	gating atomic.Bool
	evCh   chan vgEvent
	goCh   chan struct{}
	parked *vgEvent
	inCall bool
}

func (p *vgProc) gate(name string) {
	if !p.gating.Load() {
		return
	}
	p.evCh <- vgEvent{gate: name}
	<-p.goCh
}

func (p *vgProc) await() bool {
	select {
	case ev := <-p.evCh:
		p.parked = &ev
		if ev.gate == "" {
			p.gating.Store(false)
		}
		return true
	case <-time.After(vgStepTimeout):
		return false
	}
}

func (p *vgProc) release() {
	p.parked = nil
	p.goCh <- struct{}{}
}

func (p *vgProc) at() string {
	if p.parked == nil {
		if p.inCall {
			return "running"
		}
		return "idle"
	}
	if p.parked.gate == "" {
		return "returned(" + fmt.Sprint(p.parked.err) + ")"
	}
	return "@" + p.parked.gate
}

type vgManifest struct {
	inner fileManifest
	p     *vgProc
}

func (g vgManifest) Name() string { return g.inner.Name() }
func (g vgManifest) Close() error { return g.inner.Close() }
func (g vgManifest) ParseIfExists(ctx context.Context, stats *Stats, readHook func() error) (bool, manifestContents, error) {
	g.p.gate("R")
	return g.inner.ParseIfExists(ctx, stats, readHook)
}
func (g vgManifest) Update(ctx context.Context, behavior dherrors.FatalBehavior, lastLock hash.Hash, newContents manifestContents, stats *Stats, writeHook func() error) (manifestContents, error) {
	g.p.gate("U1")
	mc, err := g.inner.Update(ctx, behavior, lastLock, newContents, stats, func() error { g.p.gate("U2"); return nil })
	if err == nil {
		g.p.gate("U3")
	}
	return mc, err
}
func (g vgManifest) UpdateGCGen(ctx context.Context, behavior dherrors.FatalBehavior, lastLock hash.Hash, newContents manifestContents, stats *Stats, writeHook func() error) (manifestContents, error) {
	return g.inner.UpdateGCGen(ctx, behavior, lastLock, newContents, stats, writeHook)
}
func (g vgManifest) LockManifest(ctx context.Context) (lockedManifest, error) {
	return g.inner.LockManifest(ctx)
}

type vgWorld struct {
	dir    string
	b      *vfBinding
	w      *vgProc
	wstore *NomsBlockStore
	wclose io.Closer
	p      *vgProc
	pstore *NomsBlockStore
	grace  int
	names  map[string]string // model table (canonical) -> file name
	byName map[string]string
	evals  int
	ppc    string
	pgate  bool
	stats  []string
}

func vgCanon(t []string) string {
	c := append([]string{}, t...)
	sort.Strings(c)
	return "{" + strings.Join(c, ",") + "}"
}

func vgCanonSet(ts [][]string) string {
	var ss []string
	for _, t := range ts {
		ss = append(ss, vgCanon(t))
	}
	sort.Strings(ss)
	return strings.Join(ss, " ")
}

func vgTables(v any) [][]string {
	var out [][]string
	if v == nil {
		return out
	}
	for _, t := range v.([]any) {
		out = append(out, vfStrs(t))
	}
	return out
}

func vgLockBusy(dir string) (bool, error) {
	// never create LOCK here: its mtime counts for the pruner's quiescence test
	f, err := os.OpenFile(filepath.Join(dir, lockFileName), os.O_RDWR, 0600)
	if os.IsNotExist(err) {
		return false, nil
	}
	if err != nil {
		return false, err
	}
	defer f.Close()
	err = syscall.Flock(int(f.Fd()), syscall.LOCK_EX|syscall.LOCK_NB)
	if err == syscall.EWOULDBLOCK {
		return true, nil
	}
	if err != nil {
		return false, err
	}
	syscall.Flock(int(f.Fd()), syscall.LOCK_UN)
	return false, nil
}

func (w *vgWorld) busy(exp map[string]any) bool {
	for _, v := range exp["wpc"].(map[string]any) {
		switch v.(string) {
		case "land_sync", "land_ren", "wtemp", "stemp", "check", "rename", "dsync", "unlock", "stale", "missing":
			return true
		}
	}
	switch w.ppc {
	case "probed", "lock", "recheck", "unlink", "unlock", "release":
		return true
	case "pick":
		return !w.pgate
	}
	return false
}

func (w *vgWorld) compare(n int, a string, exp map[string]any) common.Result {
	ctx := context.Background()
	// table files in the directory
	es, err := os.ReadDir(w.dir)
	if err != nil {
		return common.Fail(n, a, "readdir", "ok", err.Error())
	}
	var got [][]string
	present := map[string]bool{}
	for _, e := range es {
		if len(e.Name()) == 32 {
			present[e.Name()] = true
			t, ok := w.byName[e.Name()]
			if !ok {
				return common.Fail(n, a, "unknown table file in directory", exp["files"], e.Name())
			}
			got = append(got, strings.Split(strings.Trim(t, "{}"), ","))
		}
	}
	w.evals++
	if g, e := vgCanonSet(got), vgCanonSet(vgTables(exp["files"])); g != e {
		return common.Fail(n, a, "table files in directory", e, g)
	}
	// manifest
	em := exp["man"].(map[string]any)
	ex, mc, err := parseIfExists(ctx, w.dir, nil)
	if err != nil {
		return common.Fail(n, a, "manifest unreadable", "readable", err.Error())
	}
	w.evals++
	if ex != em["ex"].(bool) {
		return common.Fail(n, a, "manifest existence", em["ex"], ex)
	}
	var ms [][]string
	for _, s := range mc.specs {
		// C05 on the real directory: every table the manifest names exists
		if !present[s.name.String()] {
			return common.Fail(n, a, "manifest names a missing table file", "present", s.name.String())
		}
		t := w.byName[s.name.String()]
		ms = append(ms, strings.Split(strings.Trim(t, "{}"), ","))
	}
	w.evals++
	if g, e := vgCanonSet(ms), vgCanonSet(vgTables(em["specs"])); g != e {
		return common.Fail(n, a, "manifest specs", e, g)
	}
	busy, err := vgLockBusy(w.dir)
	if err != nil {
		return common.Fail(n, a, "LOCK probe", "ok", err.Error())
	}
	w.evals++
	if busy != (exp["holder"].(string) != "none") {
		return common.Fail(n, a, "dir/LOCK held", exp["holder"], busy)
	}
	// control points
	wpc := exp["wpc"].(map[string]any)["w1"].(string)
	want := map[string]string{"idle": "idle", "read": "@R", "lock": "@U1", "rup": "@U2"}[wpc]
	w.evals++
	if wpc == "done" {
		if got := w.w.at(); got != "@U3" && !strings.HasPrefix(got, "returned") {
			return common.Fail(n, a, "writer control point", "done (@U3 or returned)", got)
		}
	} else if got := w.w.at(); got != want {
		return common.Fail(n, a, "writer control point", wpc+" "+want, got)
	}
	pw := map[string]string{"idle": "idle", "scanned": "@PA", "pick": "@PB"}[w.ppc]
	if got := w.p.at(); got != pw && !(w.ppc == "idle" && strings.HasPrefix(got, "returned")) {
		return common.Fail(n, a, "pruner control point", w.ppc+" "+pw, got)
	}
	return nil
}

func (w *vgWorld) step(n int, s map[string]any) common.Result {
	ctx := context.Background()
	a := s["a"].(string)
	exp := s["exp"].(map[string]any)
	stuck := func() common.Result {
		r := common.Fail(n, a, "goroutine did not reach a gate or return", "progress", "stuck")
		r["stuck"] = true
		return r
	}
	if s["w"].(string) == "pruner" {
		args := s["args"].(map[string]any)
		pre := w.ppc
		preGate := w.pgate
		w.ppc = args["ppc"].(string)
		w.pgate = a == "PRecheck" && w.ppc == "pick"
		switch a {
		case "Tick":
			es, _ := os.ReadDir(w.dir)
			for _, e := range es {
				p := filepath.Join(w.dir, e.Name())
				if fi, err := os.Stat(p); err == nil && fi.Mode().IsRegular() {
					mt := fi.ModTime().Add(-vgTick)
					if err := os.Chtimes(p, mt, mt); err != nil {
						return common.Fail(n, a, "chtimes", "ok", err.Error())
					}
				}
			}
		case "PProbe":
			if w.p.parked != nil && w.p.parked.gate == "" {
				w.p.parked, w.p.inCall = nil, false
			}
			w.p.gating.Store(true)
			w.p.inCall = true
			go func() {
				err := w.pstore.Rebase(ctx)
				var st PruneStats
				if err == nil {
					st, err = w.pstore.PruneUnreferencedWithGrace(ctx, time.Duration(w.grace)*vgTick)
				}
				w.p.evCh <- vgEvent{err: err, st: st}
			}()
			if !w.p.await() {
				return stuck()
			}
		case "PQuiesce":
			if w.p.at() != "@PA" {
				return common.Fail(n, a, "pruner is not at the after-snapshot hook", "@PA", w.p.at())
			}
			w.p.release()
			if !w.p.await() {
				return stuck()
			}
		case "PPick":
			if pre == "pick" && preGate {
				if w.p.at() != "@PB" {
					return common.Fail(n, a, "pruner is not at the under-lock hook", "@PB", w.p.at())
				}
				w.p.release()
				if !w.p.await() {
					return stuck()
				}
			}
		}
		if w.ppc == "idle" && a != "Tick" {
			// the pass is over: the call must have returned without error
			if w.p.parked == nil || w.p.parked.gate != "" {
				return common.Fail(n, a, "prune pass should have returned", "returned", w.p.at())
			}
			if w.p.parked.err != nil {
				return common.Fail(n, a, "prune pass failed", "nil", w.p.parked.err.Error())
			}
			w.stats = append(w.stats, w.p.parked.st.String())
			w.p.parked, w.p.inCall = nil, false
		}
	} else {
		switch a {
		case "LandCreate":
			args := s["args"].(map[string]any)
			t := vfStrs(args["t"])
			name, data, cnt, err := vfBuildTable(w.b, t)
			if err != nil {
				return common.Fail(n, a, "build table", "ok", err.Error())
			}
			w.names[vgCanon(t)] = name.String()
			w.byName[name.String()] = vgCanon(t)
			cl, err := w.wstore.WriteTableFile(ctx, name.String(), 0, int(cnt), nil, func() (io.ReadCloser, uint64, error) {
				return io.NopCloser(bytes.NewReader(data)), uint64(len(data)), nil
			})
			if err != nil {
				return common.Fail(n, a, "WriteTableFile", "ok", err.Error())
			}
			w.wclose = cl
			w.w.gating.Store(true)
			w.w.inCall = true
			st := w.wstore
			go func() {
				err := st.AddTableFilesToManifest(ctx, map[string]int{name.String(): int(cnt)}, vfNoAddrs)
				w.w.evCh <- vgEvent{err: err}
			}()
			if !w.w.await() {
				return stuck()
			}
		case "UpdRead", "UpdLock", "UpdLockTimeout", "UpdReadUpstream":
			pre := map[string]string{"UpdRead": "@R", "UpdLock": "@U1", "UpdLockTimeout": "@U1", "UpdReadUpstream": "@U2"}[a]
			if w.w.at() != pre {
				return common.Fail(n, a, "writer is not at the gate of this action", pre, w.w.at())
			}
			w.w.release()
			if !w.w.await() {
				return stuck()
			}
		case "WDone":
			if w.w.at() == "@U3" {
				w.w.release()
				if !w.w.await() {
					return stuck()
				}
			}
			if w.w.parked == nil || w.w.parked.gate != "" {
				return common.Fail(n, a, "AddTableFilesToManifest should have returned", "returned", w.w.at())
			}
			// the spec's reason for finishing must be the code's: error only for a LOCK timeout or a missing table file
			w.w.parked, w.w.inCall = nil, false
			if w.wclose != nil {
				w.wclose.Close()
				w.wclose = nil
			}
		}
		if a == "UpdAbort" || a == "UpdLockTimeout" {
			// outcome classes: stale => retry (parked at R again); missing / timeout => error return
			why, _ := s["args"].(map[string]any)
			post := exp["wpc"].(map[string]any)["w1"].(string)
			if post == "done" {
				if w.w.parked == nil || w.w.parked.gate != "" || w.w.parked.err == nil {
					return common.Fail(n, a, "update should have failed", fmt.Sprint("error ", why), w.w.at())
				}
				e := w.w.parked.err
				if a == "UpdAbort" && !errors.Is(e, ErrManifestSpecMissingTableFile) {
					return common.Fail(n, a, "kind of failure", "ErrManifestSpecMissingTableFile", e.Error())
				}
				if a == "UpdLockTimeout" && !strings.Contains(e.Error(), "timed out reading database manifest") {
					return common.Fail(n, a, "kind of failure", "lock timeout", e.Error())
				}
			}
		}
		if a == "UpdUnlock" && (w.w.parked == nil || w.w.parked.gate != "U3") {
			return common.Fail(n, a, "update should have succeeded", "@U3", w.w.at())
		}
	}
	if w.busy(exp) {
		return nil
	}
	return w.compare(n, a, exp)
}

func vcRunGFS(c map[string]any) common.Result {
	cfg := c["cfg"].(map[string]any)
	base := os.Getenv("VERIF_WORK")
	if base == "" {
		base = os.TempDir()
	}
	dir, err := os.MkdirTemp(base, "mfs-")
	if err != nil {
		return common.Result{"ok": false, "fp": "setup", "detail": err.Error()}
	}
	defer os.RemoveAll(dir)
	ctx := context.Background()
	w := &vgWorld{dir: dir, b: vfNewBinding(int64(common.Int(cfg["seed"])), vfStrs(cfg["addrs"])), grace: common.Int(cfg["grace"]),
		names: map[string]string{}, byName: map[string]string{}, ppc: "idle"}
	w.w = &vgProc{name: "w1", evCh: make(chan vgEvent, 1), goCh: make(chan struct{})}
	w.p = &vgProc{name: "pruner", evCh: make(chan vgEvent, 1), goCh: make(chan struct{})}
	m, err := getFileManifest(ctx, dir)
	if err != nil {
		return common.Result{"ok": false, "fp": "setup", "detail": err.Error()}
	}
	q := NewUnlimitedMemQuotaProvider()
	w.wstore, err = newNomsBlockStore(ctx, constants.FormatDoltString, vgManifest{m.(fileManifest), w.w}, newFSTablePersister(dir, q, false), q,
		inlineConjoiner{defaultMaxTables}, 1<<20)
	if err != nil {
		return common.Result{"ok": false, "fp": "setup", "detail": err.Error()}
	}
	w.wstore.SetFatalBehavior(dherrors.FatalBehaviorError)
	w.pstore, err = vfOpenLocal(dir, defaultMaxTables)
	if err != nil {
		return common.Result{"ok": false, "fp": "setup", "detail": err.Error()}
	}
	_testPruneAfterSnapshotHook = func() { w.p.gate("PA") }
	_testPruneUnderLockHook = func() { w.p.gate("PB") }
	defer func() {
		_testPruneAfterSnapshotHook, _testPruneUnderLockHook = nil, nil
		// let parked goroutines finish
		w.w.gating.Store(false)
		w.p.gating.Store(false)
		for round := 0; round < 3; round++ {
			for _, p := range []*vgProc{w.p, w.w} {
				if p.parked != nil && p.parked.gate != "" {
					p.release()
				}
				if p.inCall && (p.parked == nil || p.parked.gate != "") {
					select {
					case ev := <-p.evCh:
						p.parked = &ev
					case <-time.After(vgStepTimeout):
					}
				}
			}
		}
		if w.wclose != nil {
			w.wclose.Close()
		}
		w.wstore.Close()
		w.pstore.Close()
	}()
	steps := c["steps"].([]any)
	for n, s := range steps {
		if r := w.step(n, s.(map[string]any)); r != nil {
			r["evals"] = w.evals
			return r
		}
	}
	return common.Result{"ok": true, "evals": w.evals, "prune_stats": w.stats}
}

func TestVerifManifestFS(t *testing.T) {
	if os.Getenv("VERIF_IN") == "" {
		t.Skip("verif engine: no VERIF_IN")
	}
	common.Run(func(c map[string]any) common.Result {
		if c["mode"] == "image" {
			return common.Result{"ok": false, "fp": "use TestVerifManifestFSImage"}
		}
		return vcRunGFS(c)
	})
}
