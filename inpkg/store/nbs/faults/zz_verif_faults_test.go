// Engine "faults" (in-package, injected with -overlay): property C10.
//
// A case is one point of the fault plan that TLC enumerated from /verif/spec/StorageFaults.tla:
//
//	(file kind, build history, stored chunk set in insertion order, logical site, fault kind, allowed outcomes)
//
// The engine builds the REAL file with the store's own writers (table writer, conjoin, archive writer, manifest
// writer), maps the logical site to its byte range in that file, applies the fault byte-exhaustively inside the site
// (every bit for "bitflip", a palette of values for "byteset", every cut point for "truncate", several tails for
// "extend"), and after every single mutation opens the file through the store's own readers and reads EVERYTHING
// (has, hasMany, get, getMany, getManyCompressed, getRecordRanges, iterateAllChunks, index(), reader(), clone, and -
// for a part of the mutations and for all manifest faults - a whole NomsBlockStore on the directory), each call under
// recover() and a timeout.
//
// Verdict per read of address a:  "ok" (the stored bytes / correctly absent), "err", "absent" (stored chunk not found),
// "wrong" (bytes different from the stored ones, or a chunk for an address that was never stored), "panic", "hang".
// The observed outcome must be in the set TLC computed for that site (spec operator Allowed); panic / hang / wrong are
// never in it.
package nbs

import (
	"bufio"
	"bytes"
	"context"
	"crypto/sha512"
	"encoding/binary"
	"encoding/json"
	"errors"
	"fmt"
	"io"
	"math/rand"
	"os"
	"os/exec"
	"path/filepath"
	"regexp"
	"runtime"
	"runtime/debug"
	"sort"
	"strconv"
	"strings"
	"syscall"
	"testing"
	"time"

	"github.com/dolthub/gozstd"
	"golang.org/x/sync/errgroup"

	dherrors "github.com/dolthub/dolt/go/libraries/utils/errors"
	"github.com/dolthub/dolt/go/store/chunks"
	"github.com/dolthub/dolt/go/store/constants"
	"github.com/dolthub/dolt/go/store/hash"
	"github.com/dolthub/dolt/go/zz_verif/common"
)

var sfCallTimeout = 120 * time.Second

const sfHugeAlloc = 1 << 28 // a quota request of 256 MB for a file of a few KB is a runaway allocation

// ---------------------------------------------------------------- quota provider that refuses runaway allocations

type sfQuota struct {
	inner MemoryQuotaProvider
	huge  *int64
}

func (q sfQuota) check(n int) error {
	if n >= sfHugeAlloc || n < 0 {
		*q.huge = int64(n)
		return fmt.Errorf("verif: runaway allocation of %d bytes refused", n)
	}
	return nil
}
func (q sfQuota) AcquireQuotaBytes(ctx context.Context, sz int) error {
	if err := q.check(sz); err != nil {
		return err
	}
	return q.inner.AcquireQuotaBytes(ctx, sz)
}
func (q sfQuota) AcquireQuotaByteSlice(ctx context.Context, sz int) ([]byte, error) {
	if err := q.check(sz); err != nil {
		return nil, err
	}
	return q.inner.AcquireQuotaByteSlice(ctx, sz)
}
func (q sfQuota) AcquireQuotaUint64Slice(ctx context.Context, sz int) ([]uint64, error) {
	if err := q.check(sz * 8); err != nil {
		return nil, err
	}
	return q.inner.AcquireQuotaUint64Slice(ctx, sz)
}
func (q sfQuota) AcquireQuotaUint32Slice(ctx context.Context, sz int) ([]uint32, error) {
	if err := q.check(sz * 4); err != nil {
		return nil, err
	}
	return q.inner.AcquireQuotaUint32Slice(ctx, sz)
}
func (q sfQuota) ReleaseQuotaBytes(sz int) { q.inner.ReleaseQuotaBytes(sz) }
func (q sfQuota) Usage() uint64            { return q.inner.Usage() }

// ---------------------------------------------------------------- binding: model addresses -> concrete chunks

type sfBinding struct {
	Seed  int64  `json:"seed"`
	Sizes string `json:"sizes"` // tiny | small | mixed | big

	plainAddrs bool
}

type sfChunk struct {
	name string
	h    hash.Hash
	data []byte
}

// a1,a2,a4 share the 8-byte prefix tableReader / archiveReader key on; a3 has prefix+1; a5.. are unrelated.
func sfAddr(b sfBinding, name string) hash.Hash {
	if b.plainAddrs {
		// archives: archiveReader's interpolation search (prollyBinSearch) documents that it needs well distributed
		// prefixes; equal / adjacent prefixes are C01/C06 territory (TableFile.tla), not a storage fault
		// (archiveChunkSource.getMany also re-derives the address from the content: real content hashes here)
		return hash.Of(sfData(b, name))
	}
	var h hash.Hash
	s := sha512.Sum512([]byte(fmt.Sprintf("verif-c10-addr-%d-%s", b.Seed, name)))
	copy(h[:], s[:20])
	p := sha512.Sum512([]byte(fmt.Sprintf("verif-c10-prefix-%d", b.Seed)))
	pre := binary.BigEndian.Uint64(p[:8])
	if pre > ^uint64(0)-8 {
		pre -= 16
	}
	switch name {
	case "a1", "a2", "a4":
		binary.BigEndian.PutUint64(h[:8], pre)
	case "a3":
		binary.BigEndian.PutUint64(h[:8], pre+1)
	}
	return h
}

func sfData(b sfBinding, name string) []byte {
	rng := rand.New(rand.NewSource(b.Seed*7919 + int64(len(name))*31 + int64(name[len(name)-1])))
	n := 0
	switch b.Sizes {
	case "tiny":
		n = 1 + rng.Intn(3)
	case "small":
		n = 20 + rng.Intn(40)
	case "big":
		n = 3000 + rng.Intn(3000)
	default:
		n = []int{1, 17, 300, 2000, 64}[int(name[len(name)-1])%5]
	}
	out := make([]byte, n)
	if int(name[len(name)-1])%2 == 0 {
		rng.Read(out) // incompressible
		out[0] = name[len(name)-1]
	} else {
		for i := range out {
			out[i] = "verif-c10 compressible payload "[i%31]
		}
		out[0] = name[len(name)-1]
	}
	return out
}

// ---------------------------------------------------------------- file construction with the store's own writers

type sfSite struct {
	off, n int
	owners []string // model addresses whose reads go through this site
}

type sfFile struct {
	kind    string
	name    hash.Hash // table / archive file id
	fname   string    // file name inside the directory
	bytes   []byte
	count   uint32
	sites   map[string]sfSite // "cls/i" -> range
	stored  map[hash.Hash]sfChunk
	probes  []sfChunk // every model address (stored or not)
	extra   map[string][]byte
	chunksN int
}

func sfKey(cls string, i int) string { return fmt.Sprintf("%s/%d", cls, i) }

func sfBuildTable(b sfBinding, cs []sfChunk) ([]byte, hash.Hash, error) {
	if len(cs) == 0 {
		return nil, hash.Hash{}, errors.New("empty table")
	}
	total := uint64(0)
	for _, c := range cs {
		total += uint64(len(c.data))
	}
	buff := make([]byte, maxTableSize(uint64(len(cs)), total)+1024)
	tw := newTableWriter(buff, nil)
	for _, c := range cs {
		if !tw.addChunk(c.h, c.data) {
			return nil, hash.Hash{}, errors.New("table writer full")
		}
	}
	l, name, err := tw.finish()
	if err != nil {
		return nil, hash.Hash{}, err
	}
	return buff[:l], name, nil
}

// layout of a noms table file with the chunk records in |order| (file order)
func sfTableSites(f *sfFile, order []sfChunk) {
	n := len(order)
	// chunk records
	off := 0
	for j, c := range order {
		cc := ChunkToCompressedChunk(chunks.NewChunkWithHash(c.h, c.data))
		l := len(cc.FullCompressedChunk)
		f.sites[sfKey("rec.data", j+1)] = sfSite{off, l - checksumSize, []string{c.name}}
		f.sites[sfKey("rec.crc", j+1)] = sfSite{off + l - checksumSize, checksumSize, []string{c.name}}
		off += l
	}
	// index: prefix tuples sorted by prefix (stable w.r.t. the writer's sort), lengths and suffixes by ordinal
	type pt struct {
		c   sfChunk
		ord int
	}
	pts := make([]pt, n)
	for j, c := range order {
		pts[j] = pt{c, j}
	}
	sort.SliceStable(pts, func(i, j int) bool { return bytes.Compare(pts[i].c.h[:], pts[j].c.h[:]) < 0 })
	for k := range pts {
		// the owner of tuple k is the chunk its ordinal (as written in the real file) points to: the writer's sort is by
		// prefix only, so tuples with equal prefixes may stand in either order
		to := off + k*prefixTupleSize
		owner := pts[k].c.name
		if to+prefixTupleSize <= len(f.bytes) {
			if ord := int(binary.BigEndian.Uint32(f.bytes[to+hash.PrefixLen:])); ord < n {
				owner = order[ord].name
			}
		}
		f.sites[sfKey("idx.prefix", k+1)] = sfSite{to, hash.PrefixLen, []string{owner}}
		f.sites[sfKey("idx.ordinal", k+1)] = sfSite{to + hash.PrefixLen, ordinalSize, []string{owner}}
	}
	off += n * prefixTupleSize
	for j, c := range order {
		var owners []string
		for _, d := range order[j:] {
			owners = append(owners, d.name)
		}
		_ = c
		f.sites[sfKey("idx.length", j+1)] = sfSite{off + j*lengthSize, lengthSize, owners}
	}
	off += n * lengthSize
	for j, c := range order {
		f.sites[sfKey("idx.suffix", j+1)] = sfSite{off + j*hash.SuffixLen, hash.SuffixLen, []string{c.name}}
	}
	off += n * hash.SuffixLen
	all := []string{}
	for _, c := range order {
		all = append(all, c.name)
	}
	f.sites[sfKey("ftr.count", 0)] = sfSite{off, uint32Size, all}
	f.sites[sfKey("ftr.uncomp", 0)] = sfSite{off + uint32Size, uint64Size, nil}
	f.sites[sfKey("ftr.magic", 0)] = sfSite{off + uint32Size + uint64Size, magicNumberSize, all}
	f.sites[sfKey("eof", 0)] = sfSite{off + int(footerSize), 0, all}
}

var sfDictRaw []byte // trained once per process (production buildDictionary)

func sfDictionary() ([]byte, *gozstd.CDict, error) {
	if sfDictRaw == nil {
		var chks []*chunks.Chunk
		rng := rand.New(rand.NewSource(42))
		for i := 0; i < 12; i++ {
			d := make([]byte, 600)
			for j := range d {
				d[j] = "verif-c10 compressible payload "[j%31]
			}
			for j := 0; j < 40; j++ {
				d[rng.Intn(len(d))] = byte(rng.Intn(256))
			}
			c := chunks.NewChunk(d)
			chks = append(chks, &c)
		}
		sfDictRaw = buildDictionary(chks)
	}
	cd, err := gozstd.NewCDict(sfDictRaw)
	if err != nil {
		return nil, nil, err
	}
	return gozstd.Compress(nil, sfDictRaw), cd, nil
}

// sfBuildArchive writes an archive with the production archiveWriter. how: "snappy" | "zstd" | "mixed".
func sfBuildArchive(f *sfFile, how string, order []sfChunk) error {
	sink := NewFixedBufferByteSink(make([]byte, 1<<20))
	aw := newArchiveWriterWithSink(sink)
	type span struct{ off, n int }
	var spans []span
	pos := 0
	addSpan := func(b []byte) (uint32, error) {
		id, err := aw.writeByteSpan(b)
		if err == nil {
			spans = append(spans, span{pos, len(b)})
			pos += len(b)
		}
		return id, err
	}
	var dictID uint32
	var cdict *gozstd.CDict
	nd := 0
	if how != "snappy" {
		dc, cd, err := sfDictionary()
		if err != nil {
			return err
		}
		cdict = cd
		if dictID, err = addSpan(dc); err != nil {
			return err
		}
		nd = 1
	}
	dataSpan := map[string]int{}
	usesDict := map[string]bool{}
	for j, c := range order {
		z := how == "zstd" || (how == "mixed" && j%2 == 0)
		if z {
			id, err := addSpan(gozstd.CompressDict(nil, c.data, cdict))
			if err != nil {
				return err
			}
			if err = aw.stageZStdChunk(c.h, dictID, id); err != nil {
				return err
			}
			usesDict[c.name] = true
		} else {
			cc := ChunkToCompressedChunk(chunks.NewChunkWithHash(c.h, c.data))
			id, err := addSpan(cc.FullCompressedChunk)
			if err != nil {
				return err
			}
			if err = aw.stageSnappyChunk(c.h, id); err != nil {
				return err
			}
		}
		dataSpan[c.name] = len(spans)
	}
	if err := aw.finalizeByteSpans(); err != nil {
		return err
	}
	if err := aw.writeIndex(); err != nil {
		return err
	}
	meta := []byte(`{"origin_table_file":"verif"}`)
	if err := aw.writeMetadata(meta); err != nil {
		return err
	}
	if err := aw.writeFooter(); err != nil {
		return err
	}
	name, err := aw.getName()
	if err != nil {
		return err
	}
	f.bytes = append([]byte{}, sink.buff[:sink.pos]...)
	pos = int(0) + pos
	f.name = name
	f.fname = name.String() + ArchiveFileSuffix
	n := len(order)
	all := []string{}
	var dictUsers []string
	for _, c := range order {
		all = append(all, c.name)
		if usesDict[c.name] {
			dictUsers = append(dictUsers, c.name)
		}
	}
	// spans
	if nd == 1 {
		f.sites[sfKey("span.dict", 1)] = sfSite{spans[0].off, spans[0].n, dictUsers}
	}
	for j, c := range order {
		s := spans[dataSpan[c.name]-1]
		f.sites[sfKey("span.data", j+1)] = sfSite{s.off, s.n, []string{c.name}}
	}
	off := pos
	ns := len(spans)
	for s := 0; s < ns; s++ {
		f.sites[sfKey("ix.spanend", s+1)] = sfSite{off + s*uint64Size, uint64Size, all}
	}
	off += ns * uint64Size
	// index order = sorted by full address
	sorted := append([]sfChunk{}, order...)
	sort.SliceStable(sorted, func(i, j int) bool { return bytes.Compare(sorted[i].h[:], sorted[j].h[:]) < 0 })
	for k, c := range sorted {
		f.sites[sfKey("ix.prefix", k+1)] = sfSite{off + k*uint64Size, uint64Size, []string{c.name}}
	}
	off += n * uint64Size
	for k, c := range sorted {
		f.sites[sfKey("ix.ref.dict", k+1)] = sfSite{off + k*8, 4, []string{c.name}}
		f.sites[sfKey("ix.ref.data", k+1)] = sfSite{off + k*8 + 4, 4, []string{c.name}}
	}
	off += n * 8
	for k, c := range sorted {
		f.sites[sfKey("ix.suffix", k+1)] = sfSite{off + k*hash.SuffixLen, hash.SuffixLen, []string{c.name}}
	}
	off += n * hash.SuffixLen
	f.sites[sfKey("meta", 0)] = sfSite{off, len(meta), nil}
	off += len(meta)
	f.sites[sfKey("ftr.indexlen", 0)] = sfSite{off + afrIndexLenOffset, uint64Size, all}
	f.sites[sfKey("ftr.spancount", 0)] = sfSite{off + afrByteSpanOffset, uint32Size, all}
	f.sites[sfKey("ftr.chunkcount", 0)] = sfSite{off + afrChunkCountOffset, uint32Size, all}
	f.sites[sfKey("ftr.metalen", 0)] = sfSite{off + afrMetaLenOffset, uint32Size, all}
	f.sites[sfKey("ftr.checksums", 0)] = sfSite{off + afrDataChkSumOffset, int(archiveCheckSumSize), nil}
	f.sites[sfKey("ftr.version", 0)] = sfSite{off + afrVersionOffset, 1, all}
	f.sites[sfKey("ftr.sig", 0)] = sfSite{off + afrSigOffset, int(archiveFileSigSize), all}
	f.sites[sfKey("eof", 0)] = sfSite{off + int(archiveFooterSize), 0, all}
	if off+int(archiveFooterSize) != len(f.bytes) {
		return fmt.Errorf("archive layout mismatch: computed %d, file %d", off+int(archiveFooterSize), len(f.bytes))
	}
	return nil
}

// ---------------------------------------------------------------- reading everything

type sfObs struct {
	perAddr map[string]map[string]bool // model address -> set of outcomes
	open    string                     // "ok" | "err" | "panic" | "hang"
	panics  []string
	openErr string
	hang    string
	huge    int64
	calls   int
	trace   []string
}

func (o *sfObs) add(name, outcome string) {
	if outcome != "ok" && len(o.trace) < 12 {
		o.trace = append(o.trace, fmt.Sprintf("%s@call%d:%s", name, o.calls, outcome))
	}
	if o.perAddr[name] == nil {
		o.perAddr[name] = map[string]bool{}
	}
	o.perAddr[name][outcome] = true
}

var sfFrameRe = regexp.MustCompile(`(?m)^(github\.com/dolthub/dolt/go/\S+|github\.com/dolthub/gozstd\S*)\(`)

// the innermost dolt frame below the panic
func sfPanicSite(stack string) string {
	i := strings.Index(stack, "panic(")
	if i >= 0 {
		stack = stack[i:]
	}
	for _, m := range sfFrameRe.FindAllStringSubmatch(stack, -1) {
		fn := m[1]
		if strings.Contains(fn, "sfGuard") || strings.Contains(fn, "zz_verif") || strings.Contains(fn, ".sf") {
			continue
		}
		fn = strings.TrimPrefix(fn, "github.com/dolthub/dolt/go/")
		return sfNormFrame(fn)
	}
	return "unknown"
}

var sfClosureRe = regexp.MustCompile(`(\.func\d+|\.\d+|\.gowrap\d+)+$`)

func sfNormFrame(fn string) string {
	fn = sfClosureRe.ReplaceAllString(fn, "")
	fn = strings.NewReplacer("(*", "", ")", "").Replace(fn)
	return fn
}

// sfGuard runs fn under recover and a timeout. Returns "", "panic:<site>" or "hang".
func sfGuard(o *sfObs, what string, fn func()) string {
	done := make(chan string, 1)
	go func() {
		defer func() {
			if p := recover(); p != nil {
				done <- "panic:" + sfPanicSite(string(debug.Stack())) + ": " + strings.SplitN(fmt.Sprint(p), "\n", 2)[0]
				return
			}
			done <- ""
		}()
		fn()
	}()
	o.calls++
	select {
	case r := <-done:
		if r != "" {
			o.panics = append(o.panics, what+": "+r)
		}
		return r
	case <-time.After(sfCallTimeout):
		o.hang = what
		return "hang"
	}
}

func sfClassify(f *sfFile, c sfChunk, data []byte, found bool, err error) string {
	_, stored := f.stored[c.h]
	switch {
	case err != nil:
		return "err"
	case !found || data == nil:
		if stored {
			return "absent"
		}
		return "ok"
	case !stored:
		if f.kind == "archive" && hash.Of(data) == c.h {
			// content-addressed binding: the damaged bytes of another chunk happen to BE this address's content
			// (archiveChunkSource.getMany re-derives the address from the bytes); content matches address
			return "ok"
		}
		return "wrong" // a chunk for an address that was never stored
	case bytes.Equal(data, c.data):
		return "ok"
	default:
		return "wrong"
	}
}

// sfReadSource reads everything through the chunkSource interface.
func sfReadSource(f *sfFile, dir string, mmap bool, o *sfObs) {
	ctx := context.Background()
	stats := NewStats()
	q := sfQuota{NewUnlimitedMemQuotaProvider(), &o.huge}
	var cs chunkSource
	var err error
	if r := sfGuard(o, "open", func() {
		cs, err = newFileTableReader(ctx, dir, f.name, f.count, q, mmap, noopRefCounter{}, stats)
	}); r != "" {
		o.open = strings.SplitN(r, ":", 2)[0]
		for _, c := range f.probes {
			o.add(c.name, o.open)
		}
		return
	}
	if err != nil {
		o.open, o.openErr = "err", err.Error()
		for _, c := range f.probes {
			o.add(c.name, "err")
		}
		return
	}
	o.open = "ok"
	defer sfGuard(o, "close", func() { cs.close() })
	mark := func(what, r string) {
		// a panic / hang inside a multi-address call is attributed to every probe
		for _, c := range f.probes {
			o.add(c.name, strings.SplitN(r, ":", 2)[0])
		}
	}
	for _, c := range f.probes {
		c := c
		if r := sfGuard(o, "has", func() {
			ok, _, err := cs.has(c.h, nil)
			_, stored := f.stored[c.h]
			switch {
			case err != nil:
				o.add(c.name, "err")
			case ok && !stored:
				o.add(c.name, "wrong")
			case !ok && stored:
				o.add(c.name, "absent")
			default:
				// presence queries do not touch the chunk's bytes: their "ok" says nothing about a data read
			}
		}); r != "" {
			o.add(c.name, strings.SplitN(r, ":", 2)[0])
		}
		if r := sfGuard(o, "get", func() {
			d, _, err := cs.get(ctx, c.h, nil, stats)
			o.add(c.name, sfClassify(f, c, d, d != nil, err))
		}); r != "" {
			o.add(c.name, strings.SplitN(r, ":", 2)[0])
		}
	}
	byHash := map[hash.Hash]sfChunk{}
	hs := hash.HashSet{}
	for _, c := range f.probes {
		byHash[c.h] = c
		hs.Insert(c.h)
	}
	if r := sfGuard(o, "hasMany", func() {
		recs := toHasRecords(hs)
		_, _, err := cs.hasMany(recs, nil)
		for _, rec := range recs {
			c := byHash[*rec.a]
			_, stored := f.stored[c.h]
			switch {
			case err != nil:
				o.add(c.name, "err")
			case rec.has && !stored:
				o.add(c.name, "wrong")
			case !rec.has && stored:
				o.add(c.name, "absent")
			}
		}
	}); r != "" {
		mark("hasMany", r)
	}
	many := func(what string, compressed bool) {
		if r := sfGuard(o, what, func() {
			recs := toGetRecords(hs)
			eg, ectx := errgroup.WithContext(ctx)
			got := map[hash.Hash][]byte{}
			batchErr := false
			var cerr error
			var mu = make(chan struct{}, 1)
			mu <- struct{}{}
			var err error
			if compressed {
				_, _, err = cs.getManyCompressed(ectx, eg, recs, func(_ context.Context, tc ToChunker) {
					<-mu
					defer func() { mu <- struct{}{} }()
					ch, e := tc.ToChunk()
					if e != nil {
						cerr = e
						return
					}
					got[tc.Hash()] = ch.Data()
				}, nil, stats)
			} else {
				_, _, err = cs.getMany(ectx, eg, recs, func(_ context.Context, ch *chunks.Chunk) {
					<-mu
					defer func() { mu <- struct{}{} }()
					got[ch.Hash()] = ch.Data()
				}, nil, stats)
			}
			if werr := eg.Wait(); err == nil {
				err = werr
			}
			if err == nil {
				err = cerr
			}
			for _, c := range f.probes {
				d, found := got[c.h]
				if found {
					// delivered chunks are judged on their bytes even if the call as a whole failed
					o.add(c.name, sfClassify(f, c, d, true, nil))
				} else if err == nil {
					o.add(c.name, sfClassify(f, c, nil, false, nil))
				} else {
					batchErr = true // the batch as a whole reported an error: nothing can be said about one address
				}
			}
			if batchErr {
				o.add("(batch)", "err")
			}
			// (archiveChunkSource.getMany re-derives the address from the bytes: a damaged chunk is delivered under the
			// hash of its damaged content; its content matches ITS address, the requested one stays undelivered = "absent")
		}); r != "" {
			mark(what, r)
		}
	}
	many("getMany", false)
	many("getManyCompressed", true)
	if r := sfGuard(o, "getRecordRanges", func() {
		recs := toGetRecords(hs)
		rngs, _, err := cs.getRecordRanges(ctx, dherrors.FatalBehaviorError, recs, nil)
		if err != nil {
			return
		}
		for h := range rngs {
			c, known := byHash[h]
			if _, stored := f.stored[h]; !known || !stored {
				o.add(c.name, "wrong")
			}
		}
	}); r != "" {
		mark("getRecordRanges", r)
	}
	if r := sfGuard(o, "iterateAllChunks", func() {
		seen := map[hash.Hash][]byte{}
		err := cs.iterateAllChunks(ctx, func(ch chunks.Chunk) { seen[ch.Hash()] = ch.Data() }, stats)
		for h, d := range seen {
			c, known := byHash[h]
			if !known {
				continue // an address that nobody asked for: fsck territory, not a read under an address
			}
			o.add(c.name, sfClassify(f, c, d, true, nil))
		}
		_ = err
	}); r != "" {
		mark("iterateAllChunks", r)
	}
	sfGuard(o, "index", func() {
		idx, err := cs.index()
		if err != nil || idx == nil {
			return
		}
		n := idx.chunkCount()
		for i := uint32(0); i < n && i < 64; i++ {
			var a hash.Hash
			idx.indexEntry(i, &a)
		}
		if ords, rel, err := idx.ordinals(ctx); err == nil {
			_ = ords
			rel()
		}
		if ps, rel, err := idx.prefixes(ctx); err == nil {
			_ = ps
			rel()
		}
		idx.tableFileSize()
		idx.totalUncompressedData()
	})
	sfGuard(o, "reader", func() {
		rd, _, err := cs.reader(ctx, dherrors.FatalBehaviorError)
		if err == nil {
			io.Copy(io.Discard, rd)
			rd.Close()
		}
	})
	sfGuard(o, "misc", func() {
		cs.count()
		cs.uncompressedLen()
		cs.currentSize()
		c2, err := cs.clone()
		if err == nil {
			c2.close()
		}
	})
}

// sfReadStore opens a whole NomsBlockStore on the directory (manifest + table files) and reads through the public API.
func sfReadStore(f *sfFile, dir string, wantRoot hash.Hash, journal bool, o *sfObs) (root hash.Hash, opened bool) {
	ctx := context.Background()
	q := sfQuota{NewUnlimitedMemQuotaProvider(), &o.huge}
	var st *NomsBlockStore
	var err error
	if r := sfGuard(o, "store.open", func() {
		if journal {
			st, err = NewLocalJournalingStore(ctx, constants.FormatDoltString, dir, q, false, func(error) {})
			if err == nil {
				_, err = st.Root(ctx) // forces the lazy load
			}
		} else {
			st, err = NewLocalStore(ctx, constants.FormatDoltString, dir, 1<<20, q, false)
		}
	}); r != "" {
		o.open = strings.SplitN(r, ":", 2)[0]
		for _, c := range f.probes {
			o.add(c.name, o.open)
		}
		return hash.Hash{}, false
	}
	if err != nil {
		if st != nil {
			sfGuard(o, "store.close", func() { st.Close() })
		}
		o.open, o.openErr = "err", err.Error()
		for _, c := range f.probes {
			o.add(c.name, "err")
		}
		return hash.Hash{}, false
	}
	o.open = "ok"
	defer sfGuard(o, "store.close", func() { st.Close() })
	sfGuard(o, "store.root", func() { root, _ = st.Root(ctx) })
	hs := hash.HashSet{}
	byHash := map[hash.Hash]sfChunk{}
	for _, c := range f.probes {
		hs.Insert(c.h)
		byHash[c.h] = c
	}
	for _, c := range f.probes {
		c := c
		if r := sfGuard(o, "store.get", func() {
			ch, err := st.Get(ctx, c.h)
			o.add(c.name, sfClassify(f, c, ch.Data(), !ch.IsEmpty(), err))
			ok, err := st.Has(ctx, c.h)
			_, stored := f.stored[c.h]
			switch {
			case err != nil:
				o.add(c.name, "err")
			case ok && !stored:
				o.add(c.name, "wrong")
			case !ok && stored:
				o.add(c.name, "absent")
			}
		}); r != "" {
			o.add(c.name, strings.SplitN(r, ":", 2)[0])
		}
	}
	if r := sfGuard(o, "store.getMany", func() {
		got := map[hash.Hash][]byte{}
		mu := make(chan struct{}, 1)
		mu <- struct{}{}
		err := st.GetMany(ctx, hs, func(_ context.Context, ch *chunks.Chunk) {
			<-mu
			got[ch.Hash()] = ch.Data()
			mu <- struct{}{}
		})
		for _, c := range f.probes {
			d, found := got[c.h]
			if found {
				o.add(c.name, sfClassify(f, c, d, true, nil))
			} else if err == nil {
				o.add(c.name, sfClassify(f, c, nil, false, nil))
			}
		}
		absent, err := st.HasMany(ctx, hs)
		if err == nil {
			for _, c := range f.probes {
				_, stored := f.stored[c.h]
				if absent.Has(c.h) && stored {
					o.add(c.name, "absent")
				} else if !absent.Has(c.h) && !stored {
					o.add(c.name, "wrong")
				}
			}
		}
	}); r != "" {
		for _, c := range f.probes {
			o.add(c.name, strings.SplitN(r, ":", 2)[0])
		}
	}
	sfGuard(o, "store.misc", func() {
		st.Sources(ctx)
		st.Size(ctx)
		st.Count(ctx)
	})
	return root, true
}

// ---------------------------------------------------------------- mutations

type sfMut struct {
	desc string
	data []byte
}

func sfPositions(site sfSite, maxpos int, rng *rand.Rand) []int {
	var ps []int
	if site.n <= maxpos || maxpos <= 0 {
		for p := site.n - 1; p >= 0; p-- {
			ps = append(ps, site.off+p)
		}
		return ps
	}
	// first and last 4 bytes always, the rest sampled
	seen := map[int]bool{}
	for _, p := range []int{0, 1, 2, 3, site.n - 4, site.n - 3, site.n - 2, site.n - 1} {
		if p >= 0 && p < site.n && !seen[p] {
			seen[p] = true
			ps = append(ps, site.off+p)
		}
	}
	for len(ps) < maxpos {
		p := rng.Intn(site.n)
		if !seen[p] {
			seen[p] = true
			ps = append(ps, site.off+p)
		}
	}
	sort.Sort(sort.Reverse(sort.IntSlice(ps))) // least significant byte of big-endian numbers first
	return ps
}

func sfMutations(f *sfFile, site sfSite, fault string, maxpos int, rng *rand.Rand, each func(m sfMut) bool) {
	orig := f.bytes
	switch fault {
	case "bitflip":
		for _, p := range sfPositions(site, maxpos, rng) {
			for bit := 0; bit < 8; bit++ {
				d := append([]byte{}, orig...)
				d[p] ^= 1 << bit
				if !each(sfMut{fmt.Sprintf("flip bit %d of byte %d", bit, p), d}) {
					return
				}
			}
		}
	case "byteset":
		for _, p := range sfPositions(site, maxpos, rng) {
			vals := []byte{0x00, 0xff, orig[p] + 1, orig[p] - 1, 0x7f, 0x80, ':', '0'}
			done := map[byte]bool{orig[p]: true}
			for _, v := range vals {
				if done[v] {
					continue
				}
				done[v] = true
				d := append([]byte{}, orig...)
				d[p] = v
				if !each(sfMut{fmt.Sprintf("set byte %d to 0x%02x", p, v), d}) {
					return
				}
			}
		}
	case "truncate":
		ps := sfPositions(site, maxpos, rng)
		if site.n == 0 {
			ps = nil
		}
		for _, p := range ps {
			if p >= len(orig) {
				continue
			}
			if !each(sfMut{fmt.Sprintf("truncate to %d bytes", p), append([]byte{}, orig[:p]...)}) {
				return
			}
		}
	case "extend":
		tails := [][]byte{{0}, make([]byte, 8), make([]byte, 4096)}
		r := make([]byte, 37)
		rng.Read(r)
		tails = append(tails, r)
		// the file's own tail again (a second index + footer after the first)
		for _, k := range []int{20, 40, len(orig) / 2, len(orig)} {
			if k > 0 && k <= len(orig) {
				tails = append(tails, orig[len(orig)-k:])
			}
		}
		for i, t := range tails {
			d := append(append([]byte{}, orig...), t...)
			if !each(sfMut{fmt.Sprintf("append %d bytes (tail %d)", len(t), i), d}) {
				return
			}
		}
	}
}

// ---------------------------------------------------------------- one case

func sfRunCase(c map[string]any, progress func(obj map[string]any)) common.Result {
	skipTo := 0
	if v, ok := c["skipTo"]; ok {
		skipTo = common.Int(v)
	}
	var b sfBinding
	bm, _ := c["binding"].(map[string]any)
	b.Seed = int64(common.Int(bm["seed"]))
	b.Sizes, _ = bm["sizes"].(string)
	kind := c["kind"].(string)
	build := c["build"].(string)
	b.plainAddrs = kind == "archive"
	siteM := c["site"].(map[string]any)
	cls, si := siteM["cls"].(string), common.Int(siteM["i"])
	fault := c["fault"].(string)
	maxpos := 0
	if v, ok := c["maxpos"]; ok {
		maxpos = common.Int(v)
	}
	allowedOwner, allowedOther := map[string]bool{}, map[string]bool{}
	am := c["allowed"].(map[string]any)
	for _, x := range am["owner"].([]any) {
		allowedOwner[x.(string)] = true
	}
	for _, x := range am["other"].([]any) {
		allowedOther[x.(string)] = true
	}
	f := &sfFile{kind: kind, sites: map[string]sfSite{}, stored: map[hash.Hash]sfChunk{}}
	var order []sfChunk
	for _, a := range c["chunks"].([]any) {
		ch := sfChunk{a.(string), sfAddr(b, a.(string)), sfData(b, a.(string))}
		order = append(order, ch)
		f.stored[ch.h] = ch
	}
	for _, a := range c["addrs"].([]any) {
		f.probes = append(f.probes, sfChunk{a.(string), sfAddr(b, a.(string)), sfData(b, a.(string))})
	}
	work, err := os.MkdirTemp(os.Getenv("VERIF_WORK"), "faults-")
	if err != nil {
		return common.Result{"ok": false, "fp": "harness", "detail": err.Error(), "inconclusive": true}
	}
	defer os.RemoveAll(work)
	harness := func(err error) common.Result {
		return common.Result{"ok": false, "fp": "harness:build", "detail": err.Error(), "inconclusive": true}
	}
	var manifestBytes []byte
	root := order[0].h
	switch kind {
	case "table", "manifest":
		fileOrder := order
		if build == "conjoin" && len(order) >= 2 {
			// two tables conjoined with the production conjoiner; the chunk records of the first come first
			cut := (len(order) + 1) / 2
			var srcs chunkSources
			d0 := filepath.Join(work, "src")
			os.Mkdir(d0, 0777)
			p := newFSTablePersister(d0, NewUnlimitedMemQuotaProvider(), false).(*fsTablePersister)
			for _, part := range [][]sfChunk{order[:cut], order[cut:]} {
				bs, name, err := sfBuildTable(b, part)
				if err != nil {
					return harness(err)
				}
				if err := os.WriteFile(filepath.Join(d0, name.String()), bs, 0666); err != nil {
					return harness(err)
				}
				cs, err := p.Open(context.Background(), name, uint32(len(part)), NewStats())
				if err != nil {
					return harness(err)
				}
				srcs = append(srcs, cs)
			}
			cj, _, err := p.ConjoinAll(context.Background(), dherrors.FatalBehaviorError, srcs, NewStats())
			if err != nil {
				return harness(err)
			}
			f.name = cj.hash()
			f.bytes, err = os.ReadFile(filepath.Join(d0, f.name.String()))
			cj.close()
			for _, s := range srcs {
				s.close()
			}
			p.Close()
			if err != nil {
				return harness(err)
			}
		} else {
			var err error
			f.bytes, f.name, err = sfBuildTable(b, order)
			if err != nil {
				return harness(err)
			}
		}
		f.fname = f.name.String()
		f.count = uint32(len(order))
		// the order of the chunk records in the file, read back from the real index (conjoin may reorder its sources)
		{
			idx, err := parseTableIndexByCopy(context.Background(), f.bytes, NewUnlimitedMemQuotaProvider())
			if err != nil {
				return harness(err)
			}
			fileOrder = make([]sfChunk, len(order))
			for _, ch := range order {
				h := ch.h
				ord, err := idx.lookupOrdinal(&h)
				if err != nil || int(ord) >= len(order) {
					idx.Close()
					return harness(fmt.Errorf("chunk %s not in the freshly built table", ch.name))
				}
				fileOrder[ord] = ch
			}
			idx.Close()
		}
		sfTableSites(f, fileOrder)
		for j, ch := range fileOrder {
			st := f.sites[sfKey("rec.data", j+1)]
			cc := ChunkToCompressedChunk(chunks.NewChunkWithHash(ch.h, ch.data))
			if !bytes.Equal(f.bytes[st.off:st.off+st.n], cc.CompressedData) {
				return harness(fmt.Errorf("table layout mismatch at record %d", j+1))
			}
		}
		if want := f.sites[sfKey("eof", 0)].off; want != len(f.bytes) {
			return harness(fmt.Errorf("table layout mismatch: computed %d, file %d", want, len(f.bytes)))
		}
	case "archive":
		if err := sfBuildArchive(f, build, order); err != nil {
			return harness(err)
		}
		f.count = uint32(len(order))
	default:
		return common.Result{"ok": false, "fp": "harness:kind", "detail": kind}
	}
	dir := filepath.Join(work, "db")
	os.Mkdir(dir, 0777)
	// a manifest that names the file (store-level reads, and the object of the manifest faults)
	{
		mc := manifestContents{manifestVers: StorageVersion, nbfVers: constants.FormatDoltString, root: root,
			specs: []tableSpec{{name: f.name, chunkCount: f.count}}}
		if build == "gcgen" || build == "two" {
			mc.gcGen = sfAddr(b, "gcgen")
		}
		if build == "two" {
			// a second table with one more chunk
			extra := sfChunk{"a9", sfAddr(b, "a9"), sfData(b, "a9")}
			bs, name, err := sfBuildTable(b, []sfChunk{extra})
			if err != nil {
				return harness(err)
			}
			os.WriteFile(filepath.Join(dir, name.String()), bs, 0666)
			mc.specs = append(mc.specs, tableSpec{name: name, chunkCount: 1})
		}
		mc.lock = generateLockHash(mc.root, mc.specs, mc.appendix, nil)
		var buf bytes.Buffer
		if err := writeManifest(&buf, mc); err != nil {
			return harness(err)
		}
		manifestBytes = buf.Bytes()
	}
	target := filepath.Join(dir, f.fname)
	mfPath := filepath.Join(dir, manifestFileName)
	var site sfSite
	mf := &sfFile{kind: "manifest", bytes: manifestBytes, sites: map[string]sfSite{}}
	if kind == "manifest" {
		if err := os.WriteFile(target, f.bytes, 0666); err != nil {
			return harness(err)
		}
		// fields separated by ':'
		fields := strings.Split(string(manifestBytes), ":")
		names := []string{"m.version", "m.nbf", "m.lock", "m.root", "m.gcgen"}
		off := 0
		for i, fl := range fields {
			var key string
			if i < len(names) {
				key = sfKey(names[i], 0)
			} else if (i-len(names))%2 == 0 {
				key = sfKey("m.tname", (i-len(names))/2+1)
			} else {
				key = sfKey("m.tcount", (i-len(names))/2+1)
			}
			mf.sites[key] = sfSite{off, len(fl), nil}
			if i > 0 {
				mf.sites[sfKey("m.sep", i)] = sfSite{off - 1, 1, nil}
			}
			off += len(fl) + 1
		}
		mf.sites[sfKey("eof", 0)] = sfSite{len(manifestBytes), 0, nil}
		s, ok := mf.sites[sfKey(cls, si)]
		if !ok {
			return common.Result{"ok": false, "fp": "harness:site", "detail": "no such site " + sfKey(cls, si)}
		}
		site = s
	} else {
		if err := os.WriteFile(mfPath, manifestBytes, 0666); err != nil {
			return harness(err)
		}
		s, ok := f.sites[sfKey(cls, si)]
		if !ok {
			return common.Result{"ok": false, "fp": "harness:site", "detail": "no such site " + sfKey(cls, si)}
		}
		site = s
	}
	owner := map[string]bool{}
	for _, n := range site.owners {
		owner[n] = true
	}
	if kind == "manifest" {
		for _, p := range f.probes {
			owner[p.name] = true // every read goes through the manifest
		}
	}
	// sanity: the unmodified file reads back completely (otherwise the harness is wrong, not dolt)
	if skipTo == 0 {
		o := &sfObs{perAddr: map[string]map[string]bool{}}
		if kind == "manifest" {
			os.WriteFile(mfPath, manifestBytes, 0666)
			sfReadStore(f, dir, root, false, o)
		} else {
			os.WriteFile(target, f.bytes, 0666)
			sfReadSource(f, dir, false, o)
		}
		for n, outs := range o.perAddr {
			for out := range outs {
				if out != "ok" {
					return common.Result{"ok": false, "fp": "harness:baseline", "inconclusive": true,
						"detail": fmt.Sprintf("unmodified %s file does not read back: %s -> %s (%s %v) %v", kind, n, out, o.openErr, o.panics, o.trace)}
				}
			}
		}
	}
	rng := rand.New(rand.NewSource(b.Seed*131 + int64(len(cls))*17 + int64(si)))
	res := common.Result{"ok": true}
	counts := map[string]int{}
	var soft []common.Result
	softSeen := map[string]bool{}
	for _, x := range anySlice(c["softSeen"]) {
		softSeen[x.(string)] = true
	}
	muts, evals, notes := 0, 0, map[string]int{}
	var hard *common.Result
	target0 := target
	mutTarget := f
	if kind == "manifest" {
		target0 = mfPath
		mutTarget = mf
	}
	sfMutations(mutTarget, site, fault, maxpos, rng, func(m sfMut) bool {
		muts++
		if muts <= skipTo {
			return true
		}
		progress(map[string]any{"t": "mut", "i": muts, "desc": m.desc})
		if err := os.WriteFile(target0, m.data, 0666); err != nil {
			r := harness(err)
			hard = &r
			return false
		}
		var obs []*sfObs
		if kind == "manifest" {
			o := &sfObs{perAddr: map[string]map[string]bool{}}
			gotRoot, opened := sfReadStore(f, dir, root, false, o)
			if opened && gotRoot != root {
				notes["manifest accepted with a different root"]++
			}
			obs = append(obs, o)
			if muts%4 == 1 {
				o2 := &sfObs{perAddr: map[string]map[string]bool{}}
				sfReadStore(f, dir, root, true, o2)
				os.Remove(filepath.Join(dir, chunkJournalName))
				os.Remove(filepath.Join(dir, journalIndexFileName))
				os.WriteFile(mfPath, m.data, 0666)
				obs = append(obs, o2)
			}
		} else {
			o := &sfObs{perAddr: map[string]map[string]bool{}}
			sfReadSource(f, dir, false, o)
			obs = append(obs, o)
			if kind == "archive" {
				o2 := &sfObs{perAddr: map[string]map[string]bool{}}
				sfReadSource(f, dir, true, o2) // mmapped index reader
				obs = append(obs, o2)
			}
			if muts%8 == 1 {
				o3 := &sfObs{perAddr: map[string]map[string]bool{}}
				sfReadStore(f, dir, root, false, o3)
				obs = append(obs, o3)
			}
		}
		for oi, o := range obs {
			evals += o.calls
			via := []string{"source", "source-mmap", "store"}[min(oi, 2)]
			if kind == "manifest" {
				via = []string{"store", "journal-store"}[min(oi, 1)]
			}
			if o.hang != "" {
				r := common.Result{"ok": false, "hang": true, "fp": fmt.Sprintf("%s:%s:%s:hang:%s", kind, cls, fault, o.hang),
					"detail": fmt.Sprintf("%s %s/%d %s [%s] via %s: call %s did not return within %s", kind, cls, si, fault, m.desc, via, o.hang, sfCallTimeout)}
				hard = &r
				return false
			}
			if o.huge != 0 {
				notes[fmt.Sprintf("runaway allocation request (%s)", cls)]++
				counts["hugealloc"]++
				fp := fmt.Sprintf("%s:%s:%s:hugealloc", kind, cls, fault)
				if !softSeen[fp] {
					softSeen[fp] = true
					soft = sfAppendSoft(progress, soft, common.Result{"fp": fp, "mutation": m.desc, "via": via,
						"detail": fmt.Sprintf("%s file, site %s/%d, fault %s [%s], read via %s: the reader asks for %d bytes of memory for a file of %d bytes (production quota provider is unlimited: the process would try to allocate it)", kind, cls, si, fault, m.desc, via, o.huge, len(m.data))})
				}
			}
			for _, p := range o.panics {
				counts["panic"]++
				site := "unknown"
				if i := strings.Index(p, "panic:"); i >= 0 {
					site = strings.SplitN(p[i+6:], ":", 2)[0]
				}
				fp := fmt.Sprintf("%s:%s:%s:panic:%s", kind, cls, fault, site)
				if !softSeen[fp] {
					softSeen[fp] = true
					soft = sfAppendSoft(progress, soft, common.Result{"fp": fp, "mutation": m.desc, "via": via,
						"detail": fmt.Sprintf("%s file, site %s/%d, fault %s [%s], read via %s: PANIC %s", kind, cls, si, fault, m.desc, via, p)})
				}
			}
			for n, outs := range o.perAddr {
				for out := range outs {
					counts[out]++
					if out == "panic" || n == "(batch)" {
						continue // panics are reported above with their site; a failed batch is an error report
					}
					allowed := allowedOther
					if owner[n] {
						allowed = allowedOwner
					}
					if !allowed[out] {
						fp := fmt.Sprintf("%s:%s:%s:%s", kind, cls, fault, out)
						if !owner[n] {
							fp += ":other"
						}
						if !softSeen[fp] {
							softSeen[fp] = true
							soft = sfAppendSoft(progress, soft, common.Result{"fp": fp, "mutation": m.desc, "via": via, "addr": n,
								"detail": fmt.Sprintf("%s file, site %s/%d, fault %s [%s], read of %s via %s: outcome %q, the spec allows %v (open: %s %s)",
									kind, cls, si, fault, m.desc, n, via, out, keys(allowed), o.open, o.openErr)})
						}
					}
				}
			}
		}
		if muts%64 == 0 {
			runtime.GC() // surfaces leaked-index finalizer panics close to their cause
		}
		return true
	})
	runtime.GC()
	if hard != nil {
		return *hard
	}
	res["evals"] = evals
	res["mutations"] = muts
	res["counts"] = counts
	res["site_bytes"] = site.n
	nl := []string{}
	for k, v := range notes {
		nl = append(nl, fmt.Sprintf("%s x%d", k, v))
	}
	sort.Strings(nl)
	res["notes"] = nl
	if len(soft) > 0 {
		res["soft"] = soft
	}
	return res
}

func keys(m map[string]bool) []string {
	var out []string
	for k := range m {
		out = append(out, k)
	}
	sort.Strings(out)
	return out
}

func anySlice(v any) []any {
	if v == nil {
		return nil
	}
	return v.([]any)
}

func sfAppendSoft(progress func(map[string]any), soft []common.Result, r common.Result) []common.Result {
	progress(map[string]any{"t": "soft", "soft": r})
	return append(soft, r)
}

// ---------------------------------------------------------------- supervisor / worker
//
// Some corruptions make the reader ask the Go runtime for an absurd amount of memory; that is a FATAL runtime error
// ("out of memory") which no recover() can catch: the process dies.  The reads therefore run in a worker process; the
// supervisor (TestVerifFaults) learns from a progress pipe which mutation was being read when the worker died, records
// that as an outcome ("fatal"), starts a new worker and continues with the next mutation.  The worker runs with an
// address-space limit (RLIMIT_AS = idle size + sfASHeadroom) so that a runaway allocation fails at once instead of eating the
// machine the checks share.

const sfASHeadroom = 1024 << 20 // a reader of a few-KB file may map 1 GiB more than the idle process; beyond that it dies at once
const sfMaxFatalPerCase = 2

type sfWorker struct {
	cmd    *exec.Cmd
	in     io.WriteCloser
	out    *bufio.Reader
	outF   *os.File
	errLog string
	done   chan struct{}
}

var sfW *sfWorker
var sfWorkersStarted int
var sfCasesOnWorker int

func sfStartWorker() (*sfWorker, error) {
	cr, cw, err := os.Pipe()
	if err != nil {
		return nil, err
	}
	rr, rw, err := os.Pipe()
	if err != nil {
		return nil, err
	}
	sfWorkersStarted++
	errLog := filepath.Join(os.Getenv("VERIF_WORK"), fmt.Sprintf("faults-worker-%d-%d.err", os.Getpid(), sfWorkersStarted))
	ef, err := os.Create(errLog)
	if err != nil {
		return nil, err
	}
	cmd := exec.Command(os.Args[0], "-test.run", "^TestVerifFaultsWorker$", "-test.timeout", "0", "-test.count", "1")
	cmd.Env = append(os.Environ(), "VERIF_SF_WORKER=1", "VERIF_IN=", "GOTRACEBACK=single")
	cmd.ExtraFiles = []*os.File{cr, rw}
	cmd.Stdout, cmd.Stderr = ef, ef
	if err := cmd.Start(); err != nil {
		return nil, err
	}
	cr.Close()
	rw.Close()
	ef.Close()
	w := &sfWorker{cmd: cmd, in: cw, out: bufio.NewReaderSize(rr, 1<<20), outF: rr, errLog: errLog, done: make(chan struct{})}
	go func() { cmd.Wait(); close(w.done) }()
	return w, nil
}

func (w *sfWorker) stop() {
	w.in.Close()
	select {
	case <-w.done:
	case <-time.After(5 * time.Second):
		w.cmd.Process.Kill()
		<-w.done
	}
	w.outF.Close()
	os.Remove(w.errLog)
}

var sfAllocRe = regexp.MustCompile(`cannot allocate (\d+)-byte block`)

func sfFatalReason(log string) string {
	for _, l := range strings.Split(log, "\n") {
		if strings.HasPrefix(l, "fatal error: ") {
			return strings.TrimPrefix(strings.TrimPrefix(l, "fatal error: "), "runtime: ")
		}
	}
	for _, l := range strings.Split(log, "\n") {
		if strings.HasPrefix(l, "panic: ") {
			return "unrecovered panic"
		}
	}
	return "worker died"
}

// innermost dolt frame of the goroutine that died
func sfFatalSite(log string) string {
	for _, m := range sfFrameRe.FindAllStringSubmatch(log, -1) {
		fn := m[1]
		if strings.Contains(fn, "sfGuard") || strings.Contains(fn, "zz_verif") || strings.Contains(fn, ".sf") {
			continue
		}
		return sfNormFrame(strings.TrimPrefix(fn, "github.com/dolthub/dolt/go/"))
	}
	return "unknown"
}

func sfSupervise(c map[string]any) common.Result {
	total := common.Result{"ok": true}
	var soft []any
	softSeen := []any{}
	fatals, smallOOM := 0, 0
	mutsDone, evals := 0, 0
	counts := map[string]int{}
	skipTo := 0
	sfCasesOnWorker++
	if sfW != nil && sfCasesOnWorker > 25 {
		sfW.stop() // a fresh address space now and then
		sfW = nil
	}
	for {
		if sfW == nil {
			sfCasesOnWorker = 0
			w, err := sfStartWorker()
			if err != nil {
				return common.Result{"ok": false, "fp": "harness:worker", "detail": err.Error(), "inconclusive": true}
			}
			sfW = w
		}
		c["skipTo"] = skipTo
		c["softSeen"] = softSeen
		bs, _ := json.Marshal(c)
		if _, err := sfW.in.Write(append(bs, '\n')); err != nil {
			sfW.stop()
			sfW = nil
			return common.Result{"ok": false, "fp": "harness:worker", "detail": err.Error(), "inconclusive": true}
		}
		lastMut, lastDesc := skipTo, ""
		var final map[string]any
		for {
			type rl struct {
				b   []byte
				err error
			}
			ch := make(chan rl, 1)
			go func() { b, err := sfW.out.ReadBytes('\n'); ch <- rl{b, err} }()
			var line rl
			select {
			case line = <-ch:
			case <-time.After(3*sfCallTimeout + time.Minute):
				sfW.cmd.Process.Kill()
				sfW.stop()
				sfW = nil
				return common.Result{"ok": false, "fp": "harness:worker-stalled", "detail": "worker made no progress", "inconclusive": true}
			}
			if line.err != nil {
				break // worker died
			}
			var m map[string]any
			if json.Unmarshal(line.b, &m) != nil {
				continue
			}
			switch m["t"] {
			case "mut":
				lastMut, lastDesc = common.Int(m["i"]), m["desc"].(string)
				if os.Getenv("VERIF_SF_TRACE") != "" {
					fmt.Fprintf(os.Stderr, "%s mut %d %s\n", time.Now().Format("15:04:05.000"), lastMut, lastDesc)
				}
			case "soft":
				sm := m["soft"].(map[string]any)
				soft = append(soft, sm)
				softSeen = append(softSeen, sm["fp"])
			case "done":
				final = m["res"].(map[string]any)
			}
			if final != nil {
				break
			}
		}
		if final != nil {
			if ok, _ := final["ok"].(bool); !ok {
				return common.Result(final) // hang / harness trouble reported by the worker
			}
			mutsDone = common.Int(final["mutations"])
			evals += common.Int(final["evals"])
			if cm, ok := final["counts"].(map[string]any); ok {
				for k, v := range cm {
					counts[k] += common.Int(v)
				}
			}
			total["site_bytes"] = final["site_bytes"]
			total["notes"] = final["notes"]
			break
		}
		// the worker died while reading mutation lastMut
		<-sfW.done
		if os.Getenv("VERIF_SF_TRACE") != "" {
			lb, _ := os.ReadFile(sfW.errLog)
			fmt.Fprintf(os.Stderr, "%s worker died at mut %d\n%s\n", time.Now().Format("15:04:05.000"), lastMut, string(lb[:min(len(lb), 3000)]))
		}
		logb, _ := os.ReadFile(sfW.errLog)
		sfW.stop()
		sfW = nil
		log := string(logb)
		if len(log) > 6000 {
			log = log[:6000]
		}
		if lastMut == skipTo {
			return common.Result{"ok": false, "fp": "harness:worker-died-early", "detail": log, "inconclusive": true}
		}
		if m := sfAllocRe.FindStringSubmatch(log); m != nil {
			if n, _ := strconv.ParseUint(m[1], 10, 64); n < 64<<20 {
				// an ordinary allocation failed: the worker's limited address space was used up by what it did before,
				// not by this mutation. Same mutation again in a fresh worker; give up (inconclusive) if that keeps happening.
				smallOOM++
				if smallOOM > 3 {
					return common.Result{"ok": false, "fp": "harness:worker-address-space", "detail": log[:min(len(log), 800)], "inconclusive": true}
				}
				skipTo = lastMut - 1
				continue
			}
		}
		fatals++
		counts["fatal"]++
		site := c["site"].(map[string]any)
		fp := fmt.Sprintf("%s:%s:%s:fatal:%s:%s", c["kind"], site["cls"], c["fault"], sfFatalReason(log), sfFatalSite(log))
		seen := false
		for _, x := range softSeen {
			if x == fp {
				seen = true
			}
		}
		if !seen {
			softSeen = append(softSeen, fp)
			soft = append(soft, map[string]any{"fp": fp, "mutation": lastDesc,
				"detail": fmt.Sprintf("%s file, site %s/%v, fault %s [%s]: the reading PROCESS DIED (%s; address space limited to idle size + %d MiB), no recover() possible:\n%s",
					c["kind"], site["cls"], site["i"], c["fault"], lastDesc, sfFatalReason(log), sfASHeadroom>>20, log[:min(len(log), 1500)])})
		}
		skipTo = lastMut
		mutsDone = lastMut
		if fatals >= sfMaxFatalPerCase {
			total["stopped_after_repeated_fatal"] = true
			break
		}
	}
	total["evals"] = evals
	total["mutations"] = mutsDone
	total["counts"] = counts
	total["fatals"] = fatals
	if len(soft) > 0 {
		total["soft"] = soft
	}
	return total
}

func TestVerifFaultsWorker(t *testing.T) {
	if os.Getenv("VERIF_SF_WORKER") == "" {
		t.Skip("verif faults worker: not a worker")
	}
	// address space: what the process has mapped now + sfASHeadroom
	var vsz uint64
	if b, err := os.ReadFile("/proc/self/statm"); err == nil {
		fmt.Sscanf(string(b), "%d", &vsz)
		vsz *= uint64(os.Getpagesize())
	}
	if vsz > 0 {
		lim := syscall.Rlimit{Cur: vsz + sfASHeadroom, Max: vsz + sfASHeadroom}
		syscall.Setrlimit(syscall.RLIMIT_AS, &lim)
	}
	debug.SetGCPercent(400)
	in := bufio.NewReaderSize(os.NewFile(3, "cmd"), 1<<20)
	out := bufio.NewWriter(os.NewFile(4, "res"))
	send := func(m map[string]any) {
		bs, _ := json.Marshal(m)
		out.Write(append(bs, '\n'))
		out.Flush()
	}
	for {
		line, err := in.ReadBytes('\n')
		if err != nil {
			return
		}
		var c map[string]any
		if err := json.Unmarshal(line, &c); err != nil {
			send(map[string]any{"t": "done", "res": common.Result{"ok": false, "fp": "harness:badcase", "inconclusive": true}})
			continue
		}
		res := func() (r common.Result) {
			defer func() {
				if p := recover(); p != nil {
					r = common.Result{"ok": false, "fp": "harness:panic", "inconclusive": true, "detail": fmt.Sprintf("engine panic: %v\n%s", p, debug.Stack())}
				}
			}()
			return sfRunCase(c, send)
		}()
		send(map[string]any{"t": "done", "res": res})
	}
}

func TestVerifFaults(t *testing.T) {
	if os.Getenv("VERIF_IN") == "" {
		t.Skip("verif engine: no input")
	}
	defer func() {
		if sfW != nil {
			sfW.stop()
		}
	}()
	common.Run(sfSupervise)
}
