// Engine "dirlock" (in-package, injected with -overlay): drives REAL journaling NomsBlockStores opened by several
// OS PROCESSES on one directory, in the order chosen by TLC from /verif/spec/DirLock.tla (property C41).
//
// A model process is realised as a child OS process (the small binary built from /verif/harness/dirlockchild, which
// uses only the exported nbs API; $VERIF_DL_CHILDBIN) driven over a pair of
// pipes one command at a time (children are kept in a pool and reused by the next behaviour on a fresh directory; a
// Crash step kills the OS process with SIGKILL).  Every child runs under
//
//	strace -f -y --seccomp-bpf -e trace=<file mutating syscalls>
//
// and ends every command with a marker system call, so that the parent can cut the syscall log per command.  Every
// mutating syscall that a child issues on a path inside the database directory while it is a read-only opener (from
// its Open to its Close) is a violation.  In addition the whole directory is hashed before and after every step that
// the model marks as performed by a read-only process.
//
// After every step the parent recomputes the spec's `dir` projection from the real files (journal parsed with the
// store's own record reader, manifest parsed with parseIfExists, journal.idx validated with readJournalIndex in
// read-only mode) and compares it, the call's result, the process modes, the reported root and the visible chunk
// set with the values TLC computed.
package nbs

import (
	"bufio"
	"bytes"
	"context"
	"crypto/sha256"
	"encoding/hex"
	"encoding/json"
	"errors"
	"fmt"
	"hash/crc32"
	"io"
	"math/rand"
	"os"
	"os/exec"
	"path/filepath"
	"regexp"
	"sort"
	"strings"
	"syscall"
	"testing"
	"time"

	"github.com/dolthub/dolt/go/store/chunks"
	"github.com/dolthub/dolt/go/store/hash"
	"github.com/dolthub/dolt/go/zz_verif/common"
	"github.com/dolthub/dolt/go/zz_verif/libbp"
)

const dlMaxChunks = libbp.DlMaxChunks

var dlCmdTimeout = 120 * time.Second

// the binding, the chunks and the command protocol are shared with the child binary (harness/dirlockchild)
type dlBinding = libbp.DlBinding
type dlCmd = libbp.DlCmd
type dlResp = libbp.DlResp

func dlChunk(b dlBinding, i int) chunks.Chunk  { return libbp.DlChunk(b, i) }
func dlFiller(b dlBinding, k int) chunks.Chunk { return libbp.DlFiller(b, k) }

// ---------------------------------------------------------------- parent

const dlStraceSet = "open,openat,openat2,creat,write,writev,pwrite64,pwritev,pwritev2,ftruncate,truncate,rename,renameat,renameat2," +
	"unlink,unlinkat,mkdir,mkdirat,rmdir,link,linkat,symlink,symlinkat,fallocate,fsync,fdatasync,chmod,fchmod,fchmodat,utimensat," +
	"copy_file_range,sendfile,mmap,mknod,mknodat,setxattr,fsetxattr"

type dlChild struct {
	name   string
	cmd    *exec.Cmd
	pid    int
	in     io.WriteCloser
	out    *bufio.Reader
	outF   *os.File
	strace string
	sf     *os.File // the syscall log, read incrementally
	spend  []byte   // incomplete last line
	unfin  map[string]string
	mode   string
	done   chan struct{}
	seq    int
}

// children survive across behaviours (fresh directory each time)
var dlPool = map[string]*dlChild{}
var dlPoolDir string
var dlSpawned int

type dlWorld struct {
	dir      string
	work     string
	b        dlBinding
	kids     map[string]*dlChild // children that currently have the store open (or tried to)
	preList  map[string]map[string]bool
	evals    int
	roSteps  int
	roProcs  int
	notes    []string
	roSys    int
	roTorn   bool
	roBadIdx bool
	roBig    bool
}

func dlSpawn(name string) (*dlChild, error) {
	if dlPoolDir == "" {
		d, err := os.MkdirTemp(os.Getenv("VERIF_WORK"), "dirlock-pool-")
		if err != nil {
			return nil, err
		}
		dlPoolDir = d
	}
	cr, cw, err := os.Pipe() // commands: parent writes cw, child reads cr (fd 3)
	if err != nil {
		return nil, err
	}
	rr, rw, err := os.Pipe() // responses: child writes rw (fd 4), parent reads rr
	if err != nil {
		return nil, err
	}
	dlSpawned++
	sf := filepath.Join(dlPoolDir, fmt.Sprintf("strace-%s-%d.txt", name, dlSpawned))
	args := []string{"-f", "-y", "-qq", "--seccomp-bpf", "-o", sf, "-e", "trace=" + dlStraceSet, os.Getenv("VERIF_DL_CHILDBIN")}
	cmd := exec.Command("strace", args...)
	cmd.Env = append(os.Environ(), "VERIF_IN=", "VERIF_OUT=")
	cmd.ExtraFiles = []*os.File{cr, rw}
	cmd.Dir = dlPoolDir
	if err := cmd.Start(); err != nil {
		return nil, err
	}
	cr.Close()
	rw.Close()
	k := &dlChild{name: name, cmd: cmd, in: cw, out: bufio.NewReader(rr), outF: rr, strace: sf, done: make(chan struct{}), unfin: map[string]string{}, mode: "closed"}
	go func() { cmd.Wait(); close(k.done) }()
	r, err := k.recv()
	if err != nil {
		k.kill()
		return nil, fmt.Errorf("child %s did not start: %v", name, err)
	}
	k.pid = r.Pid
	return k, nil
}

type dlTimeout struct{ what string }

func (e dlTimeout) Error() string { return "timeout: " + e.what }

func (k *dlChild) recv() (dlResp, error) {
	type res struct {
		b   []byte
		err error
	}
	ch := make(chan res, 1)
	go func() {
		b, err := k.out.ReadBytes('\n')
		ch <- res{b, err}
	}()
	select {
	case r := <-ch:
		if r.err != nil {
			return dlResp{}, r.err
		}
		var out dlResp
		if err := json.Unmarshal(r.b, &out); err != nil {
			return dlResp{}, err
		}
		return out, nil
	case <-time.After(dlCmdTimeout):
		return dlResp{}, dlTimeout{"no answer from child " + k.name}
	}
}

// call sends one command and returns the answer together with the system calls the child made since the previous command
func (k *dlChild) call(c dlCmd) (dlResp, []string, error) {
	k.seq++
	c.Tag = fmt.Sprintf("%s-%d-%d", k.name, k.pid, k.seq)
	b, _ := json.Marshal(c)
	if _, err := k.in.Write(append(b, '\n')); err != nil {
		return dlResp{}, nil, err
	}
	r, err := k.recv()
	if err != nil {
		return r, nil, err
	}
	sys, err := k.segment(c.Tag)
	return r, sys, err
}

// segment returns the syscall-log lines up to (excluding) the marker of |tag|; unfinished/resumed pairs are joined
func (k *dlChild) segment(tag string) ([]string, error) {
	deadline := time.Now().Add(dlCmdTimeout)
	var out []string
	for {
		if k.sf == nil {
			f, err := os.Open(k.strace)
			if err == nil {
				k.sf = f
			}
		}
		if k.sf != nil {
			buf := make([]byte, 1<<16)
			for {
				n, _ := k.sf.Read(buf)
				if n == 0 {
					break
				}
				k.spend = append(k.spend, buf[:n]...)
			}
			for {
				i := bytes.IndexByte(k.spend, '\n')
				if i < 0 {
					break
				}
				l := string(k.spend[:i])
				k.spend = k.spend[i+1:]
				pid, body := "", l
				if j := strings.Index(l, " "); j > 0 {
					pid, body = l[:j], strings.TrimSpace(l[j+1:])
				}
				if strings.HasSuffix(body, "<unfinished ...>") {
					k.unfin[pid] = strings.TrimSuffix(body, "<unfinished ...>")
					continue
				}
				if strings.HasPrefix(body, "<... ") {
					if j := strings.Index(body, "resumed>"); j > 0 {
						body = k.unfin[pid] + body[j+len("resumed>"):]
						delete(k.unfin, pid)
					}
				}
				if strings.Contains(body, "/verif-marker/"+tag+"\"") {
					return out, nil
				}
				out = append(out, body)
			}
		}
		if time.Now().After(deadline) {
			return out, dlTimeout{"marker " + tag + " not found in the syscall log of " + k.name}
		}
		select {
		case <-k.done:
			return out, fmt.Errorf("child %s exited", k.name)
		case <-time.After(2 * time.Millisecond):
		}
	}
}

func (k *dlChild) kill() {
	if k.pid > 0 {
		syscall.Kill(k.pid, syscall.SIGKILL)
	}
	k.in.Close()
	select {
	case <-k.done:
	case <-time.After(dlCmdTimeout):
		k.cmd.Process.Kill()
	}
	k.outF.Close()
	if k.sf != nil {
		k.sf.Close()
	}
	os.Remove(k.strace)
}

// snapshot of all files (name -> size:sha256)
func dlSnapshot(dir string) map[string]string {
	out := map[string]string{}
	filepath.Walk(dir, func(p string, fi os.FileInfo, err error) error {
		if err != nil || fi.IsDir() {
			if err == nil && p != dir {
				rel, _ := filepath.Rel(dir, p)
				out[rel+"/"] = "dir"
			}
			return nil
		}
		rel, _ := filepath.Rel(dir, p)
		b, err := os.ReadFile(p)
		if err != nil {
			out[rel] = "unreadable:" + err.Error()
			return nil
		}
		s := sha256.Sum256(b)
		out[rel] = fmt.Sprintf("%d:%s", len(b), hex.EncodeToString(s[:8]))
		return nil
	})
	return out
}

func dlDiff(a, b map[string]string) []string {
	var d []string
	for k, v := range a {
		if bv, ok := b[k]; !ok {
			d = append(d, "removed "+k)
		} else if bv != v {
			d = append(d, fmt.Sprintf("changed %s (%s -> %s)", k, v, bv))
		}
	}
	for k, v := range b {
		if _, ok := a[k]; !ok {
			d = append(d, fmt.Sprintf("created %s (%s)", k, v))
		}
	}
	sort.Strings(d)
	return d
}

// the spec's `dir` record recomputed from the real files
func (w *dlWorld) project() (map[string]any, error) {
	d := map[string]any{"lockFile": false, "jexists": false, "jroots": 0, "jtorn": false, "mexists": false, "mroot": 0, "idx": "absent"}
	if _, err := os.Stat(filepath.Join(w.dir, lockFileName)); err == nil {
		d["lockFile"] = true
	}
	rootIdx := map[hash.Hash]int{}
	for i := 1; i <= dlMaxChunks+1; i++ {
		rootIdx[dlChunk(w.b, i).Hash()] = i
	}
	jp := filepath.Join(w.dir, chunkJournalName)
	if jf, err := os.Open(jp); err == nil {
		defer jf.Close()
		d["jexists"] = true
		fi, _ := jf.Stat()
		nroots, lastRoot := 0, 0
		_, off, _, err := processJournalRecordsReader(context.Background(), jf, 0, func(o int64, r journalRec) error {
			if r.kind == rootHashJournalRecKind {
				nroots++
				if i, ok := rootIdx[r.address]; ok {
					lastRoot = i
				} else {
					lastRoot = -1
				}
			}
			return nil
		}, nil)
		if err != nil && err != io.EOF {
			return nil, fmt.Errorf("journal unreadable: %v", err)
		}
		d["jroots"] = lastRoot
		d["jrootrecs"] = nroots
		d["jtorn"] = fi.Size() > off
		// index class: the store's own validation, in read-only mode, on read-only descriptors
		ip := filepath.Join(w.dir, journalIndexFileName)
		if xf, err := os.Open(ip); err == nil {
			wr := &journalWriter{journal: jf, index: xf, path: jp}
			wr.ranges = newRangeIndex()
			if err := wr.readJournalIndex(context.Background(), false); err != nil {
				d["idx"] = "bad"
			} else {
				d["idx"] = "ok"
			}
			xf.Close()
		}
	}
	ok, mc, err := parseIfExists(context.Background(), w.dir, nil)
	if err != nil {
		return nil, fmt.Errorf("manifest unreadable: %v", err)
	}
	if ok {
		d["mexists"] = true
		if !mc.root.IsEmpty() {
			if i, ok := rootIdx[mc.root]; ok {
				d["mroot"] = i
			} else {
				d["mroot"] = -1
			}
		}
	}
	return d, nil
}

var dlPathRe = regexp.MustCompile(`<([^<>]*)>`)

// mutating syscalls among |lines| (bodies of syscall-log lines of one read-only child) on files inside the directory.
// |pre| = names that existed in the directory before the command.
func (w *dlWorld) straceViolations(lines []string, pre map[string]bool) (viol []string, notes []string) {
	short := func(s string) string { return strings.ReplaceAll(s, w.dir, "<db>") }
	inDir := func(s string) bool {
		return strings.Contains(s, w.dir+"/") || strings.Contains(s, "<"+w.dir+">") || strings.Contains(s, `"`+w.dir+`"`)
	}
	for _, body := range lines {
		if !inDir(body) {
			continue
		}
		name := body
		if i := strings.Index(body, "("); i > 0 {
			name = body[:i]
		}
		failed := strings.Contains(body, ") = -1 ")
		switch name {
		case "open", "openat", "openat2", "creat":
			if failed {
				continue
			}
			if strings.Contains(body, "O_TRUNC") || name == "creat" {
				viol = append(viol, short(body))
			} else if strings.Contains(body, "O_CREAT") {
				// created only if it did not exist before the command
				m := dlQuotedRe.FindStringSubmatch(body)
				base := ""
				if m != nil {
					base = filepath.Base(m[1])
				}
				if !pre[base] {
					if base == lockFileName {
						notes = append(notes, "read-only opener created LOCK")
					} else {
						viol = append(viol, short(body))
					}
				}
			} else if strings.Contains(body, "O_RDWR") || strings.Contains(body, "O_WRONLY") {
				m := dlQuotedRe.FindStringSubmatch(body)
				if m != nil {
					notes = append(notes, "read-only opener opens "+filepath.Base(m[1])+" with a writable descriptor (O_RDWR) but never writes through it")
				}
			}
		case "write", "writev", "pwrite64", "pwritev", "pwritev2", "ftruncate", "truncate", "rename", "renameat", "renameat2",
			"unlink", "unlinkat", "mkdir", "mkdirat", "rmdir", "link", "linkat", "symlink", "symlinkat", "fallocate",
			"chmod", "fchmod", "fchmodat", "utimensat", "copy_file_range", "sendfile", "mknod", "mknodat", "setxattr", "fsetxattr":
			if failed {
				// a failed attempt did not modify anything
				notes = append(notes, "failed mutating call by a read-only opener: "+short(body))
				continue
			}
			if name == "sendfile" || name == "copy_file_range" {
				// only if the OUT descriptor is in the directory
				m := dlPathRe.FindAllStringSubmatch(body, -1)
				if len(m) > 0 && !strings.HasPrefix(m[0][1], w.dir) {
					continue
				}
			}
			viol = append(viol, short(body))
		case "mmap":
			if strings.Contains(body, "MAP_SHARED") && strings.Contains(body, "PROT_WRITE") && !failed {
				viol = append(viol, short(body))
			}
		case "fsync", "fdatasync":
			notes = append(notes, "read-only opener calls "+name+" on a database file (not a modification)")
		}
	}
	return
}

var dlQuotedRe = regexp.MustCompile(`"([^"]+)"`)

func dlModeOf(k *dlChild) string {
	if k == nil {
		return "closed"
	}
	return k.mode
}

func (w *dlWorld) tear() error {
	jp := filepath.Join(w.dir, chunkJournalName)
	f, err := os.OpenFile(jp, os.O_WRONLY|os.O_APPEND, 0666)
	if err != nil {
		return err
	}
	defer f.Close()
	rng := rand.New(rand.NewSource(w.b.Seed*977 + 5))
	cc := ChunkToCompressedChunk(dlFiller(w.b, 1_000_000+rng.Intn(1000)))
	sz, _ := chunkRecordSize(cc)
	rec := make([]byte, sz)
	writeChunkRecord(rec, cc)
	var tail []byte
	switch w.b.Torn {
	case "zeros":
		tail = make([]byte, 64+rng.Intn(4000))
	case "badcrc":
		tail = append([]byte{}, rec...)
		tail[len(tail)-1] ^= 0x40
	case "hugelen":
		tail = make([]byte, 200)
		rng.Read(tail)
		writeUint32(tail, journalWriterBuffSize+1+uint32(rng.Intn(1000)))
	default: // partial record
		tail = rec[:1+rng.Intn(len(rec)-1)]
	}
	_, err = f.Write(tail)
	return err
}

func (w *dlWorld) damageIndex() error {
	ip := filepath.Join(w.dir, journalIndexFileName)
	jp := filepath.Join(w.dir, chunkJournalName)
	jfi, err := os.Stat(jp)
	if err != nil {
		return err
	}
	var buf bytes.Buffer
	bw := bufio.NewWriter(&buf)
	rng := rand.New(rand.NewSource(w.b.Seed*31 + 11))
	// collect the real lookups and the last root position of the journal
	jf, err := os.Open(jp)
	if err != nil {
		return err
	}
	defer jf.Close()
	var lastRootOff int64
	var lastRoot hash.Hash
	var crcv uint32
	n := 0
	processJournalRecordsReader(context.Background(), jf, 0, func(o int64, r journalRec) error {
		switch r.kind {
		case chunkJournalRecKind:
			a := toAddr16(r.address)
			writeIndexLookup(bw, lookup{a: a, r: Range{Offset: uint64(o) + uint64(r.payloadOffset()), Length: uint32(len(r.payload))}})
			crcv = crcUpdate(crcv, a[:])
			n++
		case rootHashJournalRecKind:
			lastRootOff, lastRoot = o, r.address
		}
		return nil
	}, nil)
	switch w.b.BadIdx {
	case "ahead": // index of a longer journal: the batch ends beyond the end of this journal
		writeJournalIndexMeta(bw, lastRoot, 0, jfi.Size()+int64(64+rng.Intn(5000)), crcv)
	case "badcrc": // right place, wrong batch checksum
		writeJournalIndexMeta(bw, lastRoot, 0, lastRootOff, crcv^0x5a5a)
	case "wrongroot": // the batch end does not point at the root it names
		var other hash.Hash
		rng.Read(other[:])
		writeJournalIndexMeta(bw, other, 0, lastRootOff, crcv)
	default: // garbage
		buf.Reset()
		bw = bufio.NewWriter(&buf)
		g := make([]byte, 100+rng.Intn(3000))
		rng.Read(g)
		g[0] = 7 // not a record tag: ErrMalformedIndex
		bw.Write(g)
	}
	bw.Flush()
	return os.WriteFile(ip, buf.Bytes(), 0666)
}

func crcUpdate(c uint32, b []byte) uint32 {
	// same as journalWriter.batchCrc maintenance
	return crc32.Update(c, crcTable, b)
}

func dlRootName(w *dlWorld, s string) int {
	if s == (hash.Hash{}).String() || s == "" {
		return 0
	}
	for i := 1; i <= dlMaxChunks+1; i++ {
		if dlChunk(w.b, i).Hash().String() == s {
			return i
		}
	}
	return -1
}

func dirNames(dir string) map[string]bool {
	out := map[string]bool{}
	ents, _ := os.ReadDir(dir)
	for _, e := range ents {
		out[e.Name()] = true
	}
	return out
}

func dlRunCase(c map[string]any) (res common.Result) {
	work, err := os.MkdirTemp(os.Getenv("VERIF_WORK"), "dirlock-")
	if err != nil {
		return common.Result{"ok": false, "fp": "harness", "detail": err.Error(), "inconclusive": true}
	}
	defer os.RemoveAll(work)
	w := &dlWorld{dir: filepath.Join(work, "db"), work: work, kids: map[string]*dlChild{}}
	os.Mkdir(w.dir, 0777)
	bj, _ := json.Marshal(c["binding"])
	json.Unmarshal(bj, &w.b)
	noteSet := map[string]bool{}
	note := func(n string) {
		if !noteSet[n] && len(w.notes) < 8 {
			noteSet[n] = true
			w.notes = append(w.notes, n)
		}
	}
	// whatever happens, no child keeps this directory open after the case
	defer func() {
		for p, k := range w.kids {
			if k != nil && k.mode != "closed" {
				k.kill()
				delete(dlPool, p)
			}
		}
	}()
	steps := c["steps"].([]any)
	// syscalls of a child that is (or has just become / has just stopped being) a read-only opener
	checkSys := func(k *dlChild, sys []string, pre map[string]bool, stepN int, action string) *common.Result {
		w.roSys += len(sys)
		viol, notes := w.straceViolations(sys, pre)
		for _, n := range notes {
			note(n)
		}
		w.evals++
		if len(viol) > 0 {
			name := "syscall"
			if m := regexp.MustCompile(`^([a-z0-9_]+)\(`).FindStringSubmatch(viol[0]); m != nil {
				name = m[1]
			}
			r := common.Fail(stepN, action, "read-only-process-mutating-syscall:"+name, "no mutating system call on a file of the database directory", viol)
			return &r
		}
		return nil
	}
	harness := func(what string, err error) common.Result {
		var to dlTimeout
		if errors.As(err, &to) {
			return common.Result{"ok": false, "fp": "harness:timeout", "detail": what + ": " + err.Error(), "inconclusive": true}
		}
		return common.Result{"ok": false, "fp": "harness:" + what, "detail": err.Error(), "inconclusive": true}
	}
	for n, s0 := range steps {
		s := s0.(map[string]any)
		a := s["a"].(string)
		p, _ := s["p"].(string)
		exp := s["exp"].(map[string]any)
		expRO, _ := exp["ro"].(bool)
		var before map[string]string
		if expRO {
			before = dlSnapshot(w.dir)
		}
		pre := dirNames(w.dir)
		var r dlResp
		var sys []string
		var cerr error
		k := w.kids[p]
		wasRO := k != nil && k.mode == "ro"
		fail := func(what string, e, g any) common.Result { return common.Fail(n, a, what, e, g) }
		switch a {
		case "Open":
			if k != nil && k.mode != "closed" {
				return common.Result{"ok": false, "fp": "harness:open-twice", "detail": "model opened an open process"}
			}
			k = dlPool[p]
			if k == nil {
				k, cerr = dlSpawn(p)
				if cerr != nil {
					return harness("spawn", cerr)
				}
				dlPool[p] = k
			}
			w.kids[p] = k
			args := s["args"].(map[string]any)
			r, sys, cerr = k.call(dlCmd{Op: "open", Opt: args["opt"].(string), Dir: w.dir, B: &w.b})
			if cerr == nil {
				k.mode = r.Mode
				if r.Mode == "ro" {
					w.roProcs++
				}
			}
		case "Read":
			r, sys, cerr = k.call(dlCmd{Op: "read"})
		case "Write":
			args := s["args"].(map[string]any)
			r, sys, cerr = k.call(dlCmd{Op: "write", I: common.Int(args["i"])})
		case "Close":
			r, sys, cerr = k.call(dlCmd{Op: "close"})
			if cerr == nil {
				k.mode = "closed"
			}
		case "Crash", "CrashMidWrite":
			k.kill()
			k.mode = "closed"
			delete(dlPool, p)
			w.kids[p] = nil
			k = nil
			if a == "CrashMidWrite" {
				if err := w.tear(); err != nil {
					return harness("tear", err)
				}
			}
			r = dlResp{Res: "ok"}
		case "DamageIndex":
			if err := w.damageIndex(); err != nil {
				return harness("damage", err)
			}
			r = dlResp{Res: "ok"}
		case "RemoveIndex":
			os.Remove(filepath.Join(w.dir, journalIndexFileName))
			r = dlResp{Res: "ok"}
		case "Skip":
			r = dlResp{Res: "ok"}
		default:
			return common.Result{"ok": false, "fp": "harness:unknown-action", "detail": a}
		}
		if cerr != nil {
			var to dlTimeout
			if errors.As(cerr, &to) && !strings.Contains(cerr.Error(), "marker") {
				return common.Result{"ok": false, "fp": a + ":hang", "detail": fmt.Sprintf("step %d (%s by %s): %v", n, a, p, cerr), "hang": true}
			}
			if errors.As(cerr, &to) {
				return harness("strace", cerr)
			}
			return fail("child-died", "an answer", cerr.Error())
		}
		if r.Res == "panic" {
			return fail("panic", "no panic", r.Err)
		}
		if r.Bad != "" {
			return fail("bad-read", "stored bytes", r.Bad)
		}
		// ---- the child's system calls, when it acted as a read-only opener during this command
		if k != nil && (wasRO || k.mode == "ro") {
			if f := checkSys(k, sys, pre, n, a); f != nil {
				return *f
			}
		}
		// ---- compare with the model
		w.evals++
		if r.Res != exp["res"].(string) {
			return fail("result", exp["res"], fmt.Sprintf("%s (%s) %s", r.Res, r.Err, r.Warns))
		}
		modes := exp["modes"].(map[string]any)
		for q, m := range modes {
			w.evals++
			if dlModeOf(w.kids[q]) != m.(string) {
				return fail("mode", modes, fmt.Sprintf("%s is %s", q, dlModeOf(w.kids[q])))
			}
		}
		if a == "Read" || (a == "Write" && r.Res == "ok") {
			w.evals++
			if got := dlRootName(w, r.Root); got != common.Int(exp["root"]) {
				return fail("root", exp["root"], fmt.Sprintf("r%d (%s)", got, r.Root))
			}
		}
		if a == "Read" {
			w.evals++
			ev := common.Int(exp["vis"])
			okv := len(r.Vis) == ev
			for i, v := range r.Vis {
				if v != i+1 {
					okv = false
				}
			}
			if !okv {
				return fail("visible-chunks", fmt.Sprintf("c1..c%d", ev), r.Vis)
			}
		}
		if a == "Read" || a == "Write" {
			w.evals++
			if r.Warn != exp["warn"].(bool) {
				return fail("index-warning", exp["warn"], fmt.Sprintf("%v (%s)", r.Warn, r.Warns))
			}
		}
		got, err := w.project()
		if err != nil {
			return fail("directory-unreadable", exp["dir"], err.Error())
		}
		ed := exp["dir"].(map[string]any)
		for f, ev := range ed {
			w.evals++
			if fmt.Sprint(got[f]) != fmt.Sprint(ev) {
				return fail("dir."+f, ed, got)
			}
		}
		if rr, ok := got["jrootrecs"]; ok && common.Int(ed["jroots"]) != rr.(int) {
			return fail("dir.root-records", ed["jroots"], got)
		}
		if expRO {
			w.roSteps++
			w.evals++
			after := dlSnapshot(w.dir)
			if d := dlDiff(before, after); len(d) > 0 {
				onlyLock := len(d) == 1 && strings.HasPrefix(d[0], "created "+lockFileName+" ")
				if onlyLock {
					note("read-only opener created the empty LOCK file (scaffolding)")
				} else {
					file := strings.Fields(d[0])[1]
					return fail("read-only-process-changed-files:"+file, "directory unchanged", d)
				}
			}
			if ed["jtorn"] == true && (a == "Read" || a == "Write") {
				w.roTorn = true
			}
			if ed["idx"] == "bad" && (a == "Read" || a == "Write") {
				w.roBadIdx = true
			}
			if w.b.Filler > journalIndexDefaultMaxNovel && (a == "Read" || a == "Write") && ed["jexists"] == true {
				w.roBig = true
			}
		}
	}
	// end of behaviour: close whatever is still open (children stay in the pool) and check the read-only ones
	names := make([]string, 0, len(w.kids))
	for p := range w.kids {
		names = append(names, p)
	}
	sort.Strings(names)
	for _, p := range names {
		k := w.kids[p]
		if k == nil || k.mode == "closed" {
			continue
		}
		wasRO := k.mode == "ro"
		var before map[string]string
		if wasRO {
			before = dlSnapshot(w.dir)
		}
		pre := dirNames(w.dir)
		_, sys, err := k.call(dlCmd{Op: "close"})
		if err != nil {
			k.kill()
			delete(dlPool, p)
			k.mode = "closed"
			continue
		}
		k.mode = "closed"
		if wasRO {
			if d := dlDiff(before, dlSnapshot(w.dir)); len(d) > 0 {
				return common.Fail(len(steps), "FinalClose", "read-only-process-changed-files:"+strings.Fields(d[0])[1], "directory unchanged", d)
			}
			if f := checkSys(k, sys, pre, len(steps), "FinalClose"); f != nil {
				return *f
			}
		}
	}
	return common.Result{"ok": true, "evals": w.evals, "ro_steps": w.roSteps, "ro_procs": w.roProcs, "strace_lines": w.roSys,
		"ro_torn": w.roTorn, "ro_badidx": w.roBadIdx, "ro_big": w.roBig, "notes": w.notes}
}

func TestVerifDirlock(t *testing.T) {
	if os.Getenv("VERIF_IN") == "" {
		t.Skip("verif engine: no input")
	}
	if _, err := exec.LookPath("strace"); err != nil {
		t.Fatal("strace not available")
	}
	if _, err := os.Stat(os.Getenv("VERIF_DL_CHILDBIN")); err != nil {
		t.Fatal("VERIF_DL_CHILDBIN: child binary missing")
	}
	defer func() {
		for _, k := range dlPool {
			k.kill()
		}
		if dlPoolDir != "" {
			os.RemoveAll(dlPoolDir)
		}
	}()
	common.Run(dlRunCase)
}
