// Mode T of engine "manifestcas": ungated clients hammer one directory through the PUBLIC ChunkStore API
// (Put / Commit / Rebase / Root / Has / Close+reopen / fresh open) and log invocation and return of every call
// to one O_APPEND file. The file is validated by /verif/spec/TraceManifestCAS.tla. Nothing is compared here:
// the expectation is the TLA+ specification.
package nbs

import (
	"context"
	"encoding/json"
	"errors"
	"fmt"
	"math/rand"
	"os"
	"os/exec"
	"sort"
	"strings"
	"sync"
	"testing"

	dherrors "github.com/dolthub/dolt/go/libraries/utils/errors"
	"github.com/dolthub/dolt/go/store/chunks"
	"github.com/dolthub/dolt/go/store/constants"
	"github.com/dolthub/dolt/go/store/hash"
	"github.com/dolthub/dolt/go/zz_verif/common"
)

type vtLog struct {
	f  *os.File
	mu sync.Mutex
	n  int
}

func vtOpenLog(path string) (*vtLog, error) {
	f, err := os.OpenFile(path, os.O_APPEND|os.O_CREATE|os.O_WRONLY, 0644)
	if err != nil {
		return nil, err
	}
	return &vtLog{f: f}, nil
}

// one write(2) per event on an O_APPEND descriptor: the file order is the real-time order of the writes
func (l *vtLog) ev(m map[string]any) {
	b, _ := json.Marshal(m)
	b = append(b, '\n')
	l.mu.Lock()
	l.n++
	l.mu.Unlock()
	if _, err := l.f.Write(b); err != nil {
		panic(err)
	}
}

type vtSpec struct {
	Kind   string              `json:"kind"` // "file" | "journal"
	Dir    string              `json:"dir"`
	Out    string              `json:"out"`
	Seed   int64               `json:"seed"`
	Addrs  []string            `json:"addrs"`
	MemCap int                 `json:"memcap"`
	Insts  map[string][]string `json:"insts"` // instance -> clients
	Ops    int                 `json:"ops"`
	Procs  bool                `json:"procs"`
	Reopen bool                `json:"reopen"`
}

type vtInst struct {
	name  string
	spec  *vtSpec
	mu    sync.RWMutex // guards store pointer swap on reopen (only used with one client per instance)
	store *NomsBlockStore
}

func vtOpenStore(s *vtSpec) (*NomsBlockStore, error) {
	ctx := context.Background()
	q := NewUnlimitedMemQuotaProvider()
	var st *NomsBlockStore
	var err error
	if s.Kind == "journal" {
		st, err = NewLocalJournalingStore(ctx, constants.FormatDoltString, s.Dir, q, false, nil)
		if err == nil {
			// force the load now; a journaling store loads lazily
			_, err = st.Root(ctx)
		}
	} else {
		st, err = NewLocalStore(ctx, constants.FormatDoltString, s.Dir, uint64(s.MemCap*vcChunkSize), q, false)
	}
	if err != nil {
		return nil, err
	}
	st.SetFatalBehavior(dherrors.FatalBehaviorError)
	return st, nil
}

func vtCommitRes(ok bool, err error) string {
	switch {
	case err == nil && ok:
		return "true"
	case err == nil:
		return "false"
	case errors.Is(err, ErrDanglingRef):
		return "err_dangling"
	case strings.Contains(err.Error(), "timed out reading database manifest"):
		return "err_locktimeout"
	case errors.Is(err, ErrManifestSpecMissingTableFile):
		return "err_missing"
	}
	return "err:" + err.Error()
}

// probe: what a process that opens the directory now sees
func vtProbe(s *vtSpec, b *vcBinding) (string, []string, error) {
	ctx := context.Background()
	q := NewUnlimitedMemQuotaProvider()
	var st *NomsBlockStore
	var err error
	if s.Kind == "journal" {
		st, err = NewLocalJournalingStoreWithOptions(ctx, constants.FormatDoltString, s.Dir, q, false, nil, JournalingStoreOptions{SkipLockFileTimeout: true})
	} else {
		st, err = NewLocalStore(ctx, constants.FormatDoltString, s.Dir, 1<<20, q, false)
	}
	if err != nil {
		return "", nil, err
	}
	defer st.Close()
	r, err := st.Root(ctx)
	if err != nil {
		return "", nil, err
	}
	vis := []string{}
	for _, a := range b.addrs {
		c, err := st.Get(ctx, b.chunk[a].Hash())
		if err != nil {
			return "", nil, err
		}
		if !c.IsEmpty() {
			if string(c.Data()) != string(b.chunk[a].Data()) {
				return "", nil, fmt.Errorf("chunk %s read back with other bytes", a)
			}
			vis = append(vis, a)
		}
	}
	sort.Strings(vis)
	return b.rootName(r), vis, nil
}

func vtClient(log *vtLog, in *vtInst, c string, b *vcBinding, rng *rand.Rand, single bool, stats *vtStats) error {
	ctx := context.Background()
	s := in.spec
	lastSeen := hash.Hash{}
	known := []string{"none"}
	pick := func() string { return b.addrs[rng.Intn(len(b.addrs))] }
	st := func() *NomsBlockStore { in.mu.RLock(); defer in.mu.RUnlock(); return in.store }
	doProbe := func() error {
		log.ev(map[string]any{"ev": "invoke", "c": c, "i": "-", "op": "probe"})
		r, vis, err := vtProbe(s, b)
		if err != nil {
			return fmt.Errorf("probe: %w", err)
		}
		log.ev(map[string]any{"ev": "return", "c": c, "op": "probe", "root": r, "vis": vis})
		return nil
	}
	for n := 0; n < s.Ops; n++ {
		x := rng.Intn(100)
		switch {
		case x < 28:
			a := pick()
			log.ev(map[string]any{"ev": "invoke", "c": c, "i": in.name, "op": "put", "addr": a})
			if err := st().Put(ctx, b.chunk[a], vcNoAddrs); err != nil {
				return fmt.Errorf("put: %w", err)
			}
			log.ev(map[string]any{"ev": "return", "c": c, "op": "put", "res": "ok"})
			known = append(known, a)
		case x < 66:
			cur := known[rng.Intn(len(known))]
			if rng.Intn(8) == 0 {
				cur = pick()
			}
			if s.Kind == "journal" && cur == "none" {
				// ChunkJournal.ParseIfExists falls back to the (stale) backing manifest while the journal's root is
				// the empty hash; no caller of dolt commits an empty root, so this input is not driven.
				cur = pick()
			}
			last := lastSeen
			if rng.Intn(10) == 0 {
				last = b.root(append([]string{"none"}, b.addrs...)[rng.Intn(len(b.addrs)+1)])
			}
			log.ev(map[string]any{"ev": "invoke", "c": c, "i": in.name, "op": "commit", "cur": cur, "last": b.rootName(last)})
			ok, err := st().Commit(ctx, b.root(cur), last)
			res := vtCommitRes(ok, err)
			log.ev(map[string]any{"ev": "return", "c": c, "op": "commit", "res": res})
			stats.add(res)
			if ok && err == nil {
				lastSeen = b.root(cur)
				if rng.Intn(2) == 0 {
					if err := doProbe(); err != nil {
						return err
					}
				}
			}
			if !ok && err == nil {
				// a failed commit rebased the store
				r, _ := st().Root(ctx)
				_ = r
			}
		case x < 80:
			log.ev(map[string]any{"ev": "invoke", "c": c, "i": in.name, "op": "root"})
			r, err := st().Root(ctx)
			if err != nil {
				return fmt.Errorf("root: %w", err)
			}
			log.ev(map[string]any{"ev": "return", "c": c, "op": "root", "root": b.rootName(r)})
			lastSeen = r
		case x < 88:
			a := pick()
			log.ev(map[string]any{"ev": "invoke", "c": c, "i": in.name, "op": "has", "addr": a})
			h, err := st().Has(ctx, b.chunk[a].Hash())
			if err != nil {
				return fmt.Errorf("has: %w", err)
			}
			log.ev(map[string]any{"ev": "return", "c": c, "op": "has", "res": fmt.Sprint(h)})
		case x < 93:
			log.ev(map[string]any{"ev": "invoke", "c": c, "i": in.name, "op": "rebase"})
			if err := st().Rebase(ctx); err != nil {
				return fmt.Errorf("rebase: %w", err)
			}
			log.ev(map[string]any{"ev": "return", "c": c, "op": "rebase", "res": "ok"})
		case x < 97:
			if err := doProbe(); err != nil {
				return err
			}
		default:
			if !single || !s.Reopen || s.Kind == "journal" {
				continue
			}
			log.ev(map[string]any{"ev": "invoke", "c": c, "i": in.name, "op": "reopen"})
			in.mu.Lock()
			err := in.store.Close()
			if err == nil {
				in.store, err = vtOpenStore(s)
			}
			in.mu.Unlock()
			if err != nil {
				return fmt.Errorf("reopen: %w", err)
			}
			log.ev(map[string]any{"ev": "return", "c": c, "op": "reopen", "res": "ok"})
			known = []string{"none"}
		}
	}
	return nil
}

type vtStats struct {
	mu sync.Mutex
	m  map[string]int
}

func (s *vtStats) add(k string) {
	s.mu.Lock()
	if s.m == nil {
		s.m = map[string]int{}
	}
	s.m[k]++
	s.mu.Unlock()
}

// run the clients of the given instances in this process
func vtRunInsts(s *vtSpec, names []string, log *vtLog, stats *vtStats) error {
	b := vcNewBinding(s.Seed, s.Addrs)
	var wg sync.WaitGroup
	errs := make(chan error, 64)
	var insts []*vtInst
	for _, n := range names {
		// the moment a store is opened decides which manifest it starts from: log it as a (re)open of the instance
		log.ev(map[string]any{"ev": "invoke", "c": s.Insts[n][0], "i": n, "op": "reopen"})
		st, err := vtOpenStore(s)
		if err != nil {
			return fmt.Errorf("open %s: %w", n, err)
		}
		log.ev(map[string]any{"ev": "return", "c": s.Insts[n][0], "op": "reopen", "res": "ok"})
		insts = append(insts, &vtInst{name: n, spec: s, store: st})
	}
	start := make(chan struct{})
	for _, in := range insts {
		cl := s.Insts[in.name]
		for k, c := range cl {
			wg.Add(1)
			seed := s.Seed*1000003 + int64(len(c))*7919 + int64(k)*104729 + int64(hashStr(c+in.name))
			go func(in *vtInst, c string, seed int64) {
				defer wg.Done()
				defer func() {
					if p := recover(); p != nil {
						errs <- fmt.Errorf("panic in client %s: %v", c, p)
					}
				}()
				<-start
				if err := vtClient(log, in, c, b, rand.New(rand.NewSource(seed)), len(cl) == 1, stats); err != nil {
					errs <- fmt.Errorf("client %s: %w", c, err)
				}
			}(in, c, seed)
		}
	}
	close(start)
	wg.Wait()
	for _, in := range insts {
		in.store.Close()
	}
	select {
	case err := <-errs:
		return err
	default:
		return nil
	}
}

func hashStr(s string) int {
	h := 0
	for _, c := range s {
		h = h*31 + int(c)
	}
	if h < 0 {
		h = -h
	}
	return h % 100000
}

func vcRunT(c map[string]any) common.Result {
	var s vtSpec
	bs, _ := json.Marshal(c["cfg"])
	if err := json.Unmarshal(bs, &s); err != nil {
		return common.Result{"ok": false, "fp": "setup", "detail": err.Error()}
	}
	base := os.Getenv("VERIF_WORK")
	if base == "" {
		base = os.TempDir()
	}
	dir, err := os.MkdirTemp(base, "mcast-")
	if err != nil {
		return common.Result{"ok": false, "fp": "setup", "detail": err.Error()}
	}
	defer os.RemoveAll(dir)
	s.Dir = dir
	s.Out = c["out"].(string)
	log, err := vtOpenLog(s.Out)
	if err != nil {
		return common.Result{"ok": false, "fp": "setup", "detail": err.Error()}
	}
	defer log.f.Close()
	var names []string
	for n := range s.Insts {
		names = append(names, n)
	}
	sort.Strings(names)
	stats := &vtStats{}
	if !s.Procs {
		if err := vtRunInsts(&s, names, log, stats); err != nil {
			return common.Result{"ok": false, "fp": "workload-error", "detail": err.Error()}
		}
	} else {
		// one OS process per instance; all append to the same O_APPEND file
		var cmds []*exec.Cmd
		for _, n := range names {
			ws := s
			ws.Insts = map[string][]string{n: s.Insts[n]}
			wb, _ := json.Marshal(ws)
			cmd := exec.Command(os.Args[0], "-test.run", "^TestVerifManifestCASWorker$", "-test.count", "1", "-test.timeout", "0")
			cmd.Env = append(os.Environ(), "VERIF_WORKER_SPEC="+string(wb), "VERIF_IN=")
			cmds = append(cmds, cmd)
		}
		outs := make([][]byte, len(cmds))
		errsW := make([]error, len(cmds))
		var wg sync.WaitGroup
		for k := range cmds {
			wg.Add(1)
			go func(k int) { defer wg.Done(); outs[k], errsW[k] = cmds[k].CombinedOutput() }(k)
		}
		wg.Wait()
		for k := range cmds {
			if errsW[k] != nil || !strings.Contains(string(outs[k]), "VERIF_WORKER_OK") {
				return common.Result{"ok": false, "fp": "workload-error", "detail": fmt.Sprintf("worker %s: %v\n%s", names[k], errsW[k], tail(outs[k]))}
			}
		}
	}
	return common.Result{"ok": true, "results": stats.m}
}

func tail(b []byte) string {
	if len(b) > 2000 {
		b = b[len(b)-2000:]
	}
	return string(b)
}

func TestVerifManifestCASWorker(t *testing.T) {
	ws := os.Getenv("VERIF_WORKER_SPEC")
	if ws == "" {
		t.Skip("verif worker: no spec")
	}
	var s vtSpec
	if err := json.Unmarshal([]byte(ws), &s); err != nil {
		t.Fatal(err)
	}
	log, err := vtOpenLog(s.Out)
	if err != nil {
		t.Fatal(err)
	}
	defer log.f.Close()
	var names []string
	for n := range s.Insts {
		names = append(names, n)
	}
	if err := vtRunInsts(&s, names, log, &vtStats{}); err != nil {
		t.Fatal(err)
	}
	fmt.Println("VERIF_WORKER_OK")
}

var _ = chunks.EmptyChunk
