// Engine "manifestcas" (in-package, injected with -overlay): drives REAL NomsBlockStore instances that share
// one directory with interleavings chosen by TLC from /verif/spec/ManifestCAS.tla (mode G), and records
// call/return traces of ungated concurrent clients for /verif/spec/TraceManifestCAS.tla (mode T, see
// zz_verif_manifestcas_trace_test.go).
//
// Gates (no dolt source is modified; every gate is an existing seam):
//
//	R   manifest.ParseIfExists   (wrapper around the nbs `manifest` interface)
//	P   tablePersister.Persist   (wrapper around the nbs `tablePersister` interface)
//	D   refCheck of the new root (the `checker` parameter of NomsBlockStore.commit)
//	U1  manifest.Update entry    (before dir/LOCK is taken)
//	U2  writeHook of fileManifest.Update / updateWithChecker (LOCK held, temp manifest written)
//	U3  manifest.Update exit     (LOCK released, before the store reacts to the result)
//
// Expected values come only from the behaviour file (computed by TLC); this program maps model values to
// concrete chunks (binding) and compares after every step.
package nbs

import (
	"context"
	"crypto/sha512"
	"errors"
	"fmt"
	"os"
	"path/filepath"
	"sort"
	"strings"
	"sync/atomic"
	"syscall"
	"testing"
	"time"

	dherrors "github.com/dolthub/dolt/go/libraries/utils/errors"
	"github.com/dolthub/dolt/go/store/chunks"
	"github.com/dolthub/dolt/go/store/constants"
	"github.com/dolthub/dolt/go/store/hash"
	"github.com/dolthub/dolt/go/zz_verif/common"
)

const vcChunkSize = 64

var vcStepTimeout = 60 * time.Second

// ---------------------------------------------------------------- binding

type vcBinding struct {
	seed   int64
	addrs  []string
	chunk  map[string]chunks.Chunk
	byHash map[hash.Hash]string
}

func vcNewBinding(seed int64, addrs []string) *vcBinding {
	b := &vcBinding{seed: seed, addrs: addrs, chunk: map[string]chunks.Chunk{}, byHash: map[hash.Hash]string{}}
	for _, a := range addrs {
		s := sha512.Sum512([]byte(fmt.Sprintf("verif-c02-%d-%s", seed, a)))
		c := chunks.NewChunk(s[:vcChunkSize])
		b.chunk[a] = c
		b.byHash[c.Hash()] = a
	}
	return b
}

func (b *vcBinding) root(name string) hash.Hash {
	if name == "none" {
		return hash.Hash{}
	}
	return b.chunk[name].Hash()
}

func (b *vcBinding) rootName(h hash.Hash) string {
	if h.IsEmpty() {
		return "none"
	}
	if n, ok := b.byHash[h]; ok {
		return n
	}
	return "?" + h.String()
}

func vcNoAddrs(c chunks.Chunk) chunks.InsertAddrsCb {
	return func(ctx context.Context, addrs hash.HashSet, exists chunks.PendingRefExists) error { return nil }
}

// ---------------------------------------------------------------- gates

type vcEvent struct {
	gate string // "" for a return
	op   string
	ok   bool
	err  error
}

type vcInst struct {
	name   string
	dir    string
	memCap int
	store  *NomsBlockStore
	gating atomic.Bool
	evCh   chan vcEvent
	goCh   chan struct{}
	parked *vcEvent // last event delivered by the call goroutine (gate or return), nil when idle
	inCall bool
}

func (in *vcInst) gate(name string) {
	if !in.gating.Load() {
		return
	}
	in.evCh <- vcEvent{gate: name}
	<-in.goCh
}

type vcGatedManifest struct {
	inner manifest
	in    *vcInst
}

func (g vcGatedManifest) Name() string { return g.inner.Name() }
func (g vcGatedManifest) Close() error { return g.inner.Close() }
func (g vcGatedManifest) ParseIfExists(ctx context.Context, stats *Stats, readHook func() error) (bool, manifestContents, error) {
	g.in.gate("R")
	return g.inner.ParseIfExists(ctx, stats, readHook)
}
func (g vcGatedManifest) Update(ctx context.Context, behavior dherrors.FatalBehavior, lastLock hash.Hash, newContents manifestContents, stats *Stats, writeHook func() error) (manifestContents, error) {
	g.in.gate("U1")
	wh := func() error {
		g.in.gate("U2")
		if writeHook != nil {
			return writeHook()
		}
		return nil
	}
	mc, err := g.inner.Update(ctx, behavior, lastLock, newContents, stats, wh)
	if err == nil {
		g.in.gate("U3")
	}
	return mc, err
}
func (g vcGatedManifest) UpdateGCGen(ctx context.Context, behavior dherrors.FatalBehavior, lastLock hash.Hash, newContents manifestContents, stats *Stats, writeHook func() error) (manifestContents, error) {
	return g.inner.UpdateGCGen(ctx, behavior, lastLock, newContents, stats, writeHook)
}

type vcGatedPersister struct {
	tablePersister
	in *vcInst
}

func (g vcGatedPersister) Persist(ctx context.Context, behavior dherrors.FatalBehavior, mt *memTable, haver chunkReader, keeper keeperF, stats *Stats) (chunkSource, gcBehavior, error) {
	g.in.gate("P")
	return g.tablePersister.Persist(ctx, behavior, mt, haver, keeper, stats)
}

// vcOpen is newLocalStore with the manifest and the persister wrapped by gates.
func vcOpen(in *vcInst) (*NomsBlockStore, error) {
	ctx := context.Background()
	if err := checkDir(in.dir); err != nil {
		return nil, err
	}
	m, err := getFileManifest(ctx, in.dir)
	if err != nil {
		return nil, err
	}
	q := NewUnlimitedMemQuotaProvider()
	p := newFSTablePersister(in.dir, q, false)
	st, err := newNomsBlockStore(ctx, constants.FormatDoltString, vcGatedManifest{m, in}, vcGatedPersister{p, in}, q,
		inlineConjoiner{defaultMaxTables}, uint64(in.memCap*vcChunkSize))
	if err != nil {
		m.Close()
		return nil, err
	}
	st.SetFatalBehavior(dherrors.FatalBehaviorError)
	return st, nil
}

// wait for the call goroutine of |in| to reach a gate or to return
func (in *vcInst) await() (*vcEvent, bool) {
	select {
	case ev := <-in.evCh:
		in.parked = &ev
		if ev.gate == "" {
			in.gating.Store(false)
		}
		return &ev, true
	case <-time.After(vcStepTimeout):
		return nil, false
	}
}

func (in *vcInst) release() {
	in.parked = nil
	in.goCh <- struct{}{}
}

// ---------------------------------------------------------------- world

type vcWorld struct {
	dir    string
	b      *vcBinding
	insts  map[string]*vcInst
	order  []string
	tables map[string][]string // table file name -> sorted chunk names
	evals  int
}

func (w *vcWorld) learnTables() {
	ctx := context.Background()
	for _, n := range w.order {
		st := w.insts[n].store
		if st == nil || st.tables == nil {
			continue
		}
		for _, css := range []chunkSourceSet{st.tables.novel, st.tables.upstream} {
			for h, cs := range css {
				if _, ok := w.tables[h.String()]; ok {
					continue
				}
				// chunks in the order they lie in the table (= the order they were put into the memtable)
				hs := hash.HashSet{}
				for _, a := range w.b.addrs {
					hs.Insert(w.b.chunk[a].Hash())
				}
				type at struct {
					a   string
					off uint64
				}
				var set []at
				if cs.count() > 0 {
					rs, _, err := cs.getRecordRanges(ctx, dherrors.FatalBehaviorError, toGetRecords(hs), nil)
					if err != nil {
						continue
					}
					for hh, r := range rs {
						set = append(set, at{w.b.byHash[hh], r.Offset})
					}
				}
				sort.Slice(set, func(i, j int) bool { return set[i].off < set[j].off })
				var seq []string
				for _, x := range set {
					seq = append(seq, x.a)
				}
				w.tables[h.String()] = seq
			}
		}
	}
}

func vcCanonTables(ts [][]string) string {
	var ss []string
	for _, t := range ts {
		// a table is the SEQUENCE of its chunks (insertion order decides the file name)
		ss = append(ss, "<"+strings.Join(t, ",")+">")
	}
	sort.Strings(ss)
	return "[" + strings.Join(ss, " ") + "]"
}

func vcStrs(v any) []string {
	if v == nil {
		return nil
	}
	a := v.([]any)
	out := make([]string, len(a))
	for i := range a {
		out[i] = a[i].(string)
	}
	sort.Strings(out)
	return out
}

func vcTables(v any) [][]string {
	if v == nil {
		return nil
	}
	a := v.([]any)
	out := make([][]string, len(a))
	for i := range a {
		for _, x := range a[i].([]any) {
			out[i] = append(out[i], x.(string))
		}
	}
	return out
}

func (w *vcWorld) namesToTables(names []string) ([][]string, error) {
	var out [][]string
	for _, n := range names {
		t, ok := w.tables[n]
		if !ok {
			return nil, fmt.Errorf("table file %s has unknown contents", n)
		}
		out = append(out, t)
	}
	return out, nil
}

func (w *vcWorld) listTableFiles() ([]string, error) {
	es, err := os.ReadDir(w.dir)
	if err != nil {
		return nil, err
	}
	var out []string
	for _, e := range es {
		if len(e.Name()) == 32 {
			if _, ok := hash.MaybeParse(e.Name()); ok {
				out = append(out, e.Name())
			}
		}
	}
	return out, nil
}

func vcSpecNames(specs []tableSpec) []string {
	var out []string
	for _, s := range specs {
		out = append(out, s.name.String())
	}
	return out
}

func vcLockBusy(dir string) (bool, error) {
	f, err := os.OpenFile(filepath.Join(dir, lockFileName), os.O_CREATE|os.O_RDWR, 0600)
	if err != nil {
		return false, err
	}
	defer f.Close()
	err = syscall.Flock(int(f.Fd()), syscall.LOCK_EX|syscall.LOCK_NB)
	if err == syscall.EWOULDBLOCK {
		return true, nil
	}
	if err != nil {
		return false, err
	}
	syscall.Flock(int(f.Fd()), syscall.LOCK_UN)
	return false, nil
}

var vcGateOfPC = map[string]string{"sr": "R", "rebase": "R", "reopen": "R", "flush": "P", "dangling": "D", "upd": "U1",
	"locked": "U2", "ret_ok": "U3", "ret_stale": "U3"}

func vcResOf(ev *vcEvent) string {
	switch {
	case ev.err != nil && errors.Is(ev.err, ErrDanglingRef):
		return "err_dangling"
	case ev.err != nil && strings.Contains(ev.err.Error(), "timed out reading database manifest"):
		return "err_locktimeout"
	case ev.err != nil && errors.Is(ev.err, ErrManifestSpecMissingTableFile):
		return "err_missing"
	case ev.err != nil:
		return "err:" + ev.err.Error()
	case ev.op == "commit" && ev.ok:
		return "true"
	case ev.op == "commit":
		return "false"
	}
	return "ok"
}

// compare the projection of the real world with exp (the spec state after the step)
func (w *vcWorld) compare(step int, action string, exp map[string]any) common.Result {
	ctx := context.Background()
	w.learnTables()
	// ---- manifest file
	em := exp["man"].(map[string]any)
	ex, mc, err := parseIfExists(ctx, w.dir, nil)
	if err != nil {
		return common.Fail(step, action, "manifest unreadable", "readable", err.Error())
	}
	w.evals++
	if ex != em["ex"].(bool) {
		return common.Fail(step, action, "manifest existence", em["ex"], ex)
	}
	if ex {
		if got := w.b.rootName(mc.root); got != em["root"].(string) {
			return common.Fail(step, action, "persisted root", em["root"], got)
		}
		ts, err := w.namesToTables(vcSpecNames(mc.specs))
		if err != nil {
			return common.Fail(step, action, "persisted specs unknown table", em["specs"], err.Error())
		}
		if g, e := vcCanonTables(ts), vcCanonTables(vcTables(em["specs"])); g != e {
			return common.Fail(step, action, "persisted specs", e, g)
		}
		if mc.lock != generateLockHash(mc.root, mc.specs, mc.appendix, nil) {
			return common.Fail(step, action, "persisted lock is not the hash of root and specs", "hash(root,specs)", mc.lock.String())
		}
		// every table named by the manifest exists on disk
		for _, s := range mc.specs {
			if ok, _ := tableFileOrArchiveExists(w.dir, s.name); !ok {
				return common.Fail(step, action, "manifest names a missing table file", "present", s.name.String())
			}
		}
	}
	// ---- table files in the directory
	fl, err := w.listTableFiles()
	if err != nil {
		return common.Fail(step, action, "readdir", "ok", err.Error())
	}
	fts, err := w.namesToTables(fl)
	if err != nil {
		return common.Fail(step, action, "table files: unknown file", exp["files"], err.Error())
	}
	w.evals++
	if g, e := vcCanonTables(fts), vcCanonTables(vcTables(exp["files"])); g != e {
		return common.Fail(step, action, "table files in directory", e, g)
	}
	// ---- LOCK
	busy, err := vcLockBusy(w.dir)
	if err != nil {
		return common.Fail(step, action, "LOCK probe", "ok", err.Error())
	}
	w.evals++
	if busy != (exp["holder"].(string) != "none") {
		return common.Fail(step, action, "dir/LOCK held", exp["holder"], busy)
	}
	// ---- instances
	ei := exp["inst"].(map[string]any)
	for _, n := range w.order {
		in := w.insts[n]
		e := ei[n].(map[string]any)
		pc := e["pc"].(string)
		w.evals++
		switch {
		case pc == "idle":
			if in.inCall {
				return common.Fail(step, action, "instance "+n+" should be idle", pc, "in call")
			}
		case pc == "done":
			if in.parked == nil || in.parked.gate != "" {
				return common.Fail(step, action, "instance "+n+" should have returned", e["res"], vcParked(in))
			}
			if got := vcResOf(in.parked); got != e["res"].(string) {
				return common.Fail(step, action, "result of "+in.parked.op+" on "+n, e["res"], got)
			}
		default:
			if in.parked == nil || in.parked.gate != vcGateOfPC[pc] {
				return common.Fail(step, action, "instance "+n+" control point", pc+"@"+vcGateOfPC[pc], vcParked(in))
			}
		}
		st := in.store
		if st == nil {
			continue // being reopened
		}
		// in-memory state (the call goroutine is parked or absent, so plain reads are ordered by the channel handshake)
		if got := w.b.rootName(st.upstream.root); got != e["root"].(string) {
			return common.Fail(step, action, "cached root of "+n, e["root"], got)
		}
		ut, err := w.namesToTables(vcSpecNames(st.upstream.specs))
		if err != nil {
			return common.Fail(step, action, "upstream specs of "+n, e["upspecs"], err.Error())
		}
		if g, x := vcCanonTables(ut), vcCanonTables(vcTables(e["upspecs"])); g != x {
			return common.Fail(step, action, "upstream specs of "+n, x, g)
		}
		var un []string
		for h := range st.tables.upstream {
			un = append(un, h.String())
		}
		ut2, _ := w.namesToTables(un)
		if g, x := vcCanonTables(ut2), vcCanonTables(vcTables(e["upspecs"])); g != x {
			return common.Fail(step, action, "open upstream tables of "+n, x, g)
		}
		var nn []string
		for h := range st.tables.novel {
			nn = append(nn, h.String())
		}
		nt, err := w.namesToTables(nn)
		if err != nil {
			return common.Fail(step, action, "novel tables of "+n, e["novel"], err.Error())
		}
		if g, x := vcCanonTables(nt), vcCanonTables(vcTables(e["novel"])); g != x {
			return common.Fail(step, action, "novel tables of "+n, x, g)
		}
		var mm, em []string
		if st.memtable != nil {
			for _, r := range st.memtable.order {
				mm = append(mm, w.b.rootName(*r.a))
			}
		}
		if e["mem"] != nil {
			for _, x := range e["mem"].([]any) {
				em = append(em, x.(string))
			}
		}
		if g, x := strings.Join(mm, ","), strings.Join(em, ","); g != x {
			return common.Fail(step, action, "memtable of "+n, x, g)
		}
		w.evals += 4
		if pc == "idle" {
			// public API of an idle instance
			r, err := st.Root(ctx)
			if err != nil || w.b.rootName(r) != e["root"].(string) {
				return common.Fail(step, action, "Root() of "+n, e["root"], fmt.Sprint(w.b.rootName(r), err))
			}
			vis := map[string]bool{}
			for _, a := range vcStrs(e["vis"]) {
				vis[a] = true
			}
			if r := w.checkReads(step, action, n, st, vis); r != nil {
				return r
			}
		}
	}
	// ---- a process that opens the directory now (fresh store through the real constructor)
	return w.probe(step, action, exp)
}

func vcParked(in *vcInst) string {
	if in.parked == nil {
		if in.inCall {
			return "running"
		}
		return "idle"
	}
	if in.parked.gate == "" {
		return "returned " + vcResOf(in.parked)
	}
	return "@" + in.parked.gate
}

func (w *vcWorld) checkReads(step int, action, who string, st chunks.ChunkStore, vis map[string]bool) common.Result {
	ctx := context.Background()
	for _, a := range w.b.addrs {
		c := w.b.chunk[a]
		has, err := st.Has(ctx, c.Hash())
		w.evals++
		if err != nil || has != vis[a] {
			return common.Fail(step, action, "Has("+a+") on "+who, vis[a], fmt.Sprint(has, err))
		}
		got, err := st.Get(ctx, c.Hash())
		w.evals++
		if err != nil {
			return common.Fail(step, action, "Get("+a+") on "+who, vis[a], err.Error())
		}
		if vis[a] != !got.IsEmpty() {
			return common.Fail(step, action, "Get("+a+") presence on "+who, vis[a], !got.IsEmpty())
		}
		if vis[a] && string(got.Data()) != string(c.Data()) {
			return common.Fail(step, action, "Get("+a+") bytes on "+who, "stored bytes", "other bytes")
		}
	}
	return nil
}

// probe opens the directory with the unmodified constructor, as any other process would, and compares root and
// readable chunks with the persisted manifest of the model; every durable (acknowledged) chunk must be readable.
func (w *vcWorld) probe(step int, action string, exp map[string]any) common.Result {
	ctx := context.Background()
	st, err := NewLocalStore(ctx, constants.FormatDoltString, w.dir, 1<<20, NewUnlimitedMemQuotaProvider(), false)
	if err != nil {
		return common.Fail(step, action, "open of the directory by a fresh store", "ok", err.Error())
	}
	defer st.Close()
	em := exp["man"].(map[string]any)
	r, err := st.Root(ctx)
	w.evals++
	if err != nil || w.b.rootName(r) != em["root"].(string) {
		return common.Fail(step, action, "root seen by a fresh opener", em["root"], fmt.Sprint(w.b.rootName(r), err))
	}
	vis := map[string]bool{}
	for _, t := range vcTables(em["specs"]) {
		for _, a := range t {
			vis[a] = true
		}
	}
	for _, a := range vcStrs(exp["durable"]) {
		if !vis[a] {
			return common.Fail(step, action, "model: durable chunk not in persisted tables", a, vis)
		}
	}
	return w.checkReads(step, action, "fresh opener", st, vis)
}

// ---------------------------------------------------------------- the G-mode driver

func (w *vcWorld) startCall(in *vcInst, op string, f func() (bool, error)) {
	in.gating.Store(true)
	in.inCall = true
	go func() {
		ok, err := f()
		in.evCh <- vcEvent{op: op, ok: ok, err: err}
	}()
}

func (w *vcWorld) step(n int, s map[string]any) common.Result {
	ctx := context.Background()
	a := s["a"].(string)
	in := w.insts[s["i"].(string)]
	args, _ := s["args"].(map[string]any)
	stuck := func() common.Result {
		r := common.Fail(n, a, "goroutine did not reach a gate or return", "progress", "stuck for "+vcStepTimeout.String())
		r["stuck"] = true
		return r
	}
	switch a {
	case "Put":
		if in.inCall {
			return common.Fail(n, a, "driver: instance busy", "idle", vcParked(in))
		}
		if err := in.store.Put(ctx, w.b.chunk[args["addr"].(string)], vcNoAddrs); err != nil {
			return common.Fail(n, a, "Put failed", "ok", err.Error())
		}
	case "CommitCall":
		cur, last := w.b.root(args["cur"].(string)), w.b.root(args["last"].(string))
		st := in.store
		checker := func(reqs []hasRecord) (hash.HashSet, error) {
			if len(reqs) == 1 && *reqs[0].a == cur {
				in.gate("D")
			}
			return st.refCheck(reqs)
		}
		w.startCall(in, "commit", func() (bool, error) { return st.commit(ctx, cur, last, checker) })
		if _, ok := in.await(); !ok {
			return stuck()
		}
	case "RebaseCall":
		st := in.store
		w.startCall(in, "rebase", func() (bool, error) { return true, st.Rebase(ctx) })
		if _, ok := in.await(); !ok {
			return stuck()
		}
	case "ReopenCall":
		if err := in.store.Close(); err != nil {
			return common.Fail(n, a, "Close failed", "ok", err.Error())
		}
		in.store = nil
		w.startCall(in, "reopen", func() (bool, error) {
			st, err := vcOpen(in)
			if err == nil {
				in.store = st
			}
			return true, err
		})
		if _, ok := in.await(); !ok {
			return stuck()
		}
	case "Return":
		if in.parked == nil || in.parked.gate != "" {
			return common.Fail(n, a, "no returned call on "+in.name, "returned", vcParked(in))
		}
		if got, e := vcResOf(in.parked), args["res"].(string); got != e {
			return common.Fail(n, a, "result of "+in.parked.op+" on "+in.name, e, got)
		}
		in.parked = nil
		in.inCall = false
	default:
		// internal step: the goroutine must be parked at the gate of this action; open it
		pre := map[string]string{"CommitSameRootNoCAS": "R", "RebaseRead": "R", "ReopenRead": "R", "FlushMemtable": "P",
			"ErrorIfDangling": "D", "UpdLock": "U1", "UpdLockTimeout": "U1", "UpdCAS": "U2", "CommitFinish": "U3", "HandleOLF": "U3"}[a]
		if pre == "" {
			return common.Fail(n, a, "driver: unknown action", "known", a)
		}
		if in.parked == nil || in.parked.gate != pre {
			return common.Fail(n, a, "instance "+in.name+" is not at the gate of this action", "@"+pre, vcParked(in))
		}
		in.release()
		if _, ok := in.await(); !ok {
			return stuck()
		}
	}
	return w.compare(n, a, s["exp"].(map[string]any))
}

func (w *vcWorld) teardown() {
	// let every parked goroutine run to completion (ungated), then close the stores
	for _, n := range w.order {
		w.insts[n].gating.Store(false)
	}
	for round := 0; round < 3; round++ {
		for _, n := range w.order {
			in := w.insts[n]
			if in.parked != nil && in.parked.gate != "" {
				in.release()
			}
		}
		for _, n := range w.order {
			in := w.insts[n]
			if in.inCall && (in.parked == nil || in.parked.gate != "") {
				select {
				case ev := <-in.evCh:
					in.parked = &ev
				case <-time.After(vcStepTimeout):
				}
			}
		}
	}
	for _, n := range w.order {
		if st := w.insts[n].store; st != nil {
			st.Close()
		}
	}
	os.RemoveAll(w.dir)
}

func vcNewWorld(c map[string]any) (*vcWorld, error) {
	cfg := c["cfg"].(map[string]any)
	base := os.Getenv("VERIF_WORK")
	if base == "" {
		base = os.TempDir()
	}
	dir, err := os.MkdirTemp(base, "mcas-")
	if err != nil {
		return nil, err
	}
	seed := int64(common.Int(cfg["seed"]))
	w := &vcWorld{dir: dir, b: vcNewBinding(seed, vcStrs(cfg["addrs"])), insts: map[string]*vcInst{}, tables: map[string][]string{}}
	w.order = vcStrs(cfg["insts"])
	for _, n := range w.order {
		in := &vcInst{name: n, dir: dir, memCap: common.Int(cfg["memcap"]), evCh: make(chan vcEvent, 1), goCh: make(chan struct{})}
		st, err := vcOpen(in)
		if err != nil {
			return nil, err
		}
		in.store = st
		w.insts[n] = in
	}
	return w, nil
}

func vcRunG(c map[string]any) common.Result {
	w, err := vcNewWorld(c)
	if err != nil {
		return common.Result{"ok": false, "fp": "setup", "detail": err.Error()}
	}
	defer w.teardown()
	steps := c["steps"].([]any)
	acts := map[string]int{}
	for n, s := range steps {
		sm := s.(map[string]any)
		acts[sm["a"].(string)]++
		if r := w.step(n, sm); r != nil {
			r["evals"] = w.evals
			return r
		}
	}
	return common.Result{"ok": true, "evals": w.evals, "steps": len(steps)}
}

func TestVerifManifestCAS(t *testing.T) {
	if os.Getenv("VERIF_IN") == "" {
		t.Skip("verif engine: no VERIF_IN")
	}
	if s := os.Getenv("VERIF_STEP_TIMEOUT_S"); s != "" {
		if d, err := time.ParseDuration(s + "s"); err == nil {
			vcStepTimeout = d
		}
	}
	common.Run(func(c map[string]any) common.Result {
		switch c["mode"] {
		case "t":
			return vcRunT(c)
		default:
			return vcRunG(c)
		}
	})
}
