// Engine E1, mode "tablefile" (C06): replays behaviours of /verif/spec/TableFile.tla on the real file formats:
// memTable.write + tableWriter -> fileTableReader, ArchiveStreamWriter -> archiveChunkSource, conjoinTables
// (planTableConjoin / planArchiveConjoin through fsTablePersister.ConjoinAll), and the streaming of a file's
// compressed chunks into a new archive.  After every step every file written so far is probed through
// has / hasMany / get / getMany / getManyCompressed / iterateAllChunks / count / uncompressedLen / currentSize
// for every model address, for never-written neighbours of every model address, and for the filler chunks.
package nbs

import (
	"bytes"
	"context"
	"fmt"
	"os"
	"path/filepath"
	"sort"
	"strings"
	"sync"

	"github.com/sirupsen/logrus"
	"golang.org/x/sync/errgroup"

	dherrors "github.com/dolthub/dolt/go/libraries/utils/errors"
	"github.com/dolthub/dolt/go/store/chunks"
	"github.com/dolthub/dolt/go/store/hash"
	"github.com/dolthub/dolt/go/zz_verif/common"
)

var muReads sync.Mutex

func init() {
	if os.Getenv("VERIF_IN") != "" {
		logrus.SetLevel(logrus.ErrorLevel)
	}
}

type tfile struct {
	src    chunkSource
	fmtt   string
	fill   map[hash.Hash]int // filler chunks held (with multiplicity)
	nfill  int
	fillSz uint64
}

type tfenv struct {
	b     *vbinding
	dir   string
	ftp   *fsTablePersister
	q     MemoryQuotaProvider
	stats *Stats
	files []*tfile
	evals int
	ndict int
	ndup  int
	nmix  int
}

func runTableFileCase(c map[string]any) common.Result {
	steps := c["steps"].([]any)
	s0 := steps[0].(map[string]any)
	kind := s0["args"].(map[string]any)["kind"].(map[string]any)
	var addrs []string
	for a := range kind {
		addrs = append(addrs, a)
	}
	sort.Strings(addrs)
	e := &tfenv{q: NewUnlimitedMemQuotaProvider(), stats: NewStats()}
	bi := c["binding"].(map[string]any)
	bi["backend"] = "file"
	e.b = newBinding(c, addrs, kind)
	dir, err := os.MkdirTemp(os.Getenv("VERIF_WORK"), "tf-")
	if err != nil {
		panic(err)
	}
	defer os.RemoveAll(dir)
	e.dir = dir
	e.ftp = newFSTablePersister(dir, e.q, bi["mmap"] == true).(*fsTablePersister)
	defer func() {
		for _, f := range e.files {
			f.src.close()
		}
	}()
	for i := 1; i < len(steps); i++ {
		st := steps[i].(map[string]any)
		act := st["a"].(string)
		args := st["args"].(map[string]any)
		var err error
		switch act {
		case "Write":
			err = e.write(strs(args["ws"]), args["fmt"].(string), i)
		case "Conjoin":
			err = e.conjoin(common.Ints(args["of"]))
		case "ToArchive":
			err = e.toArchive(common.Int(args["of"]))
		default:
			err = fmt.Errorf("unknown action %s", act)
		}
		if err != nil {
			return common.Fail(i, act, "error", "a readable file", err.Error())
		}
		exp := st["exp"].([]any)
		if len(exp) != len(e.files) {
			return common.Result{"ok": false, "fp": "harness:files", "detail": "file count differs"}
		}
		// probe the new file, and the files it was made from again (a conjoin must not disturb its sources);
		// after the last step every file once more
		again := map[int]bool{len(e.files) - 1: true}
		switch act {
		case "Conjoin":
			for _, j := range common.Ints(args["of"]) {
				again[j-1] = true
			}
		case "ToArchive":
			again[common.Int(args["of"])-1] = true
		}
		for fi := len(e.files) - 1; fi >= 0; fi-- {
			if !again[fi] && i != len(steps)-1 {
				continue
			}
			if r := e.probe(i, act, fi, exp[fi].(map[string]any)); r != nil {
				return r
			}
		}
	}
	return common.Result{"ok": true, "evals": e.evals, "files": len(e.files), "dict": e.ndict, "dup": e.ndup, "mixed": e.nmix}
}

// filler chunks of write number |w| (so that two files of one behaviour carry different fillers)
func (e *tfenv) fillerFor(w int) []hash.Hash {
	n := len(e.b.fillerH)
	if n == 0 {
		return nil
	}
	half := n / 2
	if w%2 == 1 {
		return e.b.fillerH[:half]
	}
	return e.b.fillerH[half:]
}

func (e *tfenv) write(ws []string, fmtt string, w int) error {
	f := &tfile{fmtt: fmtt, fill: map[hash.Hash]int{}}
	var chs []chunks.Chunk
	seen := map[string]bool{}
	for _, a := range ws {
		if seen[a] {
			e.ndup++
		}
		seen[a] = true
		chs = append(chs, chunks.NewChunkWithHash(e.b.addr[a], e.b.data[a]))
	}
	// fillers are interleaved with the model chunks
	fl := e.fillerFor(w)
	var all []chunks.Chunk
	k := 0
	for i, h := range fl {
		all = append(all, chunks.NewChunkWithHash(h, e.b.fillerD[h]))
		f.fill[h]++
		f.nfill++
		f.fillSz += uint64(len(e.b.fillerD[h]))
		if len(chs) > 0 && i%(len(fl)/len(chs)+1) == 0 && k < len(chs) {
			all = append(all, chs[k])
			k++
		}
	}
	all = append(all, chs[k:]...)
	var src chunkSource
	if fmtt == "table" {
		var total uint64
		for _, c := range all {
			total += uint64(len(c.Data()))
		}
		mt := newMemTable(total + 1)
		for _, c := range all {
			if mt.addChunk(c.Hash(), c.Data()) == chunkNotAdded {
				return fmt.Errorf("memtable refused a chunk")
			}
		}
		s, _, err := e.ftp.Persist(vctx, dherrors.FatalBehaviorError, mt, nil, nil, e.stats)
		if err != nil {
			return fmt.Errorf("Persist: %w", err)
		}
		src = s
	} else {
		w, err := NewArchiveStreamWriter(e.dir)
		if err != nil {
			return err
		}
		n := 0
		// the stream writer refuses a chunk it is handed twice (ErrDuplicateChunkWritten at Finish); every caller
		// (gcCopier via markAndSweeper.visited, the puller) de-duplicates before AddChunk, and so does this driver
		written := hash.HashSet{}
		for _, c := range all {
			if written.Has(c.Hash()) {
				continue
			}
			written.Insert(c.Hash())
			if _, err := w.AddChunk(ChunkToCompressedChunk(c)); err != nil {
				return fmt.Errorf("AddChunk: %w", err)
			}
			n++
		}
		if n >= maxSamples {
			e.ndict++
		}
		s, err := e.finishArchive(w)
		if err != nil {
			return err
		}
		src = s
	}
	f.src = src
	e.files = append(e.files, f)
	return nil
}

func (e *tfenv) finishArchive(w *ArchiveStreamWriter) (chunkSource, error) {
	_, name, err := w.Finish()
	if err != nil {
		return nil, fmt.Errorf("Finish: %w", err)
	}
	if err := w.FlushToFile(filepath.Join(e.dir, name)); err != nil {
		return nil, fmt.Errorf("FlushToFile: %w", err)
	}
	h, ok := hash.MaybeParse(strings.TrimSuffix(name, ArchiveFileSuffix))
	if !ok {
		return nil, fmt.Errorf("bad archive name %s", name)
	}
	return e.ftp.Open(vctx, h, uint32(w.ChunkCount()), e.stats)
}

func (e *tfenv) conjoin(of []int) error {
	var specs []tableSpec
	f := &tfile{fmtt: "table", fill: map[hash.Hash]int{}}
	fmts := map[string]bool{}
	for _, i := range of {
		s := e.files[i-1]
		specs = append(specs, tableSpec{s.src.hash(), s.src.count()})
		fmts[s.fmtt] = true
		if s.fmtt == "archive" {
			f.fmtt = "archive"
		}
		for h, n := range s.fill {
			f.fill[h] += n
		}
		f.nfill += s.nfill
		f.fillSz += s.fillSz
	}
	if len(fmts) > 1 {
		e.nmix++
	}
	_, src, _, err := conjoinTables(vctx, dherrors.FatalBehaviorError, specs, e.ftp, e.stats)
	if err != nil {
		return fmt.Errorf("conjoinTables: %w", err)
	}
	f.src = src
	e.files = append(e.files, f)
	return nil
}

// the records of file |i| streamed into a new archive, the way gcCopier / the puller feed a GenericTableWriter
func (e *tfenv) toArchive(i int) error {
	s := e.files[i-1]
	w, err := NewArchiveStreamWriter(e.dir)
	if err != nil {
		return err
	}
	hs := hash.HashSet{}
	for _, a := range e.b.addrs {
		hs.Insert(e.b.addr[a])
	}
	for h := range s.fill {
		hs.Insert(h)
	}
	f := &tfile{fmtt: "archive", fill: map[hash.Hash]int{}}
	var addErr error
	n := 0
	written := hash.HashSet{}
	eg, ectx := errgroup.WithContext(vctx)
	_, _, err = s.src.getManyCompressed(ectx, eg, toGetRecords(hs), func(_ context.Context, tc ToChunker) {
		muReads.Lock()
		defer muReads.Unlock()
		if addErr != nil || written.Has(tc.Hash()) {
			return
		}
		written.Insert(tc.Hash())
		if _, err := w.AddChunk(tc); err != nil {
			addErr = err
			return
		}
		n++
		if d, fh, ok := e.b.fillerOf(tc.Hash()); ok {
			f.fill[fh]++
			f.nfill++
			f.fillSz += uint64(len(d))
		}
	}, nil, e.stats)
	if werr := eg.Wait(); err == nil {
		err = werr
	}
	if err != nil {
		return fmt.Errorf("getManyCompressed: %w", err)
	}
	if addErr != nil {
		return fmt.Errorf("AddChunk: %w", addErr)
	}
	if n >= maxSamples {
		e.ndict++
	}
	src, err := e.finishArchive(w)
	if err != nil {
		return err
	}
	f.src = src
	e.files = append(e.files, f)
	return nil
}

func (e *tfenv) hname(h hash.Hash) string {
	if a, ok := e.b.rev[h]; ok {
		return a
	}
	if a, ok := e.b.content[h]; ok && e.b.mode != "real" {
		return a
	}
	if _, fh, ok := e.b.fillerOf(h); ok {
		return "filler:" + fh.String()
	}
	return h.String()
}

func (e *tfenv) probe(step int, act string, fi int, exp map[string]any) common.Result {
	f := e.files[fi]
	who := fmt.Sprintf("%s:file%d(%s)", act, fi+1, f.fmtt)
	fail := func(what string, want, got any) common.Result {
		r := common.Fail(step, act, f.fmtt+":"+what, want, got)
		r["detail"] = who + " " + r["detail"].(string)
		return r
	}
	src := f.src
	get := exp["get"].(map[string]any)
	if exp["fmt"].(string) != f.fmtt || (f.fmtt == "archive") != (src.suffix() == ArchiveFileSuffix) {
		return fail("format", exp["fmt"], src.suffix())
	}
	// ---- count, sizes, name
	e.evals++
	if int(src.count()) != common.Int(exp["count"])+f.nfill {
		return fail("count", common.Int(exp["count"])+f.nfill, src.count())
	}
	if f.fmtt == "table" {
		u, err := src.uncompressedLen()
		e.evals++
		if err != nil || u != uint64(common.Int(exp["unc"])*e.b.unit)+f.fillSz {
			return fail("uncompressedLen", uint64(common.Int(exp["unc"])*e.b.unit)+f.fillSz, fmt.Sprint(u, err))
		}
		idx, err := src.index()
		e.evals++
		if err != nil || int(idx.chunkCount()) != common.Int(exp["count"])+f.nfill {
			return fail("index.chunkCount", common.Int(exp["count"])+f.nfill, fmt.Sprint(err))
		}
	}
	fiStat, err := os.Stat(filepath.Join(e.dir, src.hash().String()+src.suffix()))
	e.evals++
	if err != nil || uint64(fiStat.Size()) != src.currentSize() {
		return fail("currentSize", "size of the file named hash()+suffix()", fmt.Sprint(src.currentSize(), err))
	}
	// ---- single lookups
	for _, a := range e.b.addrs {
		want := get[a].(string)
		h := e.b.addr[a]
		has, _, err := src.has(h, nil)
		e.evals++
		if err != nil || has != (want != "none") {
			return fail("has", want+" for "+a, fmt.Sprint(has, err))
		}
		d, _, err := src.get(vctx, h, nil, e.stats)
		e.evals++
		if err != nil {
			return fail("get:error", want+" for "+a, err.Error())
		}
		if want == "none" {
			if d != nil {
				return fail("get:false-present", "nothing for "+a, fmt.Sprintf("%d bytes", len(d)))
			}
		} else if !bytes.Equal(d, e.b.data[a]) {
			return fail("get:bytes", "stored bytes of "+a, fmt.Sprintf("%d bytes (stored %d)", len(d), len(e.b.data[a])))
		}
	}
	for _, p := range e.b.phantom {
		has, _, err := src.has(p, nil)
		d, _, err2 := src.get(vctx, p, nil, e.stats)
		e.evals += 2
		if err != nil || err2 != nil || has || d != nil {
			return fail("never-written-neighbour", "absent", fmt.Sprint(has, len(d), err, err2))
		}
	}
	fillProbe := 0
	for h := range f.fill {
		if fillProbe++; fillProbe > 12 {
			break
		}
		d, _, err := src.get(vctx, h, nil, e.stats)
		e.evals++
		if err != nil || !bytes.Equal(d, e.b.fillerD[h]) {
			return fail("get:filler", "stored bytes", fmt.Sprint(len(d), err))
		}
	}
	// ---- batched lookups over subsets
	all := 1 << len(e.b.addrs)
	masks := []int{}
	if len(e.b.addrs) <= 4 || e.b.subsets == 0 {
		for m := 1; m < all; m++ {
			masks = append(masks, m)
		}
	} else {
		masks = append(masks, all-1)
		for k := 0; k < e.b.subsets; k++ {
			masks = append(masks, 1+(int(e.b.seed)*7919+k*104729+step*31+fi*17)%(all-1))
		}
	}
	for mi, m := range masks {
		hs := hash.HashSet{}
		for i, a := range e.b.addrs {
			if m&(1<<i) != 0 {
				hs.Insert(e.b.addr[a])
			}
		}
		if len(e.b.phantom) > 0 {
			hs.Insert(e.b.phantom[mi%len(e.b.phantom)])
			hs.Insert(e.b.phantom[(mi*5+2)%len(e.b.phantom)])
		}
		k := 0
		for h := range f.fill {
			if k++; k > 2 {
				break
			}
			hs.Insert(h)
		}
		if len(e.b.fillerH) > 0 {
			hs.Insert(e.b.fillerH[(mi*31)%len(e.b.fillerH)]) // may or may not be in this file
		}
		wantHave := map[string]bool{}
		for h := range hs {
			if a, ok := e.b.rev[h]; ok {
				if get[a].(string) != "none" {
					wantHave[a] = true
				}
			} else if f.fill[h] > 0 {
				wantHave[e.hname(h)] = true
			}
		}
		recs := toHasRecords(hs)
		remaining, _, err := src.hasMany(recs, nil)
		e.evals++
		if err != nil {
			return fail("hasMany:error", nil, err.Error())
		}
		gotHave := map[string]bool{}
		for _, r := range recs {
			if r.has {
				gotHave[e.hname(*r.a)] = true
			}
		}
		if !sameSet(gotHave, wantHave) {
			kind := "false-absent"
			for k := range gotHave {
				if !wantHave[k] {
					kind = "false-present"
				}
			}
			return fail("hasMany:"+kind, keys(wantHave), keys(gotHave))
		}
		if remaining != (len(wantHave) != len(hs)) {
			return fail("hasMany:remaining", len(wantHave) != len(hs), remaining)
		}
		for _, compressed := range []bool{false, true} {
			found := map[string]int{}
			msg := ""
			check := func(h hash.Hash, data []byte) {
				nm := e.hname(h)
				found[nm]++
				if a, ok := e.b.rev[h]; ok || (e.b.content[h] != "" && e.b.mode != "real") {
					if !ok {
						a = e.b.content[h]
					}
					if !bytes.Equal(data, e.b.data[a]) {
						msg = a + ": bytes differ from the bytes stored"
					}
				} else if d, _, ok := e.b.fillerOf(h); ok {
					if !bytes.Equal(d, data) {
						msg = "filler bytes differ"
					}
				} else {
					msg = "chunk for never-written address " + nm
				}
			}
			greqs := toGetRecords(hs)
			eg, ectx := errgroup.WithContext(vctx)
			var rem bool
			if compressed {
				rem, _, err = src.getManyCompressed(ectx, eg, greqs, func(_ context.Context, tc ToChunker) {
					muReads.Lock()
					defer muReads.Unlock()
					c, cerr := tc.ToChunk()
					if cerr != nil {
						msg = "ToChunk: " + cerr.Error()
						return
					}
					check(tc.Hash(), c.Data())
				}, nil, e.stats)
			} else {
				rem, _, err = src.getMany(ectx, eg, greqs, func(_ context.Context, c *chunks.Chunk) {
					muReads.Lock()
					defer muReads.Unlock()
					check(c.Hash(), c.Data())
				}, nil, e.stats)
			}
			if werr := eg.Wait(); err == nil {
				err = werr
			}
			api := "getMany"
			if compressed {
				api = "getManyCompressed"
			}
			e.evals++
			if err != nil {
				return fail(api+":error", nil, err.Error())
			}
			if msg != "" {
				return fail(api+":chunk", "stored bytes", msg)
			}
			for h := range hs {
				nm := e.hname(h)
				want := 0
				if wantHave[nm] {
					want = 1
				}
				if found[nm] != want {
					return fail(api+":delivery", fmt.Sprintf("%s delivered %d time(s) of request %v", nm, want, keys(wantHave)), found[nm])
				}
			}
			if rem != (len(wantHave) != len(hs)) {
				return fail(api+":remaining", len(wantHave) != len(hs), rem)
			}
			for _, r := range greqs {
				if r.found != wantHave[e.hname(*r.a)] {
					return fail(api+":found-flag", wantHave[e.hname(*r.a)], r.found)
				}
			}
		}
	}
	// ---- full iteration: exactly the records, with multiplicity
	iter := map[string]int{}
	nfill := 0
	bad := ""
	err = src.iterateAllChunks(vctx, func(c chunks.Chunk) {
		h := c.Hash()
		if a, ok := e.b.rev[h]; ok || (e.b.content[h] != "" && e.b.mode != "real") {
			if !ok {
				a = e.b.content[h]
			}
			iter[a]++
			if !bytes.Equal(c.Data(), e.b.data[a]) {
				bad = a
			}
		} else if d, fh, ok := e.b.fillerOf(h); ok {
			nfill++
			if !bytes.Equal(c.Data(), d) || f.fill[fh] == 0 {
				bad = "filler " + fh.String()
			}
		} else {
			bad = "unknown address " + h.String()
		}
	}, e.stats)
	if err != nil {
		return fail("iterateAllChunks:error", nil, err.Error())
	}
	if bad != "" {
		return fail("iterateAllChunks:bytes", "stored bytes", bad)
	}
	for _, a := range e.b.addrs {
		e.evals++
		if iter[a] != common.Int(exp["iter"].(map[string]any)[a]) {
			return fail("iterateAllChunks:multiplicity", exp["iter"], iter)
		}
	}
	if nfill != f.nfill {
		return fail("iterateAllChunks:filler", f.nfill, nfill)
	}
	return nil
}

// Auxiliary probe (not part of the TLA+ conformance): prollyBinSearch, the interpolation search under
// archiveReader.findIndex, against its documented contract ("index of the first instance of the target, else the
// index it would be inserted at") for EVERY sorted slice of length <= maxlen over a dense / extreme value domain.
func runBinSearchCase(c map[string]any) common.Result {
	var dom []uint64
	for _, v := range c["domain"].([]any) {
		s := v.(string)
		var x uint64
		fmt.Sscanf(s, "%x", &x)
		dom = append(dom, x)
	}
	sort.Slice(dom, func(i, j int) bool { return dom[i] < dom[j] })
	maxlen := common.Int(c["maxlen"])
	n := 0
	var bad string
	var rec func(cur []uint64, from int)
	rec = func(cur []uint64, from int) {
		if bad != "" {
			return
		}
		if len(cur) > 0 {
			for _, t := range dom {
				want := sort.Search(len(cur), func(i int) bool { return cur[i] >= t })
				got := func() (g int) {
					defer func() {
						if p := recover(); p != nil {
							g = -1
							bad = fmt.Sprintf("panic %v on slice %x target %x", p, cur, t)
						}
					}()
					return prollyBinSearch(cur, t)
				}()
				n++
				if bad == "" && got != want {
					bad = fmt.Sprintf("prollyBinSearch(%x, %x) = %d, first index with value >= target is %d", cur, t, got, want)
				}
				if bad != "" {
					return
				}
			}
		}
		if len(cur) == maxlen {
			return
		}
		for i := from; i < len(dom); i++ {
			rec(append(append([]uint64{}, cur...), dom[i]), i)
		}
	}
	rec(nil, 0)
	if bad != "" {
		return common.Result{"ok": false, "fp": "prollyBinSearch:contract", "detail": bad, "evals": n}
	}
	return common.Result{"ok": true, "evals": n}
}
