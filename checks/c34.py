"""C34 - stash, reset and checkout restore exactly what they promise.

Spec: spec/Repo.tla actions StashPush/StashPop/StashDrop, ResetHard/ResetSoft/ResetMixed/ResetStaged, CheckoutSession (SQL default:
every branch keeps its working set) and CheckoutMove (dolt_checkout('--move') = what the CLI does), CheckoutTable. TLC (exhaustive,
bounded, intended semantics): PopAfterPushRestores, PushCleans, HardResetEqualsCommit, SoftResetTouchesOnlyStaged,
SoftRefResetMovesOnlyHead, MixedResetKeepsWorking, SessionCheckoutKeepsWorkingSets, CheckoutNeverLoses, CheckoutFailureKeepsBoth,
ErrorsLeaveNoTrace. Conformance: TLC simulation over all combinations of staged/unstaged row and table changes and sequences of
these operations with two sessions; working root, staged root, dolt_status, stashes of every branch compared after every step.
Reading taken (DESIGN section 4 C34, section 8): push;pop must restore the working contents exactly; a table's staged content
afterwards may be the old staged, the working or the HEAD version (dolt re-stages only added tables, like git without --index);
reset --hard keeps untracked tables; reset --soft <rev> moves only HEAD, dolt_reset() / dolt_reset(t) only staged tables."""
import importlib.util, os
LEVEL = "model_checking"
_s = importlib.util.spec_from_file_location("_bi", os.path.join(os.path.dirname(__file__), "_bi.py"))
bi = importlib.util.module_from_spec(_s)
_s.loader.exec_module(bi)

BQ = [{"keys": "small", "c1": "int", "c2": "int", "filler": 0}, {"keys": "spread", "c1": "varchar", "c2": "int", "filler": 25}]
BT = BQ + [{"keys": "spread", "c1": "bigint", "c2": "varchar", "filler": 700}]
P1 = ["PopAfterPushRestores", "PushCleans", "HardResetEqualsCommit", "SoftResetTouchesOnlyStaged", "SoftRefResetMovesOnlyHead",
      "MixedResetKeepsWorking", "ErrorsLeaveNoTrace"]
P2 = ["SessionCheckoutKeepsWorkingSets", "CheckoutNeverLoses", "CheckoutFailureKeepsBoth", "HardResetEqualsCommit"]


def run(ctx):
    exh = [("c34_exh_stash_quick.cfg", {"nonvacuous": P1, "timeout": 3600}), ("c34_exh_checkout_quick.cfg", {"nonvacuous": P2, "timeout": 3600})]
    if ctx.tier == "thorough":
        exh += [("c34_exh_stash_thorough.cfg", {"timeout": 3 * 3600}), ("c34_exh_checkout_thorough.cfg", {"timeout": 3 * 3600})]
    bi.run(ctx, exh=exh,
           sims=[{"cfg": ctx.q("c34_sim_quick.cfg", "c34_sim_thorough.cfg"), "num": ctx.q(120, 400), "depth": ctx.q(30, 45),
                  "obs": [], "bindings": ctx.q(BQ, BT)},
                 # dense checkout --move generator (uncommitted drops / edits / new tables meeting a branch switch)
                 {"cfg": ctx.q("c34_sim_move_quick.cfg", "c34_sim_move_thorough.cfg"), "num": ctx.q(64, 200), "depth": ctx.q(22, 30),
                  "obs": [], "bindings": ctx.q(BQ, BT), "seed_off": 500}],
           critical_acts=["StashPop:ok", "CheckoutMove:ok"],
           require_hist=["StashPush:ok", "StashPop:ok", "StashDrop:ok", "ResetHard:ok", "ResetSoft:ok", "ResetMixed:ok", "ResetStaged:ok",
                         "CheckoutSession:ok", "CheckoutMove:ok", "CheckoutTable:ok"],
           rule=("behaviours = TLC simulation of Repo.tla (cfg c34_sim_*: two sessions; DML, create/drop table, add column, dolt_add of one / "
                 "all tables, commit, branch, session checkout, checkout --move, checkout of a table, reset --hard/--soft/mixed/tables, stash "
                 "push/pop/drop); every step replayed on the real SQL engine, the whole repository compared; non-trivial = behaviour with a "
                 "successful stash pop or checkout --move; distinct = by action sequence and binding"),
           assumptions=["sessions run with autocommit; stash entries live under one stash name",
                        "stash, checkout --move and resets other than --hard are generated only while no merge/cherry-pick/revert is in progress on the branch",
                        "dolt_checkout(<table>) is generated only for tables known to the index or HEAD (on an untracked table it silently drops the table)"],
           notes=["literal reading vs reading taken: a staged MODIFICATION comes back unstaged after push;pop (documented git-like behaviour) -- accepted; "
                  "reset --hard leaves untracked tables in place -- accepted; reset --soft <rev> changes HEAD only, so the staged diff changes although no table does -- accepted"])
