"""C33 - historical reads return the committed data.

Spec: spec/Repo.tla, observers TableAt(c, t), History(b, t), FirstAnc(c, n); TLC (exhaustive, bounded): HistoryImmutable (no action
ever changes the parents or the data of an existing commit) and TypeOK (refs, tags, stashes point to commits). Conformance:
after the last step of every TLC-generated history -- and at every QAncestor / QHistory step -- the engine reads every commit
of the behaviour through AS OF '<hash>', the revision database `db/<hash>`, AS OF '<branch>' / '<tag>', `db/<tag>`, `db/<branch>`
(= the branch's working set), AS OF 'HEAD~n', and dolt_history_<t> grouped by commit_hash, and compares with the table the
model holds for that commit, including commits in which the table is absent or has one column less."""
import importlib.util, os
LEVEL = "model_checking"
_s = importlib.util.spec_from_file_location("_bi", os.path.join(os.path.dirname(__file__), "_bi.py"))
bi = importlib.util.module_from_spec(_s)
_s.loader.exec_module(bi)

BQ = [{"keys": "small", "c1": "int", "c2": "varchar", "filler": 0}, {"keys": "spread", "c1": "varchar", "c2": "int", "filler": 25}]
BT = BQ + [{"keys": "spread", "c1": "bigint", "c2": "varchar", "filler": 700}]


def run(ctx):
    exh = [("c32_exh_quick.cfg", {"nonvacuous": ["HistoryImmutable"], "timeout": 3600})]
    if ctx.tier == "thorough":
        exh.append(("c32_exh_thorough.cfg", {"timeout": 3 * 3600}))
    bi.run(ctx, exh=exh,
           sims=[{"cfg": ctx.q("c33_sim_quick.cfg", "c33_sim_thorough.cfg"), "num": ctx.q(120, 400), "depth": ctx.q(34, 48),
                  "obs": ["asof"], "bindings": ctx.q(BQ, BT)}],
           critical_acts=["asof_commits", "history_commits"],
           require_hist=["QHistory:ok", "QAncestor:ok", "asof_commits", "history_commits", "ancestor_reads", "Tag:ok"],
           rule=("behaviours = TLC simulation of Repo.tla (cfg c33_sim_*: DML, add column, create/drop table, commit, branch, merge, tag, "
                 "reset --hard, QHistory and QAncestor steps; thorough adds cherry-pick/revert/rebase); every commit created in the "
                 "behaviour is read back through every historical access path at the end of the behaviour; non-trivial = behaviour with at "
                 "least three commits read back and a dolt_history_<t> comparison; distinct = by action sequence and binding"),
           assumptions=["the table renamed case of the statement is not generated (Repo.tla has no RENAME TABLE action); absent tables and "
                        "tables with one column less are", "AS OF <timestamp> is not driven (wall-clock dependent)"],
           notes=["`db/<branch>` is the branch's WORKING set, not its head commit (documented); compared with the model's working root"])
