"""C12 - tree shape and root hash depend only on content.  Spec: spec/SortedMap.tla (abstract content `cur`).
Cross-behaviour relation: whenever two replayed behaviours (or two points of one behaviour) reach the same abstract
content under the same binding, the real root hash and chunk set must be equal; every distinct content is also
rebuilt in bulk (NewMapFromTuples) and must give the same root and the same chunk set as the incremental route
(any mix of batch sizes, deletes, reverts, GC flushes chosen by TLC)."""
import importlib.util, os, json
LEVEL = "model_checking"
_spec = importlib.util.spec_from_file_location("c11", os.path.join(os.path.dirname(__file__), "c11.py"))
c11 = importlib.util.module_from_spec(_spec)
_spec.loader.exec_module(c11)

BINDINGS_Q = [{"filler": 0, "paysz": 0}, {"filler": 60, "paysz": 40}, {"filler": 900, "paysz": 250}, {"filler": 30, "paysz": 5000},
              {"filler": 40, "paysz": 64000, "paymin": 61000}, {"filler": 500, "paysz": 60, "noabove": True, "alignlast": True, "lastgap": 5},
              {"filler": 400, "paysz": 40, "keypad": 900}, {"filler": 60, "paysz": 40, "keypad": 1800, "replicas": 24},
              {"filler": 150, "paysz": 120, "replicas": 16}]
BINDINGS_T = BINDINGS_Q + [{"filler": 8000, "paysz": 80}, {"filler": 300, "paysz": 20000}]


def run(ctx):
    binary = ctx.build_engine("prolly")
    env = {"VERIF_ONLY": "c12"}
    if ctx.replay:
        rp = json.load(open(ctx.replay))
        res = ctx.run_engine(binary, ["map"], [rp["case"]], shards=1, env=env)[0]
        print(json.dumps(res, indent=1)[:4000])
        if not res.get("ok"):
            ctx.violation("C12:" + str(res.get("fp")), res.get("detail", ""), {"case": rp["case"], "result": res, "reproduced": True})
        return
    ctx.tlc_check("SortedMap.tla", ctx.q("c11_exh_quick.cfg", "c11_exh_thorough.cfg"))
    beh = ctx.tlc_behaviours("SortedMap.tla", ctx.q("c11_sim_quick.cfg", "c11_sim_thorough.cfg"),
                             num=ctx.q(600, 8000), depth=ctx.q(14, 24), seed=ctx.seed + 1000)
    bindings = ctx.q(BINDINGS_Q, BINDINGS_T)
    # few binding seeds so that many behaviours share a binding (the relation is per binding)
    cs = []
    k = c11.consts(ctx)
    for i, b in enumerate(beh):
        bd = dict(bindings[i % len(bindings)])
        bd["seed"] = ctx.seed * 31 + (i // len(bindings)) % 2
        cs.append({"steps": b, "binding": bd, "F1": k["F1"], "F2": k["F2"], "key": bd})
    ctx.cov["rule"] = ("every step of every TLC behaviour of SortedMap.tla contributes a pair (abstract content, binding) -> root hash; "
                       "all routes to the same pair must agree and agree with the bulk-built tree (root and chunk set); "
                       "non-trivial = a (content, binding) pair reached by at least two different histories; distinct by pair")
    ctx.assumptions += ["row maps with (int64,int64) keys and (int64, bytes) values; address maps, commit closures, blobs and JSON documents are not driven here"]
    res = ctx.replay_behaviours(binary, cs, args=["map"], wrap=lambda c: c, env=env, critical=lambda c, r: False,
                                fingerprint=lambda c, r: str(r.get("fp")))
    # cross-shard / cross-behaviour relation
    seen = {}
    routes = {}
    for c, r in zip(cs, res):
        if not r.get("ok") or "hashes" not in r:
            continue
        for s, h in zip(c["steps"], r["hashes"]):
            key = json.dumps(c["binding"], sort_keys=True) + "|" + json.dumps(s["exp"]["iter"])
            hist = json.dumps([x["a"] for x in c["steps"]])
            routes.setdefault(key, set()).add(hist)
            if key in seen and seen[key][0] != h:
                ctx.violation("C12:history-dependent-hash" + (":huge-inline-value" if c["binding"].get("paymin", 0) >= 30000 else ""), "same content %s under binding %s has roots %s and %s" %
                              (s["exp"]["iter"], c["binding"], seen[key][0], h),
                              {"case": c, "other": seen[key][1], "reproduced": True})
            seen.setdefault(key, (h, c))
    multi = [k for k, v in routes.items() if len(v) > 1]
    for k in multi:
        ctx.nontrivial(k)
    ctx.cov["content_binding_pairs"] = len(routes)
    ctx.cov["pairs_reached_by_several_histories"] = len(multi)
    for k in multi[:3]:
        ctx.sample({"content_and_binding": k, "histories": len(routes[k])})
