"""C22 - each SQL transaction reads a stable snapshot.  Spec: spec/Txn.tla (+ spec/TraceTxn.tla).  Engine: harness/txn (E8).
  1. TLC exhaustive on bounded configs: RepeatableRead, NoDirtyRead, OtherCommitsInvisibleUntilNewTxn (action properties on
     every transition) and HeadsFrozen (invariant) for 2-3 sessions, two branches, autocommit on and off, explicit
     START TRANSACTION, checkout / USE, savepoints.
  2. R: statement-granular interleavings chosen by TLC (read-heavy families); every SELECT of a session - current branch
     or another branch through `db/branch`, working root, AS OF 'STAGED', AS OF 'HEAD', commit count - is compared with
     the model's view of that session, and the persisted state with the model's store after every statement.
  3. T: goroutine stress; reads inside transactions must be explained by a snapshot taken at a point consistent with real
     time (TraceTxn.tla)."""
import importlib.util
import os

LEVEL = "model_checking"
_spec = importlib.util.spec_from_file_location("_bg", os.path.join(os.path.dirname(os.path.abspath(__file__)), "_bg.py"))
bg = importlib.util.module_from_spec(_spec)
_spec.loader.exec_module(bg)
vlib = bg.vlib

EXH = {"quick": ["c22_exh_ac1.cfg", "c22_exh_branch1.cfg", "c22_exh_save1.cfg"],
       "thorough": ["c22_exh_ac1.cfg", "c22_exh_branch1.cfg", "c22_exh_save1.cfg", "c22_exh_flags2.cfg", "c23_exh_core2.cfg", "c23_exh_three.cfg"]}
FAMILIES = {"quick": [("reads", "c22_sim_reads_quick.cfg", 100, 30), ("full", "c22_sim_full_quick.cfg", 60, 30)],
            "thorough": [("reads", "c22_sim_reads_thorough.cfg", 250, 40), ("full", "c22_sim_full_thorough.cfg", 180, 40)]}


def critical(c, r):
    return (r.get("stat") or {}).get("stale_reads", 0) > 0


def corrupt_read(c):
    # binding self-test: change one row of the last Read's expected result (or of the last store if there is no Read)
    for st in reversed(c["steps"]):
        if st["a"] == "Read":
            w = st["exp"]["out"]["w"]
            if w:
                w[0][1] = (w[0][1] + 1) % 3
            else:
                w.append([1, 0, 0])
            return c
    return bg.corrupt_last_store(c)


def corrupt_trace(tr):
    """Always rejectable: a read result (or, failing that, the final table) gets a cell value 9 that no statement of the
    workload ever writes (Vals = 0..2), so no linearization can explain it."""
    for e in tr:
        if e.get("ev") == "ret" and e.get("res") == "ok" and isinstance(e.get("out"), dict) and "w" in e["out"]:
            w = e["out"]["w"]
            if w:
                w[0][1] = 9
            else:
                w.append([1, 9, 9])
            return tr
    for e in tr:
        if e.get("ev") == "final":
            e["store"]["main"]["w"] = [[1, 9, 9]]
    return tr


def trace_nontrivial(tr):
    return sum(1 for e in tr if e.get("ev") == "call" and e.get("a") == "Read") >= 3


def run(ctx):
    binary = ctx.build_engine("txn")
    if ctx.replay:
        bg.handle_replay(ctx, "C22", binary)
        return
    debug_fast = os.environ.get("VERIF_BG_DEBUG_SKIP_EXH") == "1"  # development aid: the run then ends INCONCLUSIVE
    for cfg in ([] if debug_fast else EXH[ctx.tier]):
        ctx.tlc_check("Txn.tla", cfg, timeout=ctx.q(1800, 7200))
    env = {"VERIF_ONLY": "c22"}
    first = True
    for fam, cfg, num, depth in FAMILIES[ctx.tier]:
        beh = bg.drop_prefixes(ctx.tlc_behaviours("Txn.tla", cfg, num=num, depth=depth, seed=ctx.seed + {"reads": 0, "full": 700}[fam]))
        h = bg.require_actions(beh, ["Read", "Update", "Commit", "Begin", "Checkout", "Use", "SetAutocommit", "Savepoint", "RollbackTo"], fam, ctx)
        ctx.cov.setdefault("action_histogram", {})[fam] = h
        cs = bg.txn_cases(ctx, beh, fam)
        if first:
            ctx.binding_selftest(binary, cs[0], corrupt_read, args=["replay"], env=env)
            first = False
        bg.replay_chunked(ctx, binary, cs, args=["replay"], critical=critical, wrap=lambda c: c, env=env, timeout=ctx.q(3600, 14400),
                              fingerprint=lambda c, r: "C22:" + str(r.get("fp")))
    # transition tour: shortest behaviours into sampled reads of a branch that changed since the reader's snapshot
    tour = bg.tour_behaviours(ctx, "Txn.tla", ctx.q("c22_tour_quick.cfg", "c22_tour_thorough.cfg"), timeout=ctx.q(1800, 7200))
    ctx.cov.setdefault("action_histogram", {})["tour"] = bg.action_histogram(tour)
    bg.replay_chunked(ctx, binary, bg.txn_cases(ctx, tour, "tour", consts=bg.TOUR_CONSTS), args=["replay"], critical=critical, wrap=lambda c: c, env=env, timeout=ctx.q(3600, 14400),
                          fingerprint=lambda c, r: "C22:" + str(r.get("fp")))
    k = bg.TXN_CONSTS["quick"]
    ncases = ctx.q(6, 12)
    cases = [dict(k, workload="txn", Sessions=["s1", "s2", "s3"], Vals=[0, 1, 2], M=ctx.q(5, 7), seed=ctx.seed * 1000 + 500 + i, reads=True,
                  binding=dict(bg.BINDINGS["quick"][i % 3], seed=i)) for i in range(ncases)]
    bg.stress_validate(ctx, "C22", binary, cases, "TraceTxn.tla", "c23_trace.cfg", corrupt=corrupt_trace, nontrivial=trace_nontrivial)
    ctx.cov["rule"] = ("R: behaviours = TLC simulation of Txn.tla (families reads / full: DML, START TRANSACTION, COMMIT, ROLLBACK, checkout, USE, "
                       "autocommit switches, savepoints, dolt_commit), one statement at a time in TLC's order; every Read compares 3 roots + commit count "
                       "of a branch as the session sees them, every step compares the persisted state of all branches; non-trivial = behaviour containing a "
                       "read inside an open transaction whose branch was changed by another session's commit since the snapshot (stale read), distinct by "
                       "action sequence and binding. T: call/ret traces of 3 goroutine sessions validated by TraceTxn.tla; non-trivial = >= 3 reads.")
    ctx.assumptions += ["one table, integer primary key, two non-key columns (int / varchar / text, NULL as a value), filler rows up to 3000",
                        "`db/branch`.t AS OF 'STAGED' resolves STAGED against the session's current database, so the staged root of a branch other than the "
                        "current one is compared only through observer sessions checked out on that branch",
                        "autocommit statements whose commit is refused (ErrDirtyWorkingSets) are not generated"]
    if debug_fast:
        raise vlib.Inconclusive("VERIF_BG_DEBUG_SKIP_EXH=1: exhaustive TLC runs were skipped (development mode)")
