"""Helpers of builder bB (C02 manifest CAS, C05 manifest FS / prune): trace batches for TLC trace validation,
reproduction of rejected traces, action histograms."""
import collections
import hashlib
import json
import os
import shutil
import sys

sys.path.insert(0, os.path.join(os.path.dirname(os.path.dirname(os.path.abspath(__file__))), "lib"))
import vlib  # noqa: E402


def histogram(behaviours):
    return collections.Counter(s["a"] for b in behaviours for s in b)


def action_key(steps):
    return hashlib.sha1(json.dumps([(s.get("a"), s.get("i"), s.get("args")) for s in steps], sort_keys=True).encode()).hexdigest()


def validate_batch(ctx, module, cfg, traces, timeout=1500, tag="batch"):
    """traces: list of lists of event dicts. Concatenate with reset events, validate in one TLC run.
    Returns (accepted, matched, total, index_of_failing_trace_or_None, out)."""
    path = os.path.join(ctx.work, "%s-%d.ndjson" % (tag, len(os.listdir(ctx.work))))
    bounds = []
    n = 0
    with open(path, "w") as f:
        for k, t in enumerate(traces):
            if k:
                f.write('{"ev":"reset"}\n')
                n += 1
            for e in t:
                f.write(json.dumps(e) + "\n")
            bounds.append((n + 1, n + len(t)))
            n += len(t)
    acc, matched, total, out = ctx.tlc_trace_validate(module, cfg, path, timeout=timeout)
    bad = None
    if not acc:
        if "TRACE_MATCHED" not in out and matched < 0 and total > 0:
            raise vlib.Inconclusive("trace validation did not run:\n" + out[-3000:])
        for k, (lo, hi) in enumerate(bounds):
            if matched < hi:
                bad = k
                break
    return acc, max(matched, 0), total, bad, out


def validate_one(ctx, module, cfg, trace, timeout=900, tag="one"):
    acc, matched, total, _, out = validate_batch(ctx, module, cfg, [trace], timeout=timeout, tag=tag)
    return acc, matched, total, out


def read_trace(path):
    out = []
    for line in open(path):
        line = line.strip()
        if line:
            out.append(json.loads(line))
    return out


def tlc_states(out):
    import re
    m = re.search(r"(\d+) states generated, (\d+) distinct states found", out)
    return (int(m.group(1)), int(m.group(2))) if m else (0, 0)


# ---------------------------------------------------------------------------------------------- C05: strace -> events
import re as _re

_SC = _re.compile(r'^(\d+)\s+(\w+)\((.*)\)\s+=\s+(-?\d+|\?)(.*)$')


def parse_strace(path, d):
    """Map the syscalls that touch directory |d| (and the marker file) to ManifestFS events, in log order.
    Returns (events, raw) where events carry concrete names; interning to model tables happens in intern_events."""
    out = []
    dq = _re.escape(d)
    pending = {}
    for line in open(path, errors="replace"):
        line = line.rstrip("\n")
        # strace -f splits a syscall that overlaps with another thread's: "<unfinished ...>" / "<... name resumed>"
        mu = _re.match(r'^(\d+)\s+(.*) <unfinished \.\.\.>$', line)
        if mu:
            pending[mu.group(1)] = mu.group(2)
            continue
        mr = _re.match(r'^(\d+)\s+<\.\.\. \w+ resumed>(.*)$', line)
        if mr:
            if mr.group(1) not in pending:
                continue
            line = mr.group(1) + " " + pending.pop(mr.group(1)) + mr.group(2)
        m = _SC.match(line)
        if not m:
            continue
        tid, name, args, ret, rest = m.groups()
        ok = ret not in ("-1", "?")
        if name == "write":
            mm = _re.match(r'\d+<([^>]*)>, "(.*)"(\.\.\.)?, \d+$', args)
            if not mm:
                continue
            p, payload = mm.group(1), mm.group(2)
            if p.endswith("/marks") and payload.startswith("MARK "):
                try:
                    js = json.loads(bytes(payload[5:], "utf-8").decode("unicode_escape").rstrip("\n"))
                except Exception:
                    raise vlib.Inconclusive("cannot parse marker: " + payload[:200])
                out.append({"ev": "mark", "m": js})
            elif _re.match(dq + r"/nbs_manifest_\d+$", p):
                f = payload.split(":")
                specs = f[5::2] if len(f) >= 5 else []
                out.append({"ev": "mwrite", "tmp": p, "names": specs, "payload": payload})
            elif _re.match(dq + r"/nbs_table_\d+$", p):
                out.append({"ev": "twrite", "tmp": p})
            continue
        if name == "openat":
            mm = _re.match(r'[^,]+, "([^"]*)", ([A-Z_|0-9]+)', args)
            if not mm:
                continue
            p, fl = mm.group(1), mm.group(2)
            if not p.startswith("/"):
                # relative to a directory fd: openat(9</dir>, "LOCK", ...)
                md = _re.match(r'\d+<([^>]*)>, "([^"]*)"', args)
                if md:
                    p = md.group(1) + "/" + md.group(2)
            if p == d + "/manifest" and "O_RDONLY" in fl:
                out.append({"ev": "mread", "exists": ok})
            elif _re.match(dq + r"/nbs_manifest_\d+$", p) and "O_CREAT" in fl and ok:
                out.append({"ev": "mcreate", "tmp": p})
            elif _re.match(dq + r"/nbs_table_\d+$", p) and "O_CREAT" in fl and ok:
                out.append({"ev": "tcreate", "tmp": p})
            continue
        if name in ("fsync", "fdatasync"):
            mm = _re.match(r'\d+<([^>]*)>', args)
            if not mm or not ok:
                continue
            p = mm.group(1)
            if p == d:
                out.append({"ev": "dsync"})
            elif _re.match(dq + r"/nbs_manifest_\d+$", p):
                out.append({"ev": "msync", "tmp": p})
            elif _re.match(dq + r"/nbs_table_\d+$", p):
                out.append({"ev": "tsync", "tmp": p})
            continue
        if name in ("renameat", "renameat2", "rename"):
            ps = _re.findall(r'"([^"]*)"', args)
            if len(ps) != 2 or not ok:
                continue
            a, b = ps
            if b == d + "/manifest":
                out.append({"ev": "mrename", "tmp": a})
            elif _re.match(dq + r"/nbs_table_\d+$", a):
                out.append({"ev": "trename", "tmp": a, "name": os.path.basename(b)})
            elif a.startswith(d + "/") or b.startswith(d + "/"):
                out.append({"ev": "other-rename", "a": a, "b": b})
            continue
        if name in ("unlinkat", "unlink"):
            ps = _re.findall(r'"([^"]*)"', args)
            if not ps or not ok or "AT_REMOVEDIR" in args:
                continue
            p = ps[0]
            if _re.match(dq + r"/nbs_manifest_\d+$", p):
                out.append({"ev": "munlink", "tmp": p})
            elif _re.match(dq + r"/nbs_table_\d+$", p):
                out.append({"ev": "ttunlink", "tmp": p})
            elif os.path.dirname(p) == d and len(os.path.basename(p)) == 32:
                out.append({"ev": "tunlink", "name": os.path.basename(p)})
            elif p == d + "/manifest":
                out.append({"ev": "manifest-unlink"})
            continue
        if name == "flock":
            mm = _re.match(r'\d+<([^>]*)>, ([A-Z_|]+)', args)
            if not mm or mm.group(1) != d + "/LOCK":
                continue
            if "LOCK_UN" in mm.group(2):
                out.append({"ev": "unlock"})
            elif ok:
                out.append({"ev": "lock"})
            else:
                out.append({"ev": "lockbusy"})
            continue
        if name in ("newfstatat", "statx"):
            ps = _re.findall(r'"([^"]*)"', args)
            if not ps or "AT_SYMLINK_NOFOLLOW" in args:
                continue
            p = ps[0]
            if os.path.dirname(p) == d and len(os.path.basename(p)) == 32:
                out.append({"ev": "stat", "name": os.path.basename(p), "exists": ok})
    return out


KIND = {"commit": "add", "addfile": "add", "conjoin": "conjoin", "gc": "gc", "reopen": "reopen"}


def intern_events(raw):
    """Concrete table names -> model tables (sorted lists of chunk names), using the engine's own inventory of
    table contents (end markers). Temp names are linked to the final name by the rename that follows. Mechanical."""
    tables = {}
    for e in raw:
        if e["ev"] == "mark" and e["m"].get("ph") == "end":
            tables.update(e["m"].get("tables") or {})
    tmp2name = {e["tmp"]: e["name"] for e in raw if e["ev"] == "trename"}

    def tab(name):
        if name not in tables:
            raise vlib.Inconclusive("table file %s has unknown contents" % name)
        return sorted(tables[name])
    out = []
    started = False
    inop = False
    for e in raw:
        ev = e["ev"]
        if ev == "mark":
            m = e["m"]
            if m.get("ph") == "begin":
                started = True
                inop = True
                out.append({"ev": "begin", "w": m["w"], "kind": KIND[m["op"]], "op": m["op"]})
            elif m.get("ph") == "end" and started:
                inop = False
                files = [tab(n) for n in (m.get("files") or [])]
                out.append({"ev": "end", "w": m["w"], "res": m["res"], "specs": [tab(n) for n in (m.get("specs") or [])], "files": files})
            continue
        if not started or not inop:
            continue
        if ev == "tcreate":
            if e["tmp"] not in tmp2name:
                raise vlib.Inconclusive("temp table never renamed: " + e["tmp"])
            out.append({"ev": "tcreate", "t": tab(tmp2name[e["tmp"]])})
        elif ev in ("twrite", "mcreate"):
            continue
        elif ev == "mwrite":
            out.append({"ev": "mwrite", "specs": [tab(n) for n in e["names"]], "payload": e["payload"]})
        elif ev == "stat":
            if e["name"] in tables:
                out.append({"ev": "stat", "t": tab(e["name"]), "exists": e["exists"]})
        elif ev == "tunlink":
            out.append({"ev": "tunlink", "t": tab(e["name"]), "name": e["name"]})
        elif ev in ("tsync", "trename", "mread", "lock", "lockbusy", "msync", "mrename", "dsync", "munlink", "unlock"):
            x = {"ev": ev}
            if ev == "trename":
                x["name"] = e["name"]
            out.append(x)
        else:
            out.append({"ev": "unexpected:" + ev})
    return out, tables
