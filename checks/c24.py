"""C24 - committed data always satisfies declared constraints.  Spec: spec/Constraints.tla.  Engine: harness/repo2 (mode cons).
TLC (exhaustive, bounded; intended semantics) checks CommittedSatisfiesConstraints / NoSilentNonFkViolation on every persisted
working set and commit over all interleavings of two transactions and over ALL (base, main, b1) merge triples of the bounded
table space, plus the action properties of refused commits and of what merges record; TLC (simulation, code semantics) emits
behaviours whose every step is replayed on the real SQL engine (see checks/_bj.py: run_c24)."""
import importlib.util
import os

LEVEL = "model_checking"


def run(ctx):
    spec = importlib.util.spec_from_file_location("_bj", os.path.join(os.path.dirname(os.path.abspath(__file__)), "_bj.py"))
    bj = importlib.util.module_from_spec(spec)
    spec.loader.exec_module(bj)
    bj.run_c24(ctx)
