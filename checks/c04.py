"""C04 - the journal index file never changes what the database contains.
Spec: spec/JournalIndex.tla (extends Journal.tla: index writer, readJournalIndex/LoadIndex, fault kinds).
Engine: inpkg/store/nbs/journal.

1. TLC exhaustive on the bounded model: IndexTransparent (every fault kind outside the named deviation classes leaves the
   read-write and the read-only open as they are without journal.idx), ReadOnlyFaultedWritesNothing, RepairedIndexLoads,
   IndexTransparentHere (writer-produced indexes), ReadOnlyOpenWritesNothing; and a second run which must FIND the
   deviation classes (NoDeviation violated) so that their exemption is not vacuous.
2. TLC simulation emits histories with several index batches; at a directory at rest the step IdxFaults lists every fault
   of the index with the outcome the code is predicted to give and the outcome of the index-free open.  The engine checks
   that the real writer's journal.idx is byte-for-byte the serialization of the model's index, applies every fault
   (plus byte-level truncations, bit flips outside lookup ranges, random files), opens read-write and read-only (lock
   held by another handle) and demands the index-free outcome - from the model and from the same binary with journal.idx
   deleted; a read-only open must leave the directory byte-identical."""
import importlib.util
import json
import os
import re

LEVEL = "fault_enumeration"
_spec = importlib.util.spec_from_file_location("_bc", os.path.join(os.path.dirname(os.path.abspath(__file__)), "_bc.py"))
bc = importlib.util.module_from_spec(_spec)
_spec.loader.exec_module(bc)
vlib = bc.vlib


def critical(c, r):
    s = r.get("stats") or {}
    return s.get("idx_fault_tables", 0) > 0 and any(x.get("a") == "IdxFaults" and any(e[0] == "M" for e in x["base"]) for x in c["steps"])


def run(ctx):
    binary = ctx.build_inpkg("store/nbs", "journal")
    if ctx.replay:
        rp = json.load(open(ctx.replay))
        c = rp["case"]
        r = ctx.run_engine(binary, [], [c], shards=1, test_run=bc.TEST)[0]
        print(json.dumps(r, indent=1)[:6000])
        for sf in (r.get("soft") or []):
            if str(sf.get("fp")).startswith("C04:"):
                ctx.violation(str(sf.get("fp")), sf.get("detail", ""), {"case": c, "result": sf, "reproduced": True})
        if not r.get("ok") and str(r.get("fp", "")).startswith("C04:"):
            ctx.violation(str(r.get("fp")), r.get("detail", ""), {"case": c, "result": r, "reproduced": True})
        return
    q = ctx.q
    ctx.assumptions += [
        "journals are produced by write histories (undamaged, clean tail); damage of the journal under a good index is C03's subject",
        "index faults are applied to the model's entry list and serialized by the engine (the real writer's file is first shown to equal that serialization); byte-level truncations, bit flips and random files carry no predicted code path, only the property",
        "read-only = the exclusive lock is held by another descriptor of the same process (flock excludes per open file description)",
        "maxNovel is set to 0/1 by the in-package engine on an existing writer so that small histories emit several batches; a writer created inside an operation keeps the default 16384"]
    ctx.cov["rule"] = ("evaluations = opens of a faulted directory (read-write and read-only, each compared with the index-free outcome) plus state "
                       "comparisons at operation boundaries; traces_validated_against_impl = behaviours replayed to the end; non-trivial = behaviour "
                       "with a fault table over an index that holds at least one complete batch; distinct by action sequence and binding seed")
    ctx.tlc_check("JournalIndex.tla", q("c04_exh_quick.cfg", "c04_exh_thorough.cfg"), timeout=q(900, 3000))
    # the deviation classes are reachable in the model: this run must end in a violation of NoDeviation
    try:
        ctx.tlc_check("JournalIndex.tla", "c04_exh_dev.cfg", timeout=900, record=False)
        raise vlib.Inconclusive("the model no longer contains the named index deviations (NoDeviation holds): exemption is vacuous")
    except vlib.Inconclusive as e:
        p = os.path.join(vlib.VERIF, "replays", ctx.id, "tlc-c04_exh_dev.cfg.out")
        saved = open(p).read() if os.path.exists(p) else ""
        if "Invariant NoDeviation is violated" not in saved:
            raise
        os.remove(p)
        ctx.cov["deviation_classes_reachable_in_model"] = True
    simcfg = q("c04_sim_quick.cfg", "c04_sim_thorough.cfg")
    beh = ctx.tlc_behaviours("JournalIndex.tla", simcfg, num=q(48, 160), depth=q(60, 80), timeout=q(900, 3000))
    beh = [b for b in beh if any(s.get("a") == "IdxFaults" for s in b)][:q(30, 60)]
    if not beh:
        raise vlib.Inconclusive("no behaviour with an index fault table")
    amp = q({"crash": "none", "damage": "none"}, {"crash": "none", "damage": "none", "idxRandom": 20, "idxFlips": 40})
    cases = bc.make_cases(ctx, beh, simcfg, amp)
    if ctx.tier == "thorough":
        for c in cases[:8]:     # every truncation byte of the index for a subset of the histories
            c["amp"] = dict(amp, idx="all")

    def corrupt(c):
        for s in c["steps"]:
            if s.get("a") == "IdxFaults":
                rd = s["ideal"]["rw"]["reads"]
                k = next((i for i, x in enumerate(rd) if x == "ok"), 0)
                rd[k] = "absent"
                s["ideal"]["ro"]["reads"][k] = "absent"
                return c
        return c
    good = next((c for c in cases if any(s.get("a") == "IdxFaults" and "ok" in s["ideal"]["rw"]["reads"] for s in c["steps"])), cases[0])
    ctx.binding_selftest(binary, good, corrupt, test_run=bc.TEST)
    res = ctx.run_engine(binary, [], cases, test_run=bc.TEST, shards=4, timeout=q(1500, 6000))
    stats = bc.classify(ctx, "C04", binary, cases, res, critical)
    ctx.cov["engine_stats"] = stats
    if stats.get("idx_fault_opens", 0) == 0 or stats.get("idx_fault_tables", 0) == 0:
        raise vlib.Inconclusive("vacuous run: no index fault was applied")
    kinds = {}
    for c in cases:
        for s in c["steps"]:
            if s.get("a") == "IdxFaults":
                for row in s["rows"]:
                    kinds[row["kind"]] = kinds.get(row["kind"], 0) + 1
    ctx.cov["fault_rows_by_kind"] = kinds
    ctx.log("replayed %d behaviours: %s ; fault rows %s" % (len(cases), json.dumps(stats), json.dumps(kinds)))
