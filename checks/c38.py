"""C38 - branch permissions follow the rule table's documented matching.
Spec: spec/BranchControl.tla.  Engine: harness/policy (modes like, table).

1. like-mode (exhaustive): TLC enumerates every raw pattern text up to MaxText characters over {letters with case and
   accent variants, %, _, \\}, checks Fold/Parse/LIKE properties for each, and emits LIKE(text, s) for every request string s up
   to MaxStr characters under both collations; the engine checks FoldExpression, Access.Match and Namespace.CanCreate on
   single-rule tables in every column, and the free function Match.
2. table-mode (exhaustive): every rule table of the bound is a TLC state carrying Perms / CanCreate for every request of the
   request lists; the engine builds each table directly AND through seeded insert/delete/overwrite histories with decoys.
3. histories: TLC checks IncrementalEqualsDirect over all operation sequences of the bound (ops in the state); TLC simulation
   emits behaviours over larger pools (Access.Insert/Delete, SQL insert with subset refusal, namespace insert/delete,
   save/load), replayed step by step with all answers compared after every step.
Expected values are computed by TLC only.  The code's two documented deviations from SQL LIKE (requests parsed as
expressions; empty request in the free Match) are operators of the spec; a mismatch is attributed to one of them only when
the real answer equals the deviation's answer on a request of the deviation's class."""
import importlib.util
import json
import os

LEVEL = "model_checking"
_spec = importlib.util.spec_from_file_location("_bn", os.path.join(os.path.dirname(__file__), "_bn.py"))
bn = importlib.util.module_from_spec(_spec)
_spec.loader.exec_module(bn)

MOD = "BranchControl.tla"


def fp(c, r):
    return "C38:" + str(r.get("fp"))


def note_devs(ctx, res, what):
    tot = {}
    for r in res:
        for k, v in (r.get("devs") or {}).items():
            tot[k] = tot.get(k, 0) + v
    if tot:
        ctx.cov.setdefault("deviation_hits", {})[what] = tot
    return tot


def run(ctx):
    binary = ctx.build_engine("policy")
    if ctx.replay:
        rp = bn.load_replay(ctx.replay)
        mode = rp["case"].get("mode", "table")
        res = ctx.run_engine(binary, [mode], [rp["case"]], shards=1)[0]
        print(json.dumps(res, indent=1)[:6000])
        if not res.get("ok"):
            ctx.violation(fp(None, res), res.get("detail", ""), {"case": rp["case"], "result": res, "reproduced": True})
        for sf in res.get("soft") or []:
            ctx.violation(fp(None, sf), sf.get("detail", ""), {"case": rp["case"], "result": sf, "reproduced": True})
        return

    ctx.assumptions += [
        "collation classes are taken from the real sorters: the binding of model letters to runes (Latin letters, accented forms "
        "2 bytes in UTF-8) is verified by the engine against utf8mb4_0900_ai_ci / utf8mb4_0900_bin before every case",
        "patterns ending in a lone backslash are left out (ParseExpression drops the escape; SQL LIKE leaves it undefined)",
        "'longest' is what the code documents: number of parsed pattern symbols over the four columns for dolt_branch_control, "
        "byte length of the stored branch expression for dolt_branch_namespace_control",
    ]

    # development aid (mutation testing): VERIF_C38_ONLY=like,tbl,hist restricts the phases; evidence is then partial
    only = set(filter(None, os.environ.get("VERIF_C38_ONLY", "").split(",")))
    if only:
        ctx.notes.append("partial run: phases " + ",".join(sorted(only)))
    if not only or "like" in only:
        phase_like(ctx, binary)
    if not only or "tbl" in only:
        phase_tables(ctx, binary)
    if not only or "hist" in only:
        phase_histories(ctx, binary)
    ctx.cov["rule"] = (
        "like-mode: one case = a block of pattern texts, each checked against every request string in 4 columns through Access.Match, "
        "Namespace.CanCreate (plain and negated form) and the free Match (evaluations = individual comparisons); table-mode: one case = one "
        "rule table of the exhaustive enumeration, built directly and through 2 seeded histories, all requests compared each time; "
        "behaviours: TLC simulation, all requests compared after every step. non-trivial = a table of >= 2 rules with a request matched by a rule, "
        "or a behaviour with an insert and a delete and a matched request; like-mode blocks count as non-trivial; distinct by case key")
    if ctx.cov.get("deviation_hits"):
        ctx.notes.append("answers attributed to the named deviations of the spec (request parsed as expression / empty request in the free "
                         "Match / empty final % in the trie): " + json.dumps(ctx.cov["deviation_hits"]))


def phase_like(ctx, binary):
    r1 = ctx.tlc_check(MOD, ctx.q("c38_like_quick.cfg", "c38_like_thorough.cfg"), timeout=ctx.q(1800, 14000))
    docs = bn.dedupe(bn.emitted(r1["out"]))
    strs = [d for d in docs if "strs" in d]
    rows = [d for d in docs if "t" in d]
    if len(strs) != 1 or not rows:
        raise __import__("vlib").Inconclusive("like-mode emission incomplete: %d string lists, %d rows" % (len(strs), len(rows)))
    strs = strs[0]["strs"]
    like_cases = []
    for i, ch in enumerate(bn.chunks(rows, ctx.q(8, 12))):
        like_cases.append({"mode": "like", "strs": strs, "rows": ch, "binding": bn.bc_binding(ctx.rng), "key": ["like", i]})

    def corrupt_like(c):
        # flip LIKE(text, first string) in both collations and in the deviation rows: the engine must notice
        for k in ("ci", "bin", "pci", "pbin"):
            c["rows"][0][k][0] = 1 - c["rows"][0][k][0]
        return c
    ctx.binding_selftest(binary, like_cases[len(like_cases) // 2], corrupt_like, args=["like"])
    res = ctx.replay_behaviours(binary, like_cases, args=["like"], wrap=lambda c: c, fingerprint=fp,
                                critical=lambda c, r: True)
    note_devs(ctx, res, "like")
    ctx.cov["like_pairs"] = len(rows) * len(strs) * 2
    ctx.cov["space"] = "like-mode: all %d pattern texts x %d request strings x 2 collations of the stated alphabet;" % (len(rows), len(strs))
    if any(r.get("binding_invalid") for r in res):
        raise __import__("vlib").Inconclusive("a binding does not realise the character classes of the spec")



def phase_tables(ctx, binary):
    pool_rows = set()
    state_cases = []
    for cfg in ctx.q(["c38_tbl_quick.cfg", "c38_ns_quick.cfg"], ["c38_tbl_thorough.cfg", "c38_tbl3_thorough.cfg", "c38_ns_quick.cfg", "c38_ns_thorough.cfg"]):
        r2 = ctx.tlc_check(MOD, cfg, timeout=ctx.q(1800, 14000))
        docs = bn.dedupe(bn.emitted(r2["out"]))
        reqs = [d for d in docs if "reqs" in d]
        states = [d for d in docs if "ans" in d]
        if len(reqs) != 1 or len(states) != r2["distinct"]:
            raise __import__("vlib").Inconclusive("table-mode emission incomplete for %s: %d states printed, %d distinct" % (cfg, len(states), r2["distinct"]))
        for s in states:
            for row in s["accRows"]:
                pool_rows.add(json.dumps(row[:4]))
            for row in s["nsRows"]:
                pool_rows.add(json.dumps(row))
        for s in states:
            state_cases.append({"mode": "table", "state": s, "reqs": reqs[0]["reqs"], "cfg": cfg})
    pool = [json.loads(x) for x in sorted(pool_rows)]
    for i, c in enumerate(state_cases):
        c["binding"] = bn.bc_binding(ctx.rng)
        c["bseed"] = ctx.seed * 7919 + i
        c["decoys"] = ctx.rng.sample(pool, min(4, len(pool)))
        c["key"] = ["state", i]

    def corrupt_state(c):
        a = c["state"]["ans"]
        i = max(range(len(a)), key=lambda j: a[j])      # a request that some rule matches, if any
        a[i] = 3 if a[i] != 3 else 12
        c["state"]["ansP"][i] = a[i]
        if c["state"].get("ansT"):
            c["state"]["ansT"][i] = a[i]
        return c
    nonempty = [c for c in state_cases if c["state"]["accRows"]]
    ctx.binding_selftest(binary, nonempty[len(nonempty) // 2], corrupt_state, args=["table"])

    def crit_state(c, r):
        st = c["state"]
        # non-trivial: at least two rules of which both match some common request (longest-match / union decides)
        return len(st["accRows"]) + len(st["nsRows"]) >= 2 and (r.get("crit") or {}).get("matched", 0) > 0
    res = ctx.replay_behaviours(binary, state_cases, args=["table"], wrap=lambda c: c, fingerprint=fp, critical=crit_state)
    note_devs(ctx, res, "states")
    ctx.cov["rule_tables_enumerated"] = len(state_cases)
    ctx.cov["exhaustive"] = True
    ctx.cov["space"] = (ctx.cov.get("space", "") + " table-mode: all %d rule tables of the stated pools and size bound x all requests of the "
                        "request lists" % len(state_cases)).strip()



def phase_histories(ctx, binary):
    ctx.tlc_check(MOD, ctx.q("c38_hist_quick.cfg", "c38_hist_thorough.cfg"), timeout=ctx.q(1800, 14000))
    beh = ctx.tlc_behaviours(MOD, ctx.q("c38_sim_quick.cfg", "c38_sim_thorough.cfg"), num=ctx.q(100, 600), depth=ctx.q(9, 13),
                             timeout=ctx.q(1800, 14000))
    beh_cases = []
    for i, b in enumerate(beh):
        if not b or b[0].get("a") != "Init":
            continue
        beh_cases.append({"mode": "table", "steps": b, "reqs": b[0]["reqs"], "binding": bn.bc_binding(ctx.rng), "key": ["beh", i]})
    hist = {}
    for c in beh_cases:
        for s in c["steps"]:
            hist[s["a"]] = hist.get(s["a"], 0) + 1
            if s["a"] == "SqlAccInsert":
                hist["SqlAccInsert:" + s["res"]] = hist.get("SqlAccInsert:" + s["res"], 0) + 1
    ctx.cov["behaviour_actions"] = hist
    for a in ("AccInsert", "AccDelete", "SqlAccInsert", "SqlAccInsert:dup", "NsInsert", "NsDelete", "SaveLoad"):
        if not hist.get(a):
            raise __import__("vlib").Inconclusive("generated behaviours never take action %s" % a)

    def corrupt_beh(c):
        for s in c["steps"]:
            s["exp"]["cc"][0] = 1 - s["exp"]["cc"][0]
            s["exp"]["ccF"][0] = s["exp"]["cc"][0]
        return c
    ctx.binding_selftest(binary, beh_cases[0], corrupt_beh, args=["table"])

    def crit_beh(c, r):
        acts = {s["a"] for s in c["steps"]}
        return "AccDelete" in acts and ("AccInsert" in acts or "SqlAccInsert" in acts) and (r.get("crit") or {}).get("matched", 0) > 0
    res = ctx.replay_behaviours(binary, beh_cases, args=["table"], wrap=lambda c: c, fingerprint=fp, critical=crit_beh)
    note_devs(ctx, res, "behaviours")
