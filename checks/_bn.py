"""Helpers shared by the checks of builder bN (C38, C42, C46)."""
import json
import os
import random

# concrete rune families (lower, upper, lower accented, upper accented): plain letters ASCII, accented ones 2 bytes in
# UTF-8 and equal to the plain letter under utf8mb4_0900_ai_ci (the engine verifies this against the real sorter)
FAMILIES = [["a", "A", "á", "Á"], ["e", "E", "é", "É"], ["o", "O", "ö", "Ö"], ["u", "U", "ü", "Ü"], ["i", "I", "í", "Í"],
            ["n", "N", "ñ", "Ñ"], ["c", "C", "ç", "Ç"], ["y", "Y", "ý", "Ý"]]


def bc_binding(rng):
    """binding of the two base letters of BranchControl.tla to two different rune families"""
    fa, fb = rng.sample(FAMILIES, 2)
    return {"a": fa, "b": fb}


def emitted(out):
    """JSON documents printed by PrintT(ToJson(..)) in a TLC run"""
    docs = []
    for line in out.splitlines():
        if line.startswith('"{') or line.startswith('"['):
            try:
                docs.append(json.loads(json.loads(line)))
            except Exception:
                continue
    return docs


def dedupe(docs):
    """TLC may evaluate the invariant of an initial state twice; emitted documents are keyed by their text"""
    seen, out = set(), []
    for d in docs:
        k = json.dumps(d, sort_keys=True)
        if k not in seen:
            seen.add(k)
            out.append(d)
    return out


def chunks(xs, n):
    for i in range(0, len(xs), n):
        yield xs[i:i + n]


def load_replay(path):
    return json.load(open(path))


def write_cfg(ctx, name, text):
    """write a generated cfg into the work copy of /verif/spec/cfg (never into /verif/spec)"""
    d = ctx._spec_dir()
    p = os.path.join(d, "cfg", name)
    with open(p, "w") as f:
        f.write(text)
    return name
