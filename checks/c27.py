"""C27 - keyless tables behave as multisets.  Spec: spec/RowMerge.tla with Keyless = TRUE (bags [row -> multiplicity], operators
KInsert, KDeleteLim, KUpdateLim, KDeleteWhere, KUpdateWhere, KMergeT, invariant KeylessProps).  Engine: harness/rowmerge (keyless).

TLC (exhaustive) checks the bag-merge laws for all 3 375 (base,left,right) triples of bags with at most 2 rows over 4 distinct
rows.  TLC then emits (a) every triple with canonical INSERT / DELETE ... LIMIT statements and (b) random histories of INSERT of
duplicates, DELETE ... LIMIT n, UPDATE ... LIMIT n, DELETE / UPDATE by one column.  After EVERY statement the engine compares full
scan (multiset), COUNT(*), GROUP BY all columns and lookups by c1 (index lookups when the table has the secondary index) with the
model's bag; then both merge directions: rows, dolt_conflicts_<t> with base/our/their cardinalities, resolve --ours / --theirs,
DELETE FROM dolt_conflicts_<t>, abort."""
import importlib.util
import os

LEVEL = "model_checking"
_s = importlib.util.spec_from_file_location("_bh", os.path.join(os.path.dirname(os.path.abspath(__file__)), "_bh.py"))
bh = importlib.util.module_from_spec(_s)
_s.loader.exec_module(bh)

KPATHS = ["ours", "theirs", "manualk"]


def corrupt(bc):
    m = bc["subs"][0]["case"]["m"][0]
    if m["rows"]:
        m["rows"][0]["n"] += 1
    else:
        m["rows"].append({"r": [1, 1], "n": 1})
    return bc


def run(ctx):
    binary = ctx.build_engine("rowmerge")
    if ctx.replay:
        bh.replay(ctx, binary)
        return
    q = ctx.tier == "quick"
    ctx.tlc_check(bh.MODULE, "c27_exh.cfg")
    kl = bh.gen_triples(ctx, ctx.q("c27_gen_triples_q.cfg", "c27_gen_triples.cfg"))
    hist = bh.gen_histories(ctx, "c27_gen_hist.cfg", num=ctx.q(40, 600), depth=9)
    ctx.rng.shuffle(hist)
    if not q and len(kl) != 3375:
        raise bh.vlib.Inconclusive("TLC did not emit the full keyless triple space: %d" % len(kl))
    ks = kl if not q else ctx.rng.sample(kl, min(len(kl), 300))
    hs = hist[:ctx.q(150, 3000)]
    if not q:
        ctx.cov["exhaustive"] = True
    ctx.cov["generated"] = {"keyless_triples": len(kl), "keyless_histories": len(hist)}
    ctx.cov["rule"] = ("case = keyless (base,left,right) bags from RowMerge.tla (Keyless=TRUE), either a triple with canonical statements or a random "
                       "history of INSERT duplicates / DELETE..LIMIT / UPDATE..LIMIT / DELETE,UPDATE by column; after every statement full scan, COUNT(*), "
                       "GROUP BY and c1 lookups are compared with the bag; both merge directions with conflicts (cardinalities), resolve ours/theirs, "
                       "conflict deletion, abort; evaluations = compared rows/groups/counters; non-trivial = both sides changed the table or a conflict; "
                       + ("exhaustive: all 3 375 triples of bags with <= 2 rows over 4 distinct rows" if not q else "quick: a random part of the triple space"))
    ctx.assumptions += ["both sides making the SAME multiplicity change of a row is a conflict in dolt by design (merge_rows.go:394 'For keyless tables, this counts as a conflict'); "
                        "the statement's 'differently' is read as 'both sides changed it' for keyless tables (spec: KeylessConvergentIsConflict)",
                        "DELETE/UPDATE ... LIMIT n are issued with a WHERE clause matching one distinct row, so that the affected copies are determined",
                        "keyless merges with schema changes are not generated (dolt refuses them)"]
    batches = bh.make_batches(ctx, ks, "keyless", KPATHS, ctx.q(10, 12), bh.bind_keyless) \
        + bh.make_batches(ctx, hs, "keyless", KPATHS, ctx.q(6, 8), bh.bind_keyless)
    good = bh.make_batches(ctx, [c for c in ks if c["m"][0]["conf"] and not c["m"][0]["convergent"]][:1], "keyless", KPATHS, 1, bh.bind_keyless)
    if good:
        good[0]["subs"][0]["bind"]["index"] = False
        bh.selftest(ctx, binary, good[0], corrupt)
    passed, failures = bh.run_batches(ctx, binary, batches, timeout=ctx.q(3000, 14400))
    ctx.cov["cases_run"] = {"triples": len(ks), "histories": len(hs), "passed": passed}
    nconv = sum(1 for c in ks + hs if c["m"][0]["convergent"])
    ctx.notes.append("%d cases contain a convergent multiplicity change (same change on both sides): dolt records a conflict by design; a literal reading of "
                     "'changed differently' would expect none" % nconv)
