"""C46 - ignored tables stay out of commits; clean removes only untracked tables.

The check is a list of PHASES (functions taking ctx and the shared dict `env`); a later builder adds the repository-level
half (dolt_add('.') / dolt_commit('-A') / dolt_clean over Repo.tla, engine E9) by appending a phase to PHASES.

run_patterns (this file, builder bN) - the pattern half.  Spec: spec/IgnorePatterns.tla, engine harness/policy mode ignore.
  * MatchTablePattern against Match for every pattern x name of the bound;
  * every dolt_ignore table of the bound (TLC state) x every table name: doltdb.IgnorePatterns.IsTableNameIgnored against
    Result (the documented rule: most specific matching pattern wins, language inclusion = specificity, contradiction among
    the most specific ones = conflict), the returned error against the Conflict verdict;
  * behaviours: the table edited row by row (TLC simulation).
  The code's syntactic decision procedure is the named deviation ResultAlg of the spec; a real answer that differs from Result
  is attributed to it only if it equals ResultAlg on a (table, name) for which TLC computed Deviation # "none".
"""
import importlib.util
import json
import os

LEVEL = "model_checking"
_spec = importlib.util.spec_from_file_location("_bn", os.path.join(os.path.dirname(__file__), "_bn.py"))
bn = importlib.util.module_from_spec(_spec)
_spec.loader.exec_module(bn)

MOD = "IgnorePatterns.tla"
LETTERS = "abcdefghijklmnopqrstuvwxy_0123456789T"


def fp(c, r):
    return "C46:" + str(r.get("fp"))


def ign_binding(rng):
    a, b = rng.sample(LETTERS, 2)
    return {"a": a, "b": b}


def inconclusive(msg):
    import vlib
    raise vlib.Inconclusive(msg)


def run_patterns(ctx, env):
    binary = ctx.build_engine("policy")
    env["policy_binary"] = binary
    ctx.assumptions += [
        "specificity of dolt_ignore patterns = strict inclusion of the pattern languages over all strings (the empty string included), "
        "compared on strings up to LangLen characters over the name letters plus one fresh letter (TLC checks at start-up that the "
        "comparison is the same with LangLen - 1)",
        "the dolt_rebase special case of IsTableNameIgnored is not driven (names of the bound never start with dolt_rebase)",
    ]
    # ---- 1. MatchTablePattern
    r0 = ctx.tlc_check(MOD, "c46_names_quick.cfg", timeout=1800)
    docs = [d for d in bn.emitted(r0["out"]) if "rows" in d]
    if len(docs) != 1:
        inconclusive("pattern table not emitted")
    names, prow = docs[0]["names"], docs[0]["rows"]
    pat_cases = [{"mode": "ignore", "names": names, "rows": ch, "binding": ign_binding(ctx.rng), "key": ["pats", i]}
                 for i, ch in enumerate(bn.chunks(prow, 20))]

    def corrupt_pat(c):
        c["rows"][0]["m"][0] = 1 - c["rows"][0]["m"][0]
        return c
    ctx.binding_selftest(binary, pat_cases[0], corrupt_pat, args=["ignore"])
    ctx.replay_behaviours(binary, pat_cases, args=["ignore"], wrap=lambda c: c, fingerprint=fp, critical=lambda c, r: False)
    ctx.cov["pattern_name_pairs"] = len(prow) * len(names)

    # ---- 2. every table of the bound
    cases = []
    total_states = 0
    for cfg in ctx.q(["c46_pat_quick.cfg", "c46_pct_quick.cfg"],
                     ["c46_pat_quick.cfg", "c46_pct_quick.cfg", "c46_pat_thorough.cfg", "c46_pat3_thorough.cfg"]):
        r = ctx.tlc_check(MOD, cfg, timeout=ctx.q(1800, 14000))
        docs = bn.dedupe(bn.emitted(r["out"]))
        states = [d for d in docs if "v" in d]
        nl = [d for d in docs if "names" in d]
        if len(states) != r["distinct"] or len(nl) != 1:
            inconclusive("emission incomplete for %s: %d of %d states" % (cfg, len(states), r["distinct"]))
        total_states += len(states)
        for ch in bn.chunks(states, ctx.q(40, 400)):
            cases.append({"mode": "ignore", "cfg": cfg, "names": nl[0]["names"], "states": ch, "binding": ign_binding(ctx.rng),
                          "key": ["tables", len(cases)]})

    def corrupt_state(c):
        # change the verdict of the first (table, name) with a matching pattern
        for st in c["states"]:
            for v in st["v"]:
                if st["ps"]:
                    v["res"] = (v["res"] + 1) % 3
                    v["alg"] = v["res"]
                    return c
        return c
    nonempty = [c for c in cases if any(s["ps"] for s in c["states"])]
    ctx.binding_selftest(binary, nonempty[len(nonempty) // 2], corrupt_state, args=["ignore"])

    def crit(c, r):
        return r.get("nontrivial", 0) > 0
    res = ctx.replay_behaviours(binary, cases, args=["ignore"], wrap=lambda c: c, fingerprint=fp, critical=crit)
    devs, notes, nontriv = {}, {}, 0
    for r in res:
        for k, v in (r.get("devs") or {}).items():
            devs[k] = devs.get(k, 0) + v
        for k, v in (r.get("notes") or {}).items():
            notes[k] = notes.get(k, 0) + v
        nontriv += r.get("nontrivial", 0)
    ctx.cov["deviation_hits"] = devs
    ctx.cov["table_name_pairs_needing_resolution"] = nontriv
    if notes:
        ctx.notes.append("the DoltIgnoreConflictError lists other patterns than the minimal contradicting ones of the spec in %d conflict "
                         "reports (ignore.go:247 filters the false patterns with trueMatchesToRemove); not part of the statement" %
                         notes.get("conflict-report-lists-other-patterns", 0))
    ctx.cov["exhaustive"] = True
    ctx.cov["space"] = "all %d dolt_ignore tables of the stated bounds x all table names of the bound; all pattern x name pairs for MatchTablePattern" % total_states

    # ---- 3. behaviours
    beh = ctx.tlc_behaviours(MOD, ctx.q("c46_sim_quick.cfg", "c46_sim_thorough.cfg"), num=ctx.q(150, 1500), depth=ctx.q(8, 12), timeout=ctx.q(1800, 14000))
    bc = [{"mode": "ignore", "names": b[0]["names"], "steps": b, "binding": ign_binding(ctx.rng), "key": ["beh", i]}
          for i, b in enumerate(beh) if b and b[0].get("a") == "Init"]
    acts = {}
    for b in beh:
        for s in b:
            acts[s["a"]] = acts.get(s["a"], 0) + 1
    ctx.cov["behaviour_actions"] = acts
    for a in ("Put", "Remove"):
        if not acts.get(a):
            inconclusive("behaviours never take " + a)
    ctx.replay_behaviours(binary, bc, args=["ignore"], wrap=lambda c: c, fingerprint=fp, critical=crit)


def run_repository(ctx, env):
    """Repository-level half (builder bJ): spec/RepoIgnore.tla (INSTANCEs IgnorePatterns.tla), engine harness/repo2 mode ignore:
    dolt_add('.') / dolt_commit('-A') / dolt_reset() / dolt_clean() / dolt_clean('-x') over working sets mixing new, dropped,
    modified and renamed tables; see checks/_bj.py run_c46_repo."""
    _s = importlib.util.spec_from_file_location("_bj", os.path.join(os.path.dirname(__file__), "_bj.py"))
    bj = importlib.util.module_from_spec(_s)
    _s.loader.exec_module(bj)
    bj.run_c46_repo(ctx)
    env["repo_rule"] = ctx.cov.get("rule", "")


PHASES = [run_patterns, run_repository]


def run(ctx):
    env = {}
    if ctx.replay:
        rp = bn.load_replay(ctx.replay)
        case = rp["case"]
        if case.get("phase") == "repo":
            run_repository(ctx, env)
        elif case.get("mode") == "ignore":
            binary = ctx.build_engine("policy")
            res = ctx.run_engine(binary, ["ignore"], [case], shards=1)[0]
            print(json.dumps(res, indent=1)[:6000])
            if not res.get("ok"):
                ctx.violation(fp(None, res), res.get("detail", ""), {"case": case, "result": res, "reproduced": True})
            for sf in res.get("soft") or []:
                ctx.violation(fp(None, sf), sf.get("detail", ""), {"case": case, "result": sf, "reproduced": True})
        return
    for ph in PHASES:
        ph(ctx, env)
    ctx.cov["rule"] = (
        "pattern half: one case = a block of dolt_ignore tables (TLC states of the exhaustive enumeration) or one behaviour; every table is "
        "evaluated for every table name of the bound through IgnorePatterns.IsTableNameIgnored (three slice orders) and compared with Result; "
        "evaluations = individual verdict comparisons; non-trivial = a block/behaviour containing a (table, name) pair that matches patterns of "
        "both signs or is a conflict; distinct by case key" + ("; " + env["repo_rule"] if env.get("repo_rule") else ""))
