"""C31 - cherry-pick, revert and rebase obey their merge definitions.

Spec: spec/Repo.tla (CherryPick = Merge3(base parent(c), ours working, theirs c); Revert = Merge3(base c, ours working,
theirs parent(c)); Rebase = fold of the kept commits with cherry-pick merges, squash/fixup amending the previous one).
TLC (exhaustive, bounded): RevertLatestRestoresParent, CherryPickOntoParentReproduces, CherryPickIsMerge3, RevertIsMerge3,
ConflictLeavesInProgress, AbortRestores, RebaseShape, RebaseIsCherryPicks, RebaseDropAll, ErrorsLeaveNoTrace.
Conformance: TLC simulation emits histories of row/table edits, commits, branches, merges with every choice of commit
for dolt_cherry_pick / dolt_revert and rebase plans over pick/squash/fixup/drop/reword; engine harness/repo replays them
on the real SQL engine and compares the whole repository (all roots of all branches, commit graph, operation in
progress, conflicts, dolt_status) with the model after every step."""
import importlib.util, os
LEVEL = "model_checking"
_s = importlib.util.spec_from_file_location("_bi", os.path.join(os.path.dirname(__file__), "_bi.py"))
bi = importlib.util.module_from_spec(_s)
_s.loader.exec_module(bi)

BQ = [{"keys": "small", "c1": "int", "c2": "int", "filler": 0}, {"keys": "spread", "c1": "varchar", "c2": "int", "filler": 25}]
BT = BQ + [{"keys": "spread", "c1": "bigint", "c2": "varchar", "filler": 700}]
PROPS = ["RevertLatestRestoresParent", "CherryPickOntoParentReproduces", "CherryPickIsMerge3", "RevertIsMerge3",
         "ConflictLeavesInProgress", "AbortRestores", "RebaseShape", "RebaseIsCherryPicks", "RebaseDropAll", "ErrorsLeaveNoTrace"]


def run(ctx):
    exh = [("c31_exh_quick.cfg", {"nonvacuous": PROPS, "timeout": 3600})]
    if ctx.tier == "thorough":
        exh.append(("c31_exh_thorough.cfg", {"timeout": 3 * 3600}))
    bi.run(ctx, exh=exh,
           sims=[{"cfg": ctx.q("c31_sim_quick.cfg", "c31_sim_thorough.cfg"), "num": ctx.q(120, 400), "depth": ctx.q(30, 45),
                  "obs": [], "bindings": ctx.q(BQ, BT)}],
           critical_acts=["CherryPick:ok", "Revert:ok", "Rebase:ok", "CherryPick:conflict", "Revert:conflict"],
           require_hist=["CherryPick:ok", "Revert:ok", "Rebase:ok"],
           rule=("behaviours = TLC simulation of Repo.tla (action mix of spec/cfg/c31_sim_*.cfg: DML, create/drop table, commit, branch, "
                 "session checkout, merge, cherry-pick of a random commit, revert of a random commit, rebase onto a random commit with a "
                 "random plan over pick/squash/fixup/drop/reword, abort/resolve/continue, reset --hard); every step is replayed on the real "
                 "SQL engine and the projection of the whole repository compared; non-trivial = behaviour in which at least one "
                 "cherry-pick, revert or rebase succeeded or stopped on conflicts; distinct = by action sequence and binding; "
                 "evaluations = individual comparisons (outcome class, branch heads, commit contents, roots, status, conflicts)"),
           assumptions=["sessions run with autocommit and @@dolt_allow_commit_conflicts = 1 (otherwise a conflicting cherry-pick/revert is rolled back)",
                        "row-level merges are generated only when the three versions of the table have the same schema (schema merges belong to RowMerge.tla / C29)",
                        "rebase is driven as one unit: dolt_rebase('-i'), UPDATE dolt_rebase, dolt_rebase('--continue'), and --abort if it stops; "
                        "ranges containing merge commits are not generated",
                        "commit messages and authorship are not compared"],
           notes=["dolt_rebase drops a commit that was empty from the start as well (GetCommitStaged tests SkipEmpty before AllowEmpty), although "
                  "the procedure's comments promise to keep it; data-wise irrelevant for C31, modelled as the code behaves"])
