"""Shared driver of the repository-level checks C31-C34 (builder bI).  Spec: spec/Repo.tla.  Engine: harness/repo
(generic step replayer on harness/librepo).  Each check supplies: exhaustive cfg(s) with the action properties that
state the property on the model, simulation cfg(s) selecting its action mix, observers, bindings and the set of
critical actions."""
import collections
import copy
import json
import os
import re
import sys

sys.path.insert(0, os.path.join(os.path.dirname(os.path.dirname(os.path.abspath(__file__))), "lib"))
import vlib

ENGINE = "repo"


def cfg_consts(ctx, cfg):
    """Tables / Keys / Sessions of a cfg file (the engine needs them for the binding)."""
    txt = open(os.path.join(vlib.VERIF, "spec", "cfg", cfg)).read()

    def setof(name, conv):
        m = re.search(r"^\s*%s\s*=\s*\{([^}]*)\}" % name, txt, re.M)
        return [conv(x.strip().strip('"')) for x in m.group(1).split(",") if x.strip()]
    return {"tables": setof("Tables", str), "keys": setof("Keys", int), "sessions": setof("Sessions", str)}


# revert-abort-wipes-dirty is outside C31's statement: counted by the engine (stats dev:...), reported by no check
OWN_DEVS = {"C34": ["stash-overwrites-untracked"]}


def make_cases(ctx, behaviours, cfg, bindings, obs):
    k = cfg_consts(ctx, cfg)
    out = []
    for i, b in enumerate(behaviours):
        bd = dict(bindings[i % len(bindings)])
        out.append({"steps": b, "binding": bd, "tables": k["tables"], "keys": k["keys"], "sessions": k["sessions"],
                    "obs": obs, "key": [cfg, bd], "report_devs": OWN_DEVS.get(ctx.id, [])})
    return out


def dedupe_prefix(behaviours, keep=2):
    """TLC's simulator evaluates the Emit constraint for every candidate successor of the last state, so one trace yields
    several behaviours that differ in the last step only; replaying all of them re-runs the same prefix. Keep a few."""
    import hashlib
    seen = collections.Counter()
    out = []
    for b in behaviours:
        h = hashlib.sha1(json.dumps([[s["a"], s["s"], s["args"]] for s in b[:-1]], sort_keys=True).encode()).hexdigest()
        seen[h] += 1
        if seen[h] <= keep:
            out.append(b)
    return out


def histogram(behaviours):
    h = collections.Counter()
    for b in behaviours:
        for s in b:
            h[s["a"] + ":" + s["res"]] += 1
    return h


def replay_one(ctx, binary):
    rp = json.load(open(ctx.replay))
    res = ctx.run_engine(binary, [], [rp["case"]], shards=1)[0]
    print(json.dumps({k: v for k, v in res.items() if k != "n"}, indent=1)[:6000])
    for sf in (res.get("soft") or []):
        ctx.violation(ctx.id + ":" + str(sf.get("fp")), sf.get("detail", ""), {"case": rp["case"], "result": sf, "reproduced": True})
    if not res.get("ok"):
        ctx.violation(ctx.id + ":" + str(res.get("fp")), res.get("detail", ""), {"case": rp["case"], "result": res, "reproduced": True})


def corrupt_last_exp(case):
    """Binding self-test: flip one expected cell (or add a phantom row) in the last step's working root."""
    c = case
    st = c["steps"][-1]["exp"]
    for b, w in st["ws"].items():
        if isinstance(w["w"], dict):
            for t, tb in w["w"].items():
                if tb["rows"]:
                    tb["rows"][0][1] = 1 if tb["rows"][0][1] != 1 else 2
                else:
                    tb["rows"].append([c["keys"][0], 1, 0])
                return c
    # no table anywhere: claim a branch head that does not exist
    b = sorted(st["br"])[0]
    st["br"][b] = 1 if st["br"][b] != 1 else 2
    return c


def holds_counts(out, spec_path=None):
    """Vacuity guard for the action properties of Repo.tla. Every property is [][A => Holds(C)]_vars; with -coverage TLC
    prints, per property, how often each sub-expression was evaluated; the count of the Holds(...) application is the
    number of transitions on which the antecedent A was true. Returns {property name: count}."""
    spec = open(spec_path or os.path.join(vlib.VERIF, "spec", "Repo.tla")).read().split("\n")
    pos = {}   # (line, col) of "Holds(" -> property name
    name = None
    for i, l in enumerate(spec, 1):
        m = re.match(r"^([A-Za-z0-9_]+)(\(.*?\))?\s*==", l)
        if m:
            name = m.group(1)
        j = l.find("Holds(")
        if j >= 0 and name and name != "Holds" and not l.lstrip().startswith("\\*"):
            pos[(i, j + 1)] = name
    counts = {n: 0 for n in pos.values()}
    for l in out.split("\n"):
        m = re.match(r"^\s*\|*line (\d+), col (\d+) to line \d+, col \d+ of module Repo: (\d+)", l)
        if m:
            k = (int(m.group(1)), int(m.group(2)))
            if k in pos:
                counts[pos[k]] = max(counts[pos[k]], int(m.group(3)))
    return counts


def run(ctx, exh, sims, critical_acts, rule, assumptions, require_hist=None, notes=None):
    """exh: list of (cfg, kwargs) for ctx.tlc_check; sims: list of dicts {cfg, num, depth, obs, bindings}."""
    binary = ctx.build_engine(ENGINE)
    if ctx.replay:
        replay_one(ctx, binary)
        return
    fired = {}
    if os.environ.get("BI_SKIP_EXH"):
        # developer knob for mutation runs against a scratch worktree: the model has not changed, skip the exhaustive TLC part
        ctx.notes.append("BI_SKIP_EXH set: exhaustive TLC configs skipped (mutation run)")
        exh = []
    for cfg, kw in exh:
        kw = dict(kw)
        need = kw.pop("nonvacuous", None)
        # Repo.tla states are large records; with -coverage and 16 workers an 8g heap ran out on an idle sandbox (vp check 3)
        kw.setdefault("heap", os.environ.get("VERIF_TLC_HEAP") or "20g")
        kw.setdefault("workers", min(8, vlib.default_workers()))
        res = ctx.tlc_check("Repo.tla", cfg, coverage=bool(need), **kw)
        if need:
            hc = holds_counts(res["out"], os.path.join(ctx._spec_dir(), "Repo.tla"))   # the copy TLC ran on
            for prop in need:
                fired[prop] = fired.get(prop, 0) + hc.get(prop, 0)
            never = [p_ for p_ in need if hc.get(p_, 0) == 0]
            if never:
                raise vlib.Inconclusive("vacuity: the antecedent of %s was never true in %s" % (never, cfg))
    if fired:
        ctx.cov["property_antecedent_true_on_transitions"] = fired
    ctx.cov["rule"] = rule
    ctx.assumptions += assumptions
    ctx.notes += (notes or [])
    total_hist = collections.Counter()
    first = True
    for sm in sims:
        beh = ctx.tlc_behaviours("Repo.tla", sm["cfg"], num=sm["num"], depth=sm["depth"], seed=ctx.seed + sm.get("seed_off", 0),
                                 timeout=ctx.q(1800, 2 * 3600))
        beh = dedupe_prefix(beh)
        ctx.log("%d behaviours after dropping same-prefix variants" % len(beh))
        h = histogram(beh)
        total_hist.update(h)
        cases = make_cases(ctx, beh, sm["cfg"], sm["bindings"], sm["obs"])
        # compact samples (the full step records with TLC's projections are large)
        for b in sorted(beh, key=lambda b: -sum(1 for s in b if s["a"] + ":" + s["res"] in critical_acts or s["a"].startswith("Q")))[:3]:
            ctx.sample({"cfg": sm["cfg"], "steps": ["%s %s(%s) -> %s" % (s["s"], s["a"], json.dumps(s["args"], sort_keys=True) if s["args"] else "", s["res"]) for s in b],
                        "final_state_expected_by_TLC": b[-1]["exp"]})
        if first:
            ctx.binding_selftest(binary, cases[0], corrupt_last_exp)
            first = False

        def critical(c, r, acts=critical_acts):
            st = r.get("stats") or {}
            return any(st.get(a, 0) > 0 for a in acts)
        # memory: every opened repository + SQL engine leaves ~20 MB behind in the engine process even after Close();
        # at most 4 engine processes at a time, each recycled after ~10 cases
        res = []
        for i in range(0, len(cases), 40):
            res += ctx.replay_behaviours(binary, cases[i:i + 40], critical=critical, wrap=lambda c: c, shards=4,
                                         timeout=ctx.q(3600, 4 * 3600), fingerprint=lambda c, r: ctx.id + ":" + str(r.get("fp")))
            if ctx.violations:
                break
        agg = collections.Counter()
        for r in res:
            for k, v in (r.get("stats") or {}).items():
                agg[k] += v
        ctx.cov.setdefault("replayed_action_outcomes", {})
        for k, v in agg.items():
            ctx.cov["replayed_action_outcomes"][k] = ctx.cov["replayed_action_outcomes"].get(k, 0) + v
        ctx.cov["truncated_at_named_deviation"] = ctx.cov.get("truncated_at_named_deviation", 0) + sum(1 for r in res if r.get("truncated", -1) >= 0)
    # vacuity guard: every action outcome the property is about must have been replayed on the real code
    missing = [a for a in (require_hist or []) if ctx.cov.get("replayed_action_outcomes", {}).get(a, 0) == 0]
    if missing and not ctx.violations and not ctx.known_hits:
        raise vlib.Inconclusive("generator vacuity: outcomes never replayed: %s (histogram %s)" % (missing, dict(total_hist)))
