"""C28 - auto-increment values are never handed out twice, across sessions and branches.  Spec: spec/AutoInc.tla
(+ spec/TraceAutoInc.tla).  Engine: harness/txn (E8).
  1. TLC exhaustive: SequenceTracker.Next as Lock ; Load ; Store ; Unlock steps of two goroutines on two branches with
     explicit values, ALTER ... AUTO_INCREMENT, rollbacks and branch switches: GeneratedValuesUnique, MonotonePerTable,
     ExplicitLargerAdvancesAllBranches, RowsAreHandedOut.  Negative control: the same config without the per-table mutex
     must violate GeneratedValuesUnique.
  2. R: statement-granular interleavings (3 sessions, 2 branches, 2 tables): LAST_INSERT_ID(), the inserting session's
     view of the table and the persisted ids of every branch are compared with TLC's expectation after every statement.
  3. T: goroutine stress through SQL sessions on several branches, and direct concurrent calls of
     AutoIncrementTracker.Next; call/ret logs validated by TraceAutoInc.tla (linearizable against the sequential tracker:
     ids unique, each generated id greater than every id returned before its call began; final tables = committed inserts)."""
import importlib.util
import os

LEVEL = "model_checking"
_spec = importlib.util.spec_from_file_location("_bg", os.path.join(os.path.dirname(os.path.abspath(__file__)), "_bg.py"))
bg = importlib.util.module_from_spec(_spec)
_spec.loader.exec_module(bg)
vlib = bg.vlib

EXH = {"quick": ["c28_exh_quick.cfg"], "thorough": ["c28_exh_quick.cfg", "c28_exh_thorough.cfg", "c28_exh_atomic3.cfg"]}


def critical(c, r):
    st = r.get("stat") or {}
    return sum(1 for k in st if k.startswith("gen_by_")) >= 2 and st.get("generated", 0) >= 4


def corrupt_lid(c):
    for st in reversed(c["steps"]):
        if st["a"] == "InsertGen":
            st["exp"]["out"]["lid"] += 1
            return c
    return bg.corrupt_last_store(c)


def corrupt_trace(tr):
    """Always rejectable: the last acknowledged insert reports the id -7, which the tracker can never return."""
    rets = [e for e in tr if e.get("ev") == "ret" and e.get("res") == "ok"]
    if rets:
        rets[-1]["id"] = -7
    else:
        for e in tr:
            if e.get("ev") == "final":
                e["store"]["main"] = {t: [-7] for t in e["store"]["main"]}
    return tr


def run(ctx):
    binary = ctx.build_engine("txn")
    if ctx.replay:
        bg.handle_replay(ctx, "C28", binary)
        return
    debug_fast = os.environ.get("VERIF_BG_DEBUG_SKIP_EXH") == "1"  # development aid: the run then ends INCONCLUSIVE
    for cfg in ([] if debug_fast else EXH[ctx.tier]):
        ctx.tlc_check("AutoInc.tla", cfg, timeout=ctx.q(1800, 7200))
    if not debug_fast:
        bg.tlc_expect_violation(ctx, "AutoInc.tla", "c28_neg_nolock.cfg", "GeneratedValuesUnique")
    env = {"VERIF_ONLY": "c28"}
    beh = bg.drop_prefixes(ctx.tlc_behaviours("AutoInc.tla", ctx.q("c28_sim_quick.cfg", "c28_sim_thorough.cfg"), num=ctx.q(100, 400), depth=ctx.q(30, 50)))
    ctx.cov["action_histogram"] = bg.require_actions(beh, ["InsertGen", "InsertExplicit", "Delete", "AlterAI", "Commit", "Rollback", "Checkout", "Read"], "autoinc", ctx)
    cs = bg.ai_cases(ctx, beh)
    ctx.binding_selftest(binary, cs[0], corrupt_lid, args=["replay"], env=env)
    bg.replay_chunked(ctx, binary, cs, args=["replay"], critical=critical, wrap=lambda c: c, env=env, timeout=ctx.q(3600, 14400),
                          fingerprint=lambda c, r: "C28:" + str(r.get("fp")))
    # T mode
    sess = ["s1", "s2", "s3", "s4", "s5", "s6"]
    base = {"Sessions": sess, "Branches": ["main", "b1"], "Main": "main", "Tables": ["u", "v"]}
    sql_cases = [dict(base, workload="autoinc", M=ctx.q(12, 20), seed=ctx.seed * 1000 + i, binding={"idtype": bg.AI_IDTYPES[i % 4]}) for i in range(ctx.q(4, 8))]
    trk_cases = [dict(base, workload="tracker", M=ctx.q(100, 150), seed=ctx.seed * 1000 + 100 + i, binding={"idtype": "int"}) for i in range(ctx.q(8, 12))]
    nt = lambda tr: len({e["s"] for e in tr if e.get("ev") == "call"}) >= 2
    bg.stress_validate(ctx, "C28", binary, sql_cases, "TraceAutoInc.tla", "c28_trace.cfg", corrupt=corrupt_trace, nontrivial=nt)
    bg.stress_validate(ctx, "C28", binary, trk_cases, "TraceAutoInc.tla", "c28_trace.cfg", nontrivial=nt)
    ctx.cov["rule"] = ("R: behaviours = TLC simulation of AutoInc.tla (Atomic statements: generated / explicit inserts, deletes, ALTER AUTO_INCREMENT, commit, "
                       "rollback, checkout; 3 sessions, 2 branches, 2 tables), one statement at a time; compared: result class, LAST_INSERT_ID(), the session's view "
                       "of the table, persisted ids of every branch; non-trivial = behaviour in which at least two sessions generate values (>= 4 values). "
                       "T: call/ret traces of 6 goroutines (SQL inserts on two branches with rollbacks; direct AutoIncrementTracker.Next calls) validated by "
                       "TraceAutoInc.tla; non-trivial = calls of >= 2 goroutines; evaluations include matched trace events.")
    ctx.assumptions += ["one running engine per case (the statement is scoped to one running server); restart / re-initialisation of the tracker is not driven",
                        "single-row inserts in T mode; multi-row inserts (k = 2) only in R mode",
                        "ALTER TABLE ... AUTO_INCREMENT = n is generated only for n above the current value or not above the largest id of the session's table; "
                        "the deepSet case in between lowers the tracker (documented in sequence_tracker.go as ignoring the in-memory value) and is outside the "
                        "invariants: see LEADS.md"]
    if debug_fast:
        raise vlib.Inconclusive("VERIF_BG_DEBUG_SKIP_EXH=1: exhaustive TLC runs were skipped (development mode)")
