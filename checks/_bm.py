"""Helpers of builder bM (C45): trace batching / cfg generation for TraceClusterHook.tla."""
import json
import os
import re

TRACE_INVARIANTS_STRICT = ["DestRootWasASrcRoot", "AckImpliesReplicatedStrict", "AfterGracefulStrict", "StandbyProviderReadOnly",
                           "ClosedWereRegistered", "QuiescentConvergedStrict"]
TRACE_INVARIANTS = ["DestRootWasASrcRoot", "AckImpliesReplicatedOrWarned", "AfterGracefulTransitionNothingAckedMissing",
                    "StandbyProviderReadOnly", "ClosedWereRegistered", "QuiescentConverged"]


def rename_trace(trace, k):
    """Make call ids and hash names of the k-th trace of a batch unique within the batch."""
    out = []
    d0 = None
    for e in trace:
        if e.get("ev") == "Reset":
            d0 = e["dest"]      # the standby's root before the first push is the constant D0 of the spec

    def nm(v):
        if v == "none":
            return v
        return "d0" if v == d0 else "t%d%s" % (k, v)
    for e in trace:
        e = json.loads(json.dumps(e))
        if "x" in e and e["x"]:
            e["x"] = "t%d%s" % (k, e["x"])
        for f in ("root", "new", "last", "src", "dest"):
            if f in e:
                e[f] = nm(e[f])
        if "s" in e:
            for f in ("next", "last"):
                e["s"][f] = nm(e["s"][f])
        out.append(e)
    return out


def batch_values(events):
    calls, hashes = set(), set()
    for e in events:
        if e.get("x"):
            calls.add(e["x"])
        for f in ("root", "new", "last", "src", "dest"):
            if f in e and e[f] not in ("none", "d0"):
                hashes.add(e[f])
        if "s" in e:
            for f in ("next", "last"):
                if e["s"][f] != "none":
                    hashes.add(e["s"][f])
    return sorted(calls), sorted(hashes)


def write_trace_cfg(path, events, invariants):
    calls, hashes = batch_values(events)
    q = lambda xs: "{" + ", ".join('"%s"' % x for x in xs) + "}"
    with open(path, "w") as f:
        f.write("CONSTANTS\n Calls = %s\n Hashes = %s\n InitRoot = \"init\"\n D0 = \"d0\"\n None = \"none\"\n"
                " AtomicExecute = FALSE\n InFlightAware = FALSE\n MaxClock = 1000000\n MaxFaults = 1000000\n MaxRoles = 1000000\n"
                "INIT TInit\nNEXT TNext\nVIEW tview\nINVARIANTS %s\n" % (q(calls or ["x0"]), q(hashes or ["h0"]), " ".join(invariants)))


def parse_violation(out):
    """Returns (invariant name or None, flags dict) from a TLC output."""
    m = re.search(r"Invariant (\w+) is violated", out)
    if not m:
        return None, {}
    flags = {}
    # the last printed state
    tail = out[out.rfind("State "):]
    for k in ("staleHappened", "abaHappened"):
        mm = re.search(r"/\\ %s = (TRUE|FALSE)" % k, tail)
        if mm:
            flags[k] = mm.group(1) == "TRUE"
    return m.group(1), flags


# ---------------------------------------------------------------- TLC trace validation with a private copy of the spec dir
import shutil
import subprocess
import tempfile

TLA_CP = "/opt/veriftools/tla/tla2tools.jar:/opt/veriftools/tla/CommunityModules-deps.jar"


def validate_events(work, verif, events, invariants, timeout=900):
    """Validate one (possibly concatenated) trace against TraceClusterHook.tla.
    Returns dict(accepted, matched, total, inv, flags, out)."""
    d = tempfile.mkdtemp(prefix="tv-", dir=work)
    try:
        for fn in ("ClusterHook.tla", "TraceClusterHook.tla"):
            shutil.copy(os.path.join(verif, "spec", fn), d)
        os.makedirs(os.path.join(d, "cfg"))
        with open(os.path.join(d, "trace.ndjson"), "w") as f:
            for e in events:
                f.write(json.dumps(e) + "\n")
        write_trace_cfg(os.path.join(d, "cfg", "t.cfg"), events, invariants)
        cmd = ["java", "-XX:+UseParallelGC", "-Xss256m", "-Xmx2g", "-Dtlc2.tool.queue.IStateQueue=StateDeque", "-cp", TLA_CP,
               "tlc2.TLC", "-workers", "1", "-metadir", os.path.join(d, "md"), "-config", "cfg/t.cfg", "-deadlock",
               "-noGenerateSpecTE", "TraceClusterHook.tla"]
        try:
            p = subprocess.run(cmd, cwd=d, stdout=subprocess.PIPE, stderr=subprocess.STDOUT, text=True, timeout=timeout)
        except subprocess.TimeoutExpired:
            return {"accepted": False, "timeout": True, "matched": -1, "total": len(events), "inv": None, "flags": {}, "out": ""}
        out = p.stdout
        m = [int(x) for x in re.findall(r"TRACE_MATCHED (\d+)", out)]
        matched = max(m) if m else 0
        inv, flags = parse_violation(out)
        tlc_error = ("Error:" in out) and inv is None
        return {"accepted": p.returncode == 0 and matched == len(events) and inv is None and not tlc_error,
                "matched": matched, "total": len(events), "inv": inv, "flags": flags, "out": out, "tlc_error": tlc_error,
                "timeout": False}
    finally:
        shutil.rmtree(d, ignore_errors=True)


# ---------------------------------------------------------------- bounded engine processes
PER_PROCESS = 8      # cases per engine process (each case opens fresh repositories / SQL engines; see lead's note)


def chunks(ctx_mod, cases, per_process=PER_PROCESS):
    """Split cases so that one run_engine call gives every shard at most per_process cases."""
    n = max(1, ctx_mod.max_shards() if hasattr(ctx_mod, "max_shards") else 4)
    n = min(n, 4)
    size = n * per_process
    return [cases[i:i + size] for i in range(0, len(cases), size)], n
