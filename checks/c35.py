"""C35 - push, pull, fetch and clone transfer complete and consistent data.  Spec: spec/Remote.tla.  Engine: harness/remote.

1. TLC exhaustive (bounded): the transfer PROCESS of two clients against one remote (walk with HasMany pruning, files one by
   one, ONE AddTableFilesToManifest with its reference check, ref read + ancestor check, update loop with the root CAS,
   remote-tracking ref; interruptible at every step; concurrent pushers) and the STATEMENT level (push / force / tags /
   delete, fetch + follow-tags, pull, clone): invariants StoresClosed, AllRefsValid, TransferredRefClosed,
   DestEqualsSourceOnClosure, FFPushNeverRemovesCommits, AtMostOnePushWinsPerOldHead, InterruptedTransferLeavesRefsValid.
2. Non-vacuity: the same invariants must be VIOLATED on the broken designs (ref update before AddTableFiles, files added
   to the manifest one by one, update loop without the head comparison, HasMany pruning on a sink that is not closed).
3. Conformance R: statement-level behaviours (TLC simulation) replayed as SQL on real repositories over file:// and over an
   in-process remotesrv; refs of every store and the closure + bytes of every ref's target compared after every step.
4. Conformance G + faults: process-level behaviours replayed with the pushers' destination store wrapped (gates at
   AddTableFilesToManifest / Commit, injected failure of the k-th WriteTableFile / AddTableFiles / Commit), tiny table files.
"""
import copy
import hashlib
import importlib.util
import json
import os

import vlib

LEVEL = "model_checking"

_spec = importlib.util.spec_from_file_location("_bl", os.path.join(os.path.dirname(__file__), "_bl.py"))
_bl = importlib.util.module_from_spec(_spec)
_spec.loader.exec_module(_bl)

# (config of the broken variant, invariant that TLC must report violated)
BROKEN = [("c35_bad_refbeforeadd.cfg", "AllRefsValid"), ("c35_bad_refbeforeadd2.cfg", "TransferredRefClosed"),
          ("c35_bad_interrupt.cfg", "InterruptedTransferLeavesRefsValid"), ("c35_bad_onebyone.cfg", "AllRefsValid"),
          ("c35_bad_onebyone2.cfg", "StoresClosed"), ("c35_bad_nocas.cfg", "AtMostOnePushWinsPerOldHead"),
          ("c35_bad_nocas2.cfg", "FFPushNeverRemovesCommits"), ("c35_bad_losechunk.cfg", "TransferredRefClosed"),
          ("c35_bad_losechunk2.cfg", "DestEqualsSourceOnClosure")]

STMT_BINDINGS_Q = [{"backend": "file"}, {"backend": "file", "filler": 60, "paysz": 300}, {"backend": "http"},
                   {"backend": "http", "filler": 40, "paysz": 200, "httpflt": "post1"}, {"backend": "http", "httpflt": "get1"}]
STMT_BINDINGS_T = STMT_BINDINGS_Q + [{"backend": "file", "filler": 400, "paysz": 600}, {"backend": "http", "filler": 300, "paysz": 500}]
GATE_BINDINGS_Q = [{"backend": "file", "tfsz": 0, "sweep": 2}, {"backend": "file", "filler": 60, "paysz": 300, "tfsz": 4096, "sweep": 4},
                   {"backend": "http", "tfsz": 0, "sweep": 2}, {"backend": "http", "filler": 40, "paysz": 200, "tfsz": 8192, "sweep": 3}]
GATE_BINDINGS_T = GATE_BINDINGS_Q + [{"backend": "file", "filler": 300, "paysz": 500, "tfsz": 4096, "sweep": 64},
                                     {"backend": "http", "filler": 200, "paysz": 400, "tfsz": 16384, "sweep": 24}]


def mk_cases(behaviours, bindings, kind):
    return [{"steps": b, "binding": bindings[i % len(bindings)], "init": ["a", "b"], "kind": kind, "key": bindings[i % len(bindings)]}
            for i, b in enumerate(behaviours)]


MIDWAY = {"TUpload", "TAddFiles", "TRefRead", "TEdit", "TCas", "TFRef"}


def trim(b):
    """a process-level behaviour is cut by TLC at depth D, possibly in the middle of a client's run between two gates (the real
    goroutine would run on by itself): drop the tail back to a step after which the acting client is idle"""
    b = list(b)
    while b:
        s = b[-1]
        mid = (s["a"] in MIDWAY and s["res"] not in ("mergeneeded", "err:refcheck")) or (s["a"] in ("TPush", "TPushForce", "TFetch") and s["res"] == "started")
        if not mid:
            break
        b.pop()
    return b


def critical(c, r):
    """non-trivial behaviour: a transfer met a divergent / partially shared history or a schedule / fault that matters"""
    k = r.get("crit") or {}
    return bool(k.get("rejected") or k.get("race") or k.get("interrupt") or k.get("faultpoints") or k.get("pullmerge") or k.get("clone")
                or k.get("httpfault"))


def replay(ctx, binary, cases, timeout=3600):
    """like vlib.replay_behaviours, but failures of the harness itself (setup, gate timeouts) are inconclusive, never violations"""
    # memory stays bounded: at most 4 engine processes at a time, each replaced after ~10 cases
    res = []
    for i in range(0, len(cases), 40):
        part = cases[i:i + 40]
        res += ctx.run_engine(binary, [], part, shards=min(4, max(1, len(part) // 4)), timeout=timeout)
        for j, c in enumerate(cases):
            c["n"] = j
    bad, harness = [], []
    for c, r in zip(cases, res):
        if r.get("skipped"):
            continue
        ctx.cov["evaluations"] += int(r.get("evals", 0))
        if r.get("ok"):
            ctx.cov["traces_validated_against_impl"] += 1
            key = hashlib.sha1(json.dumps([[s["a"], s["p"], s["res"]] for s in c["steps"]]).encode() + json.dumps(c["key"], sort_keys=True).encode()).hexdigest()
            if critical(c, r):
                ctx.nontrivial(key)
                ctx.sample({"actions": [s["a"] + ":" + s["p"] + ":" + s["res"] for s in c["steps"]], "binding": c["binding"],
                            "result": {k: v for k, v in r.items() if k in ("evals", "crit", "commits", "chunks", "reopened")}})
            for k, v in (r.get("crit") or {}).items():
                ctx.cov.setdefault("critical_steps", {})
                ctx.cov["critical_steps"][k] = ctx.cov["critical_steps"].get(k, 0) + v
        else:
            bad.append((c, r))
    skipped = sum(1 for r in res if r.get("skipped"))
    for c, r in bad[:8]:
        r2 = ctx.run_engine(binary, [], [dict(c)], shards=1, timeout=timeout)[0]
        if r2.get("ok"):
            ctx.notes.append("unreproduced mismatch (ignored): " + json.dumps(r)[:400])
            continue
        if r2.get("harness") or r2.get("setup") or r2.get("crash"):
            harness.append(r2)
            continue
        ctx.violation("C35:" + str(r2.get("fp")), r2.get("detail") or json.dumps(r2)[:1500], {"case": c, "result": r2, "reproduced": True})
    if harness and not ctx.violations:
        raise vlib.Inconclusive("engine-side failure (not a verdict): " + json.dumps(harness[0])[:1500])
    if skipped and not bad:
        raise vlib.Inconclusive("%d cases skipped without a failing case" % skipped)
    return res


def run(ctx):
    binary = ctx.build_engine("remote")
    if ctx.replay:
        rp = json.load(open(ctx.replay))
        res = ctx.run_engine(binary, [], [rp["case"]], shards=1)[0]
        print(json.dumps(res, indent=1)[:4000])
        if not res.get("ok") and not (res.get("harness") or res.get("setup")):
            ctx.violation("C35:" + str(res.get("fp")), res.get("detail", ""), {"case": rp["case"], "result": res, "reproduced": True})
        return
    q = ctx.q
    # 1. exhaustive
    for cfg in q(["c35_proto_q1.cfg", "c35_proto_q2.cfg", "c35_stmt_quick.cfg", "c35_stmt_quick2.cfg"],
                 ["c35_proto_t1.cfg", "c35_proto_t2.cfg", "c35_stmt_quick.cfg", "c35_stmt_quick2.cfg"]):
        ctx.tlc_check("Remote.tla", cfg, timeout=q(2400, 7200))
    # 2. non-vacuity on broken designs
    if os.environ.get("VERIF_DEV_SKIP_TLC") != "1":
        nv = _bl.run_parallel([(lambda c=c, i=i: _bl.tlc_expect_violation(ctx, "Remote.tla", c, i)) for c, i in BROKEN], maxpar=3)
        ctx.cov["broken_variants_rejected"] = nv
    # 3. + 4. behaviours
    sb = ctx.tlc_behaviours("Remote.tla", "c35_stmt_sim.cfg", num=q(14, 60), depth=18)
    # the pusher's handle on a file remote is its own NomsBlockStore (its cached root is refreshed by AddTableFilesToManifest), on an
    # http remote a gRPC client (it is not): two generator configs (constant RefreshModes)
    gb = [t for t in (trim(b) for b in ctx.tlc_behaviours("Remote.tla", "c35_gate_sim.cfg", num=q(24, 120), depth=36, seed=ctx.seed + 500)) if len(t) >= 8]
    gh = [t for t in (trim(b) for b in ctx.tlc_behaviours("Remote.tla", "c35_gatehttp_sim.cfg", num=q(16, 80), depth=36, seed=ctx.seed + 900)) if len(t) >= 8]
    # two clients that only commit, pull and push one branch: the schedules in which pushes overlap
    gb += [t for t in (trim(b) for b in ctx.tlc_behaviours("Remote.tla", "c35_race_sim.cfg", num=q(16, 100), depth=32, seed=ctx.seed + 1300)) if len(t) >= 8]
    gh += [t for t in (trim(b) for b in ctx.tlc_behaviours("Remote.tla", "c35_racehttp_sim.cfg", num=q(12, 70), depth=32, seed=ctx.seed + 1700)) if len(t) >= 8]
    hs, hg = _bl.histogram(sb), _bl.histogram(gb + gh)
    ctx.cov["action_histogram"] = {"stmt": hs, "gate": hg}
    need = ["Push:ok", "Push:rejected", "PushForce:ok", "Fetch:ok", "Pull:ff", "Pull:merge", "Clone:ok", "PushTag:ok"]
    needg = ["TCas:ok", "TCas:retry", "TInterrupt:interrupted", "TAddFiles:ok", "TFTags:ok", "TTrack:ok"]
    miss = [a for a in need if not hs.get(a)] + [a for a in needg if not hg.get(a)]
    if miss:
        raise vlib.Inconclusive("generator did not produce the actions %s" % miss)
    scases = mk_cases(sb, q(STMT_BINDINGS_Q, STMT_BINDINGS_T), "stmt")
    gbind = q(GATE_BINDINGS_Q, GATE_BINDINGS_T)
    gcases = mk_cases(gb, [b for b in gbind if b["backend"] == "file"], "gate") + mk_cases(gh, [b for b in gbind if b["backend"] == "http"], "gate")
    ctx.cov["rule"] = ("behaviours = TLC simulation of Remote.tla: statement level (every dolt_* call of 2-3 clients and one remote, file:// and "
                       "remotesrv backends) and process level (two transferring clients scheduled at the AddTableFilesToManifest / Commit "
                       "gates of a wrapper around the destination store, interruptions injected at WriteTableFile k / AddTableFiles / Commit); "
                       "after every step refs of every store + closure and bytes of every ref target + SQL rows AS OF the ref are compared; "
                       "evaluations = individual comparisons; non-trivial = behaviour with a rejected push, a lost CAS / merge-needed race, an "
                       "interruption (each real file boundary tried counts as a fault point), a merging pull, a clone or an injected HTTP fault; "
                       "distinct by action sequence and binding")
    ctx.assumptions += ["rows of different commits never conflict (every commit inserts its own key): pull merges are conflict-free",
                        "the walk of one transfer is atomic w.r.t. the other client's AddTableFilesToManifest (HasMany answers are taken at the start)",
                        "an interruption is the failure of the next destination-mutating call of the transferring process; torn writes inside one "
                        "table file or manifest are C03/C05 territory",
                        "file remotes ignore the remote's working set (PushConcurrencyControl_IgnoreWorkingSet); the AssertWorkingSet mode is not driven"]

    def corrupt(c):
        # the remote's main points one commit further in the expectation of the last step that has r's refs
        for s in reversed(c["steps"]):
            st = s["exp"]["st"]["r"]
            if isinstance(st["head"], dict) and "main" in st["head"]:
                st["head"]["main"] = st["head"]["main"] + 1 if st["head"]["main"] < len(s["exp"]["cm"]) else st["head"]["main"] - 1
                break
        return c
    ctx.binding_selftest(binary, scases[0], corrupt)
    st1 = ctx.cov.get("binding_selftest")

    def dropcas(c):
        # one scheduled step (the release of a pusher from its Commit gate) is dropped from the behaviour
        i = next(i for i, s in enumerate(c["steps"]) if s["a"] == "TCas")
        del c["steps"][i]
        return c
    gsel = [c for c in gcases if any(s["a"] == "TCas" for s in c["steps"][:-1])]
    if gsel:
        ctx.binding_selftest(binary, gsel[0], dropcas)
        ctx.cov["binding_selftest"] = [st1, ctx.cov.get("binding_selftest")]
    replay(ctx, binary, scases + gcases)
