"""Helpers shared by checks C22, C23, C28 (engine E8 "txn": harness/txn; specs Txn.tla, AutoInc.tla, TraceTxn.tla,
TraceAutoInc.tla).  R mode = statement-granular replay of TLC behaviours; T mode = ungated goroutine stress whose
call/ret event log is validated by a Trace spec."""
import copy
import json
import os
import re
import shutil
import subprocess
import sys
import tempfile
import time

sys.path.insert(0, os.path.join(os.path.dirname(os.path.dirname(os.path.abspath(__file__))), "lib"))
import vlib  # noqa: E402

TXN_CONSTS = {"quick": {"NC": 2, "Rows": [1, 2], "Branches": ["main", "b1"], "Main": "main", "UniqueCols": []},
              "thorough": {"NC": 2, "Rows": [1, 2, 3], "Branches": ["main", "b1"], "Main": "main", "UniqueCols": []}}
# bindings: column type, whether model value 0 is SQL NULL, number of filler rows around the model rows (tree depth)
BINDINGS = {"quick": [{"type": "int", "null0": False, "filler": 0}, {"type": "varchar", "null0": True, "filler": 40},
                      {"type": "int", "null0": True, "filler": 400}],
            "thorough": [{"type": "int", "null0": False, "filler": 0}, {"type": "varchar", "null0": True, "filler": 40},
                         {"type": "int", "null0": True, "filler": 400}, {"type": "bigtext", "null0": False, "filler": 60},
                         {"type": "varchar", "null0": False, "filler": 3000}]}
AI_CONSTS = {"spec": "AutoInc", "Branches": ["main", "b1"], "Main": "main", "Tables": ["u", "v"]}
AI_IDTYPES = ["int", "bigint", "int unsigned", "bigint unsigned"]


TOUR_CONSTS = {"NC": 1, "Rows": [1], "Branches": ["main", "b1"], "Main": "main", "UniqueCols": []}


def txn_cases(ctx, behaviours, family, consts=None):
    cs = []
    k = consts or TXN_CONSTS[ctx.tier]
    b = BINDINGS[ctx.tier]
    for i, beh in enumerate(behaviours):
        c = dict(k)
        c["steps"] = beh
        c["binding"] = dict(b[i % len(b)], seed=ctx.seed * 101 + i % 7)
        c["key"] = [family, c["binding"]["type"], c["binding"]["filler"]]
        cs.append(c)
    return cs


def ai_cases(ctx, behaviours):
    cs = []
    for i, beh in enumerate(behaviours):
        c = dict(AI_CONSTS)
        c["steps"] = beh
        c["binding"] = {"idtype": AI_IDTYPES[i % len(AI_IDTYPES)]}
        c["key"] = ["autoinc", c["binding"]["idtype"]]
        cs.append(c)
    return cs


def drop_prefixes(behaviours):
    """TLC's Emit constraint prints a behaviour when it reaches length D and again one step later: keep the longer one."""
    best = {}
    n = min(len(x) for x in behaviours)
    for b in behaviours:
        k = json.dumps(b[:n], sort_keys=True)
        if k not in best or len(b) > len(best[k]):
            best[k] = b
    return list(best.values())


def drop_proper_prefixes(behaviours):
    """Remove a behaviour when a longer emitted behaviour starts with it (replaying the longer one replays it too)."""
    keys = {}
    for b in behaviours:
        keys[json.dumps(b, sort_keys=True)] = b
    pre = set()
    for b in behaviours:
        for k in range(1, len(b)):
            pre.add(json.dumps(b[:k], sort_keys=True))
    return [b for k, b in keys.items() if k not in pre]


def tour_behaviours(ctx, module, cfg, seed=None, timeout=900, workers=None):
    """Breadth-first TLC run of a bounded config whose CONSTRAINT (EmitTour) prints ToJson(hist) for sampled transitions of
    the targeted class.  Returns the emitted behaviours (shortest paths), without those that are prefixes of others."""
    d = ctx._spec_dir()
    md = tempfile.mkdtemp(prefix="md-", dir=ctx.work)
    seed = ctx.seed if seed is None else seed
    cmd = ["java", "-XX:+UseParallelGC", "-Xss256m", "-Xmx6g", "-cp", vlib.TLA_CP, "tlc2.TLC", "-workers", str(workers or min(vlib.NCPU, 8)),
           "-metadir", md, "-config", os.path.join("cfg", cfg), "-deadlock", "-noGenerateSpecTE", "-seed", str(seed * 7919 + 13), module]
    t = time.time()
    try:
        rc, out = vlib.sh(cmd, cwd=d, timeout=timeout)
    except subprocess.TimeoutExpired:
        raise vlib.Inconclusive("TLC timeout on tour %s/%s" % (module, cfg))
    finally:
        shutil.rmtree(md, ignore_errors=True)
    if "Model checking completed. No error has been found." not in out:
        raise vlib.Inconclusive("TLC tour %s/%s did not complete:\n%s" % (module, cfg, out[-2000:]))
    beh = []
    for line in out.splitlines():
        if line.startswith('"['):
            try:
                beh.append(json.loads(json.loads(line)))
            except Exception:
                continue
    if not beh:
        raise vlib.Inconclusive("TLC tour %s/%s emitted no behaviour" % (module, cfg))
    res = drop_proper_prefixes(beh)
    ctx.log("TLC tour %s/%s: %d behaviours emitted, %d after dropping prefixes (%.1fs)" % (module, cfg, len(beh), len(res), time.time() - t))
    return res


def replay_chunked(ctx, binary, cases, chunk=40, **kw):
    """ctx.replay_behaviours in chunks of `chunk` cases on 4 engine processes: an opened repo + SQL engine keeps ~20 MB
    after Close(), so every engine process is recycled after about ten cases."""
    out = []
    for i in range(0, len(cases), chunk):
        out += ctx.replay_behaviours(binary, cases[i:i + chunk], shards=4, **kw)
    return out


def action_histogram(behaviours):
    h = {}
    for b in behaviours:
        for st in b:
            h[st["a"]] = h.get(st["a"], 0) + 1
    return h


def require_actions(behaviours, needed, what, ctx=None):
    """Vacuity guard of the random generator. Every listed action is also covered by the exhaustive TLC configs, so a
    few missing kinds in one sample are recorded as a note; a generator that misses half of them is broken (exit 2)."""
    h = action_histogram(behaviours)
    missing = [a for a in needed if h.get(a, 0) == 0]
    if missing and (ctx is None or 2 * len(missing) >= len(needed)):
        raise vlib.Inconclusive("generator vacuity (%s): actions never generated: %s" % (what, missing))
    if missing:
        ctx.notes.append("generator sample '%s' contains no %s (covered by the exhaustive configs only in this run)" % (what, ", ".join(missing)))
    return h


def corrupt_last_store(c):
    """Binding self-test for R mode: change one persisted cell / id in the last step's expectation."""
    st = c["steps"][-1]["exp"]["store"]
    b = sorted(st.keys())[0]
    v = st[b]
    if "w" in v:  # Txn: rows of the working root
        if v["w"]:
            v["w"][0][1] = (v["w"][0][1] + 1) % 3
        else:
            v["w"].append([1, 0, 0])
    else:  # AutoInc: ids per table
        t = sorted(v.keys())[0]
        if v[t]:
            v[t][-1] += 1
        else:
            v[t].append(1)
    return c


def handle_replay(ctx, pid, binary):
    """--replay <file>: re-drive a saved behaviour, or re-validate a saved trace."""
    rp = json.load(open(ctx.replay))
    if "case" in rp:
        env = {"VERIF_ONLY": pid.lower()}
        res = ctx.run_engine(binary, ["replay"], [rp["case"]], shards=1, env=env)[0]
        print(json.dumps({k: v for k, v in res.items() if k != "trace"}, indent=1)[:6000])
        for sf in res.get("soft") or []:
            ctx.violation(pid + ":" + str(sf.get("fp")), sf.get("detail", ""), {"case": rp["case"], "result": sf, "reproduced": True})
        if not res.get("ok"):
            ctx.violation(pid + ":" + str(res.get("fp", "mismatch")), res.get("detail", ""), {"case": rp["case"], "result": res, "reproduced": True})
    elif "trace" in rp:
        acc, matched, total, out = validate_events(ctx, rp["module"], rp["cfg"], rp["trace"])
        print("trace accepted=%s matched=%d of %d" % (acc, matched, total))
        if not acc:
            ctx.violation(rp.get("fingerprint", pid + ":trace-rejected"), "recorded trace is not a behaviour of %s (first %d of %d events explained)" %
                          (rp["module"], matched, total), rp)
    else:
        raise vlib.Inconclusive("unrecognised replay file")


def tlc_expect_violation(ctx, module, cfg, invariant, timeout=1800):
    """Negative control of the model: TLC must report a violation of `invariant` on this (deliberately broken) config."""
    d = ctx._spec_dir()
    md = tempfile.mkdtemp(prefix="md-", dir=ctx.work)
    cmd = ["java", "-XX:+UseParallelGC", "-Xss256m", "-Xmx4g", "-cp", vlib.TLA_CP, "tlc2.TLC", "-workers", "4", "-metadir", md,
           "-config", os.path.join("cfg", cfg), "-deadlock", "-noGenerateSpecTE", module]
    t = time.time()
    try:
        rc, out = vlib.sh(cmd, cwd=d, timeout=timeout)
    except subprocess.TimeoutExpired:
        raise vlib.Inconclusive("TLC timeout on negative control %s/%s" % (module, cfg))
    finally:
        shutil.rmtree(md, ignore_errors=True)
    if not re.search(r"(Invariant|Action property) %s is violated" % re.escape(invariant), out):
        raise vlib.Inconclusive("negative control %s/%s: TLC did not report a violation of %s (the invariant may be vacuous):\n%s" %
                                (module, cfg, invariant, out[-1500:]))
    ctx.log("negative control %s/%s: %s violated as required (%.1fs)" % (module, cfg, invariant, time.time() - t))
    ctx.cov.setdefault("negative_controls", []).append({"module": module, "cfg": cfg, "violated": invariant})


# ------------------------------------------------------------------------------------------------ T mode
def split_traces(events):
    out, cur = [], None
    for e in events:
        if e.get("ev") == "reset":
            cur = []
            out.append(cur)
        cur.append(e)
    return out


def index_returns(events):
    """Every call event gets "ri" = 1-based position (in this event list) of the next ret event of the same session.
    Mechanical: derived from the log alone; it spares the Trace spec a linear search per linearization attempt."""
    out = [dict(e) for e in events]
    pending = {}
    for i, e in enumerate(out):
        if e.get("ev") == "call":
            pending[e["s"]] = e
            e["ri"] = 0
        elif e.get("ev") == "ret" and e["s"] in pending:
            pending.pop(e["s"])["ri"] = i + 1
    return out


def validate_events(ctx, module, cfg, events, timeout=3600):
    p = os.path.join(ctx.work, "trace-%d.ndjson" % len(os.listdir(ctx.work)))
    with open(p, "w") as f:
        for e in index_returns(events):
            f.write(json.dumps(e) + "\n")
    return ctx.tlc_trace_validate(module, cfg, p, timeout=timeout)


def stress_validate(ctx, pid, binary, cases, module, cfg, batch_events=2500, corrupt=None, nontrivial=None):
    """Run the stress workload cases (real concurrency), validate every recorded trace with the Trace spec.
    A rejected batch is bisected to the trace, which is validated again on its own; only then it is reported."""
    res = ctx.run_engine(binary, ["stress"], cases, shards=min(4, len(cases)))
    traces = []
    for c, r in zip(cases, res):
        if r.get("skipped"):
            continue
        if not r.get("ok"):
            if r.get("inconclusive"):
                raise vlib.Inconclusive("stress workload could not be set up: " + str(r.get("detail"))[:500])
            # a statement failed / the engine panicked under concurrency: re-run once
            r2 = ctx.run_engine(binary, ["stress"], [dict(c)], shards=1)[0]
            if r2.get("ok"):
                ctx.notes.append("unreproduced stress failure (ignored): " + str(r.get("detail"))[:300])
                r = r2
            else:
                ctx.violation(pid + ":" + str(r2.get("fp")), str(r2.get("detail"))[:3000], {"case": c, "result": {k: v for k, v in r2.items() if k != "trace"}, "reproduced": True})
                continue
        traces.append((c, r["trace"]))
    if not traces:
        raise vlib.Inconclusive("no stress trace recorded")
    # binding self-test: a corrupted trace must be rejected
    if corrupt is not None:
        bad = corrupt(copy.deepcopy(traces[0][1]))
        acc, matched, total, _ = validate_events(ctx, module, cfg, bad)
        if acc:
            raise vlib.Inconclusive("trace binding self-test failed: %s accepted a corrupted trace" % module)
        ctx.cov["trace_selftest"] = "corrupted trace rejected at event %d of %d" % (matched + 1, total)
    # batches
    batches, cur, n = [], [], 0
    for c, tr in traces:
        if cur and n + len(tr) > batch_events:
            batches.append(cur)
            cur, n = [], 0
        cur.append((c, tr))
        n += len(tr)
    if cur:
        batches.append(cur)
    accepted = 0
    for b in batches:
        evs = [e for _, tr in b for e in tr]
        acc, matched, total, out = validate_events(ctx, module, cfg, evs)
        if acc:
            accepted += len(b)
            ctx.cov["evaluations"] += total
            for c, tr in b:
                if nontrivial is None or nontrivial(tr):
                    ctx.nontrivial("trace:%s:%s" % (c.get("workload"), c.get("seed")))
            continue
        if matched < 0:
            raise vlib.Inconclusive("trace validation did not run: " + out[-1500:])
        # locate the trace containing event matched+1, validate it alone
        pos = 0
        for c, tr in b:
            if pos + len(tr) > matched:
                acc1, m1, t1, out1 = validate_events(ctx, module, cfg, tr)
                if acc1:
                    ctx.notes.append("trace rejected inside a batch but accepted alone (ignored)")
                    accepted += 1
                else:
                    ev = tr[m1] if 0 <= m1 < len(tr) else {}
                    what = ("recorded concurrent execution is not a behaviour of %s: events 1..%d of %d can be explained, event %d cannot: %s" %
                            (module, m1, t1, m1 + 1, json.dumps(ev)[:400]))
                    fp = "%s:trace:%s:%s" % (pid, c.get("workload"), ev.get("ev", "?") + "/" + str(ev.get("a", ev.get("res", ""))))
                    ctx.violation(fp, what, {"trace": tr, "module": module, "cfg": cfg, "case": c, "first_divergence": {"event": m1 + 1, "observed": ev},
                                             "reproduced": True})
                break
            pos += len(tr)
            accepted += 1
        # the traces after the rejected one in this batch were not reached: validate them separately
        rest = []
        pos = 0
        seen_bad = False
        for c, tr in b:
            if seen_bad:
                rest.append((c, tr))
            elif pos + len(tr) > matched:
                seen_bad = True
            pos += len(tr)
        if rest:
            evs = [e for _, tr in rest for e in tr]
            acc, matched2, total2, _ = validate_events(ctx, module, cfg, evs)
            if acc:
                accepted += len(rest)
                ctx.cov["evaluations"] += total2
            else:
                ctx.notes.append("further rejected traces in the same batch were not bisected")
    ctx.cov["traces_validated_against_impl"] += accepted
    ctx.log("T mode: %d of %d traces accepted by %s" % (accepted, len(traces), module))
    return traces
