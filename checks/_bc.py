"""Helpers of builder bC (C03, C04): running the in-package journal engine, classifying its results, strace -> ndjson."""
import hashlib
import json
import os
import re
import subprocess
import sys

sys.path.insert(0, os.path.join(os.path.dirname(os.path.dirname(os.path.abspath(__file__))), "lib"))
import vlib

TEST = "TestVerifJournal"
JOURNAL = "vvvvvvvvvvvvvvvvvvvvvvvvvvvvvvvv"

# size tables of spec/Journal.tla (SzA/DatA ...) -- the cfg files name them, the engine needs the numbers
TABLES = {"A": {"RecSz": [40, 80, 39], "DataSz": [2, 42, 1]},
          "B": {"RecSz": [40, 80, 39, 120], "DataSz": [2, 42, 1, 81]},
          "C": {"RecSz": [56, 100, 39, 61], "DataSz": [18, 61, 1, 23]}}


def read_cfg(name):
    """constants of a spec/cfg file as the engine's cfg object"""
    txt = open(os.path.join(vlib.VERIF, "spec", "cfg", name)).read()
    out = {}
    for k in ("RootSz", "BufCap", "MemCap", "MaxNovel"):
        out[k] = int(re.search(r"\b%s\s*=\s*(\d+)" % k, txt).group(1))
    t = re.search(r"RecSz\s*<-\s*Sz(\w)", txt).group(1)
    out.update(TABLES[t])
    return out


def make_cases(ctx, behaviours, cfgname, amp, bseeds=3):
    cfg = read_cfg(cfgname)
    cases = []
    for i, b in enumerate(behaviours):
        cases.append({"mode": "replay", "steps": b, "cfg": cfg, "bseed": ctx.seed * 101 + i % bseeds, "amp": amp,
                      "key": hashlib.sha1(json.dumps([s.get("a") for s in b]).encode()).hexdigest()[:12]})
    return cases


def classify(ctx, pid, binary, cases, results, critical, rerun_env=None):
    """Engine results -> verdicts.  fingerprints: '<pid>:...' real-code divergence from the property (re-executed once,
    then violation / known finding); 'internal:...' the spec no longer describes the code's internal protocol
    (inconclusive); 'drift:...' recovery differs from the transcription but satisfies the property (note)."""
    internal = []
    stats = {}
    for c, r in zip(cases, results):
        if r.get("skipped"):
            continue
        for k, v in (r.get("stats") or {}).items():
            stats[k] = stats.get(k, 0) + v
        ctx.cov["evaluations"] += int(r.get("evals", 0))
        for sf in (r.get("soft") or []):
            fp = str(sf.get("fp"))
            if fp.startswith("drift:"):
                n = "refinement drift (property holds): " + sf.get("detail", "")[:300]
                if len([x for x in ctx.notes if x.startswith("refinement drift")]) < 5:
                    ctx.notes.append(n)
                continue
            if fp.startswith("C0") and not fp.startswith(pid + ":"):
                continue  # the other property's subject (C03 <-> C04 share the engine)
            ctx.violation(fp, sf.get("detail", ""), {"case": c, "result": sf, "reproduced": True})
        if r.get("ok"):
            ctx.cov["traces_validated_against_impl"] += 1
            if critical(c, r):
                ctx.nontrivial(c["key"] + "/" + str(c["bseed"]))
                ctx.sample({"actions": [s.get("a") for s in c["steps"]], "binding_seed": c["bseed"], "stats": r.get("stats")})
            continue
        fp = str(r.get("fp") or "")
        if r.get("binding_error") or fp.startswith("internal:"):
            internal.append((c, r))
            continue
        if r.get("crash"):
            raise vlib.Inconclusive("the engine process died or ran into the time limit: " + str(r.get("detail"))[:600])
        # re-execute once, alone
        r2 = ctx.run_engine(binary, [], [dict(c)], shards=1, test_run=TEST, env=rerun_env)[0]
        if r2.get("ok"):
            ctx.notes.append("unreproduced mismatch (ignored): " + json.dumps(r)[:400])
            continue
        fp2 = str(r2.get("fp") or "mismatch")
        if fp2 == "panic":
            fp2 = pid + ":panic"
        if fp2.startswith("internal:"):
            internal.append((c, r2))
            continue
        if not fp2.startswith(pid + ":") and not fp2.startswith("C0"):
            fp2 = pid + ":" + fp2
        ctx.violation(fp2, r2.get("detail") or json.dumps(r2)[:1500], {"case": c, "result": r2, "reproduced": True})
    skipped = sum(1 for r in results if r.get("skipped"))
    if internal and not ctx.violations:
        c, r = internal[0]
        p = ctx.save_replay({"case": c, "result": r, "note": "internal mismatch: the spec/harness does not describe this code; not a verdict"})
        raise vlib.Inconclusive("%d cases: the model's internal protocol (offsets, buffer, index) does not match the code, e.g. %s\n%s\nsaved: %s"
                                % (len(internal), r.get("fp"), (r.get("detail") or "")[:1500], p))
    if skipped and not ctx.violations:
        raise vlib.Inconclusive("%d cases skipped" % skipped)
    return stats


# ---------------------------------------------------------------------------------------------- strace -> events

def unescape(s):
    """C-style string as printed by strace -> bytes"""
    out = bytearray()
    i = 0
    while i < len(s):
        ch = s[i]
        if ch != "\\":
            out.append(ord(ch))
            i += 1
            continue
        i += 1
        ch = s[i]
        if ch in "01234567":
            j = i
            while j < len(s) and j < i + 3 and s[j] in "01234567":
                j += 1
            out.append(int(s[i:j], 8) & 0xff)
            i = j
            continue
        if ch == "x":
            out.append(int(s[i + 1:i + 3], 16))
            i += 3
            continue
        out.append({"n": 10, "t": 9, "r": 13, "v": 11, "f": 12, "\\": 92, '"': 34, "a": 7, "b": 8, "e": 27}.get(ch, ord(ch)))
        i += 1
    return bytes(out)


LINE = re.compile(r"^(\d+)\s+(.*)$")


def parse_strace(path):
    """-> list of cases; case = list of events (dicts).  Lines of other processes/threads are kept in log order; an
    unfinished call is placed where it resumes (completion order)."""
    pending = {}
    calls = []
    for raw in open(path, errors="replace"):
        m = LINE.match(raw.rstrip("\n"))
        if not m:
            continue
        pid, rest = m.group(1), m.group(2)
        if rest.startswith("---") or rest.startswith("+++"):
            continue
        if rest.endswith("<unfinished ...>"):
            pending[pid] = rest[:-len("<unfinished ...>")]
            continue
        mr = re.match(r"<\.\.\. (\w+) resumed>(.*)$", rest)
        if mr:
            rest = pending.pop(pid, mr.group(1) + "(") + mr.group(2)
        calls.append(rest)
    cases = []
    cur = None
    tmp_content = {}
    for c in calls:
        m = re.match(r"(\w+)\((.*)\)\s+=\s+(-?\d+)", c, re.S)
        if not m:
            continue
        name, args, ret = m.group(1), m.group(2).strip(), int(m.group(3))
        if name == "write":
            mm = re.match(r'\d+<([^>]*)>, "((?:[^"\\]|\\.)*)"(\.\.\.)?, \d+', args, re.S)
            if not mm:
                continue
            fpath, data = mm.group(1), unescape(mm.group(2))
            if data.startswith(b"VJ "):
                for ln in data.decode().strip().split("\n"):
                    w = ln.split()
                    if w[1] == "CASE":
                        cur = {"dir": w[2], "ev": []}
                        cases.append(cur)
                    elif cur is not None and w[1] == "OP":
                        a = w[2]
                        e = {"ev": "op", "a": a}
                        if a == "Put":
                            e["c"] = int(w[3])
                        elif a.startswith("Commit"):
                            e["r"], e["l"] = int(w[3]), int(w[4])
                        elif a == "Open":
                            e["idx"] = (w[3] == "true")
                        cur["ev"].append(e)
                    elif cur is not None and w[1] == "ACK":
                        cur["ev"].append({"ev": "ack", "r": int(w[2]), "end": int(w[3])})
                    elif cur is not None and w[1] == "END":
                        cur["ev"].append({"ev": "end"})
                continue
            if "/nbs_manifest_" in fpath:
                tmp_content[fpath] = data
            continue
        if cur is None or ret < 0:
            continue
        d = cur["dir"]
        if name == "pwrite64":
            mm = re.match(r'\d+<([^>]*)>, .*, (\d+), (\d+)$', args, re.S)
            if mm and mm.group(1) == d + "/" + JOURNAL:
                cur["ev"].append({"ev": "pwrite", "off": int(mm.group(3)), "len": int(mm.group(2))})
        elif name in ("fsync", "fdatasync"):
            mm = re.match(r'\d+<([^>]*)>', args)
            if mm and mm.group(1) == d + "/" + JOURNAL:
                cur["ev"].append({"ev": "fsync"})
        elif name == "ftruncate":
            mm = re.match(r'\d+<([^>]*)>, (\d+)', args)
            if mm and mm.group(1) == d + "/" + JOURNAL:
                cur["ev"].append({"ev": "trunc", "len": int(mm.group(2))})
        elif name in ("renameat", "renameat2", "rename"):
            ps = re.findall(r'"((?:[^"\\]|\\.)*)"', args)
            if len(ps) >= 2 and ps[1] == d + "/manifest":
                cur["ev"].append({"ev": "man", "content": tmp_content.get(ps[0], b"").decode(errors="replace")})
    return cases


def manifest_fields(content, addrs):
    f = content.split(":")
    root = f[3] if len(f) > 3 else ""
    rid = 0 if set(root) <= {"0"} else (addrs.index(root) + 1 if root in addrs else -1)
    return rid, JOURNAL in f[5:]


def to_trace(case_events, addrs):
    """events for TraceJournal.tla; ftruncate + the fsync that follows it (processJournalRecords) become one event"""
    out = []
    for e in case_events:
        e = dict(e)
        if e["ev"] == "fsync" and out and out[-1]["ev"] == "trunc" and not out[-1].get("synced"):
            out[-1]["synced"] = True
            continue
        if e["ev"] == "man":
            rid, js = manifest_fields(e.pop("content"), addrs)
            e["root"], e["jspec"] = rid, js
        if e["ev"] == "ack":
            e.pop("end", None)
        out.append(e)
    return out


def ack_after_sync(case_events):
    """The property itself, evaluated on the recorded system calls: when Commit is acknowledged, every byte of the journal
    up to the end of that commit's root record has been written and then fsynced.  -> None or a description."""
    written = 0
    synced = 0
    for k, e in enumerate(case_events):
        if e["ev"] == "pwrite":
            written = max(written, e["off"] + e["len"])
        elif e["ev"] == "fsync":
            synced = written
        elif e["ev"] == "trunc":
            written = min(written, e["len"])
            synced = min(synced, e["len"])
        elif e["ev"] == "ack" and e.get("end", 0) > 0:
            if synced < e["end"]:
                return "event %d: Commit(root %d) acknowledged with journal end %d but only %d bytes written and %d fsynced" % (
                    k, e["r"], e["end"], written, synced)
    return None


def strace_cases(ctx, binary, cases, tag):
    """Run the engine once under strace (one process).  Returns (results, parsed cases)."""
    log = os.path.join(ctx.work, "strace-%s.log" % tag)
    mark = os.path.join(ctx.work, "markers-%s" % tag)
    args = ["-f", "-y", "-s", "2000", "-e", "trace=write,pwrite64,fsync,fdatasync,ftruncate,renameat,renameat2,rename", "-o", log,
            binary, "-test.run", "^" + TEST + "$", "-test.timeout", "0", "-test.count", "1"]
    res = ctx.run_engine("/usr/bin/strace", args, cases, shards=1, env={"VERIF_MARK": mark})
    if not os.path.exists(log):
        raise vlib.Inconclusive("strace produced no log")
    return res, parse_strace(log)
