"""Helpers shared by the checks built by builder bA (C01, C06, C07): engine E1 "chunkstore"
(inpkg/store/nbs/chunkstore), specs ChunkStore.tla and TableFile.tla."""
import collections
import hashlib
import json
import os
import sys

sys.path.insert(0, os.path.join(os.path.dirname(os.path.dirname(os.path.abspath(__file__))), "lib"))
import vlib  # noqa: E402

TEST = "TestVerifChunkstore"


def build(ctx):
    return ctx.build_inpkg("store/nbs", "chunkstore")


def parse_behaviours(out):
    """Behaviours printed by PrintT(ToJson(hist)) in a TLC run (exhaustive or simulation), de-duplicated."""
    seen, res = set(), []
    for line in out.splitlines():
        if line.startswith('"[') or line.startswith('"{'):
            try:
                b = json.loads(json.loads(line))
            except Exception:
                continue
            h = hashlib.sha1(json.dumps(b, sort_keys=True).encode()).hexdigest()
            if h not in seen:
                seen.add(h)
                res.append(b)
    return res


def tlc_enumerate(ctx, module, cfg, timeout=1800, workers=None, record=True):
    """Exhaustive TLC run whose CONSTRAINT prints the behaviours it enumerates; returns (behaviours, tlc result)."""
    res = ctx.tlc_check(module, cfg, timeout=timeout, workers=workers, record=record)
    return parse_behaviours(res["out"]), res


def histogram(behaviours):
    acts, results = collections.Counter(), collections.Counter()
    for b in behaviours:
        for s in b:
            acts[s["a"]] += 1
            if "res" in s:
                results["%s/%s" % (s["a"], s["res"])] += 1
    return acts, results


def require_actions(behaviours, wanted, what):
    acts, _ = histogram(behaviours)
    missing = [a for a in wanted if acts.get(a, 0) == 0]
    if missing:
        raise vlib.Inconclusive("generator vacuity (%s): actions never generated: %s" % (what, missing))
    return acts


# ---------------------------------------------------------------------------------------------- store behaviours

TAB_BACKENDS_Q = ["file", "bsmem", "bslocal", "filemmap"]
MODES = ["collide", "dense", "edge", "random", "collide", "real"]


def has_arch(b):
    return any(isinstance(s.get("args"), dict) and s["args"].get("arch") for s in b)


def store_cases(ctx, behaviours, units, filler_every=0, subsets=0, tab_backends=None):
    """Attach a concrete binding to every behaviour of ChunkStore.tla. Mechanical: backend family from Setup.b,
    prefix-class mode, payload unit and seed rotate with the case number."""
    tabs = tab_backends or TAB_BACKENDS_Q
    cases = []
    for i, b in enumerate(behaviours):
        a0 = b[0]["args"]
        fam = a0["b"]
        be = {"jrnl": "journal", "mem": "mem"}.get(fam) or tabs[i % len(tabs)]
        mode = MODES[(i // 2) % len(MODES)]
        if a0["g"] != "no" and has_arch(b):
            # GenerationalNBS keys its bookkeeping on Chunk.Hash(); archives hand out chunks labelled with the
            # content hash, so forged addresses cannot be used for this combination
            mode = "real"
        unit = units[i % len(units)]
        fill = 0
        if filler_every and i % filler_every == filler_every - 1 and be in ("file", "filemmap") and a0["g"] == "no":
            fill = 1100
        bd = {"seed": ctx.seed * 1000 + i + 1, "mode": mode, "unit": unit, "backend": be, "filler": fill, "subsets": subsets}
        cases.append({"steps": b, "binding": bd, "key": [be, mode, unit, fill]})
    return cases


def fp_of(pid):
    def f(c, r):
        return "%s:%s" % (pid, r.get("fp"))
    return f


def check_hangs(ctx, res):
    for r in res:
        if r.get("hang"):
            raise vlib.Inconclusive("an engine case did not return (hang): " + str(r.get("detail")))


def replay_file(ctx, binary, pid, env):
    rp = json.load(open(ctx.replay))
    case = rp["case"]
    res = ctx.run_engine(binary, [], [case], shards=1, test_run=TEST, env=env)[0]
    print(json.dumps(res, indent=1)[:6000])
    for sf in res.get("soft") or []:
        ctx.violation("%s:%s" % (pid, sf.get("fp")), sf.get("detail", ""), {"case": case, "result": sf, "reproduced": True})
    if not res.get("ok"):
        ctx.violation("%s:%s" % (pid, res.get("fp")), res.get("detail", ""), {"case": case, "result": res, "reproduced": True})
