"""C41 - only one process can write a database directory.  Spec: spec/DirLock.tla.  Engine: inpkg/store/nbs/dirlock.

TLC (exhaustive, 3 processes) checks AtMostOneWriter, SecondOpener, ReadOnlyNeverWrites, OnlyHolderWrites, NoLostCommit, ...
on the model of Open(wait|skip|failfast|skipfailfast)/Read/Write/Close/Crash/CrashMidWrite/DamageIndex/RemoveIndex.
TLC then (a) enumerates EVERY interleaving of fixed per-process programs (scripted configs) and (b) emits random
behaviours (simulation); each is replayed with real OS processes (re-exec'd children of the test binary under strace)
on a real directory, comparing after every step the result, the process modes, the reported root, the visible
chunks, the journal-index warning and the spec's directory record recomputed from the real files, and checking for
read-only processes both the system calls and the before/after content hashes of the directory."""
import importlib.util
import json
import os

LEVEL = "model_checking"
_s = importlib.util.spec_from_file_location("_bp", os.path.join(os.path.dirname(__file__), "_bp.py"))
bp = importlib.util.module_from_spec(_s)
_s.loader.exec_module(bp)
vlib = bp.vlib

TORN = ["partial", "zeros", "badcrc", "hugelen"]
BADIDX = ["garbage", "ahead", "badcrc", "wrongroot"]
BIG = 17000  # > journalIndexDefaultMaxNovel (16384): index batches get flushed / read back


def binding(ctx, i, big_every):
    return {"seed": ctx.seed * 131 + i % 7, "paysz": [40, 1, 3000, 200][i % 4],
            "filler": BIG if big_every and i % big_every == big_every - 1 else [0, 30, 0, 600][(i // 2) % 4],
            "torn": TORN[i % 4], "badidx": BADIDX[(i // 4) % 4]}


def critical(c, r):
    # non-trivial: a read-only process used the store (load / read / refused write) in this behaviour
    return r.get("ro_steps", 0) > 0 and r.get("ro_procs", 0) > 0


def fingerprint(c, r):
    return "C41:" + str(r.get("fp"))


def run(ctx):
    binary = ctx.build_inpkg("store/nbs", "dirlock")
    child = ctx.build_engine("dirlockchild")
    env = {"VERIF_DL_CHILDBIN": child}
    test = "TestVerifDirlock"
    if ctx.replay:
        rp = json.load(open(ctx.replay))
        res = ctx.run_engine(binary, [], [rp["case"]], shards=1, test_run=test, env=env)[0]
        print(json.dumps(res, indent=1)[:4000])
        if res.get("inconclusive"):
            raise vlib.Inconclusive(str(res.get("detail")))
        if not res.get("ok"):
            ctx.violation(fingerprint(rp["case"], res), res.get("detail", ""), {"case": rp["case"], "result": res, "reproduced": True})
        return
    props = ["Open", "Read", "Write", "Close", "Crash", "CrashMidWrite", "DamageIndex", "RemoveIndex"]
    ctx.tlc_check("DirLock.tla", ctx.q("c41_exh_quick.cfg", "c41_exh_thorough.cfg"), coverage=True, require_actions=props)
    # (a) every interleaving of the scripted programs
    progs = ctx.q([("c41_prog_qwait.cfg", None), ("c41_prog_qfail.cfg", None), ("c41_prog_crash.cfg", 40)],
                  [("c41_prog_qwait.cfg", None), ("c41_prog_qfail.cfg", None), ("c41_prog_qskip.cfg", None), ("c41_prog_crash.cfg", 400),
                   ("c41_prog_t.cfg", 240)])
    cases, spaces = [], []
    for cfg, sample in progs:
        r = ctx.tlc_check("DirLock.tla", cfg, workers=4)
        bs = bp.parse_printed_behaviours(r["out"])
        if not bs:
            raise vlib.Inconclusive("no behaviours printed by " + cfg)
        total = len(bs)
        if sample and len(bs) > sample:
            bs = ctx.rng.sample(bs, sample)
        spaces.append("%s: %d of %d interleavings" % (cfg, len(bs), total))
        for b in bs:
            cases.append({"steps": b, "src": cfg})
    # (b) random behaviours of the free model (all options, crashes, index faults)
    beh = ctx.tlc_behaviours("DirLock.tla", ctx.q("c41_sim_quick.cfg", "c41_sim_thorough.cfg"), num=ctx.q(240, 900), depth=ctx.q(12, 18))
    # stratify the sample by what the model says happens: first the behaviours in which a read-only process loads a
    # journal with a bad index / a torn tail (the critical situations of the statement), then the rest
    def ro_load(b, pred):
        return any(st["exp"].get("ro") and st["a"] in ("Read", "Write") and pred(st["exp"]["dir"]) for st in b)
    bad_idx = [b for b in beh if ro_load(b, lambda d: d["idx"] == "bad")]
    torn = [b for b in beh if b not in bad_idx and ro_load(b, lambda d: d["jtorn"])]
    rest = [b for b in beh if b not in bad_idx and b not in torn]
    n_sim = ctx.q(80, 240)
    beh = (bad_idx[:n_sim // 3] + torn[:n_sim // 3] + rest)[:n_sim]
    for b in beh:
        cases.append({"steps": b, "src": "sim"})
    # a second generator with fewer alternatives per state (2 processes, one open option) reaches the index / torn-tail
    # situations far more often; only those behaviours are taken from it
    beh2 = ctx.tlc_behaviours("DirLock.tla", ctx.q("c41_simidx_quick.cfg", "c41_simidx_thorough.cfg"), num=ctx.q(300, 1200), depth=ctx.q(12, 18),
                              seed=ctx.seed + 500)
    bad2 = [b for b in beh2 if ro_load(b, lambda d: d["idx"] == "bad")]
    torn2 = [b for b in beh2 if b not in bad2 and ro_load(b, lambda d: d["jtorn"])]
    for b in bad2[:ctx.q(30, 120)] + torn2[:ctx.q(15, 60)]:
        cases.append({"steps": b, "src": "simidx"})
    hist = {}
    for c in cases:
        for s in c["steps"]:
            hist[s["a"]] = hist.get(s["a"], 0) + 1
    for a in props:
        if not hist.get(a):
            raise vlib.Inconclusive("action %s never occurs in the replayed behaviours" % a)
    for i, c in enumerate(cases):
        c["binding"] = binding(ctx, i, ctx.q(19, 17))
        c["key"] = c["binding"]
    ctx.cov["action_histogram"] = hist
    ctx.cov["scripted_spaces"] = spaces
    ctx.cov["exhaustive"] = all(s is None for _, s in progs)
    ctx.cov["space"] = "every interleaving of the per-process programs of the scripted configs listed in scripted_spaces (exhaustive only where 'n of n'); the simulated behaviours are a sample"
    ctx.cov["rule"] = ("behaviours = all interleavings of fixed programs (2 processes x Open;Write;Read;Close with wait/skip/failfast second openers; "
                       "holder dies mid-append while two others read/take over; thorough: 3 processes x Open;Write;Close) enumerated by TLC, plus TLC simulation of the free model "
                       "(Crash, CrashMidWrite, DamageIndex, RemoveIndex, all four open options); each replayed with real OS processes, every step compared. "
                       "non-trivial = a read-only process performed at least one store access in the behaviour; distinct by action sequence + binding")
    ctx.assumptions += ["processes are driven one command at a time (the order TLC chose); truly simultaneous flock races are the kernel's business",
                        "a read-only opener opening the journal O_RDWR and fsync-ing it without writing is not counted as a modification (recorded as a note)",
                        "store level (nbs.NewLocalJournalingStoreWithOptions); dbfactory's oldgen/ scaffolding is not driven"]

    def corrupt(c):
        st = c["steps"][-1]
        st["exp"]["dir"]["jroots"] = int(st["exp"]["dir"]["jroots"]) + 1
        return c
    good = next(c for c in cases if c["src"] != "sim")
    ctx.binding_selftest(binary, good, corrupt, test_run=test, env=env)

    def corrupt2(c):
        for st in c["steps"]:
            if st["a"] == "Open" and st["exp"]["res"] == "ro":
                st["exp"]["res"] = "rw"
                st["exp"]["modes"][st["p"]] = "rw"
                return c
        return corrupt(c)
    good2 = next((c for c in cases if any(s["a"] == "Open" and s["exp"]["res"] == "ro" for s in c["steps"])), good)
    ctx.binding_selftest(binary, good2, corrupt2, test_run=test, env=env)

    res = bp.replay(ctx, binary, cases, test, critical=critical, fingerprint=fingerprint, shards=ctx.q(8, 12), env=env, timeout=ctx.q(6 * 3600, 12 * 3600),
                    key=lambda c: [[s.get("a"), s.get("p")] for s in c["steps"]] + [c["binding"]])
    ok = [r for r in res if r.get("ok")]
    ctx.cov["read_only_process_steps_checked"] = sum(r.get("ro_steps", 0) for r in ok)
    ctx.cov["read_only_process_epochs_straced"] = sum(r.get("ro_procs", 0) for r in ok)
    ctx.cov["syscall_log_lines_of_read_only_processes"] = sum(r.get("strace_lines", 0) for r in ok)
    ctx.cov["behaviours_with_read_only_load_of_torn_journal"] = sum(1 for r in ok if r.get("ro_torn"))
    ctx.cov["behaviours_with_read_only_load_of_bad_index"] = sum(1 for r in ok if r.get("ro_badidx"))
    ctx.cov["behaviours_with_read_only_load_of_big_journal"] = sum(1 for r in ok if r.get("ro_big"))
    seen = set()
    for r in ok:
        for n in (r.get("notes") or []):
            if n not in seen and len(seen) < 10:
                seen.add(n)
                ctx.notes.append(n)
    if not ctx.violations:
        for k in ("behaviours_with_read_only_load_of_torn_journal", "behaviours_with_read_only_load_of_bad_index",
                  "behaviours_with_read_only_load_of_big_journal"):
            if ctx.cov[k] == 0:
                raise vlib.Inconclusive("vacuity: " + k + " = 0")
