"""C43 - conflict tables and conflict resolution are exact.  Spec: spec/RowMerge.tla (ConfRec, ResolveOurs, ResolveTheirs,
ResolveKey, Abort, CommitMerge; invariant part ResolveExact of KeyedProps).  Engine: harness/rowmerge (modes keyed, keyless).

For every conflicted merge produced by the C29 triple space (plus schema-delta triples, random histories and keyless bags),
in both merge directions, three fresh merges are driven through three paths:
  ours    CALL dolt_conflicts_resolve('--ours', t)   -> rows = ResolveOurs,  no conflicts, dolt_commit succeeds, rows again
  theirs  CALL dolt_conflicts_resolve('--theirs', t) -> rows = ResolveTheirs (conflicted keys take their row, deleted when
          they have none, every other row untouched); refused with the documented error when their schema differs
  manual  conflicts resolved one key at a time through SQL on dolt_conflicts_<t> (UPDATE our_* columns, REPLACE ... SELECT
          their_* / base_*, DELETE of the conflict row): after every step the table and the REMAINING conflict rows (base /
          current ours / theirs, diff types) must equal the model; then CALL dolt_merge('--abort') restores our table.
Before any path the conflict tables are compared with ConfRec (base, ours, theirs values and diff types, num_conflicts)."""
import importlib.util
import os

LEVEL = "model_checking"
_s = importlib.util.spec_from_file_location("_bh", os.path.join(os.path.dirname(os.path.abspath(__file__)), "_bh.py"))
bh = importlib.util.module_from_spec(_s)
_s.loader.exec_module(bh)

PATHS = ["ours", "theirs", "manual"]
KPATHS = ["ours", "theirs", "manualk"]


def corrupt(bc):
    # change their value in the first expected conflict record of the first direction
    cf = bc["subs"][0]["case"]["m"][0]["conf"][0]
    side = "theirs" if cf["theirs"] else "base"
    r = cf[side]
    i = 0 if r[0] != -1 else 1
    r[i] = 1 if r[i] != 1 else 2
    return bc


def conflicted(c):
    return bool(c["m"][0]["conf"]) or bool(c["m"][1]["conf"])


def run(ctx):
    binary = ctx.build_engine("rowmerge")
    if ctx.replay:
        bh.replay(ctx, binary)
        return
    q = ctx.tier == "quick"
    ctx.tlc_check(bh.MODULE, ctx.q("c29_exh_quick.cfg", "c29_exh_full.cfg"))
    if ctx.tier == "quick":
        ctx.tlc_check(bh.MODULE, "c29_exh_sm_q.cfg")
    ctx.tlc_check(bh.MODULE, ctx.q("c29_exh_delta1_q.cfg", "c29_exh_delta1.cfg"))
    ctx.tlc_check(bh.MODULE, "c27_exh.cfg")
    tri = bh.gen_triples(ctx, ctx.q("c29_gen_triples_q.cfg", "c29_gen_triples.cfg"))
    tri0 = bh.gen_triples(ctx, ctx.q("c29_gen_triples_null_q.cfg", "c29_gen_triples_null.cfg"))
    d1 = [c for c in bh.gen_triples(ctx, ctx.q("c29_gen_delta1_q.cfg", "c29_gen_delta1.cfg")) if c["delta"]["kind"] != "none"]
    hist = bh.gen_histories(ctx, "c29_gen_hist.cfg", num=ctx.q(24, 400), depth=7)
    kl = bh.gen_triples(ctx, ctx.q("c27_gen_triples_q.cfg", "c27_gen_triples.cfg"))
    ctx.rng.shuffle(hist)
    if not q and (len(tri) != 15625 or len(tri0) != 15625):
        raise bh.vlib.Inconclusive("TLC did not emit the full triple space")
    ct = [c for c in tri if conflicted(c)]
    ct0 = [c for c in tri0 if conflicted(c)]
    clean = [c for c in tri + tri0 if not conflicted(c)]
    cd = [c for c in d1 if conflicted(c)]
    ch = [c for c in hist if conflicted(c)]
    ck = [c for c in kl if conflicted(c)]
    if q:
        sel = ctx.rng.sample(ct, min(len(ct), 220)) + ctx.rng.sample(ct0, min(len(ct0), 110)) + ctx.rng.sample(clean, min(len(clean), 40))
        deltas = ctx.rng.sample(cd, min(len(cd), 50))
        hs = ch[:40]
        ks = ctx.rng.sample(ck, min(len(ck), 150))
    else:
        sel = ct + ct0 + ctx.rng.sample(clean, 600)
        deltas = cd
        hs = ch[:600]
        ks = ck
        ctx.cov["exhaustive"] = True
    ctx.cov["generated"] = {"triples": len(tri), "triples_null": len(tri0), "delta_1key": len(d1), "histories": len(hist), "keyless": len(kl),
                            "conflicted": {"triples": len(ct), "triples_null": len(ct0), "delta_1key": len(cd), "histories": len(ch), "keyless": len(ck)}}
    ctx.cov["rule"] = ("case = a (delta, base, left, right) of RowMerge.tla whose merge has a conflict in at least one direction (plus a sample of "
                       "clean merges, whose conflict tables must be empty); per case and direction three merges, one per path (ours / theirs / "
                       "manual+abort); evaluations = compared table rows, conflict rows and counters; non-trivial = every conflicted case; distinct by "
                       "(delta, base, left, right). " + ("exhaustive: EVERY conflicted triple of the two 15 625-triple spaces, of the 1-key schema-delta "
                       "space and of the 3 375 keyless bag triples" if not q else "quick tier: TLC prints a random 1/25 (1/20, 1/8) of each space"))
    ctx.assumptions += ["dolt_conflicts_resolve --theirs with a different schema on their side is refused (ErrConfSchIncompatible, documented 'please resolve manually'); the model expects exactly that",
                        "manual 'take theirs/base' uses REPLACE ... SELECT from dolt_conflicts_<t> (columns missing in the source get their DEFAULT) or, without schema delta, UPDATE of the our_* columns"]
    batches = bh.make_batches(ctx, sel, "keyed", PATHS, ctx.q(16, 20), bh.bind_keyed) \
        + bh.make_batches(ctx, deltas + hs, "keyed", PATHS, 1, bh.bind_keyed) \
        + bh.make_batches(ctx, ks, "keyless", KPATHS, ctx.q(10, 12), bh.bind_keyless)
    good = bh.make_batches(ctx, ct[:1], "keyed", PATHS, 1, bh.bind_keyed)
    if good:
        bh.selftest(ctx, binary, good[0], corrupt)
    passed, failures = bh.run_batches(ctx, binary, batches, timeout=ctx.q(3000, 14400), crit=conflicted)
    ctx.cov["cases_run"] = {"triples": len(sel), "schema_delta": len(deltas), "histories": len(hs), "keyless": len(ks), "passed": passed}
    nconv = sum(1 for c in ks if c["m"][0]["convergent"])
    if nconv:
        ctx.notes.append("%d keyless cases contain a convergent multiplicity change, which dolt records as a conflict by design "
                         "(merge_rows.go: 'For keyless tables, this counts as a conflict'); the model follows (KeylessConvergentIsConflict)" % nconv)
