"""C32 - diffs and patches describe exactly the change between two commits.

Spec: spec/Repo.tla, observers TableDiff(rootA, rootB) and ApplyDiff. TLC (exhaustive, bounded): DiffApplies
(ApplyDiff(A, TableDiff(A,B)) = B for all pairs of roots of every reachable state) and DiffMinimal (a key is listed iff
its row differs). Conformance: query steps QDiff(a,b) of TLC-generated histories (row edits, add column, create/drop table,
branches, merges) carry TLC's TableDiff for a random pair of commits; the engine compares dolt_diff(), dolt_commit_diff_<t>,
dolt_diff_<t> (when b's parent is a), dolt_diff_summary() with it and executes the statements of dolt_patch(a,b) on a
scratch branch created at a, which must then hold b's data and schema."""
import importlib.util, os
LEVEL = "model_checking"
_s = importlib.util.spec_from_file_location("_bi", os.path.join(os.path.dirname(__file__), "_bi.py"))
bi = importlib.util.module_from_spec(_s)
_s.loader.exec_module(bi)

BQ = [{"keys": "small", "c1": "int", "c2": "varchar", "filler": 0}, {"keys": "spread", "c1": "varchar", "c2": "bigint", "filler": 25}]
BT = BQ + [{"keys": "spread", "c1": "bigint", "c2": "varchar", "filler": 700}]


def run(ctx):
    exh = [("c32_exh_quick.cfg", {"timeout": 3600})]
    if ctx.tier == "thorough":
        exh.append(("c32_exh_thorough.cfg", {"timeout": 3 * 3600}))
    bi.run(ctx, exh=exh,
           sims=[{"cfg": ctx.q("c32_sim_quick.cfg", "c32_sim_thorough.cfg"), "num": ctx.q(120, 400), "depth": ctx.q(34, 48),
                  "obs": ["patch"], "bindings": ctx.q(BQ, BT)}],
           critical_acts=["diffrows", "patchstmts"],
           require_hist=["QDiff:ok", "diffrows", "patches", "patchstmts", "difftable_reads"],
           rule=("behaviours = TLC simulation of Repo.tla (cfg c32_sim_*: DML incl. NULLs, add column, create/drop table, commit, branch, "
                 "merge, and QDiff steps for a random ordered pair of commits with TLC's TableDiff); for every QDiff the engine reads "
                 "dolt_diff(), dolt_commit_diff_<t>, dolt_diff_<t>, dolt_diff_summary() and replays dolt_patch() on a scratch branch; "
                 "non-trivial = behaviour with at least one non-empty row diff and one executed patch statement; distinct = by action "
                 "sequence and binding; the binding uses ints, bigints and strings with quotes, backslashes, semicolons, tabs and the empty string"),
           assumptions=["tables have an int primary key and one or two nullable columns from the palette; the only schema changes are "
                        "CREATE/DROP TABLE and ADD COLUMN (renames, type changes, key changes are not generated)",
                        "sessions run with autocommit"],
           notes=["dolt_commit_diff_<t> is only queried when the table exists in the session's working root (the system table does not exist otherwise)"])
