"""C30 - the fast tree-level merge agrees with the row-level merge.  Spec: spec/RowMerge.tla (MergeT, Stats, StatsFastPath,
UserStats; invariant part StatsConsistent of KeyedProps).  Engine: harness/rowmerge (mode c30).

Every (base,left,right) triple of the C29 space is built on TWO tables with identical data: f<i> qualifies for
canFastMergeProllyTrees (no index, all value columns nullable, no checks), s<i> has a non-unique secondary index on the
nullable column c1, which forces the ThreeWayDiffer path.  The binding amplifies: a model key is a block of R consecutive
primary keys (R up to several hundred = whole chunks) and F never-edited filler rows surround the blocks so that base, left and
right share chunks and the trees have several levels.  Compared, in both merge directions: rows of f and s (equal to each other
and to the amplified model), dolt_conflicts_<t>, dolt_conflicts, dolt_diff_stat(ours..merge) (what `dolt merge` prints), and
merge.MergeStats of both tables as returned by merge.MergeCommits (the function dolt_merge calls)."""
import importlib.util
import os

LEVEL = "model_checking"
_s = importlib.util.spec_from_file_location("_bh", os.path.join(os.path.dirname(os.path.abspath(__file__)), "_bh.py"))
bh = importlib.util.module_from_spec(_s)
_s.loader.exec_module(bh)

AMPS_Q = [(1, 0), (3, 40), (40, 300), (300, 1500)]
AMPS_T = AMPS_Q + [(700, 4000), (120, 9000)]


def corrupt(bc):
    m = bc["subs"][0]["case"]["m"][0]
    if m["rows"]:
        r = m["rows"][0]["r"]
        r[0] = 1 if r[0] != 1 else 2
    else:
        m["rows"].append({"k": 1, "r": [1, 1, -1]})
    return bc


def run(ctx):
    binary = ctx.build_engine("rowmerge")
    if ctx.replay:
        bh.replay(ctx, binary)
        return
    q = ctx.tier == "quick"
    ctx.tlc_check(bh.MODULE, ctx.q("c29_exh_quick.cfg", "c29_exh_full.cfg"))
    if ctx.tier == "quick":
        ctx.tlc_check(bh.MODULE, "c29_exh_sm_q.cfg")
    if not q:
        ctx.tlc_check(bh.MODULE, "c29_exh_null.cfg")
    tri = bh.gen_triples(ctx, ctx.q("c29_gen_triples_q.cfg", "c29_gen_triples.cfg"))
    tri0 = bh.gen_triples(ctx, ctx.q("c29_gen_triples_null_q.cfg", "c29_gen_triples_null.cfg"))
    if not q and (len(tri) != 15625 or len(tri0) != 15625):
        raise bh.vlib.Inconclusive("TLC did not emit the full triple space")
    # the fast path is only reached when both sides changed the table (no table-level short circuit)
    both = [c for c in tri + tri0 if c["left"] != c["base"] and c["right"] != c["base"] and c["left"] != c["right"]]
    rest = [c for c in tri + tri0 if not (c["left"] != c["base"] and c["right"] != c["base"] and c["left"] != c["right"])]
    if q:
        sel = bh.stratified_sample(ctx.rng, both, 260) + ctx.rng.sample(rest, min(len(rest), 40))
    else:
        # sized from CPU time (about 0.14 s per amplified case): every both-sides-changed triple of the {v1,v2} space, a sample
        # of the {NULL,v1} space and of the short-circuit triples
        b1 = [c for c in tri if c["left"] != c["base"] and c["right"] != c["base"] and c["left"] != c["right"]]
        b0 = [c for c in tri0 if c["left"] != c["base"] and c["right"] != c["base"] and c["left"] != c["right"]]
        sel = b1 + ctx.rng.sample(b0, min(len(b0), 3000)) + ctx.rng.sample(rest, 1000)
        ctx.cov["exhaustive"] = True
    amps = AMPS_Q if q else AMPS_T
    weights = [5, 6, 3, 1] if q else [50, 40, 8, 1.5, 0.25, 0.25]

    def extra(rng, c):
        R, F = rng.choices(amps, weights)[0]
        return {"amp": {"R": R, "F": F, "seed": rng.randrange(1 << 30)}}

    def binder(rng, c, name):
        return bh.bind_keyed(rng, c, name, index=False, plain=True)
    ctx.cov["generated"] = {"triples": len(tri), "triples_null": len(tri0), "both_sides_changed": len(both)}
    ctx.cov["rule"] = ("case = (base,left,right) of RowMerge.tla run on a fast-path table and on a row-level-path table with identical, amplified data; "
                       "rows, conflicts, num_conflicts, dolt_diff_stat and merge.MergeStats compared between the two tables and with the model in both "
                       "directions; evaluations = compared model rows / conflicts / statistics; non-trivial = both sides changed the table differently (no "
                       "table-level short circuit, so the fast path really runs); distinct by (base,left,right). "
                       + ("exhaustive: every triple of the 15 625-triple {v1,v2} space in which both sides changed the table differently; plus 3 000 such triples of the {NULL,v1} space and 1 000 short-circuit triples"
                          if not q else "quick: TLC prints a random 1/25 of each space"))
    ctx.assumptions += ["which path a table takes is decided by reading canFastMergeProllyTrees (merge_prolly_rows.go:260): no hook observes it; the only observable "
                        "trace of the path is merge.MergeStats itself (the fast path never counts Adds/Modifications/Deletes)",
                        "amplification: a model key is a block of R consecutive primary keys with identical c1,c2 and distinct pad; F filler rows are never edited",
                        "chunk-edge binding (pure-update triples, int cells): the leaf boundaries of the built table are read from its prolly tree; one model key stands for {a row of leaf A, a row of leaf B, the LAST key of leaf C}, the other for {first or last key of A, first or a middle key of C} (A,B,C consecutive inner leaves)"]
    batches = bh.make_batches(ctx, sel, "c30", [], ctx.q(6, 8), binder, extra=extra)
    # chunk-edge binding: model keys on the first / middle / LAST keys of three consecutive leaves of a dense multi-leaf table
    sb, nsc = bh.scatter_batches(ctx, tri, ctx.q(48, 600), ctx.q(24, 300))
    batches += sb
    ctx.cov["chunk_edge_cases"] = nsc
    good = bh.make_batches(ctx, [c for c in both if c["m"][0]["conf"]][:1], "c30", [], 1, binder, extra=lambda rng, c: {"amp": {"R": 2, "F": 10, "seed": 7}})
    if good:
        bh.selftest(ctx, binary, good[0], corrupt, soft_prefix="fast-differs-from-slow")
    passed, failures = bh.run_batches(ctx, binary, batches, timeout=ctx.q(3000, 14400), per_proc=5, soft_prefix="fast-differs-from-slow",
                                      crit=lambda c: c["left"] != c["base"] and c["right"] != c["base"] and c["left"] != c["right"])
    ctx.cov["cases_run"] = {"cases": len(sel), "passed": passed}
