"""C45 - replicas converge to their source and never show invented state.

Specs: spec/ClusterHook.tla (+ ClusterHookMC.tla, TraceClusterHook.tla), spec/PushOnWrite.tla, spec/ReadReplica.tla,
spec/ClusterRole.tla.
Engine E11 "replication":
  * in-package part (inpkg/libraries/doltcore/sqle/cluster/replication): the REAL cluster commithook, its replicate
    goroutine and a real cluster.Controller between two local DoltDBs with a fault-injecting standby; events are logged
    at the linearization points (inside h.mu) through existing seams; every recorded trace is validated by TLC against
    TraceClusterHook.tla (mode T), two directed interleavings are gated (mode G);
  * engine-level part (harness/replication): push-on-write replication and a read replica over a file:// remote,
    statement-granular replay of TLC-generated behaviours of ReadReplica.tla (mode R).
Verdicts come from real-code behaviour only: a trace TLC rejects / an invariant violated ON a recorded trace / a replayed
step that differs from the TLC-computed expectation, each reproduced once more."""
import concurrent.futures as cf
import hashlib
import importlib.util
import json
import os
import re
import sys

sys.path.insert(0, os.path.dirname(__file__))
import _bm  # noqa: E402
import vlib  # noqa: E402

LEVEL = "model_checking"
PKG = "libraries/doltcore/sqle/cluster"
TEST = "TestVerifReplication"

CRITICAL_HOOK = {"AttemptFail", "Fault", "RoleEnd", "WaitFailNow", "Kill"}


# ------------------------------------------------------------------------------------------------ part A: commithook
def hook_cases(ctx):
    n = ctx.q(10, 30)
    ops = ctx.q(5, 8)
    cs = [{"kind": "random", "seed": ctx.seed * 1000 + i, "ops": ops, "slow": (ctx.tier == "thorough" and i % 10 == 0)} for i in range(n)]
    cs += [{"kind": "stale"}, {"kind": "aba"}, {"kind": "stale", "graceful": True}]
    return cs


def fingerprint_hook(v, events):
    if v.get("inv"):
        return "C45:hook:inv:%s:stale=%s:aba=%s" % (v["inv"], v["flags"].get("staleHappened"), v["flags"].get("abaHappened"))
    k = v["matched"]
    ev = events[k]["ev"] if 0 <= k < len(events) else "end"
    return "C45:hook:trace:%s" % ev


def validate_hook(ctx, events, strict=True):
    return _bm.validate_events(ctx.work, vlib.VERIF, events, _bm.TRACE_INVARIANTS_STRICT if strict else _bm.TRACE_INVARIANTS)


def describe(v, events):
    k = v["matched"]
    lines = ["matched %d of %d events" % (k, v["total"])]
    if v.get("inv"):
        lines.append("invariant %s violated on the recorded trace; flags %s" % (v["inv"], v["flags"]))
    for j in range(max(0, k - 4), min(len(events), k + 2)):
        lines.append("  %s%d %s" % (">" if j == k else " ", j + 1, json.dumps(events[j], sort_keys=True)))
    return "\n".join(lines)


def run_hook(ctx, binary):
    cases = hook_cases(ctx)
    res = []
    parts, nsh = _bm.chunks(vlib, cases, per_process=5)
    for part in parts:      # bounded engine processes: at most 5 runs per process, vlib's shard limit
        res += ctx.run_engine(binary, [], part, shards=min(nsh, len(part)), test_run=TEST, timeout=ctx.q(1500, 3000))
    inconclusive = []
    traces = []          # (case, renamed events)
    for i, (c, r) in enumerate(zip(cases, res)):
        if r.get("skipped") or r.get("crash"):
            inconclusive.append("case %s: %s" % (c, (r.get("detail") or "skipped")[-600:]))
            continue
        if not r.get("ok"):
            inconclusive.append("case %s: %s" % (c, r.get("inconclusive") or r.get("detail")))
            continue
        ev = _bm.rename_trace(r["trace"], i)
        traces.append((c, ev, r))
        if c["kind"] == "random" and not r.get("settled"):
            ctx.notes.append("run %s did not settle within the bound (load?): convergence not judged" % c)
    if not traces:
        raise vlib.Inconclusive("no trace recorded: " + "; ".join(inconclusive)[:2000])

    # sanity of the seams: every kind of linearization-point event must have been seen somewhere
    seen = set()
    for _, ev, _ in traces:
        seen |= {e["ev"] for e in ev}
    need = {"Init", "InitRead", "ExecSet", "ExecNow", "ExecRead", "SrcCommit", "AttemptCtx", "Pushing", "Pulled", "DestCommit",
            "AttemptOK", "Quiesce", "Woken", "WaitEnd", "Snap"}
    if need - seen:
        raise vlib.Inconclusive("log/seam events never observed (dolt's log lines changed?): %s" % sorted(need - seen))

    randoms = [t for t in traces if t[0]["kind"] == "random"]
    directed = [t for t in traces if t[0]["kind"] != "random"]

    # binding self-test: a corrupted trace must be rejected
    good = randoms[0][1] if randoms else directed[0][1]
    v0 = validate_hook(ctx, good, strict=False)
    if v0["accepted"]:
        bad = json.loads(json.dumps(good))
        done = False
        for e in bad:
            if e["ev"] == "AttemptOK":        # the standby push is reported, but the hook claims another last-pushed head
                e["s"]["next"] = "none"
                done = True
                break
        bad2 = [e for e in good if e["ev"] != "SrcCommit"][:]      # all source commits dropped
        vb = validate_hook(ctx, bad, strict=False) if done else {"accepted": False}
        vb2 = validate_hook(ctx, bad2, strict=False)
        if vb["accepted"] or vb2["accepted"]:
            raise vlib.Inconclusive("binding self-test failed: TLC accepted a corrupted trace")
        ctx.cov["binding_selftest_hook"] = "corrupted traces rejected (field flipped: matched %s/%s; events dropped: matched %s/%s)" % (
            vb.get("matched"), vb.get("total"), vb2.get("matched"), vb2.get("total"))

    # batches of random traces, each batch one TLC run; failing batches are re-validated trace by trace
    B = 4
    batches = [randoms[i:i + B] for i in range(0, len(randoms), B)]
    bad_traces = []
    with cf.ThreadPoolExecutor(max_workers=4) as ex:
        futs = {ex.submit(validate_hook, ctx, sum((t[1] for t in b), []), True): b for b in batches}
        for f in cf.as_completed(futs):
            b = futs[f]
            v = f.result()
            if v.get("timeout") or v.get("tlc_error"):
                inconclusive.append("TLC trouble validating a batch: " + v.get("out", "")[-800:])
                continue
            if v["accepted"]:
                for t in b:
                    accept_trace(ctx, t)
            else:
                for t in b:
                    v1 = validate_hook(ctx, t[1], True)
                    if v1["accepted"]:
                        accept_trace(ctx, t)
                    else:
                        bad_traces.append((t, v1))
        # directed interleavings: strict first (expected to expose the named deviations), then the conformance of the
        # whole trace under the deviation-aware invariants
        futs = {ex.submit(validate_hook, ctx, t[1], True): t for t in directed}
        for f in cf.as_completed(futs):
            t = futs[f]
            v = f.result()
            if v["accepted"]:
                accept_trace(ctx, t)
            else:
                bad_traces.append((t, v))

    for (c, ev, r), v in bad_traces:
        if v.get("timeout") or v.get("tlc_error"):
            inconclusive.append("TLC trouble on %s: %s" % (c, v.get("out", "")[-800:]))
            continue
        fp = fingerprint_hook(v, ev)
        if v.get("inv") and (v["flags"].get("staleHappened") or v["flags"].get("abaHappened")):
            # a named deviation: the rest of the trace must still conform to the code-faithful model
            v2 = validate_hook(ctx, ev, strict=False)
            if not v2["accepted"]:
                v, fp = v2, fingerprint_hook(v2, ev)
            else:
                accept_trace(ctx, (c, ev, r))
        # reproduce: run the same case again and validate it the same way
        again = ctx.run_engine(binary, [], [dict(c)], shards=1, test_run=TEST, timeout=900)[0]
        reproduced = False
        if again.get("ok") and again.get("trace"):
            ev2 = _bm.rename_trace(again["trace"], 0)
            va = validate_hook(ctx, ev2, True)
            # same class of rejection: both an invariant violation on the trace, or both a trace mismatch
            reproduced = (not va["accepted"]) and (bool(va.get("inv")) == bool(v.get("inv")))
        if not reproduced:
            # the recorded trace is deterministic evidence, but the rule is "reproduced": second opinion on the same file
            vr = validate_hook(ctx, ev, True)
            if vr["accepted"]:
                ctx.notes.append("trace rejection vanished on re-validation: " + fp)
                continue
            if any(re.search(k["fingerprint"], fp) for k in ctx.known if k.get("status", "open") == "open"):
                # a known deviation seen on a real trace of a random/gated run that the re-run did not hit again: not a new
                # divergence, and nothing to conclude from the miss
                ctx.notes.append("known deviation %s observed once for case %s, not hit again by the re-run" % (fp, c))
                continue
            ctx.notes.append("unreproduced rejection of a recorded trace (%s) for case %s:\n%s" % (fp, c, describe(v, ev)))
            p = ctx.save_replay({"part": "hook", "case": c, "events": ev, "fingerprint": fp, "unreproduced": True})
            inconclusive.append("a recorded trace was rejected (%s) but the same schedule did not reproduce it; trace saved at %s" % (fp, p))
            continue
        ctx.violation(fp, "commithook trace of case %s: %s" % (c, describe(v, ev)),
                      {"part": "hook", "case": c, "events": ev, "reproduced": True})
    return inconclusive


def accept_trace(ctx, t):
    c, ev, r = t
    ctx.cov["traces_validated_against_impl"] += 1
    ctx.cov["evaluations"] += len(ev)
    kinds = [e["ev"] for e in ev]
    ks = set(kinds)
    if (ks & {"AttemptFail", "Fault"}) and ("WaitEnd" in ks) and (("RoleEnd" in ks) or ("WaitFailNow" in ks)) or c["kind"] != "random":
        key = hashlib.sha1(json.dumps(kinds).encode()).hexdigest()
        ctx.nontrivial("hook:" + key)
        ctx.sample({"part": "commithook trace", "case": c, "events": len(ev),
                    "event_histogram": {k: kinds.count(k) for k in sorted(ks)}, "converged": r.get("converged")})


# ------------------------------------------------------------------------------------------------ part B: push-on-write / read replica
WRITES = {"Commit", "CreateBranch", "DeleteBranch", "Tag", "Reset"}


def stale_window(steps, i):
    """step i is a ref-moving write while dolt_replicate_to_remote names an unknown remote and is not the first such write"""
    cfg, writes = "good", 0
    for j, s in enumerate(steps[:i + 1]):
        if s["a"] == "SetCfg":
            cfg, writes = s["args"]["v"], 0
        elif s["a"] in WRITES:
            if j == i:
                return cfg == "unknown" and writes >= 1
            if cfg == "unknown":
                writes += 1
    return False


def repl_critical(c, r):
    acts = [s["a"] for s in c["steps"]]
    warned = any(s["exp"].get("warned") for s in c["steps"])
    errs = any(s["exp"].get("res") == "err" for s in c["steps"])
    return "ReplicaRead" in acts and warned and ("Reset" in acts or errs)


def repl_fp(c, r):
    st = r.get("step")
    if isinstance(st, int) and stale_window(c["steps"], st):
        return "C45:repl:stale-destination:" + str(r.get("fp"))
    return "C45:repl:" + str(r.get("fp"))


def run_repl(ctx, binary):
    gen = ctx.tlc_behaviours("ReadReplica.tla", ctx.q("c45_repl_sim_quick.cfg", "c45_repl_sim_thorough.cfg"),
                             num=ctx.q(300, 700), depth=ctx.q(18, 30), procs=4)
    # selection among TLC's behaviours (expectations untouched): those in which a replica pull has to drop a branch the remote
    # deleted come first - the last ref in sort order ("tail" of refsToDelete's merge) and one before a surviving ref ("head")
    def has(b, f):
        return any(s["a"] == "ReplicaRead" and s["exp"].get(f) for s in b)
    tail = [b for b in gen if has(b, "tail")]
    head = [b for b in gen if has(b, "head") and not has(b, "tail")]
    rest = [b for b in gen if not has(b, "tail") and not has(b, "head")]
    ctx.cov["repl_pulls_dropping_last_sorted_branch"] = len(tail)
    ctx.cov["repl_pulls_dropping_earlier_sorted_branch"] = len(head)
    if not tail or not head:
        raise vlib.Inconclusive("generator vacuity: no behaviour in which the replica must drop a remotely deleted branch (tail %d, head %d)" % (len(tail), len(head)))
    nmain = ctx.q(36, 130)
    beh = tail[:nmain // 3] + head[:nmain // 4]
    beh += rest[:nmain - len(beh)]
    if ctx.tier == "quick":
        beh += ctx.tlc_behaviours("ReadReplica.tla", "c45_repl_sim_quick_tags.cfg", num=60, depth=18, procs=2, seed=ctx.seed + 31)[:12]
    hist = {}
    for b in beh:
        for s in b:
            hist[s["a"]] = hist.get(s["a"], 0) + 1
    for a in ("Commit", "WsWrite", "CreateBranch", "DeleteBranch", "Tag", "Reset", "SetCfg", "RemoteDown", "RemoteUp", "ReplicaRead", "SetReplicaCfg"):
        if hist.get(a, 0) == 0:
            raise vlib.Inconclusive("generator never produced action %s" % a)
    ctx.cov["repl_action_histogram"] = hist
    cases = [{"steps": b} for b in beh]

    def corrupt(c):
        for s in reversed(c["steps"]):
            if "remote" in s["exp"]:
                s["exp"]["remote"]["b:main"] = 99
                return c
        c["steps"][-1]["exp"]["res"] = "bogus"
        return c
    ctx.binding_selftest(binary, cases[0], corrupt)
    parts, nsh = _bm.chunks(vlib, cases)
    for part in parts:      # bounded engine processes (memory): at most 8 behaviours per process
        ctx.replay_behaviours(binary, part, critical=repl_critical, wrap=lambda c: c, shards=min(nsh, len(part)), timeout=ctx.q(1500, 3000),
                              fingerprint=repl_fp)

    # the generator describes the repaired DynamicPushOnWriteHook (5c19ae0): writes after a failed re-configuration must
    # keep warning.  Vacuity guard: the replayed set must contain such writes with a previous destination and a reachable remote.
    nwin = 0
    for b in beh:
        for i in range(len(b)):
            if stale_window(b, i):
                pre = b[:i]
                up = True
                for s in pre:
                    up = False if s["a"] == "RemoteDown" else (True if s["a"] == "RemoteUp" else up)
                if up and not any(s["a"] == "SetCfg" and s["args"]["v"] == "none" for s in pre):
                    nwin += 1
    ctx.cov["repl_writes_after_failed_reconfiguration"] = nwin
    if nwin == 0:
        raise vlib.Inconclusive("no replayed behaviour writes twice under an unresolvable dolt_replicate_to_remote (generator vacuity)")


def recreated_same_commit(b):
    """a branch is deleted and later created again at the commit it had when it was deleted (selection only)"""
    prev, deleted = {}, {}
    for s in b:
        loc = s["exp"].get("local")
        if s["a"] == "DeleteBranch":
            k = "b:" + s["args"]["b"]
            if k in prev:
                deleted[k] = prev[k]
        if s["a"] == "CreateBranch" and loc is not None:
            k = "b:" + s["args"]["b"]
            if k in deleted and loc.get(k) == deleted[k]:
                return True
        if loc is not None:
            prev = loc
    return False


def run_async(ctx, binary):
    """dolt_async_replication = 1: same expectations as the synchronous hook once the driver has waited at a flush barrier"""
    gen = ctx.tlc_behaviours("ReadReplica.tla", "c45_repl_sim_async.cfg", num=ctx.q(300, 600), depth=14, procs=4, seed=ctx.seed + 13)
    rec = [b for b in gen if recreated_same_commit(b)]
    ctx.cov["async_behaviours_recreating_a_deleted_branch_at_the_same_commit"] = len(rec)
    if not rec:
        raise vlib.Inconclusive("generator vacuity: no asynchronous behaviour deletes a branch and re-creates it at the same commit")
    n = ctx.q(10, 30)
    beh = rec[:n // 2] + [b for b in gen if not recreated_same_commit(b)][:n - min(len(rec), n // 2)]
    cases = [{"steps": b, "async": True} for b in beh]
    parts, nsh = _bm.chunks(vlib, cases)
    missed = []
    for part in parts:
        res = ctx.run_engine(binary, [], part, shards=min(nsh, len(part)), timeout=ctx.q(1500, 3000))
        for c, r in zip(part, res):
            if r.get("skipped"):
                continue
            if r.get("inconclusive") or r.get("crash") or r.get("signal"):
                missed.append(str(r.get("inconclusive") or r.get("detail"))[-300:])
                continue
            ctx.cov["evaluations"] += int(r.get("evals", 0))
            if r.get("ok"):
                ctx.cov["traces_validated_against_impl"] += 1
                if recreated_same_commit(c["steps"]):
                    ctx.nontrivial("async:" + hashlib.sha1(json.dumps([s["a"] for s in c["steps"]]).encode()).hexdigest())
                continue
            r2 = ctx.run_engine(binary, [], [dict(c)], shards=1)[0]
            if r2.get("ok"):
                ctx.notes.append("unreproduced async mismatch (ignored): " + json.dumps(r)[:400])
            elif r2.get("inconclusive") or r2.get("crash") or r2.get("signal"):
                missed.append(str(r2.get("inconclusive") or r2.get("detail"))[-300:])
            else:
                ctx.violation("C45:repl:async:" + str(r2.get("fp")), r2.get("detail", ""), {"part": "repl", "case": c, "result": r2, "reproduced": True})
    if missed and not ctx.violations:
        raise vlib.Inconclusive("asynchronous push: " + "; ".join(missed)[:1500])


# ------------------------------------------------------------------------------------------------ part C: the SQL face of the role
def role_critical(c, r):
    st = c["steps"]
    rejected = any(s["a"] == "Write" and s["exp"]["res"] == "err" and s["exp"]["role"] == "standby" for s in st)
    accepted = any(s["a"] == "Write" and s["exp"]["res"] == "ok" for s in st)
    return rejected and accepted and any(s["a"] == "Restart" for s in st)


def run_role(ctx, binary):
    beh = ctx.tlc_behaviours("ClusterRole.tla", "c45_role_sim.cfg", num=ctx.q(60, 400), depth=14, procs=2, seed=ctx.seed + 5)
    beh = beh[:ctx.q(30, 120)]
    cases = [{"mode": "role", "steps": b} for b in beh]

    def corrupt(c):
        c["steps"][-1]["exp"]["role"] = "primary" if c["steps"][-1]["exp"]["role"] == "standby" else "standby"
        return c
    sel = dict(ctx.cov)
    ctx.binding_selftest(binary, cases[0], corrupt)
    ctx.cov["binding_selftest_role"] = ctx.cov.get("binding_selftest", "")
    ctx.cov["binding_selftest"] = sel.get("binding_selftest", "")
    parts, nsh = _bm.chunks(vlib, cases)
    for part in parts:
        ctx.replay_behaviours(binary, part, critical=role_critical, wrap=lambda c: c, shards=min(nsh, len(part)), timeout=ctx.q(1500, 3000),
                              fingerprint=lambda c, r: "C45:role:" + str(r.get("fp")))


# ------------------------------------------------------------------------------------------------ the check
def run(ctx):
    if ctx.replay:
        rp = json.load(open(ctx.replay))
        if rp.get("part") == "hook":
            ev = rp["events"]
            v = validate_hook(ctx, ev, True)
            print(describe(v, ev))
            if not v["accepted"]:
                ctx.violation(fingerprint_hook(v, ev), describe(v, ev), {"part": "hook", "case": rp.get("case"), "events": ev, "reproduced": True})
        else:
            binary = ctx.build_engine("replication")
            r = ctx.run_engine(binary, [], [rp["case"]], shards=1)[0]
            print(json.dumps(r, indent=1)[:4000])
            if not r.get("ok"):
                ctx.violation("C45:repl:" + str(r.get("fp")), r.get("detail", ""), {"part": "repl", "case": rp["case"], "result": r, "reproduced": True})
        return

    ctx.cov["rule"] = (
        "evaluations = events of recorded commithook traces matched by TLC against TraceClusterHook.tla + step comparisons of replayed "
        "ReadReplica.tla behaviours; traces_validated = accepted traces + behaviours replayed to the end; non-trivial = a commithook trace "
        "with a failed attempt or standby outage AND an acknowledged/timed-out wait AND a role transition (or one of the directed "
        "interleavings), or a replication behaviour with a replica read, a warning and a non-fast-forward/failed pull, or a role behaviour "
        "with a write rejected on a standby, an accepted write and a restart; distinct by hash of the event-kind / action sequence")
    ctx.assumptions += [
        "one database, one standby; the gRPC transport, the remotesapi server side of the standby and multi-server epoch negotiation are not driven",
        "the provider's read-only check and killRunningQueries are played by the harness through the controller's real callbacks",
        "ack timeout = 1 s (smallest value of dolt_cluster_ack_writes_timeout_secs); circuit-breaker clock = h.nowFunc (fake, integer seconds)",
        "push-on-write and read replica: file:// remote, one process hosting primary and replica engines (dolt's replication system "
        "variables are process-global; the driver sets them around each statement)",
        "asynchronous push (dolt_async_replication = 1) is driven with a valid, reachable remote only; after every statement the driver "
        "waits at a flush barrier (two marker commits awaited on the remote, bound 30 s each, a miss is inconclusive) and then demands "
        "the remote refs of the synchronous model",
        "a remote outage is realised by renaming the remote directory away and back",
        "'the standby rejects writes' is driven through the real SQL engine with a real cluster.Controller that has no standby remotes "
        "(dolt_assume_cluster_role / dolt_cluster_transition_to_standby, restart with the persisted role)",
    ]

    # TLC on the bounded models, in the background while the engines build
    ex = cf.ThreadPoolExecutor(max_workers=5)
    jobs = []
    w = ctx.q(4, 8)
    if ctx.tier == "quick":
        tl = [("ClusterHookMC.tla", "c45_hook_exh_quick.cfg"), ("ClusterHookMC.tla", "c45_hook_roles_quick.cfg"),
              ("ClusterHook.tla", "c45_hook_live_quick.cfg"), ("PushOnWrite.tla", "c45_pow_exh_quick.cfg"),
              ("ReadReplica.tla", "c45_repl_exh_quick.cfg"), ("ClusterRole.tla", "c45_role_exh.cfg")]
    else:
        tl = [("ClusterHookMC.tla", "c45_hook_exh_thorough.cfg"), ("ClusterHookMC.tla", "c45_hook_fixed_quick.cfg"),
              ("ClusterHook.tla", "c45_hook_live_quick.cfg"), ("ReadReplica.tla", "c45_repl_exh_thorough.cfg"),
              ("PushOnWrite.tla", "c45_pow_exh_thorough.cfg"),
              ("ClusterRole.tla", "c45_role_exh.cfg")]
    ctx._spec_dir()
    if os.environ.get("VERIF_C45_SKIP_TLC"):          # development aid only
        tl = []
    for mod, cfg in tl:
        jobs.append(ex.submit(ctx.tlc_check, mod, cfg, w, ctx.q(3000, 5400)))

    only = os.environ.get("VERIF_C45_ONLY", "")
    hookbin = ctx.build_inpkg(PKG, "replication") if only in ("", "hook") else None
    replbin = ctx.build_engine("replication") if only in ("", "repl") else None

    # (VERIF_C45_ONLY is a development aid: "hook" or "repl" restricts the conformance part)
    inconclusive = run_hook(ctx, hookbin) if only in ("", "hook") else []
    if only in ("", "repl"):
        run_repl(ctx, replbin)
        run_async(ctx, replbin)
        run_role(ctx, replbin)
    ctx.cov["binding_selftest"] = "; ".join(x for x in (ctx.cov.pop("binding_selftest_hook", ""), ctx.cov.get("binding_selftest", ""),
                                                         ctx.cov.pop("binding_selftest_role", "")) if x)

    for j in jobs:
        j.result()          # a model-level error raises Inconclusive
    ex.shutdown()
    if inconclusive and not ctx.violations:
        raise vlib.Inconclusive("; ".join(inconclusive)[:3000])
