"""C47 - see checks/_bj.py (run_c47).  Engine: harness/repo2."""
import importlib.util
import os

LEVEL = "model_checking"


def run(ctx):
    spec = importlib.util.spec_from_file_location("_bj", os.path.join(os.path.dirname(os.path.abspath(__file__)), "_bj.py"))
    bj = importlib.util.module_from_spec(spec)
    spec.loader.exec_module(bj)
    bj.run_c47(ctx)
