"""Helpers of builder bJ: C24 (Constraints.tla), C25 (RepoIndex.tla), C47 (DroppedDBs.tla), C46 repository half
(RepoIgnore.tla), C37 (SchemaDDL.tla).  Engine: harness/repo2 (one binary, one mode per spec)."""
import collections
import copy
import hashlib
import json
import os
import re
import sys

sys.path.insert(0, os.path.join(os.path.dirname(os.path.dirname(os.path.abspath(__file__))), "lib"))
import vlib

ENGINE = "repo2"


def cfg_set(cfg, name, conv=str):
    txt = open(os.path.join(vlib.VERIF, "spec", "cfg", cfg)).read()
    m = re.search(r"^\s*%s\s*=\s*\{([^}]*)\}" % name, txt, re.M)
    return [conv(x.strip().strip('"')) for x in m.group(1).split(",") if x.strip()] if m else []


def dedupe_prefix(behaviours, keep=2):
    """TLC's simulator evaluates the Emit constraint for every candidate successor of the last state: one trace yields several
    behaviours that differ in the last step only. Keep a few per prefix."""
    seen = collections.Counter()
    out = []
    for b in behaviours:
        h = hashlib.sha1(json.dumps([[s["a"], s.get("s"), s["args"]] for s in b[:-1]], sort_keys=True).encode()).hexdigest()
        seen[h] += 1
        if seen[h] <= keep:
            out.append(b)
    return out


def histogram(behaviours):
    h = collections.Counter()
    for b in behaviours:
        for s in b:
            h[s["a"] + ":" + str(s.get("res", ""))] += 1
    return h


def replay_one(ctx, binary, mode):
    rp = json.load(open(ctx.replay))
    res = ctx.run_engine(binary, [mode], [rp["case"]], shards=1)[0]
    print(json.dumps({k: v for k, v in res.items() if k != "n"}, indent=1)[:6000])
    for sf in (res.get("soft") or []):
        ctx.violation(ctx.id + ":" + str(sf.get("fp")), sf.get("detail", ""), {"case": rp["case"], "result": sf, "reproduced": True})
    if not res.get("ok"):
        ctx.violation(ctx.id + ":" + str(res.get("fp")), res.get("detail", ""), {"case": rp["case"], "result": res, "reproduced": True})


def holds_guard(ctx, module, cfg, props, **kw):
    """Exhaustive TLC run; with coverage the action properties' antecedents must have been true at least once (vacuity)."""
    return ctx.tlc_check(module, cfg, **kw)


def replay_sims(ctx, module, binary, mode, sims, make_case, corrupt, critical_acts, require=None, keep=2):
    """sims: list of {cfg, num, depth, bindings}; make_case(cfg, behaviour, binding) -> case dict."""
    total = collections.Counter()
    first = True
    for sm in sims:
        beh = ctx.tlc_behaviours(module, sm["cfg"], num=sm["num"], depth=sm["depth"], seed=ctx.seed + sm.get("seed_off", 0),
                                 timeout=ctx.q(1800, 3 * 3600))
        beh = dedupe_prefix(beh, keep)
        if sm.get("max") and len(beh) > sm["max"]:
            beh = beh[:sm["max"]]
        ctx.log("%s: %d behaviours after dropping same-prefix variants" % (sm["cfg"], len(beh)))
        total.update(histogram(beh))
        cases = []
        for i, b in enumerate(beh):
            bd = dict(sm["bindings"][i % len(sm["bindings"])])
            cs = make_case(sm["cfg"], b, bd)
            cs["key"] = [sm["cfg"], bd]
            cases.append(cs)
        for b in sorted(beh, key=lambda b: -sum(1 for s in b if s["a"] + ":" + str(s.get("res")) in critical_acts))[:2]:
            ctx.sample({"cfg": sm["cfg"], "steps": ["%s %s(%s) -> %s" % (s.get("s", ""), s["a"], json.dumps(s["args"], sort_keys=True) if s["args"] else "", s.get("res")) for s in b],
                        "final_state_expected_by_TLC": b[-1].get("exp")})
        if first:
            ctx.binding_selftest(binary, cases[0], corrupt, args=[mode])
            first = False

        def critical(c, r, acts=critical_acts):
            st = r.get("stats") or {}
            return any(st.get(a, 0) > 0 for a in acts)
        # bounded memory: at most 4 engine processes at a time, each recycled after ~10 cases (an in-process SQL engine keeps
        # every repository it opened in its caches)
        res = []
        for i in range(0, len(cases), 40):
            res += ctx.replay_behaviours(binary, cases[i:i + 40], args=[mode], critical=critical, wrap=lambda c: c, timeout=ctx.q(3600, 4 * 3600),
                                         shards=4, fingerprint=lambda c, r: ctx.id + ":" + str(r.get("fp")))
            if len(ctx.violations) >= 10:
                break
        agg = collections.Counter()
        for r in res:
            for k, v in (r.get("stats") or {}).items():
                agg[k] += v
        ctx.cov.setdefault("replayed_action_outcomes", {})
        for k, v in agg.items():
            ctx.cov["replayed_action_outcomes"][k] = ctx.cov["replayed_action_outcomes"].get(k, 0) + v
        ctx.cov["truncated_at_named_deviation"] = ctx.cov.get("truncated_at_named_deviation", 0) + sum(1 for r in res if (r.get("truncated") or -1) >= 0)
    missing = [a for a in (require or []) if ctx.cov.get("replayed_action_outcomes", {}).get(a, 0) == 0]
    if missing and not ctx.violations and not ctx.known_hits:
        raise vlib.Inconclusive("generator vacuity: outcomes never replayed: %s (generated: %s)" % (missing, dict(total)))
    return total


# ------------------------------------------------------------------------------------------------- C24
C24_EXH_Q = ["c24_txn_uq_quick.cfg", "c24_txn_fk_quick.cfg", "c24_txn_ck_quick.cfg",
             "c24_mrg_uqfk_quick.cfg", "c24_mrg_cknn_quick.cfg", "c24_mrg_flow_quick.cfg"]
C24_EXH_T = ["c24_txn_uq_thorough.cfg", "c24_txn_fk_thorough.cfg", "c24_txn_ck_thorough.cfg",
             "c24_mrg_uqfk_thorough.cfg", "c24_mrg_cknn_thorough.cfg", "c24_mrg_flow_thorough.cfg"]
C24_BIND = [{"utype": "int", "filler": 0, "keys": "small"}, {"utype": "int", "filler": 300, "keys": "spread"},
            {"utype": "varchar", "filler": 40, "keys": "small"}]
C24_CRIT = ["Commit:constraint", "Merge:violations", "Merge:constraint", "Commit:retry"]


def c24_case(cfg, b, bd):
    return {"steps": b, "binding": bd, "branches": cfg_set(cfg, "Branches"), "sessions": cfg_set(cfg, "Sessions"),
            "uvals": cfg_set(cfg, "UVals", int)}


def c24_corrupt(case):
    """Binding self-test: claim another value of p.u (or a phantom row) in the last step's persisted working set of main."""
    w = case["steps"][-1]["exp"]["st"]["main"]["w"]
    if w["p"]:
        w["p"][0][1] = 1 if w["p"][0][1] != 1 else 2
    else:
        w["p"] = [[1, 1]]
    return case


def run_c24(ctx):
    binary = ctx.build_engine(ENGINE)
    if ctx.replay:
        replay_one(ctx, binary, "cons")
        return
    if os.environ.get("BJ_SKIP_EXH"):
        ctx.notes.append("BJ_SKIP_EXH set: exhaustive TLC configs skipped (mutation run against a scratch worktree; the model is unchanged)")
    else:
        for cfg in ctx.q(C24_EXH_Q, C24_EXH_T):
            ctx.tlc_check("Constraints.tla", cfg, timeout=ctx.q(1500, 3600))
    ctx.cov["rule"] = ("behaviours = TLC simulation of Constraints.tla (AsCode = TRUE) from a random valid base root / (base, main, b1) triple: "
                       "single- and multi-row DML on a UNIQUE parent and an FK/CHECK/NOT NULL child by two sessions (autocommit and START TRANSACTION..COMMIT), "
                       "session escapes, dolt_commit, dolt_merge, abort, resolution; after EVERY statement the outcome class, head + working rows of every "
                       "branch, dolt_constraint_violations_<t>, dolt_verify_constraints('--all') and every session's view are compared with TLC's; "
                       "evaluations = individual comparisons; non-trivial = behaviour in which a commit was refused for a constraint/retry or a merge recorded "
                       "violations; distinct = by hash of the action sequence and binding")
    ctx.assumptions += ["schema fixed to p(pk, u UNIQUE) / c(pk, f -> p.pk, n, a, CHECK(n + a < 40)); NOT NULL arrives by ALTER on one side",
                        "DDL and dolt_* procedures only outside START TRANSACTION; REPLACE / ON DUPLICATE KEY UPDATE only where at most one row clashes and no child references the row",
                        "row-level merges are generated only when our side of the table carries no violation records (artifact merging is C43 territory)",
                        "data conflicts of dolt_merge are not kept (sessions run with dolt_allow_commit_conflicts = 0 and merge with force only when no conflict arises)"]
    sims = [{"cfg": "c24_sim_txn.cfg", "num": ctx.q(70, 400), "depth": 16, "bindings": C24_BIND, "max": ctx.q(260, 1200)},
            {"cfg": "c24_sim_mrg.cfg", "num": ctx.q(90, 600), "depth": 9, "bindings": C24_BIND, "max": ctx.q(300, 1600), "seed_off": 1000},
            # merges of random NON-conflicting triples drawn from the exhaustively checked small spaces (dense in violations)
            {"cfg": "c24_sim_tri_uqfk.cfg", "num": ctx.q(60, 400), "depth": 3, "bindings": C24_BIND, "max": ctx.q(120, 800), "seed_off": 2000},
            {"cfg": "c24_sim_tri_cknn.cfg", "num": ctx.q(50, 300), "depth": 3, "bindings": C24_BIND, "max": ctx.q(80, 500), "seed_off": 3000}]
    replay_sims(ctx, "Constraints.tla", binary, "cons", sims, c24_case, c24_corrupt, C24_CRIT,
                require=["Commit:constraint", "Commit:ok", "Merge:ok", "Merge:constraint"])


# ------------------------------------------------------------------------------------------------- C25
C25_BIND = [{"filler": 0}, {"filler": 400}, {"filler": 60}]
INDEX_BIND = C25_BIND


def c25_case(cfg, b, bd):
    return {"steps": b, "binding": bd, "branches": cfg_set(cfg, "Branches"), "sessions": cfg_set(cfg, "Sessions"),
            "initix": cfg_set(cfg, "InitIx")}


index_case = c25_case
C25_EXH_Q = ["c25_exh_t_quick.cfg", "c25_exh_k_quick.cfg"]
C25_EXH_T = ["c25_exh_t_thorough.cfg", "c25_exh_k_thorough.cfg"]
C25_CRIT = ["Merge:ok", "Merge:conflict", "Resolve:ok", "CherryPick:ok", "Revert:ok", "Rebase:ok"]


def c25_corrupt(case):
    """Binding self-test: drop one entry from (or add a phantom entry to) an index image of the last step's working root."""
    w = case["steps"][-1]["exp"]["ws"]["main"]["w"]
    idx = w["t"]["idx"]
    if isinstance(idx, dict) and idx:
        n = sorted(idx)[0]
        if idx[n]:
            idx[n] = idx[n][1:]
        else:
            idx[n] = [[1] * (3 if n == "i12" else 2)]
    else:
        w["t"]["rows"] = w["t"]["rows"] + [[1, 1, 0]] if not w["t"]["rows"] else w["t"]["rows"][1:]
    return case


def run_c25(ctx):
    binary = ctx.build_engine(ENGINE)
    if ctx.replay:
        replay_one(ctx, binary, "index")
        return
    if os.environ.get("BJ_SKIP_EXH"):
        ctx.notes.append("BJ_SKIP_EXH set: exhaustive TLC configs skipped (mutation run against a scratch worktree; the model is unchanged)")
    else:
        for cfg in ctx.q(C25_EXH_Q, C25_EXH_T):
            ctx.tlc_check("RepoIndex.tla", cfg, timeout=ctx.q(1500, 3600))
    ctx.cov["rule"] = ("behaviours = TLC simulation of RepoIndex.tla: single- and multi-row DML on a keyed table (non-unique, unique, prefix, two-column, "
                       "second-column indexes) and on a keyless table with an index, CREATE/DROP INDEX, ADD/DROP COLUMN, dolt_commit, checkout, merge (ff, "
                       "three-way, conflicts + dolt_conflicts_resolve, abort), cherry-pick, revert, rebase, reset --hard; after EVERY step the primary map and "
                       "every secondary prolly map of both tables are read from storage (doltdb API) in the working and staged root of every branch and in every "
                       "new commit and compared with TLC's IndexOf image of the model's rows; evaluations = compared maps / flags; non-trivial = behaviour with a "
                       "three-way merge, conflict resolution, cherry-pick, revert or rebase; distinct = by hash of the action sequence and binding")
    ctx.assumptions += ["tables t(pk, c1 varchar, [c2 int]) and keyless k(c1, c2); index palette i1/u1/p1/i12/i2 and k1; at most one index per column set "
                        "(dolt's schema merge refuses two indexes over the same columns)",
                        "not generated: merges that would violate the unique index (C24), row-level merges across DROP COLUMN and of the keyless table when both "
                        "sides changed it (C29/C27), cherry-pick/revert/rebase that stop on a conflict (C31)",
                        "a commit's root is read once, when the commit is first bound (commits are immutable, content-addressed)"]
    sims = [{"cfg": "c25_sim_mix.cfg", "num": ctx.q(70, 300), "depth": 24, "bindings": C25_BIND, "max": ctx.q(150, 900)},
            {"cfg": "c25_sim_mrg.cfg", "num": ctx.q(110, 500), "depth": 20, "bindings": C25_BIND, "max": ctx.q(220, 1400), "seed_off": 1000}]
    replay_sims(ctx, "RepoIndex.tla", binary, "index", sims, c25_case, c25_corrupt, C25_CRIT,
                require=["Merge:ok", "AddIndex:ok", "KUpd:ok"])


# ------------------------------------------------------------------------------------------------- C47
DROPDB_BIND = [{}]


def dropdb_case(cfg, b, bd):
    return {"steps": b, "binding": bd, "names": cfg_set(cfg, "Names")}


# ------------------------------------------------------------------------------------------------- C46 (repository half)
IGNORE_BIND = [{}]


def ignore_case(cfg, b, bd):
    return {"steps": b, "binding": bd, "phase": "repo"}


# ------------------------------------------------------------------------------------------------- C37
DDL_BIND = [{}]


def ddl_case(cfg, b, bd):
    return {"steps": b, "binding": bd, "lines": cfg_set(cfg, "Lines")}


def _simple_run(ctx, module, mode, exh_q, exh_t, sims, make_case, corrupt, crit, require, rule, assumptions):
    binary = ctx.build_engine(ENGINE)
    if ctx.replay:
        replay_one(ctx, binary, mode)
        return
    if os.environ.get("BJ_SKIP_EXH"):
        ctx.notes.append("BJ_SKIP_EXH set: exhaustive TLC configs skipped (mutation run against a scratch worktree; the model is unchanged)")
    else:
        for cfg in ctx.q(exh_q, exh_t):
            ctx.tlc_check(module, cfg, timeout=ctx.q(1500, 3600))
    ctx.cov["rule"] = rule
    ctx.assumptions += assumptions
    replay_sims(ctx, module, binary, mode, sims, make_case, corrupt, crit, require=require)


def c47_corrupt(case):
    """Binding self-test: claim that a database which is not live is (or that the first live one is gone)."""
    live = case["steps"][-1]["exp"]["live"]
    for n in sorted(live):
        if live[n]["fp"] == 0:
            live[n]["fp"] = 1
            return case
    n = sorted(live)[0]
    live[n]["fp"] = 0
    return case


def run_c47(ctx):
    _simple_run(ctx, "DroppedDBs.tla", "dropdb", ["c47_exh_quick.cfg"], ["c47_exh_thorough.cfg"],
                [{"cfg": "c47_sim.cfg", "num": ctx.q(60, 400), "depth": 10, "bindings": DROPDB_BIND, "max": ctx.q(120, 800)}],
                dropdb_case, c47_corrupt, ["Undrop:ok", "Undrop:exists"],
                ["CreateDB:ok", "DropDB:ok", "Undrop:ok"],
                ("behaviours = TLC simulation of DroppedDBs.tla (CREATE DATABASE in both spellings, content changes, DROP DATABASE, dolt_undrop, "
                 "dolt_purge_dropped_databases over the root database and two nested ones); after EVERY step SHOW DATABASES, the list dolt_undrop offers "
                 "(incl. renamed older drops) and the logical fingerprint of every live database (branches, tags, working/staged/head root hashes, status, "
                 "rows of every table on every branch) are compared with the model; evaluations = compared lists and fingerprints; non-trivial = behaviour "
                 "with a successful or a refused (database exists) undrop; distinct = by hash of the action sequence"),
                ["a database's content is abstracted to a fingerprint id; the engine fills every new content with two branches, a tag, staged, unstaged and untracked changes",
                 "a database is not dropped while a differently spelled dropped database of the same name waits in the holding directory",
                 "the root database's holding directory takes the spelling of the DROP statement (modelled as the code does; names are case-insensitive)"])


def c46r_corrupt(case):
    """Binding self-test: claim another content for the staged root of the last step."""
    s = case["steps"][-1]["exp"]["s"]
    if s["t"]:
        s["t"] = s["t"][1:]
    else:
        s["t"] = [[["a"], 1]]
    return case


def run_c46_repo(ctx):
    """Repository-level phase of C46 (called from checks/c46.py after the pattern phase)."""
    if ctx.replay:
        replay_one(ctx, ctx.build_engine(ENGINE), "ignore")
        return
    _simple_run(ctx, "RepoIgnore.tla", "ignore", ["c46r_exh_quick.cfg"], ["c46r_exh_thorough.cfg"],
                [{"cfg": "c46r_sim.cfg", "num": ctx.q(60, 400), "depth": 16, "bindings": IGNORE_BIND, "max": ctx.q(200, 1200)}],
                ignore_case, c46r_corrupt, ["AddAll:ok", "CommitAll:ok", "Clean:ok"],
                ["AddAll:ok", "CommitAll:ok", "Clean:ok"],
                ("repository phase: behaviours = TLC simulation of RepoIgnore.tla (create/drop/modify/rename tables, dolt_ignore rows, dolt_add('.'), "
                 "dolt_commit('-A'), dolt_reset(), dolt_clean(), dolt_clean('-x')); after EVERY step the tables and dolt_ignore rows of the HEAD, STAGED and "
                 "WORKING roots are compared with the model's"),
                ["repository phase: verdicts come from IgnorePatterns.tla Result; pattern sets on which the code's syntactic specificity differs are not generated; "
                 "patterns consisting only of wildcards (they match dolt_ignore itself) are not generated", "repository phase: RENAME TABLE is modelled (RepoIgnore.tla Rename) but NOT generated: dolt stages a rename as a unit decided by the NEW name (the drop of the old name follows it), which the model's name-wise rule does not express yet"])


def c37_corrupt(case):
    """Binding self-test: flip NOT NULL of a column (or claim a missing table) in the last step's expectation."""
    sch = case["steps"][-1]["exp"]["sch"]
    for l in sorted(sch):
        if sch[l]["cols"]:
            sch[l]["cols"][-1]["nn"] = not sch[l]["cols"][-1]["nn"]
            return case
    sch[sorted(sch)[0]]["ex"] = True
    return case


def run_c37(ctx):
    _simple_run(ctx, "SchemaDDL.tla", "ddl", ["c37_exh_quick.cfg"], ["c37_exh_thorough.cfg"],
                [{"cfg": "c37_sim.cfg", "num": ctx.q(60, 400), "depth": 16, "bindings": DDL_BIND, "max": ctx.q(150, 900)}],
                ddl_case, c37_corrupt, ["Merge:ok"],
                ["CreateTable:ok", "AddColumn:ok", "Merge:ok"],
                ("behaviours = TLC simulation of SchemaDDL.tla: line main runs CREATE TABLE / ADD COLUMN (FIRST, AFTER, last; NOT NULL; DEFAULT; collation) / DROP / "
                 "MODIFY (widening) / RENAME COLUMN / ADD, DROP INDEX / ADD, DROP CHECK / SET, DROP DEFAULT, a second branch and a second database re-run the same "
                 "statements; after EVERY step the schema of every line is reloaded by a FRESH session (SHOW CREATE TABLE parsed back) and compared with the model's, "
                 "lines with equal statement logs must have identical column tags and schema hashes (doltdb API), and merges between such branches must be conflict-free; "
                 "non-trivial = behaviour with such a merge; distinct = by hash of the statement sequence"),
                ["only schemas of the palette (int, bigint, varchar(10/20), varchar collate ai_ci, decimal(10,2), datetime; one literal default per type; single-column indexes; two checks); "
                 "exhaustive type/option fidelity of SerializeSchema is not claimed beyond the palette",
                 "tables are empty (DDL only)"])
