"""C18 - commit metadata (height, parents, parent closure) describes the commit graph exactly; addresses are stable.
Spec: spec/CommitGraph.tla.  Engine: harness/commitgraph (mode dag, VERIF_ONLY=c18).

TLC explores EVERY DAG with <= n commits whose parent lists are sequences (duplicates allowed) of <= p earlier commits.
AddCommit computes the stored height and the stored parent closure the way newCommitForValue / writeFbCommitParentClosure
do (from the metadata stored in the parents); the invariants HeightRule / MetaExact state that they equal the
graph-theoretic truth (longest path to a root; exactly the proper ancestors with their heights).  Every DAG with exactly
n commits is printed (all smaller DAGs are prefixes of those) and built with real datas commits through two creation
routes; compared after every commit, again after all commits were flushed and caches purged, through a second database
object on the same storage, and (sample, on-disk repository) after dolt_gc(): address = hash of the stored value and
unchanged, Height(), parent list in order with duplicates, closure iteration (addresses + heights + order), Count,
ContainsKey, IterHeight, AsHashSet, Set/LazyCommitClosure membership."""
import importlib.util
import json
import os

LEVEL = "model_checking"
_s = importlib.util.spec_from_file_location("_be", os.path.join(os.path.dirname(__file__), "_be.py"))
be = importlib.util.module_from_spec(_s)
_s.loader.exec_module(be)
vlib = be.vlib

ENV = {"VERIF_ONLY": "c18"}


def critical(c, r):
    # non-trivial: a merge commit exists and (a duplicate parent, or a merge whose parents have different heights, i.e. height >= 3)
    return r.get("merges", 0) > 0 and (r.get("dups", 0) > 0 or r.get("maxht", 0) >= 3)


def run(ctx):
    binary = ctx.build_engine("commitgraph")

    def engines(eng, mode):
        return binary, [mode], None, ENV

    if ctx.replay:
        return be.replay_one(ctx, engines)
    cfgs = ctx.q(["c18_dag_quick.cfg", "c18_dag3_quick.cfg"], ["c18_dag_thorough.cfg", "c18_dag3_thorough.cfg"])
    cases = []
    spaces = []
    for cfg in cfgs:
        graphs, space = be.enumerate_dags(ctx, cfg)
        spaces.append(space)
        cases += be.dag_cases(ctx, graphs, disk_every=ctx.q(60, 400), gc_every=4, tagname=cfg)
        if cfg == cfgs[0]:
            acases = be.amp_cases(ctx, graphs, ctx.q(24, 240), ctx.q([130, 100, 300], [130, 100, 300, 700]))
    be.tag(cases, "main", "dag")
    ctx.cov["space"] = spaces
    ctx.cov["exhaustive"] = True
    ctx.cov["rule"] = ("cases = ALL commit DAGs of the stated sizes (TLC reachable states of CommitGraph.tla; the count is checked against the "
                       "closed formula), each built with real datas/doltdb commits (routes: datas.Database.Commit on a fresh dataset, "
                       "DoltDB.CommitDanglingWithParentCommits; a sample in an on-disk repository with dolt_gc()); evaluations = individual "
                       "comparisons of height / parents / closure entries / membership / address; non-trivial = DAG with a merge commit and "
                       "(a duplicate parent or height >= 3); distinct by parent lists")
    ctx.assumptions += ["commits are created through newCommitForValue only (no ghost commits, no pre-closure old-format commits)",
                        "address stability is observed across flush, cache purge, a second database object on the same storage and online GC; "
                        "not across a process restart of an on-disk store"]

    def corrupt(c):
        c["graph"]["ht"][-1] += 1
        return c
    ctx.binding_selftest(binary, cases[len(cases) // 2], corrupt, args=["dag"], env=ENV)

    def corrupt2(c):
        # drop one closure entry of the last commit that has one
        for cl in reversed(c["graph"]["clo"]):
            if cl:
                cl.pop()
                break
        return c
    ctx.binding_selftest(binary, cases[-1], corrupt2, args=["dag"], env=ENV)
    res = ctx.replay_behaviours(binary, cases, args=["dag"], critical=critical, wrap=lambda c: c, env=ENV, timeout=ctx.q(3600, 30000),
                                fingerprint=lambda c, r: "C18:" + str(r.get("fp")))
    be.check_inconclusive(res)
    # amplified binding: the same expectations on deep histories (heights in the hundreds, multi-level closure trees)
    for c in acases:
        c["binding"]["fault"] = True     # fault action: one closure chunk of the second parent is unreadable while a merge is written
    be.tag(acases, "main", "dag")
    ares = ctx.replay_behaviours(binary, acases, args=["dag"], critical=critical, wrap=lambda c: c, env=ENV, timeout=ctx.q(3600, 30000),
                                 fingerprint=lambda c, r: "C18:" + str(r.get("fp")))
    th = {}
    for r in ares:
        for k, v in (r.get("closureTreeHeights") or {}).items():
            th[k] = th.get(k, 0) + v
    ctx.cov["amplified"] = {"cases": sum(1 for r in ares if r.get("ok")), "chain_lengths": sorted({r.get("amp") for r in ares if r.get("amp")}),
                            "max_real_height": max([r.get("realMaxHeight", 0) for r in ares] or [0]), "closure_tree_heights": th}
    ctx.cov["amplified"]["read_faults"] = {k: sum(r.get(k, 0) for r in ares) for k in ("faultTried", "faultHit", "faultCommitFailed")}
    if not ctx.violations and ctx.cov["amplified"]["read_faults"]["faultHit"] == 0:
        raise vlib.Inconclusive("no injected read fault was hit while a merge commit was written")
    if not ctx.violations and (ctx.cov["amplified"]["max_real_height"] < 512 or "2" not in th):
        raise vlib.Inconclusive("amplified cases did not reach heights >= 512 / two-level closure trees: %s" % ctx.cov["amplified"])
    ctx.cov["disk_cases"] = sum(1 for r in res if r.get("store") == "disk")
    ctx.cov["gc_rereads"] = sum(1 for r in res if r.get("gc"))
    ctx.cov["samples"] = [{"case": {"graph": be.short_graph(s["case"]["graph"]), "binding": s["case"]["binding"]}, "result": s["result"]}
                          for s in ctx.cov["samples"]]
