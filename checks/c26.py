"""C26 - dolt returns the same query results as the reference engine (go-mysql-server's in-memory engine).
Spec: spec/Query.tla.  Engine: harness/query (dolt through harness/sqlh AND a GMS memory engine in one process).

Oracle discipline: a VIOLATION is raised only when dolt's result differs from the memory engine's on the same data and
query (multiset of rows; sequence when ORDER BY on the primary key).  The TLA+ evaluator (Query.tla, Eval, SQL three-valued
logic) generates data x query with SQL text and expected result and is a third opinion: both engines agreeing against it is
exit 2, never a violation.  TLC exhaustively checks laws of that evaluator on every (data, query) of a small bound."""
import copy
import hashlib
import json
import os
import sys

sys.path.insert(0, os.path.dirname(__file__))
import _bo  # noqa: E402

LEVEL = "model_checking"
FILLERS_Q = [0, 300, 800]
FILLERS_T = [0, 300, 800, 1500, 300]


def run(ctx):
    import vlib
    binary = ctx.build_engine("query")
    if ctx.replay:
        rp = json.load(open(ctx.replay))
        res = ctx.run_engine(binary, [], [rp["case"]], shards=1)[0]
        print(json.dumps(res, indent=1)[:6000])
        for m in res.get("real") or []:
            ctx.violation("C26:" + m["fp"], m["detail"], {"case": rp["case"], "result": m, "reproduced": True})
        if res.get("crash") or res.get("panic"):
            ctx.violation("C26:engine-crash", res.get("detail", ""), {"case": rp["case"], "reproduced": True})
        return
    ctx.tlc_check("Query.tla", ctx.q("c26_exh_quick.cfg", "c26_exh_thorough.cfg"), timeout=ctx.q(2400, 7200))
    nq = ctx.q(30, 40)
    beh = ctx.tlc_behaviours("Query.tla", ctx.q("c26_sim_quick.cfg", "c26_sim_thorough.cfg"), num=ctx.q(80, 500), depth=nq + 1,
                             timeout=ctx.q(2400, 7200))
    cases = [b for b in beh if isinstance(b, dict) and len(b.get("queries", [])) == nq]
    if not cases:
        raise vlib.Inconclusive("no complete data/query cases were generated")
    kinds = {}
    for c in cases:
        for q in c["queries"]:
            k = q["kind"] + (":asof" if q["asof"] else "")
            kinds[k] = kinds.get(k, 0) + 1
    for k in ("sel", "agg", "grp", "dis", "cnt", "cnta", "ij", "ijc", "lj", "ljc", "pkj"):
        if kinds.get(k, 0) == 0 or kinds.get(k + ":asof", 0) == 0:
            raise vlib.Inconclusive("generator: query kind %s (current and AS OF) does not occur" % k)
    ctx.cov["query_kind_histogram"] = kinds
    fillers = ctx.q(FILLERS_Q, FILLERS_T)
    ctx.rng.shuffle(cases)   # seeded; keeps the expensive bindings from piling up in one engine shard
    for i, c in enumerate(cases):
        c["binding"] = {"filler": fillers[ctx.rng.randrange(len(fillers))], "seed": ctx.seed * 1000 + i}

    # binding demonstration: a corrupted expectation must be rejected
    good = None
    for c in cases:
        qs = [q for q in c["queries"] if q["exp"] and not q["kind"].startswith("cnt")]
        if qs:
            good = dict(c, queries=[qs[0]], binding={"filler": 0, "seed": 1})
            break
    if good is None:
        raise vlib.Inconclusive("no query with a non-empty expected result")

    def corrupt(x):
        x["queries"][0]["exp"] = x["queries"][0]["exp"][1:]
        return x
    ctx.binding_selftest(binary, good, corrupt, env={"VERIF_STRICT_SPEC": "1"})
    if "binding_selftest" not in ctx.cov:
        raise vlib.Inconclusive("binding self-test could not be performed (the clean case failed)")

    res = ctx.run_engine(binary, [], cases, timeout=ctx.q(3000, 10000))
    spec_mm, unknown, oracle_errors = [], {}, 0
    for c, r in zip(cases, res):
        if r.get("skipped"):
            continue
        if r.get("crash") or r.get("panic") or "evals" not in r:
            unknown.setdefault("C26:engine:" + str(r.get("fp", "crash")), (c, {"fp": "engine", "detail": r.get("detail", ""), "query": 0}))
            continue
        ctx.cov["evaluations"] += int(r["evals"])
        oracle_errors += int(r.get("oracle_errors", 0))
        if not r.get("real"):
            ctx.cov["traces_validated_against_impl"] += 1
        for m in r.get("real") or []:
            fp = "C26:" + m["fp"]
            if _bo.is_known(ctx, fp):
                ctx.violation(fp, m["detail"], {})
            else:
                unknown.setdefault(fp, (c, m))
        for m in r.get("spec") or []:
            spec_mm.append((c, m))
        dk = hashlib.sha1(json.dumps(c["data"], sort_keys=True).encode()).hexdigest()[:10]
        for q in c["queries"]:
            if q["exp"] and not q["kind"].startswith("cnt"):
                ctx.nontrivial(dk + "|" + q["sql"] + ("|asof" if q["asof"] else "") + "|f%d" % c["binding"]["filler"])
        if c["binding"]["filler"]:
            ctx.sample({"data": c["data"], "filler_rows": c["binding"]["filler"],
                        "queries": [{"sql": q["sql"], "asof": q["asof"], "expected": q["exp"]} for q in c["queries"][:4]]}, limit=3)
    ctx.cov["oracle_errors"] = oracle_errors
    ctx.cov["rule"] = ("cases = TLC-simulated behaviours of Query.tla: random tables t, u (<= 4 rows over ints/NULL/short strings, primary key + secondary "
                       "index) at the current head and at an earlier commit c0, and %d random queries each (range / IN / IS NULL predicates under AND/OR/NOT, "
                       "inner and left joins on indexed and unindexed columns and on the primary keys, COUNT/SUM/MIN/MAX, GROUP BY, DISTINCT, ORDER BY + LIMIT, "
                       "COUNT(*) fast path, AS OF) with SQL text and expected rows computed by TLC; each query runs on dolt and on a GMS memory engine in the "
                       "same process under a binding (0 / 300 / 800 (/ 1500) filler rows with keys >= 1000 so that tables and indexes span several chunks; committed or "
                       "working-set data). evaluations = queries compared. distinct_nontrivial = distinct (data, query, binding) with a non-empty expected result." % nq)
    ctx.assumptions += ["types: INT and VARCHAR(8) with the default collation only; functions, subqueries, window functions, other types and collations are not generated",
                        "filler rows are kept out of results by `t.pk < 1000` added to every query's WHERE (same text for both engines)",
                        "the earlier commit is a dolt tag on dolt and a second pair of tables on the memory engine",
                        "TLC's exhaustive part checks laws of the spec's evaluator (three-valued partition, De Morgan, join containment, result shapes), not the engines; "
                        "the differential part is a seeded sample, not exhaustive"]
    for fp, (c, m) in list(unknown.items())[:10]:
        rc = copy.deepcopy(c)
        rc.pop("n", None)
        if "query" in m and rc.get("queries"):
            rc["queries"] = [rc["queries"][m["query"]]]
        r2 = ctx.run_engine(binary, [], [copy.deepcopy(rc)], shards=1)[0]
        again = [x for x in (r2.get("real") or []) if "C26:" + x["fp"] == fp]
        if again or r2.get("crash") or r2.get("panic"):
            ctx.violation(fp, again[0]["detail"] if again else r2.get("detail", ""), {"case": rc, "result": again[0] if again else r2, "reproduced": True})
        else:
            ctx.notes.append("unreproduced mismatch (ignored): %s" % fp)
    skipped = sum(1 for r in res if r.get("skipped"))
    if skipped and not ctx.violations:
        raise vlib.Inconclusive("%d cases skipped (engine died) without a reproduced failing case" % skipped)
    if spec_mm:
        c, m = spec_mm[0]
        rc = copy.deepcopy(c)
        rc["queries"] = [rc["queries"][m["query"]]]
        p = ctx.save_replay({"case": rc, "result": m, "kind": "spec-disagreement"})
        raise vlib.Inconclusive("both engines agree but Query.tla expects something else in %d queries; first: %s\n%s\nsaved: %s"
                                % (len(spec_mm), m["fp"], m["detail"][:1500], p))
