"""C02 - root commit is an atomic compare-and-swap; acknowledged commits persist.
Spec: spec/ManifestCAS.tla (N NomsBlockStore instances on one directory; Commit split at every point where it
touches shared state) + spec/TraceManifestCAS.tla.  Engine: inpkg/store/nbs/manifestcas.

1. TLC exhaustive on the bounded spec: AckedCommitVisibleAfterReopen, FailedCommitChangesNothing, LockDiscipline,
   UpstreamFilesExist (invariants), RootHistoryIsChain, OnlyCASChangesManifest, PersistedChunksMonotone (action
   properties) for every interleaving.
2. G: TLC simulation emits interleavings (full Next and the racing generator NextRace); every step is replayed on
   real stores by opening exactly one gate (manifest / tablePersister interface wrappers, the writeHook parameter
   of fileManifest.Update, the checker parameter of commit); after every step the manifest file, the directory,
   dir/LOCK, every instance's in-memory state and public reads, and a freshly opened store are compared with the
   TLC-computed projection.
3. T: ungated goroutines / several stores / separate OS processes / a journaling store hammer one directory; the
   invoke/return log is validated by TraceManifestCAS.tla (TLC searches the linearization points)."""
import copy
import importlib.util
import json
import os

LEVEL = "model_checking"
_spec = importlib.util.spec_from_file_location("_bb", os.path.join(os.path.dirname(__file__), "_bb.py"))
bb = importlib.util.module_from_spec(_spec)
_spec.loader.exec_module(bb)
vlib = bb.vlib

ENGINE = ("store/nbs", "manifestcas")
TEST = "TestVerifManifestCAS"
CRITICAL = ("HandleOLF", "UpdLockTimeout")

T_SCENARIOS = [
    {"kind": "file", "insts": {"i1": ["c1"], "i2": ["c2"]}, "reopen": True},
    {"kind": "file", "insts": {"i1": ["c1"], "i2": ["c2"], "i3": ["c3"]}, "reopen": True},
    {"kind": "file", "insts": {"i1": ["c1", "c2", "c3"]}},
    {"kind": "file", "insts": {"i1": ["c1", "c2"], "i2": ["c3", "c4"]}},
    {"kind": "journal", "insts": {"i1": ["c1", "c2", "c3"]}},
    {"kind": "file", "insts": {"i1": ["c1"], "i2": ["c2"]}, "procs": True, "reopen": True},
    {"kind": "file", "insts": {"i1": ["c1"], "i2": ["c2"], "i3": ["c3"]}, "procs": True},
]


def g_cfg(ctx):
    if ctx.tier == "quick":
        return {"insts": ["i1", "i2"], "addrs": ["a1", "a2"], "memcap": 1}
    return {"insts": ["i1", "i2", "i3"], "addrs": ["a1", "a2", "a3"], "memcap": 2}


def g_cases(ctx, behaviours):
    out = []
    for k, b in enumerate(behaviours):
        cfg = dict(g_cfg(ctx))
        cfg["seed"] = ctx.seed * 31 + k % 7
        out.append({"mode": "g", "steps": b, "cfg": cfg, "key": cfg["seed"]})
    return out


def critical(c, r):
    return any(s["a"] in CRITICAL for s in c["steps"])


def replay_one(ctx, binary, rp):
    if rp.get("kind") == "trace":
        acc, matched, total, out = bb.validate_one(ctx, "TraceManifestCAS.tla", "c02_trace.cfg", rp["trace"])
        print("trace re-validated: accepted=%s matched=%d/%d" % (acc, matched, total))
        if not acc:
            ev = rp["trace"][matched] if matched < len(rp["trace"]) else {}
            print("first event the specification cannot explain:", json.dumps(ev))
            ctx.violation(rp.get("fingerprint", "C02:T"), rp.get("what", ""), {"kind": "trace", "trace": rp["trace"], "reproduced": True})
        return
    res = ctx.run_engine(binary, [], [rp["case"]], shards=1, test_run=TEST)[0]
    print(json.dumps(res, indent=1)[:4000])
    if not res.get("ok"):
        ctx.violation("C02:G:" + str(res.get("fp")), res.get("detail", ""), {"case": rp["case"], "result": res, "reproduced": True})


def run_g(ctx, binary):
    num = ctx.q(150, 700)
    depth = ctx.q(36, 60)
    beh = ctx.tlc_behaviours("ManifestCAS.tla", ctx.q("c02_sim_quick.cfg", "c02_sim_thorough.cfg"), num=num, depth=depth)
    beh += ctx.tlc_behaviours("ManifestCAS.tla", ctx.q("c02_race_quick.cfg", "c02_race_thorough.cfg"), num=num, depth=depth,
                              seed=ctx.seed + 5000)
    hist = bb.histogram(beh)
    ctx.cov["g_action_histogram"] = dict(hist)
    for a in ("Put", "CommitCall", "CommitSameRootNoCAS", "FlushMemtable", "ErrorIfDangling", "UpdLock", "UpdLockTimeout", "UpdCAS",
              "CommitFinish", "HandleOLF", "RebaseRead", "ReopenRead", "Return"):
        if hist.get(a, 0) == 0:
            raise vlib.Inconclusive("generator: action %s never occurs in the behaviours" % a)
    cases = g_cases(ctx, beh)

    def corrupt(c):
        # the persisted root expected after the last step is changed: the engine must notice
        e = c["steps"][-1]["exp"]["man"]
        e["root"] = "a1" if e["root"] != "a1" else "a2"
        e["ex"] = True
        return c
    ctx.binding_selftest(binary, cases[0], corrupt, test_run=TEST)

    def corrupt2(c):
        # a commit result is flipped
        for s in reversed(c["steps"]):
            if s["a"] == "Return" and s["args"]["op"] == "commit":
                s["args"]["res"] = "false" if s["args"]["res"] == "true" else "true"
                s["exp"]["inst"][s["i"]]["res"] = s["args"]["res"]
                return c
        c["steps"][-1]["exp"]["holder"] = "i1" if c["steps"][-1]["exp"]["holder"] == "none" else "none"
        return c
    withret = next((c for c in cases if any(s["a"] == "Return" and s["args"]["op"] == "commit" for s in c["steps"])), cases[0])
    ctx.binding_selftest(binary, withret, corrupt2, test_run=TEST)

    res = ctx.replay_behaviours(binary, cases, critical=critical, test_run=TEST, wrap=lambda c: c, timeout=4 * 3600,
                                fingerprint=lambda c, r: "C02:G:" + str(r.get("fp")))
    stuck = [v for v in ctx.violations if "goroutine did not reach a gate" in v[1]]
    if stuck:
        ctx.violations = [v for v in ctx.violations if v not in stuck]
        if not ctx.violations:
            raise vlib.Inconclusive("a gated goroutine made no progress within the step timeout (timing; not a verdict): " + stuck[0][1][:300])
    ctx.cov["g_behaviours"] = len(cases)
    ctx.cov["g_behaviours_with_lost_race_or_lock_timeout"] = sum(1 for c in cases if critical(c, None))
    return res


def t_cases(ctx, n):
    out = []
    for k in range(n):
        sc = copy.deepcopy(T_SCENARIOS[k % len(T_SCENARIOS)])
        if sc.get("procs") and ctx.tier == "quick" and k >= 2 * len(T_SCENARIOS):
            sc.pop("procs")
        sc.update(seed=ctx.seed * 1000 + k, addrs=["a1", "a2", "a3"], memcap=2, ops=ctx.q(12, 14))
        out.append({"mode": "t", "cfg": sc, "out": os.path.join(ctx.work, "t-%d-%d.ndjson" % (ctx.seed, k))})
    return out


def run_t(ctx, binary):
    n = ctx.q(14, 63)
    cases = t_cases(ctx, n)
    res = ctx.run_engine(binary, [], cases, test_run=TEST, shards=min(8, n))
    traces, meta = [], []
    skipped = 0
    outcome = {}
    for c, r in zip(cases, res):
        if not r.get("ok"):
            skipped += 1
            ctx.notes.append("T workload not completed (not a verdict): " + str(r.get("detail") or r)[:300])
            continue
        t = bb.read_trace(c["out"])
        if any(str(e.get("res", "")).startswith("err:") for e in t):
            skipped += 1
            ctx.notes.append("T trace with an environment error skipped: " +
                             next(e["res"] for e in t if str(e.get("res", "")).startswith("err:"))[:200])
            continue
        for k, v in (r.get("results") or {}).items():
            outcome[k] = outcome.get(k, 0) + v
        traces.append(t)
        meta.append(c)
    if skipped * 5 > len(cases):
        raise vlib.Inconclusive("%d of %d trace workloads did not complete" % (skipped, len(cases)))
    ctx.cov["t_commit_outcomes"] = outcome
    # binding self-test: flip one commit result of an accepted trace; it must be rejected
    probe = next((t for t in traces if any(e["ev"] == "return" and e.get("op") == "commit" and e["res"] in ("true", "false") for e in t)), None)
    batch = 6
    k = 0
    accepted = 0
    events = 0
    gen = dist = 0
    while k < len(traces):
        part = traces[k:k + batch]
        acc, matched, total, bad, out = bb.validate_batch(ctx, "TraceManifestCAS.tla", "c02_trace.cfg", part, tag="tb", timeout=3600)
        g, d = bb.tlc_states(out)
        gen += g
        dist += d
        if acc:
            accepted += len(part)
            events += total
            k += batch
            continue
        # re-validate the offending trace alone (the recorded execution is the reproduction)
        t = part[bad]
        acc1, m1, tot1, out1 = bb.validate_one(ctx, "TraceManifestCAS.tla", "c02_trace.cfg", t, tag="tr")
        if acc1:
            ctx.notes.append("trace rejected inside a batch but accepted alone (ignored)")
            accepted += 1
        else:
            ev = t[m1] if m1 < len(t) else {}
            fp = "C02:T:%s:%s" % (ev.get("op"), ev.get("res", ev.get("root")))
            what = ("recorded execution is not a behaviour of ManifestCAS.tla: after %d of %d events the specification cannot explain %s "
                    "(scenario %s)" % (m1, tot1, json.dumps(ev), json.dumps(meta[k + bad]["cfg"])))
            ctx.violation(fp, what, {"kind": "trace", "trace": t, "cfg": meta[k + bad]["cfg"], "reproduced": True})
        accepted += bad
        # continue after the failing trace
        k += bad + 1
        if len(ctx.violations) >= 3:
            break
    ctx.cov["traces_validated_against_impl"] += accepted
    ctx.cov["evaluations"] += events
    ctx.cov["t_traces"] = accepted
    ctx.cov["t_events"] = events
    ctx.cov["t_validation_states"] = {"generated": gen, "distinct": dist}
    for t, c in list(zip(traces, meta))[:400]:
        # non-trivial: a trace in which a commit lost (false) while another client's commit succeeded, i.e. a real race outcome
        rs = [e.get("res") for e in t if e["ev"] == "return" and e.get("op") == "commit"]
        if "false" in rs and "true" in rs:
            ctx.nontrivial("T:" + bb.action_key([{"a": json.dumps(e, sort_keys=True)} for e in t]))
    if traces:
        ctx.sample({"trace_first_events": traces[0][:14], "scenario": meta[0]["cfg"]}, limit=4)
    if probe is not None and not ctx.violations:
        bad_t = copy.deepcopy(probe)
        for e in bad_t:
            if e["ev"] == "return" and e.get("op") == "commit" and e["res"] in ("true", "false"):
                e["res"] = "false" if e["res"] == "true" else "true"
                break
        acc, m, tot, _ = bb.validate_one(ctx, "TraceManifestCAS.tla", "c02_trace.cfg", bad_t, tag="self")
        if acc:
            raise vlib.Inconclusive("binding self-test failed: a trace with a flipped commit result was accepted")
        ctx.cov["binding_selftest_trace"] = "trace with one flipped commit result rejected after %d of %d events" % (m, tot)


def run(ctx):
    binary = ctx.build_inpkg(*ENGINE)
    if ctx.replay:
        replay_one(ctx, binary, json.load(open(ctx.replay)))
        return
    if ctx.tier == "quick":
        ctx.tlc_check("ManifestCAS.tla", "c02_exh_quick.cfg")
    else:
        ctx.tlc_check("ManifestCAS.tla", "c02_exh_quick.cfg")
        ctx.tlc_check("ManifestCAS.tla", "c02_exh_thorough_a.cfg", timeout=1500, heap="12g")
        ctx.tlc_check("ManifestCAS.tla", "c02_exh_thorough_b.cfg", timeout=2400, heap="12g")
    ctx.cov["rule"] = (
        "G: behaviours = TLC simulations of ManifestCAS.tla (Next and the racing generator NextRace), each step replayed by opening "
        "one gate on real NomsBlockStore instances sharing a directory and compared (manifest file, table files, LOCK, every "
        "instance's upstream/novel/memtable/Root/Has/Get, a freshly opened store) with the TLC projection; non-trivial = behaviour "
        "containing a lost CAS (HandleOLF) or a LOCK timeout; distinct by action sequence. T: invoke/return logs of ungated "
        "clients (goroutines on one store, several stores, OS processes, journaling store) accepted by TraceManifestCAS.tla; "
        "non-trivial = trace with both a winning and a losing commit; evaluations = G step comparisons + T events matched")
    ctx.assumptions += [
        "chunks carry no child references (dangling-reference checks of chunk contents are C07); only the root's own presence is checked",
        "no GC / conjoin / prune runs in these behaviours (C05, C08); table files never disappear",
        "flock on separate descriptors in one process excludes like separate processes do (thorough and part of quick also use OS processes in T mode)",
        "journaling store: driven in T mode only (one writer, read-only openers as probes); committing the EMPTY root hash is not driven there",
    ]
    ctx.notes.append("named deviations of the code from a CAS register, modelled as actions and accepted: CommitSameRootNoCAS "
                     "(store.go:1588, cur == last and nothing novel returns true without CAS) and CommitAlreadyApplied (store.go:1711, a lost "
                     "CAS whose returned manifest equals the proposed one is reported as success); both change nothing and install no new root")
    run_g(ctx, binary)
    if not ctx.violations:
        run_t(ctx, binary)
