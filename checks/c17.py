"""C17 - stored JSON documents behave like in-memory JSON; three-way JSON merge.  Spec: spec/JsonDoc.tla.
Engine: harness/jsondoc (modes fan / chain / merge).

The property names an oracle (go-mysql-server's in-memory JSONDocument).  Verdict rule:
  * path edits / lookups: VIOLATION only when the stored document (tree.IndexedJsonDocument over a NodeStore, amplified with
    filler members so that it spans several chunks) differs from the oracle on the same case - result document, changed
    flag, error-ness, panic.  Cases on which the spec says the *oracle* leaves the MySQL rules (named deviations of
    JsonDoc.tla, flag `quirk`) are outside the comparison domain; differences there are counted, not reported.
  * merge: VIOLATION when merge.MergeJSON gives different results over in-memory / stored / mixed inputs, or - for triples of
    objects without arrays, where the statement is unambiguous - when every route differs from the declarative merge M3 of the
    spec ("non-overlapping path edits from both sides; conflict exactly when both sides edit one location differently").
  * the TLA+ expectation is the generator and a third opinion: both implementations agreeing against it is exit 2.
  * the edited stored tree is also compared with a fresh serialisation of the same document (C12's demand on JSON documents).
TLC exhaustively checks algebraic laws of the edit rules on every document of the bound, and that the model of the code's
merge-join equals the declarative merge on every triple where the statement is unambiguous and the diff streams are ordered."""
import copy
import json
import os
import sys

sys.path.insert(0, os.path.dirname(__file__))
import _bo  # noqa: E402

LEVEL = "model_checking"

BINDINGS_Q = [
    {"palette": 1, "filln": 0},
    {"palette": 2, "filln": 12, "fillsz": 300, "filldepth": 0, "plainfill": 1},
    {"palette": 3, "filln": 6, "fillsz": 900, "filldepth": 1, "quoteall": 1},
    {"palette": 0, "filln": 30, "fillsz": 150, "filldepth": 3, "lazyval": 1, "plainfill": 1},
]
BINDINGS_T = BINDINGS_Q + [
    {"palette": 4, "filln": 20, "fillsz": 200, "filldepth": 0, "lazyval": 1},
    {"palette": 5, "filln": 3, "fillsz": 100, "filldepth": 0},
    {"palette": 2, "filln": 60, "fillsz": 500, "filldepth": 2, "reload": 1},
]


def with_seed(ctx, b, i):
    b = dict(b)
    b["seed"] = ctx.seed * 101 + i
    b.setdefault("reload", i % 2)
    return b


def selftest(ctx, binary, fan, merges):
    """Binding demonstration: a corrupted TLC expectation must be rejected (edits and merge)."""
    import vlib
    done = []
    for c in fan:
        pick = None
        for e in c["edits"]:
            if e["a"] == "set" and e["exp"]["changed"] and not e["exp"]["quirk"] and e["path"] and \
                    all("m" in l and l["m"] for l in e["path"]):
                pick = e
                break
        if pick is None:
            continue
        good = {"mode": "fan", "doc": c["doc"], "edits": [pick], "lookups": [], "binding": {"seed": 1, "palette": 1, "filln": 8, "fillsz": 200, "filldepth": 0}}

        def corrupt(x):
            x["edits"][0]["exp"]["changed"] = not x["edits"][0]["exp"]["changed"]
            return x
        ctx.binding_selftest(binary, good, corrupt, args=["fan"], env={"VERIF_STRICT_SPEC": "1"})
        done.append(ctx.cov.pop("binding_selftest", None))
        break
    for m in merges:
        if m["class"] == "strict" and not m["decl"]["conflict"] and m["left"] != m["base"] and m["right"] != m["base"]:
            good = dict(m, mode="merge", binding={"seed": 1, "palette": 0, "filln": 8, "fillsz": 200, "filldepth": 0})

            def corrupt2(x):
                x["decl"] = {"doc": x["base"], "conflict": False} if x["decl"]["doc"] != x["base"] else {"doc": x["base"], "conflict": True}
                x["join"] = x["decl"]
                return x
            ctx.binding_selftest(binary, good, corrupt2, args=["merge"], env={"VERIF_STRICT_SPEC": "1"})
            done.append(ctx.cov.pop("binding_selftest", None))
            break
    if len([d for d in done if d]) < 2:
        raise vlib.Inconclusive("binding self-test could not be performed (no suitable case or the clean case failed): %s" % done)
    ctx.cov["binding_selftest"] = "; ".join(done)


def run(ctx):
    import vlib
    binary = ctx.build_engine("jsondoc")
    if ctx.replay:
        rp = json.load(open(ctx.replay))
        case = rp["case"]
        res = ctx.run_engine(binary, [case.get("mode", "fan")], [case], shards=1)[0]
        print(json.dumps({k: v for k, v in res.items() if k not in ("sigs", "ops", "quirk")}, indent=1)[:6000])
        for m in (res.get("real") or []) + (res.get("hist") or []):
            fp = "C17:" + m["fp"]
            ctx.violation(_bo.known_variant(ctx, fp) or fp, m["detail"], {"case": case, "result": m, "reproduced": True})
        if res.get("crash") or res.get("panic"):
            ctx.violation("C17:engine-crash", res.get("detail", ""), {"case": case, "reproduced": True})
        return

    # ---------------------------------------------------------------- TLC: exhaustive (laws) + emission of every case
    ops = ctx.tlc_check("JsonDoc.tla", ctx.q("c17_ops_quick.cfg", "c17_ops_thorough.cfg"), timeout=ctx.q(1500, 5400),
                        extra_args=["-seed", str(ctx.seed)])
    fan_docs = _bo.printed_json(ops["out"])
    if not fan_docs or (ctx.tier == "quick" and len(fan_docs) != ops["distinct"]):
        raise vlib.Inconclusive("emission of the ops machine incomplete: %d documents for %d states" % (len(fan_docs), ops["distinct"]))
    merges = []
    for cfg in ctx.q(["c17_merge_quick.cfg", "c17_merge_hazard.cfg"], ["c17_merge_thorough.cfg", "c17_merge_hazard_thorough.cfg"]):
        mr = ctx.tlc_check("JsonDoc.tla", cfg, timeout=ctx.q(1500, 5400), extra_args=["-seed", str(ctx.seed)])
        got = _bo.printed_json(mr["out"])
        if len(got) != mr["distinct"]:
            raise vlib.Inconclusive("emission of the merge machine incomplete (%s): %d of %d" % (cfg, len(got), mr["distinct"]))
        merges += got
    seen = set()
    merges = [m for m in merges if not (json.dumps(m, sort_keys=True) in seen or seen.add(json.dumps(m, sort_keys=True)))]
    beh = ctx.tlc_behaviours("JsonDoc.tla", ctx.q("c17_sim_quick.cfg", "c17_sim_thorough.cfg"), num=ctx.q(400, 4000),
                             depth=ctx.q(12, 24), timeout=ctx.q(1500, 5400))
    hist = {}
    for b in beh:
        for s in b:
            hist[s["a"]] = hist.get(s["a"], 0) + 1
    for a in ("insert", "set", "replace", "remove", "ainsert", "append", "lookup"):
        if hist.get(a, 0) == 0:
            raise vlib.Inconclusive("generator: action %s never occurs in the simulated behaviours" % a)
    ctx.cov["behaviour_action_histogram"] = hist
    selftest(ctx, binary, fan_docs, merges)

    # ---------------------------------------------------------------- cases
    bindings = ctx.q(BINDINGS_Q, BINDINGS_T)
    cases = []
    for i, d in enumerate(fan_docs):
        for j, b in enumerate(bindings):
            cases.append(dict(d, mode="fan", binding=with_seed(ctx, b, j)))
    for i, b in enumerate(beh):
        cases.append({"mode": "chain", "steps": b, "binding": with_seed(ctx, bindings[i % len(bindings)], i % 7)})
    for i, m in enumerate(merges):
        cases.append(dict(m, mode="merge", binding=with_seed(ctx, bindings[i % len(bindings)], i % 5)))
    ctx.log("cases: %d fan (%d documents x %d bindings), %d chains, %d merge triples" %
            (len(fan_docs) * len(bindings), len(fan_docs), len(bindings), len(beh), len(merges)))
    res = ctx.run_engine(binary, ["fan"], cases, timeout=ctx.q(3000, 10000))

    # ---------------------------------------------------------------- verdicts
    tot = {"quirk_cases": 0, "oracle_undefined": 0, "fallback_results": 0, "hist_checked": 0, "changed": 0, "errs": 0}
    spec_mm, unknown, quirk_div, multi_chunk_docs = [], {}, 0, 0
    merge_classes = {}
    for c, r in zip(cases, res):
        if r.get("skipped"):
            continue
        if r.get("crash") or r.get("panic"):
            unknown.setdefault("C17:engine:" + str(r.get("fp", "crash")), (c, {"fp": "engine", "detail": r.get("detail", ""), "steps": []}))
            continue
        ctx.cov["evaluations"] += int(r.get("evals", 0))
        for k in tot:
            tot[k] += int(r.get(k, 0) or 0)
        bad = (r.get("real") or []) + (r.get("hist") or [])
        if not bad:
            ctx.cov["traces_validated_against_impl"] += 1
        for m in bad:
            fp = "C17:" + m["fp"]
            kfp = _bo.known_variant(ctx, fp)
            if kfp:
                ctx.violation(kfp, m["detail"], {})  # registers the known-finding hit, never a violation
            else:
                unknown.setdefault(fp, (c, m))
        for m in r.get("spec") or []:
            spec_mm.append((c, m))
        quirk_div += sum(int(m.get("count", 1)) for m in (r.get("quirk") or []))
        if c["mode"] == "merge":
            key = (r.get("class"), bool(r.get("conflict")))
            merge_classes[str(key)] = merge_classes.get(str(key), 0) + 1
            if c["left"] != c["base"] and c["right"] != c["base"] and r.get("class") in ("strict", "hazard", "array"):
                ctx.nontrivial("merge|" + json.dumps([c["base"], c["left"], c["right"]], sort_keys=True))
                if r.get("conflict"):
                    ctx.sample({"mode": "merge", "base": c["base"], "left": c["left"], "right": c["right"], "class": r["class"], "real_code": "conflict"}, limit=4)
        elif int(r.get("chunks", 1) or 1) > 1:
            multi_chunk_docs += 1
            for s in (r.get("sigs") or {}):
                ctx.nontrivial("edit|" + s)
            if c["mode"] == "chain":
                ctx.sample({"mode": "chain", "binding": c["binding"], "chunks": r.get("chunks"),
                            "steps": [{"a": s["a"], "path": s["path"], "changed": s["exp"].get("changed")} for s in c["steps"]]}, limit=4)
    skipped = sum(1 for r in res if r.get("skipped"))
    ctx.cov.update(tot)
    ctx.cov["divergences_in_oracle_deviation_zone"] = quirk_div
    ctx.cov["multi_chunk_cases"] = multi_chunk_docs
    ctx.cov["merge_classes"] = merge_classes
    ctx.cov["exhaustive"] = ctx.tier == "quick"
    ctx.cov["space"] = ("every (document, operation, path, value) of the ops machine's bound (all documents of <= 3 nodes over keys a, \"a.b\", \"\"; "
                        "6 operations; every relevant path of <= 3 legs; 3 values) and every (base,left,right) of the merge machine's bound, "
                        "each under %d bindings; the simulated edit chains are a sample" % len(bindings)) if ctx.tier == "quick" else \
                       "thorough: a seeded 1/4 sample of the documents of <= 4 nodes (TLC still checks the laws on all of them)"
    ctx.cov["rule"] = ("cases = (a) for every document reached by TLC in the bounded ops machine, every operation x relevant path x value with the "
                       "TLC-computed result, applied to the in-memory oracle and to the stored document under each binding (filler members so the "
                       "document spans several chunks; scalar palettes incl. multi-kB strings; quoted legs; lazy values); (b) TLC-simulated edit "
                       "chains replayed on both, the stored side carried from edit to edit (re-opened from the NodeStore by hash); (c) every "
                       "(base,left,right) of the merge machine through merge.MergeJSON on in-memory, stored and mixed inputs. evaluations = "
                       "individual stored-vs-oracle comparisons. distinct_nontrivial = distinct (operation, path-situation) classes exercised in "
                       "the comparison domain on a document of more than one chunk + distinct merge triples (objects/arrays) in which both sides "
                       "differ from the base.")
    ctx.assumptions += [
        "comparison domain: cases on which JsonDoc.tla says the in-memory oracle itself leaves the MySQL rules (IgnoresRest, OverflowAppendsAnyway, "
        "UnderflowSet, AbsentIsNull, DropsEmptyLeg, oracle panic) are counted (divergences_in_oracle_deviation_zone) but not reported",
        "the receiver of an edit is a Clone of the stored document (the MutableJSON contract lets an edit destroy its receiver; GMS clones first)",
        "error *presence* is compared, not error text",
        "path language: member (plain, quoted, empty, with a double quote), index, last, last-N; no wildcards or ranges",
        "merge: statement-level verdict only for triples of objects without arrays; arrays and non-objects are checked against the spec's model of "
        "the code (named deviations SameArrayConflict, NonObjectFallback) with exit 2 on disagreement",
    ]
    ctx.notes.append("%d stored-vs-oracle differences lie in the oracle's named-deviation zone (not reported)" % quirk_div)

    # re-execute every distinct unknown mismatch alone
    for fp, (c, m) in list(unknown.items())[:12]:
        rc = _bo.trim_case(c, m)
        r2 = ctx.run_engine(binary, [rc.get("mode", "fan")], [copy.deepcopy(rc)], shards=1)[0]
        again = [x for x in (r2.get("real") or []) + (r2.get("hist") or []) if "C17:" + x["fp"] == fp]
        if again or r2.get("crash") or r2.get("panic"):
            d = again[0]["detail"] if again else r2.get("detail", "")
            ctx.violation(fp, d, {"case": rc, "result": again[0] if again else r2, "reproduced": True})
        else:
            ctx.notes.append("unreproduced mismatch (ignored): %s" % fp)
    if skipped and not ctx.violations:
        raise vlib.Inconclusive("%d cases skipped (engine died) without a reproduced failing case" % skipped)
    if spec_mm:
        c, m = spec_mm[0]
        p = ctx.save_replay({"case": _bo.trim_case(c, m), "result": m, "kind": "spec-disagreement"})
        fps = sorted({x[1]["fp"] for x in spec_mm})
        raise vlib.Inconclusive("both implementations agree but JsonDoc.tla expects something else in %d cases (%d classes: %s); first: %s\n%s\nsaved: %s"
                                % (len(spec_mm), len(fps), ", ".join(fps[:8]), m["fp"], m["detail"][:1500], p))
