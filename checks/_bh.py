"""Shared helper of builder bH for C27, C29, C30, C43 (spec/RowMerge.tla, engine harness/rowmerge).

Cases are CaseRec records printed by TLC (spec operator CaseRec): base table, the DML/DDL of both sides with the expected
table after every statement, and for both merge directions the expected rows, conflicts, resolutions, statistics and the
model's flags for the named deviations.  This file only chooses bindings (SQL types, key types, amplification), groups
sub-cases into batches (one repository per batch, one table per sub-case), runs the engine, re-executes every failing
sub-case alone and turns reproduced failures into fingerprints."""
import hashlib
import json
import os
import sys

sys.path.insert(0, os.path.join(os.path.dirname(os.path.dirname(os.path.abspath(__file__))), "lib"))
import vlib  # noqa: E402

MODULE = "RowMerge.tla"
C12_TYPES = ["int", "varchar", "double", "decimal", "datetime", "bigint", "text", "varbinary"]
C3_TYPES = ["int", "varchar", "double", "decimal", "datetime"]
PK_TYPES = ["int", "varchar", "composite"]


def parse_cases(out):
    cs = []
    for line in out.splitlines():
        if line.startswith('"{'):
            try:
                cs.append(json.loads(json.loads(line)))
            except Exception:
                pass
    return cs


def gen_triples(ctx, cfg, record=True, timeout=5400):
    """Exhaustive enumeration: TLC prints CaseRec for every (delta, base, left, right) of the config."""
    # the generators are TLC runs too: they must run even when the exhaustive model checking is skipped for development
    skip = os.environ.pop("VERIF_DEV_SKIP_TLC", None)
    try:
        res = ctx.tlc_check(MODULE, cfg, record=record, timeout=timeout)
    finally:
        if skip is not None:
            os.environ["VERIF_DEV_SKIP_TLC"] = skip
            ctx.dev_skip = True
    cs = parse_cases(res["out"])
    if not cs:
        raise vlib.Inconclusive("TLC emitted no cases for " + cfg)
    return cs


def gen_histories(ctx, cfg, num, depth, seed=None):
    """Simulation: random DML/DDL histories on both sides; one CaseRec per behaviour (emitted at its last state)."""
    return ctx.tlc_behaviours(MODULE, cfg, num=num, depth=depth, seed=seed, procs=4)


def case_key(c):
    if c.get("keyless"):
        return hashlib.sha1(json.dumps([c["base"], c["left"], c["right"], [o.get("op") for o in c["lops"]], [o.get("op") for o in c["rops"]]], sort_keys=True).encode()).hexdigest()
    return hashlib.sha1(json.dumps([c["delta"], c["base"], c["left"], c["right"], [(o.get("op"), o.get("k")) for o in c["lops"]],
                                    [(o.get("op"), o.get("k")) for o in c["rops"]]], sort_keys=True).encode()).hexdigest()


def ops_classes(c):
    if c.get("keyless"):
        return set()
    return set(c["m"][0]["ops"]) | set(c["m"][1]["ops"])


def nontrivial(c):
    """A case is non-trivial when the merge has to do more than copy one side."""
    if c.get("keyless"):
        return bool(c["m"][0]["conf"]) or (c["left"] != c["base"] and c["right"] != c["base"])
    cl = ops_classes(c)
    return bool(cl & {"divergentModifyResolved", "divergentDeleteResolved", "divergentModifyConflict", "divergentDeleteConflict",
                      "convergentAdd", "convergentModify", "convergentDelete"}) or c["delta"]["kind"] != "none"


def bind_keyed(rng, c, name, index=None, plain=False):
    d = c["delta"]
    b = {"name": name, "pk": "int" if plain else rng.choice(PK_TYPES), "types": {}, "index": False}
    t12 = ["int", "varchar", "double"] if plain else C12_TYPES
    b["types"]["1"] = rng.choice(t12)
    b["types"]["2"] = rng.choice(t12 + ([] if plain else ["bigtext"]))
    b["types"]["3"] = rng.choice(C3_TYPES)
    if d["kind"] == "widen":
        b["types"][str(d["col"])] = "varchar"
        b["widen"] = rng.choice(["varchar40", "text"])
    if index is None:
        index = d["kind"] == "none" and rng.random() < 0.4
    if index and b["types"]["1"] in ("text", "bigtext"):
        b["types"]["1"] = "varchar"
    b["index"] = bool(index)
    return b


def bind_keyless(rng, c, name):
    t = ["int", "varchar", "double", "decimal", "datetime", "bigint"]
    b = {"name": name, "pk": "none", "types": {"1": rng.choice(t), "2": rng.choice(t + ["text", "bigtext"])}, "index": rng.random() < 0.35}
    return b


def make_batches(ctx, cases, mode, paths, batch, binder, extra=None, check_ops=True, isolate_batch=8):
    """Group cases into engine cases (one repository each). Cases without schema delta share one pair of branches per batch.
    Cases with a schema delta or a recorded history are 'isolated': own branches and merges inside the shared repository, so
    that a failing CALL dolt_merge concerns only that case."""
    plain, iso = [], []
    for c in cases:
        if (not c.get("keyless")) and mode == "keyed" and (c["delta"]["kind"] != "none" or batch == 1):
            iso.append(c)
        else:
            plain.append(c)
    groups = [(plain[i:i + batch], False) for i in range(0, len(plain), max(1, batch))]
    groups += [(iso[i:i + isolate_batch], True) for i in range(0, len(iso), isolate_batch)]
    out = []
    for g, isolate in groups:
        subs = []
        for i, c in enumerate(g):
            s = {"case": c, "bind": binder(ctx.rng, c, "t%d" % i)}
            if extra:
                s.update(extra(ctx.rng, c))
            subs.append(s)
        out.append({"mode": mode, "paths": paths, "checkOps": check_ops, "isolate": isolate, "subs": subs})
    return out


def single(bc, i):
    s = dict(bc["subs"][i])
    return {"mode": bc["mode"], "paths": bc["paths"], "checkOps": bc.get("checkOps", True), "isolate": False, "nostats": bc.get("nostats", False), "subs": [s]}


def fingerprint(pid, bc, sub, f):
    c = sub["case"]
    if c.get("keyless"):
        flags = ""
        if f.get("dir") in ("L", "R"):
            m = c["m"][0 if f["dir"] == "L" else 1]
            if any(cf["on"] == 0 and cf["tn"] == 0 for cf in m["conf"]):
                flags += "+bothgone"  # a convergent delete recorded as a conflict: neither side has the row
        if sub["bind"].get("index"):
            flags += "+index"
        return "%s:keyless:%s:%s%s" % (pid, f["stage"], f["what"], flags)
    d = c["delta"]
    rel = "-"
    flags = ""
    if f.get("dir") in ("L", "R"):
        if d["kind"] != "none":
            rel = "ours" if d["side"] == f["dir"] else "theirs"
        m = c["m"][0 if f["dir"] == "L" else 1]
        if m.get("pbc"):
            flags += "+pbc"
    if c.get("alias"):
        flags += "+alias"
    return "%s:%s:delta=%s@%s:%s:%s%s" % (pid, bc["mode"], d["kind"], rel, f["stage"], f["what"], flags)


PER_PROC = 10   # engine cases per engine process: every case opens a fresh repository + SQL engine and ~20 MB survive its Close()


def killed(r):
    """the engine process was killed by a signal (OOM killer, operator): infrastructure, never a verdict"""
    return bool(r.get("crash")) and "rc=-" in str(r.get("detail", ""))


def run_engine_bounded(ctx, binary, cases, shards=None, timeout=3000, per_proc=PER_PROC):
    """ctx.run_engine in rounds so that no engine process lives longer than per_proc cases (bounded memory)."""
    import time
    n = min(shards or 16, vlib.max_shards() if hasattr(vlib, "max_shards") else 16, vlib.NCPU)
    n = max(1, min(n, len(cases)))
    out = []
    t_end = time.time() + timeout
    step = n * per_proc
    for i in range(0, len(cases), step):
        if time.time() > t_end:
            raise vlib.Inconclusive("engine runs exceeded %ds (%d of %d cases done)" % (timeout, i, len(cases)))
        out += ctx.run_engine(binary, ["cases"], cases[i:i + step], shards=n, timeout=max(60, t_end - time.time()))
    return out


def run_batches(ctx, binary, batches, shards=None, timeout=3000, crit=nontrivial, soft_prefix=None, per_proc=PER_PROC):
    """Run, triage, re-execute failing sub-cases alone, report reproduced failures. Returns (passed sub-cases, failures).
    soft_prefix: failures whose 'what' starts with it do not stop the sub-case (the engine went on comparing); they are
    grouped by fingerprint, a few per fingerprint are re-executed, and each reproduced fingerprint is reported once."""
    suspects = []  # single-sub batches to re-run
    soft = {}      # fingerprint -> [single-sub batch, ...]
    passed = 0

    def is_soft(f):
        return bool(soft_prefix) and f["what"].startswith(soft_prefix)

    def ok_sub(s):
        ctx.cov["traces_validated_against_impl"] += 1
        if crit(s["case"]):
            ctx.nontrivial(case_key(s["case"]))
            ctx.sample({"case": {k: s["case"][k] for k in s["case"] if k in ("delta", "base", "left", "right", "keyless")},
                        "bind": s["bind"]})
        return 1

    # Every batch must be answered. A batch is 'skipped' when its engine process died earlier in the shard, 'killed' when
    # the process was killed by a signal while serving it: both are re-run (twice at most); left-overs make the run inconclusive.
    pending = list(batches)
    for attempt in range(3):
        res = run_engine_bounded(ctx, binary, pending, shards=shards, timeout=timeout, per_proc=per_proc)
        again = []
        for bc, r in zip(pending, res):
            if r.get("skipped") or killed(r):
                again.append(bc)
                continue
            ctx.cov["evaluations"] += int(r.get("evals", 0))
            subs_r = {s["i"]: s for s in (r.get("subs") or [])}
            if r.get("batchError") or r.get("crash") or r.get("panic") or (not r.get("ok") and not subs_r):
                # the whole batch was poisoned (a failing CALL dolt_merge fails for every table): find the culprits one by one
                for i in range(len(bc["subs"])):
                    suspects.append((single(bc, i), {"why": r.get("batchError") or r.get("detail") or "engine died"}))
                continue
            for i, s in enumerate(bc["subs"]):
                sr = subs_r.get(i)
                if sr is None:
                    suspects.append((single(bc, i), sr))
                elif sr["ok"]:
                    passed += ok_sub(s)
                elif all(is_soft(f) for f in sr["fails"]):
                    passed += ok_sub(s)
                    for f in sr["fails"]:
                        soft.setdefault(fingerprint(ctx.id, bc, s, f), []).append((single(bc, i), f))
                else:
                    suspects.append((single(bc, i), sr))
        pending = again
        if not pending:
            break
        ctx.log("%d engine cases unanswered (engine process died or was killed), running them again" % len(pending))
    if pending:
        raise vlib.Inconclusive("%d engine cases could not be run (engine processes killed)" % len(pending))
    failures = []
    for fp, lst in sorted(soft.items()):
        sb = [b for b, _ in lst[:3]]
        res2 = ctx.run_engine(binary, ["cases"], sb, shards=min(len(sb), 2), timeout=timeout)
        rep = 0
        for b2, r2 in zip(sb, res2):
            for s2 in (r2.get("subs") or []):
                if any(fingerprint(ctx.id, b2, b2["subs"][0], f) == fp for f in (s2.get("fails") or [])):
                    rep += 1
        if rep == 0:
            ctx.notes.append("unreproduced soft mismatch (ignored): " + fp)
            continue
        ctx.cov.setdefault("soft_mismatches", {})[fp] = len(lst)
        failures.append((fp, "%d sub-cases, %d of %d re-executions reproduced; first: %s" % (len(lst), rep, len(sb), lst[0][1]["detail"]), lst[0][0], True))
    # re-execute at most REEXEC sub-cases per predicted fingerprint (a fingerprint is reported only after it reproduced);
    # members of poisoned batches carry no prediction and are all re-executed
    REEXEC = 5
    seen_fp, kept, attributed = {}, [], {}
    for bc1, first in suspects:
        fl = (first or {}).get("fails") if isinstance(first, dict) else None
        if not fl:
            kept.append((bc1, first))
            continue
        key = "|".join(sorted({fingerprint(ctx.id, bc1, bc1["subs"][0], f) for f in fl}))
        seen_fp[key] = seen_fp.get(key, 0) + 1
        if seen_fp[key] <= REEXEC:
            kept.append((bc1, first))
        else:
            attributed[key] = attributed.get(key, 0) + 1
    if attributed:
        ctx.cov["failing_subcases_not_reexecuted"] = attributed
    suspects = kept
    if suspects:
        ctx.log("%d sub-cases to re-execute alone" % len(suspects))
        sb = [s for s, _ in suspects]
        res2 = run_engine_bounded(ctx, binary, sb, shards=min(8, max(1, len(sb) // 2)), timeout=timeout, per_proc=3 * per_proc)
        # an engine killed by a signal says nothing about dolt: one more attempt, alone; still killed => inconclusive
        for j, r2 in enumerate(res2):
            if killed(r2) or r2.get("skipped"):
                res2[j] = ctx.run_engine(binary, ["cases"], [sb[j]], shards=1, timeout=timeout)[0]
                if killed(res2[j]):
                    raise vlib.Inconclusive("the engine process was killed by a signal twice while re-executing a sub-case: " + str(res2[j].get("detail"))[:300])
        for (bc1, first), r2 in zip(suspects, res2):
            sub = bc1["subs"][0]
            if r2.get("skipped"):
                continue
            fl = []
            for s in (r2.get("subs") or []):
                fl += s.get("fails") or []
            hard = [f for f in fl if not is_soft(f)]
            if r2.get("ok") or (fl and not hard):
                if first and first.get("why"):
                    passed += 1  # innocent member of a poisoned batch
                    ctx.cov["traces_validated_against_impl"] += 1
                    ctx.cov["evaluations"] += int(r2.get("evals", 0))
                    if crit(sub["case"]):
                        ctx.nontrivial(case_key(sub["case"]))
                else:
                    ctx.notes.append("unreproduced mismatch (ignored): " + json.dumps(first)[:400])
                continue
            if not fl:
                fl = [{"stage": "engine", "dir": "", "what": "panic" if r2.get("panic") else "crash",
                       "detail": (r2.get("batchError") or r2.get("detail") or "")[:3000]}]
            for f in fl:
                fp = fingerprint(ctx.id, bc1, sub, f)
                detail = f["detail"] + "\n  case: delta=%s base=%s left=%s right=%s bind=%s\n  last statements:\n    %s" % (
                    json.dumps(sub["case"].get("delta")), json.dumps(sub["case"]["base"]), json.dumps(sub["case"]["left"]),
                    json.dumps(sub["case"]["right"]), json.dumps(sub["bind"]), (r2.get("sqltail") or "")[-2500:])
                failures.append((fp, detail, bc1, False))
    for fp, detail, bc1, _ in failures:
        ctx.violation(fp, detail, {"case": bc1, "reproduced": True})
    return passed, failures


def replay(ctx, binary):
    rp = json.load(open(ctx.replay))
    bc = rp["case"]
    r = ctx.run_engine(binary, ["cases"], [bc], shards=1)[0]
    print(json.dumps(r, indent=1)[:6000])
    if not r.get("ok"):
        fl = []
        for s in (r.get("subs") or []):
            fl += s.get("fails") or []
        if not fl:
            fl = [{"stage": "engine", "dir": "", "what": "crash", "detail": r.get("detail", "")}]
        for f in fl:
            ctx.violation(fingerprint(ctx.id, bc, bc["subs"][0], f), f["detail"], {"case": bc, "reproduced": True})


def selftest(ctx, binary, good_bc, corrupt, soft_prefix=None):
    """Binding demonstration on one single-sub batch: the engine must accept it and reject the corrupted expectation."""
    import copy
    bad = corrupt(copy.deepcopy(good_bc))
    r = ctx.run_engine(binary, ["cases"], [copy.deepcopy(good_bc), bad], shards=1)

    def hard(res):
        fl = []
        for s in (res.get("subs") or []):
            fl += [f for f in (s.get("fails") or []) if not (soft_prefix and f["what"].startswith(soft_prefix))]
        if not fl and not res.get("ok") and not res.get("subs"):
            fl = [{"stage": "engine", "what": "crash", "detail": str(res.get("detail"))[:200]}]
        return fl
    if hard(r[0]):
        return False  # the real run will report it
    fl = hard(r[1])
    if not fl:
        raise vlib.Inconclusive("binding self-test failed: engine accepted a corrupted expectation")
    ctx.cov["binding_selftest"] = "corrupted expectation rejected: " + fl[0]["stage"] + ":" + fl[0]["what"] + " " + fl[0]["detail"][:160]
    return True


def stratified_sample(rng, cases, n):
    """Random sample that contains every op class of the model at least a few times."""
    if n >= len(cases):
        return list(cases)
    by = {}
    for i, c in enumerate(cases):
        for cl in ops_classes(c):
            by.setdefault(cl, []).append(i)
    pick = set()
    for cl, idx in sorted(by.items()):
        for i in rng.sample(idx, min(len(idx), max(3, n // 40))):
            pick.add(i)
    rest = [i for i in range(len(cases)) if i not in pick]
    rng.shuffle(rest)
    for i in rest:
        if len(pick) >= n:
            break
        pick.add(i)
    return [cases[i] for i in sorted(pick)]


# ---------------------------------------------------------------------------------------------------------------
# chunk-edge ("scatter") binding of the amplified c30 engine mode: pure-update triples on a dense multi-leaf table whose
# model keys are bound to the first / middle / LAST keys of three consecutive leaf chunks (read from the real tree)
def _rows(t):
    return {r["k"]: r["r"] for r in t}


def pure_update(c):
    b, l, r = _rows(c["base"]), _rows(c["left"]), _rows(c["right"])
    return c["delta"]["kind"] == "none" and set(b) == set(l) == set(r) == {1, 2} and all(v != 0 for t in (b, l, r) for row in t.values() for v in row[:2])


def disjoint_edits(c):
    """left edits exactly one key, right exactly the other one"""
    if not pure_update(c):
        return False
    b, l, r = _rows(c["base"]), _rows(c["left"]), _rows(c["right"])
    lc = {k for k in b if l[k] != b[k]}
    rc = {k for k in b if r[k] != b[k]}
    return len(lc) == 1 and len(rc) == 1 and lc != rc


def scatter_batches(ctx, tri, n_disjoint, n_other, nostats=False):
    dj = [c for c in tri if disjoint_edits(c)]
    ot = [c for c in tri if pure_update(c) and not disjoint_edits(c) and c["left"] != c["base"] and c["right"] != c["base"]]
    ctx.rng.shuffle(dj)
    ctx.rng.shuffle(ot)
    # the same triple is worth running on several chunk triples (the binding, not the values, decides which tree path runs)
    cases = (dj * (1 + n_disjoint // max(1, len(dj))))[:n_disjoint] + ot[:n_other]

    def binder(rng, c, name):
        return {"name": name, "pk": "int", "types": {"1": "int", "2": "int", "3": "int"}, "index": False}

    def extra(rng, c):
        return {"amp": {"R": 1, "F": rng.choice([2500, 3500, 5000]), "seed": rng.randrange(1 << 30), "scatter": True}}
    bs = make_batches(ctx, cases, "c30", [], 4, binder, extra=extra)
    for b in bs:
        b["nostats"] = nostats
    return bs, len(cases)
