"""Shared helpers of the checks C08 and C09 (builder bK).

Specs: spec/GC.tla (the collector and its sessions), spec/RepoGC.tla (Repo.tla + GC / Reopen stuttering steps and
collections inside a rebase).  Engine: harness/gc (modes repo, rich, vs, sql) on harness/libbk (the wrapping chunk
store with recorder and gates, the dbfactory replacement) and harness/librepo (projection of a repository, builder bI)."""
import collections
import copy
import hashlib
import json
import os
import re
import shutil
import subprocess
import sys
import tempfile

sys.path.insert(0, os.path.join(os.path.dirname(os.path.dirname(os.path.abspath(__file__))), "lib"))
import vlib

ENGINE = "gc"


# ------------------------------------------------------------------ TLC helpers
def expect_model_violation(ctx, module, cfg, needles, timeout=1800, workers=None):
    """Non-vacuity: TLC must find a violation of one of |needles| in the deliberately broken variant of the model."""
    d = ctx._spec_dir()
    md = tempfile.mkdtemp(prefix="md-", dir=ctx.work)
    cmd = ["java", "-XX:+UseParallelGC", "-Xss256m", "-Xmx3g", "-cp", vlib.TLA_CP, "tlc2.TLC", "-workers", str(workers or min(6, vlib.default_workers())),
           "-metadir", md, "-config", os.path.join("cfg", cfg), "-deadlock", "-noGenerateSpecTE", module]
    try:
        rc, out = vlib.sh(cmd, cwd=d, timeout=timeout)
    except subprocess.TimeoutExpired:
        raise vlib.Inconclusive("TLC timeout on %s/%s" % (module, cfg))
    finally:
        shutil.rmtree(md, ignore_errors=True)
    hit = [n for n in needles if ("Invariant %s is violated" % n) in out or ("property %s was violated" % n) in out]
    if not hit:
        raise vlib.Inconclusive("vacuity: TLC did not find the expected violation (%s) in %s/%s:\n%s" % (needles, module, cfg, out[-1500:]))
    m = re.search(r"(\d+) states generated, (\d+) distinct states found", out)
    ctx.log("TLC %s/%s: the broken variant violates %s (%s distinct states explored)" % (module, cfg, hit[0], m.group(2) if m else "?"))
    return hit[0]


def bug_cfg(ctx, base_cfg, bug, extra=None):
    """Derive the config of a broken variant from an exhaustive config: Bug = <bug>, invariants NoLoss / NoErrs only."""
    d = ctx._spec_dir()
    txt = open(os.path.join(d, "cfg", base_cfg)).read()
    txt = re.sub(r'Bug = "none"', 'Bug = "%s"' % bug, txt)
    for k, v in (extra or {}).items():
        txt = re.sub(r"^ %s = .*$" % k, " %s = %s" % (k, v), txt, flags=re.M)
    txt = re.sub(r"^INVARIANTS.*$", "INVARIANTS NoLoss NoErrs", txt, flags=re.M)
    txt = re.sub(r"^PROPERTIES.*$", "", txt, flags=re.M)
    name = "zz_bk_bug_%s.cfg" % bug
    with open(os.path.join(d, "cfg", name), "w") as f:
        f.write(txt)
    return name


# ------------------------------------------------------------------ behaviours
def cfg_consts(cfg):
    txt = open(os.path.join(vlib.VERIF, "spec", "cfg", cfg)).read()

    def setof(name, conv):
        m = re.search(r"^\s*%s\s*=\s*\{([^}]*)\}" % name, txt, re.M)
        return [conv(x.strip().strip('"')) for x in m.group(1).split(",") if x.strip()]
    return {"tables": setof("Tables", str), "keys": setof("Keys", int), "sessions": setof("Sessions", str)}


def gc_sessions(cfg):
    txt = open(os.path.join(vlib.VERIF, "spec", "cfg", cfg)).read()
    m = re.search(r"^\s*Sessions\s*=\s*\{([^}]*)\}", txt, re.M)
    return [x.strip().strip('"') for x in m.group(1).split(",") if x.strip()]


def dedupe_prefix(behaviours, steps_of, keep=1):
    """TLC's simulator evaluates the Emit constraint for every candidate successor of the last state: one trace yields
    several behaviours that differ in the last step only. Keep |keep| of each."""
    seen = collections.Counter()
    out = []
    for b in behaviours:
        st = steps_of(b)
        h = hashlib.sha1(json.dumps([[s["a"], s["s"], s["args"]] for s in st[:-1]], sort_keys=True).encode()).hexdigest()
        seen[h] += 1
        if seen[h] <= keep:
            out.append(b)
    return out


def repo_score(b):
    """How much of the property's quantifier a repository behaviour exercises: collections while an operation is in
    progress, with stashes / tags present, inside a rebase, after resets and branch moves."""
    sc = 0
    modes = set()
    for s, m in zip(b["steps"], b["mid"]):
        if s["a"] == "Rebase" and m:
            sc += 3 if s["res"] in ("ok", "conflict-aborted") else 1
        if s["a"] in ("GC", "Reopen"):
            exp = s["exp"]
            ws = exp["ws"]
            if any(w["mk"] != "none" for w in ws.values()):
                sc += 6
            if exp["st"]:
                sc += 2
            if exp["tg"]:
                sc += 1
            if len(exp["cm"]) > 3:
                sc += 1
            if s["a"] == "GC":
                modes.add(s["args"]["mode"])
        if s["res"] == "conflict":
            sc += 2
    return sc + len(modes)


def select(behaviours, score, n):
    """The n most interesting behaviours (stable order), all TLC's."""
    idx = sorted(range(len(behaviours)), key=lambda i: (-score(behaviours[i]), i))[:n]
    return [behaviours[i] for i in sorted(idx)]


def repo_cases(behaviours, cfg, bindings, c09):
    k = cfg_consts(cfg)
    out = []
    for i, b in enumerate(behaviours):
        bd = dict(bindings[i % len(bindings)])
        out.append({"steps": b["steps"], "mid": b["mid"], "binding": bd, "tables": k["tables"], "keys": k["keys"], "sessions": k["sessions"],
                    "opts": {"c09": c09}, "key": [cfg, bd], "mode": "repo"})
    return out


def histogram(cases):
    h = collections.Counter()
    for c in cases:
        mids = c.get("mid") or [""] * len(c["steps"])
        for s, m in zip(c["steps"], mids):
            h[s["a"] + ":" + s["res"] + (":gc-inside" if m else "")] += 1
    return h


def corrupt_repo(case):
    """Binding self-test (repo mode): flip one expected cell of the last step's working root, or a branch head."""
    c = case
    st = c["steps"][-1]["exp"]
    for b, w in st["ws"].items():
        if isinstance(w["w"], dict):
            for t, tb in w["w"].items():
                if tb["rows"]:
                    tb["rows"][0][1] = 1 if tb["rows"][0][1] != 1 else 2
                else:
                    tb["rows"].append([c["keys"][0], 1, 0])
                return c
    b = sorted(st["br"])[0]
    st["br"][b] = 1 if st["br"][b] != 1 else 2
    return c


def corrupt_sched(case):
    """Binding self-test (vs / sql mode): change what TLC says the keeper recorded / the collector's state at one step."""
    c = case
    for st in c["steps"][1:]:
        e = st["exp"]
        if e["gs"] == "NewGen" and e["gpc"] in ("markNew", "markNext") and c.get("mode") == "sql":
            e["gs"] = "OldGen"
            return c
        if e["new"] and c.get("mode") != "sql":
            e["new"] = e["new"][1:]
            return c
    c["steps"][-1]["exp"]["gs"] = "Finalizing" if c["steps"][-1]["exp"]["gs"] != "Finalizing" else "NoGC"
    return c


def run_cases(ctx, binary, mode, cases, critical, prefix, timeout=None):
    """replay_behaviours for one engine mode, in batches of 40 cases on 4 engine processes (an engine process serves at
    most ~10 cases: bounded memory); returns the results and aggregates the engines' statistics."""
    res = []
    for i in range(0, len(cases), 40):
        part = cases[i:i + 40]
        res += ctx.replay_behaviours(binary, part, args=[mode], critical=critical, wrap=lambda c: c, timeout=timeout or ctx.q(1800, 2 * 3600),
                                     fingerprint=lambda c, r: prefix + ":" + ((c["name"] + ":") if c.get("name") else "") + re.sub(r"^(C0[89]):", "", str(r.get("fp"))),
                                     shards=min(4, max(1, len(part) // 2)))
    agg = collections.Counter()
    cov = collections.Counter()
    for r in res:
        for k, v in (r.get("stats") or {}).items():
            agg[k] += v
        for k, v in (r.get("cov") or {}).items():
            cov[k] += v
    return res, agg, cov


def replay_one(ctx, binary):
    rp = json.load(open(ctx.replay))
    case = rp["case"]
    mode = case.get("mode", "repo")
    res = ctx.run_engine(binary, [mode], [case], shards=1)[0]
    print(json.dumps({k: v for k, v in res.items() if k not in ("n", "cov", "out")}, indent=1)[:6000])
    for sf in (res.get("soft") or []):
        ctx.violation(ctx.id + ":" + re.sub(r"^(C0[89]):", "", str(sf.get("fp"))), sf.get("detail", ""), {"case": case, "result": sf, "reproduced": True})
    if not res.get("ok"):
        ctx.violation(ctx.id + ":" + re.sub(r"^(C0[89]):", "", str(res.get("fp"))), res.get("detail", ""), {"case": case, "result": res, "reproduced": True})


def add_outcomes(ctx, key, agg):
    ctx.cov.setdefault(key, {})
    for k, v in agg.items():
        ctx.cov[key][k] = ctx.cov[key].get(k, 0) + v
