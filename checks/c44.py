"""C44 - names and revision specs parse as documented.
Spec: spec/RefNames.tla (+ AncestorSpec.tla, CommitGraph.tla).  Engine: harness/commitgraph (modes names, dag).

RefNames.tla transcribes ValidateDatasetId (operationally, the scanning loop, and declaratively, the documented rules), the
branch and tag expressions, IsValidUserBranchName / IsValidTagRef / IsValidCommitHash, NewCommitSpec and SplitAncestorSpec over
strings of character classes.  TLC enumerates ALL symbol strings up to the bound, checks on each that the operational and the
documented form agree, that an accepted commit spec is its separately parsed base followed by its separately parsed ancestor
part, and prints the verdicts.  The engine binds every string to a concrete one (class members vary with seed and position in
the run) and compares every validator / parser with the printed verdict; for accepted specs it also resolves the full spec and
the separately parsed base + walk on a real history and compares the commits; names that pass the tag rules are created as tags.
Second part: all DAGs of CommitGraph.tla with <= n commits, branch / tag / HEAD spellings taken from strings TLC accepted, every
~/^ string: DoltDB.Resolve(<name><spec>) must be the commit Walk(commit of name, spec) computed by TLC."""
import importlib.util
import json
import os

LEVEL = "model_checking"
_s = importlib.util.spec_from_file_location("_be", os.path.join(os.path.dirname(__file__), "_be.py"))
be = importlib.util.module_from_spec(_s)
_s.loader.exec_module(be)
vlib = be.vlib

ENV = {"VERIF_ONLY": "c44"}
BATCH = 400


def pick_names(recs, seed):
    """base names for the DAG part, taken from what TLC accepted: branch names of several shapes, tag names, HEAD spellings"""
    import random
    rng = random.Random(seed)
    br = [r for r in recs if r["v"]["branch"] and r["v"]["cspec"]["kind"] == "ref" and not r["v"]["cspec"]["ins"] and len(r["chars"]) <= 12]
    tg = [r for r in recs if r["v"]["tagCreate"] and r["v"]["cspec"]["kind"] == "ref" and not r["v"]["cspec"]["ins"] and len(r["chars"]) <= 12]
    hd = [r for r in recs if r["v"]["cspec"]["kind"] == "head" and not r["v"]["cspec"]["ins"] and len(r["chars"]) == 4]
    multi = [r for r in br if "/" in r["chars"]] or br
    dotted = [r for r in br if "." in r["chars"] or "@" in r["chars"] or "{" in r["chars"] or "-" in r["chars"]] or br
    names = []
    for pool, kind, k in ((br, "branch", 2), (multi, "branch", 1), (dotted, "branch", 1), (tg, "tag", 1), (hd, "head", 2)):
        for r in rng.sample(pool, min(k, len(pool))):
            names.append({"chars": r["chars"], "kind": kind, "syms": r["syms"]})
    return names


def run(ctx):
    binary = ctx.build_engine("commitgraph")

    def engines(eng, mode):
        return binary, [mode], None, ENV

    if ctx.replay:
        return be.replay_one(ctx, engines)
    spaces = []
    allrecs = []
    counts = {}
    ctx.cov["exhaustive"] = True
    ctx.cov["rule"] = ("cases = ALL strings over the symbol alphabet of the config up to the stated length (TLC reachable states of RefNames.tla, count "
                       "checked), each bound to a concrete string (class members chosen from seed/position) and fed to ValidateDatasetId, "
                       "IsValidBranchName, IsValidTagName, IsValidUserBranchName, IsValidBranchRef, IsValidTagRef, IsValidCommitHash, NewCommitSpec "
                       "(kind, base, instructions), SplitAncestorSpec; accepted specs are resolved on a real history both as a whole and as base + "
                       "walk; then ALL DAGs of the stated size x accepted base names (branch, tag, HEAD spellings) x every ~/^ string against "
                       "TLC's Walk; evaluations = individual verdict comparisons; non-trivial string = accepted by at least one validator and "
                       "rejected by at least one other, or an accepted spec with a non-empty ancestor part; distinct by symbol string")
    ctx.assumptions += ["a character class is bound to one member per string; members within a class are assumed equivalent for the code "
                        "(they are for the byte table, the regular expressions and unicode.IsSpace); all members are used across the run",
                        "IsValidTagName is laxer than ValidateDatasetId (non-ASCII, a component starting with '.', a trailing '.'): such names pass the tag "
                        "validator and are rejected when the tag dataset is created; the spec models both and the check demands creation only for names "
                        "that satisfy both",
                        "SplitAncestorSpec, called directly with leading/trailing white space and an ancestor part, rejects (named deviation in the spec); "
                        "NewCommitSpec trims first and is unaffected"]

    def corrupt(c):
        v = c["recs"][len(c["recs"]) // 2]["v"]
        v["branch"] = not v["branch"]
        return c

    def corrupt_spec(c):
        for r in c["recs"]:
            if r["v"]["cspec"]["kind"] == "ref" and r["v"]["cspec"]["ins"]:
                r["v"]["cspec"]["ins"] = r["v"]["cspec"]["ins"] + [0]
                return c
        c["recs"][0]["v"]["dsid"] = not c["recs"][0]["v"]["dsid"]
        return c
    strings_compared = 0
    for ci, cfg in enumerate(ctx.q(["c44_names_quick.cfg", "c44_names_core_quick.cfg"],
                                   ["c44_names_quick.cfg", "c44_names_thorough_a.cfg", "c44_names_thorough_b.cfg"])):
        recs, space = be.enumerate_names(ctx, cfg)
        spaces.append(space)
        cases = [{"recs": rs, "binding": {"seed": ctx.seed * 101 + ci, "batch": bi, "e2e": True}, "key": cfg + str(bi)}
                 for bi, rs in enumerate(be.batch(recs, BATCH))]
        be.tag(cases, "main", "names")
        if ci == 0:
            allrecs = recs
            ctx.binding_selftest(binary, cases[1 % len(cases)], corrupt, args=["names"], env=ENV)
            ctx.binding_selftest(binary, cases[-1], corrupt_spec, args=["names"], env=ENV)
        res = ctx.replay_behaviours(binary, cases, args=["names"], critical=lambda c, r: False, wrap=lambda c: c, env=ENV, timeout=ctx.q(3600, 30000),
                                    fingerprint=lambda c, r: "C44:" + str(r.get("fp")))
        for r in res:
            for k, v in (r.get("counts") or {}).items():
                counts[k] = counts.get(k, 0) + v
        # non-trivial strings, counted from the TLC verdicts of the strings that were compared successfully
        for c, r in zip(cases, res):
            if not r.get("ok"):
                continue
            strings_compared += len(c["recs"])
            for rec in c["recs"]:
                v = rec["v"]
                verdicts = [v["dsid"], v["branch"], v["tag"], v["cspec"]["kind"] != "err"]
                if (any(verdicts) and not all(verdicts)) or (v["cspec"]["kind"] != "err" and v["cspec"]["ins"]):
                    ctx.nontrivial(json.dumps(rec["syms"]))
                    if len(ctx.cov["samples"]) < 3 and v["cspec"]["kind"] == "ref" and v["cspec"]["ins"]:
                        ctx.sample(rec)
        del cases, res
    ctx.cov["space"] = spaces
    ctx.cov["name_counts"] = counts
    ctx.cov["strings_compared"] = strings_compared
    for k in ("validBranch", "tagOnly", "cspec:ref", "cspec:head", "cspec:hash", "cspec:err", "e2e:resolved"):
        if not counts.get(k) and not ctx.violations:
            raise vlib.Inconclusive("no string of kind %s was exercised" % k)
    if counts.get("note:tagCreatedAgainstSpec"):
        ctx.notes.append("%d tag names were created although the spec expects the dataset rules to reject them" % counts["note:tagCreatedAgainstSpec"])
    # ---- second part: name<spec> on every DAG
    graphs, space = be.enumerate_dags(ctx, ctx.q("c44_dag_quick.cfg", "c44_dag_thorough.cfg"))
    space["spec_strings"] = len(graphs[0]["specs"])
    names = pick_names(allrecs, ctx.seed)
    space["base_names"] = [{"syms": n["syms"], "kind": n["kind"]} for n in names]
    spaces.append(space)
    if len({n["kind"] for n in names}) < 3:
        raise vlib.Inconclusive("could not pick branch, tag and HEAD base names from the accepted strings")
    dcases = be.dag_cases(ctx, graphs, names=[{"chars": n["chars"], "kind": n["kind"]} for n in names], tagname="c44")
    be.tag(dcases, "main", "dag")

    def corrupt_walk(c):
        w = c["graph"]["walk"][-1]
        i = c["graph"]["specs"].index("")
        w[i] = 1 if w[i] != 1 else 2
        return c
    ctx.binding_selftest(binary, dcases[-1], corrupt_walk, args=["dag"], env=ENV)
    ctx.replay_behaviours(binary, dcases, args=["dag"], critical=lambda c, r: r.get("merges", 0) > 0, wrap=lambda c: c, env=ENV, timeout=ctx.q(3600, 30000),
                          fingerprint=lambda c, r: "C44:" + str(r.get("fp")))
    ctx.cov["samples"] = [s if "syms" in s else {"case": {"graph": be.short_graph(s["case"]["graph"]), "binding": s["case"]["binding"]}, "result": s["result"]}
                          for s in ctx.cov["samples"]][:4]
