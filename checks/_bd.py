"""Helpers of builder bD (C13 / C14): exhaustive case generation with TLC (one initial state per case, printed through
CONSTRAINT EmitCase), sharded over several TLC processes and streamed shard by shard so that the thorough spaces
(every pair of maps x every range; every merge triple) never have to be held in memory at once."""
import hashlib
import json
import os
import re
import subprocess
import sys
import tempfile
import time

sys.path.insert(0, os.path.join(os.path.dirname(os.path.dirname(os.path.abspath(__file__))), "lib"))
import vlib  # noqa: E402


def _rewrite_cfg(ctx, cfg, overrides, tag):
    d = ctx._spec_dir()
    src = open(os.path.join(d, "cfg", cfg)).read()
    for k, v in overrides.items():
        src, n = re.subn(r"(?m)^(\s*%s\s*=\s*).*$" % re.escape(k), lambda m: m.group(1) + str(v), src)
        if n != 1:
            raise vlib.Inconclusive("cannot override constant %s in %s" % (k, cfg))
    name = "%s-%s.cfg" % (cfg[:-4], tag)
    with open(os.path.join(d, "cfg", name), "w") as f:
        f.write(src)
    return name


def _parse_cases(path):
    out = []
    stats = {}
    for line in open(path, errors="replace"):
        if line.startswith('"[') or line.startswith('"{'):
            try:
                out.append(json.loads(json.loads(line)))
            except Exception:
                continue
        else:
            m = re.search(r"(\d+) states generated, (\d+) distinct states found", line)
            if m:
                stats = {"generated": int(m.group(1)), "distinct": int(m.group(2))}
    return out, stats


def gen_stream(ctx, module, cfg, shards, nshards, overrides=None, procs=6, timeout=3000, heap="3g"):
    """Run the generator configuration once per shard in `shards` (list of shard numbers out of nshards), at most
    `procs` TLC processes at a time; yields (shard, cases) as the shards finish, in shard order.
    A case is the list of step records TLC printed (hist). The number of initial states TLC reports must equal the
    number of printed cases, otherwise the enumeration is not trusted (Inconclusive)."""
    d = ctx._spec_dir()
    t_end = time.time() + timeout
    pending = list(shards)
    running = {}
    done = {}
    nxt = 0
    total = {"cases": 0, "wall_s": 0.0}
    t0 = time.time()

    def start(sh):
        ov = dict(overrides or {})
        ov.update(Shard=sh, NShards=nshards)
        name = _rewrite_cfg(ctx, cfg, ov, "s%d" % sh)
        md = tempfile.mkdtemp(prefix="md-", dir=ctx.work)
        outp = os.path.join(ctx.work, "gen-%s-%d.out" % (cfg[:-4], sh))
        cmd = ["java", "-XX:+UseParallelGC", "-Xss256m", "-Xmx" + heap, "-cp", vlib.TLA_CP, "tlc2.TLC", "-workers", "1",
               "-metadir", md, "-config", os.path.join("cfg", name), "-deadlock", "-noGenerateSpecTE",
               "-seed", str(ctx.seed * 7919 + sh * 104729 + 23), module]
        f = open(outp, "w")
        running[sh] = (subprocess.Popen(cmd, cwd=d, stdout=f, stderr=subprocess.STDOUT), outp, f, md)

    while pending or running or nxt < len(shards):
        while pending and len(running) < procs:
            start(pending.pop(0))
        for sh in list(running):
            p, outp, f, md = running[sh]
            if p.poll() is not None:
                f.close()
                del running[sh]
                cases, stats = _parse_cases(outp)
                txt = open(outp, errors="replace").read()
                if p.returncode != 0 or "Model checking completed. No error has been found." not in txt:
                    raise vlib.Inconclusive("TLC generator %s/%s shard %d failed:\n%s" % (module, cfg, sh, txt[-3000:]))
                seen = set()
                uniq = []
                for c in cases:
                    h = hashlib.sha1(json.dumps(c, sort_keys=True).encode()).hexdigest()
                    if h not in seen:
                        seen.add(h)
                        uniq.append(c)
                if stats.get("distinct", -1) != len(uniq):
                    raise vlib.Inconclusive("TLC generator %s/%s shard %d: %s initial states but %d distinct cases printed"
                                            % (module, cfg, sh, stats.get("distinct"), len(uniq)))
                os.remove(outp)
                done[sh] = uniq
        while nxt < len(shards) and shards[nxt] in done:
            cs = done.pop(shards[nxt])
            total["cases"] += len(cs)
            yield shards[nxt], cs
            nxt += 1
        if time.time() > t_end:
            for p, _, f, _ in running.values():
                p.kill()
            raise vlib.Inconclusive("TLC generator timeout on %s/%s" % (module, cfg))
        if running:
            time.sleep(0.2)
    total["wall_s"] = round(time.time() - t0, 1)
    ctx.cov["tlc_runs"].append({"module": module, "cfg": cfg, "role": "generator (one initial state per case)",
                                "generated": total["cases"], "distinct": total["cases"], "depth": 1, "wall_s": total["wall_s"]})
    ctx.log("TLC generator %s/%s: %d cases in %d shard(s) of %d, %.1fs" % (module, cfg, total["cases"], len(shards), nshards, total["wall_s"]))


def action_histogram(behaviours):
    h = {}
    for b in behaviours:
        for s in b:
            h[s["a"]] = h.get(s["a"], 0) + 1
    return h


def require_actions(ctx, behaviours, names, what):
    h = action_histogram(behaviours)
    missing = [n for n in names if h.get(n, 0) == 0]
    if missing:
        raise vlib.Inconclusive("vacuity: %s never contain action(s) %s (histogram %s)" % (what, missing, h))
    return h


# ---------------------------------------------------------------- development aid (mutation runs): VERIF_BD_CACHE=<dir>
# caches what TLC produced for (cfg, seed, tier) and skips the exhaustive model runs; never set in normal runs.
def dev_cache():
    return os.environ.get("VERIF_BD_CACHE")


def cached(ctx, name, produce):
    d = dev_cache()
    if not d:
        return produce()
    os.makedirs(d, exist_ok=True)
    p = os.path.join(d, "%s-%s-%d.json" % (name, ctx.tier, ctx.seed))
    if os.path.exists(p):
        ctx.log("DEV CACHE: using " + p)
        return json.load(open(p))
    v = produce()
    with open(p, "w") as f:
        json.dump(v, f)
    return v


def tlc_check(ctx, module, cfg, **kw):
    if dev_cache():
        ctx.log("DEV CACHE: skipping exhaustive TLC run of %s/%s" % (module, cfg))
        return None
    return ctx.tlc_check(module, cfg, **kw)


def gen_all(ctx, name, module, cfg, shards, nshards, **kw):
    """gen_stream, materialised per shard; cached in development runs."""
    if not dev_cache():
        for sh, cases in gen_stream(ctx, module, cfg, shards, nshards, **kw):
            yield sh, cases
        return
    for sh in shards:
        def produce(sh=sh):
            out = []
            for _, cases in gen_stream(ctx, module, cfg, [sh], nshards, **kw):
                out = cases
            return out
        yield sh, cached(ctx, "%s-%s-s%d" % (name, cfg[:-4], sh), produce)


def fingerprint(pid):
    def fp(c, r):
        if r.get("fp") == "watchdog-timeout" or r.get("crash"):
            # a hang / engine death is never a VIOLATION by itself (no wall-clock verdicts): exit 2 with the case saved
            raise vlib.Inconclusive("engine did not answer a case (%s); case: %s" % (r.get("detail", "")[:300], json.dumps(c.get("key"))[:600]))
        return pid + ":" + str(r.get("fp"))
    return fp


def sub(lst):
    """development runs only (VERIF_BD_CACHE set): keep every VERIF_BD_SUB-th case to shorten mutation runs."""
    n = int(os.environ.get("VERIF_BD_SUB", "1"))
    return lst[::n] if dev_cache() and n > 1 else lst
